(** Eio/Upgrade.v - two-party model of the Engine.IO transport upgrade (polling -> websocket),
    ported from engine.io/server.go (ServeHTTP, maybeUpgrade), server_socket.go (upgradeTo, Send,
    onTransportClose), client_socket.go (maybeUpgrade, tryUpgradeTo, finishUpgradeTo, Send,
    onTransportClose), transport/polling/{server,client,poll_queue}.go and
    transport/websocket/{server,client}.go as they are now.

    One connection: a server socket, a client socket, the long-polling exchange (one GET at a time,
    POSTs that are synchronous under the client's read lock) and one candidate websocket.  Application
    messages are numbered ([Msg n]); each side sends [Msg 0], [Msg 1], ... through [Socket.Send].
    Every label is one code path that is atomic in the code (a critical section of [transportMu] /
    the poll queue mutex, or one callback invocation of a transport's single reader goroutine);
    links are reliable FIFO per transport (assumption on net/http + nhooyr websocket + TCP).

    Not modelled: heartbeat packets (PING/PONG of the socket; they travel like messages), the poll
    time-out of [pollQueue] (property C19; [get-or-park] is atomic here, an [add] always wakes a
    parked poller, a stale wake-up parks again - the queue as repaired by commit 2f04e3e), payload bytes (the harness checks them), webtransport.

    [broke] is a ghost flag: it is raised exactly when a fault (cut / stall / upgrade timer) strikes
    inside the commit window, i.e. after the client has accepted the probe pong (it is committed to
    the new transport) and before the server has processed the UPGRADE packet - or when a timer that
    had already chosen its time-out branch closes a transport that has meanwhile become current. *)
From SioV Require Import Base.GoSem.

Inductive pkt := Msg (n : N) | Noop | Ping | Pong | Upg.

(** server-side state of the (single) GET poll handler *)
Inductive gst := GIdle | GArrived | GStart | GParked | GWoken.
(** poll response in flight to the client *)
Inductive resp := RNone | RPkts (l : list pkt) | RBad.
(** server's candidate websocket transport *)
Inductive scand := CNone | CWait | CProbed | CUp | CDead.
(** client's upgrade goroutine / candidate transport *)
Inductive ccand := KNone | KDial | KProbe | KSwapWait | KUp | KFail.
(** upgrade timer goroutine: parked in select / chose the time-out branch / gone *)
Inductive tmr := TOff | TArmed | TFiring.
(** [c_paused]: polling.ClientTransport.Pause was called (tryUpgradeTo, before the probe is sent) and
    neither Resume (failed attempt) nor Discard (swap) has happened yet: the poll loop issues no
    new poll.  The probe pong is acted upon only when no poll is in flight any more, so nothing
    is ever delivered by long-polling after (or in between) what the websocket delivers. *)
(** the websocket connection *)
Inductive wst := WNone | WDialing | WOpen | WRefused | WStalled | WCut.
(** client poll loop (polling.ClientTransport.Run) *)
Inductive lst := LIdle | LFlight | LExit.

Record state := mkState {
  s_ws : bool;
  s_pq : list pkt;
  s_get : gst;
  s_cand : scand;
  s_noop : nat;
  s_disc : nat;
  s_tm : tmr;
  s_closed : bool;
  s_recv : list N;
  s_sent : N;
  c_ws : bool;
  c_loop : lst;
  c_exit : bool;
  c_paused : bool;
  c_cand : ccand;
  c_tm : tmr;
  c_rl : nat;
  c_closed : bool;
  c_recv : list N;
  c_sent : N;
  k_req : bool;
  k_resp : resp;
  k_posts : list N;
  k_oks : nat;
  k_ws : wst;
  k_cs : list pkt;
  k_sc : list pkt;
  broke : bool
}.

Definition set_s_ws (v : bool) (st : state) : state := mkState v (s_pq st) (s_get st) (s_cand st) (s_noop st) (s_disc st) (s_tm st) (s_closed st) (s_recv st) (s_sent st) (c_ws st) (c_loop st) (c_exit st) (c_paused st) (c_cand st) (c_tm st) (c_rl st) (c_closed st) (c_recv st) (c_sent st) (k_req st) (k_resp st) (k_posts st) (k_oks st) (k_ws st) (k_cs st) (k_sc st) (broke st).
Definition set_s_pq (v : list pkt) (st : state) : state := mkState (s_ws st) v (s_get st) (s_cand st) (s_noop st) (s_disc st) (s_tm st) (s_closed st) (s_recv st) (s_sent st) (c_ws st) (c_loop st) (c_exit st) (c_paused st) (c_cand st) (c_tm st) (c_rl st) (c_closed st) (c_recv st) (c_sent st) (k_req st) (k_resp st) (k_posts st) (k_oks st) (k_ws st) (k_cs st) (k_sc st) (broke st).
Definition set_s_get (v : gst) (st : state) : state := mkState (s_ws st) (s_pq st) v (s_cand st) (s_noop st) (s_disc st) (s_tm st) (s_closed st) (s_recv st) (s_sent st) (c_ws st) (c_loop st) (c_exit st) (c_paused st) (c_cand st) (c_tm st) (c_rl st) (c_closed st) (c_recv st) (c_sent st) (k_req st) (k_resp st) (k_posts st) (k_oks st) (k_ws st) (k_cs st) (k_sc st) (broke st).
Definition set_s_cand (v : scand) (st : state) : state := mkState (s_ws st) (s_pq st) (s_get st) v (s_noop st) (s_disc st) (s_tm st) (s_closed st) (s_recv st) (s_sent st) (c_ws st) (c_loop st) (c_exit st) (c_paused st) (c_cand st) (c_tm st) (c_rl st) (c_closed st) (c_recv st) (c_sent st) (k_req st) (k_resp st) (k_posts st) (k_oks st) (k_ws st) (k_cs st) (k_sc st) (broke st).
Definition set_s_noop (v : nat) (st : state) : state := mkState (s_ws st) (s_pq st) (s_get st) (s_cand st) v (s_disc st) (s_tm st) (s_closed st) (s_recv st) (s_sent st) (c_ws st) (c_loop st) (c_exit st) (c_paused st) (c_cand st) (c_tm st) (c_rl st) (c_closed st) (c_recv st) (c_sent st) (k_req st) (k_resp st) (k_posts st) (k_oks st) (k_ws st) (k_cs st) (k_sc st) (broke st).
Definition set_s_disc (v : nat) (st : state) : state := mkState (s_ws st) (s_pq st) (s_get st) (s_cand st) (s_noop st) v (s_tm st) (s_closed st) (s_recv st) (s_sent st) (c_ws st) (c_loop st) (c_exit st) (c_paused st) (c_cand st) (c_tm st) (c_rl st) (c_closed st) (c_recv st) (c_sent st) (k_req st) (k_resp st) (k_posts st) (k_oks st) (k_ws st) (k_cs st) (k_sc st) (broke st).
Definition set_s_tm (v : tmr) (st : state) : state := mkState (s_ws st) (s_pq st) (s_get st) (s_cand st) (s_noop st) (s_disc st) v (s_closed st) (s_recv st) (s_sent st) (c_ws st) (c_loop st) (c_exit st) (c_paused st) (c_cand st) (c_tm st) (c_rl st) (c_closed st) (c_recv st) (c_sent st) (k_req st) (k_resp st) (k_posts st) (k_oks st) (k_ws st) (k_cs st) (k_sc st) (broke st).
Definition set_s_closed (v : bool) (st : state) : state := mkState (s_ws st) (s_pq st) (s_get st) (s_cand st) (s_noop st) (s_disc st) (s_tm st) v (s_recv st) (s_sent st) (c_ws st) (c_loop st) (c_exit st) (c_paused st) (c_cand st) (c_tm st) (c_rl st) (c_closed st) (c_recv st) (c_sent st) (k_req st) (k_resp st) (k_posts st) (k_oks st) (k_ws st) (k_cs st) (k_sc st) (broke st).
Definition set_s_recv (v : list N) (st : state) : state := mkState (s_ws st) (s_pq st) (s_get st) (s_cand st) (s_noop st) (s_disc st) (s_tm st) (s_closed st) v (s_sent st) (c_ws st) (c_loop st) (c_exit st) (c_paused st) (c_cand st) (c_tm st) (c_rl st) (c_closed st) (c_recv st) (c_sent st) (k_req st) (k_resp st) (k_posts st) (k_oks st) (k_ws st) (k_cs st) (k_sc st) (broke st).
Definition set_s_sent (v : N) (st : state) : state := mkState (s_ws st) (s_pq st) (s_get st) (s_cand st) (s_noop st) (s_disc st) (s_tm st) (s_closed st) (s_recv st) v (c_ws st) (c_loop st) (c_exit st) (c_paused st) (c_cand st) (c_tm st) (c_rl st) (c_closed st) (c_recv st) (c_sent st) (k_req st) (k_resp st) (k_posts st) (k_oks st) (k_ws st) (k_cs st) (k_sc st) (broke st).
Definition set_c_ws (v : bool) (st : state) : state := mkState (s_ws st) (s_pq st) (s_get st) (s_cand st) (s_noop st) (s_disc st) (s_tm st) (s_closed st) (s_recv st) (s_sent st) v (c_loop st) (c_exit st) (c_paused st) (c_cand st) (c_tm st) (c_rl st) (c_closed st) (c_recv st) (c_sent st) (k_req st) (k_resp st) (k_posts st) (k_oks st) (k_ws st) (k_cs st) (k_sc st) (broke st).
Definition set_c_loop (v : lst) (st : state) : state := mkState (s_ws st) (s_pq st) (s_get st) (s_cand st) (s_noop st) (s_disc st) (s_tm st) (s_closed st) (s_recv st) (s_sent st) (c_ws st) v (c_exit st) (c_paused st) (c_cand st) (c_tm st) (c_rl st) (c_closed st) (c_recv st) (c_sent st) (k_req st) (k_resp st) (k_posts st) (k_oks st) (k_ws st) (k_cs st) (k_sc st) (broke st).
Definition set_c_exit (v : bool) (st : state) : state := mkState (s_ws st) (s_pq st) (s_get st) (s_cand st) (s_noop st) (s_disc st) (s_tm st) (s_closed st) (s_recv st) (s_sent st) (c_ws st) (c_loop st) v (c_paused st) (c_cand st) (c_tm st) (c_rl st) (c_closed st) (c_recv st) (c_sent st) (k_req st) (k_resp st) (k_posts st) (k_oks st) (k_ws st) (k_cs st) (k_sc st) (broke st).
Definition set_c_paused (v : bool) (st : state) : state := mkState (s_ws st) (s_pq st) (s_get st) (s_cand st) (s_noop st) (s_disc st) (s_tm st) (s_closed st) (s_recv st) (s_sent st) (c_ws st) (c_loop st) (c_exit st) v (c_cand st) (c_tm st) (c_rl st) (c_closed st) (c_recv st) (c_sent st) (k_req st) (k_resp st) (k_posts st) (k_oks st) (k_ws st) (k_cs st) (k_sc st) (broke st).
Definition set_c_cand (v : ccand) (st : state) : state := mkState (s_ws st) (s_pq st) (s_get st) (s_cand st) (s_noop st) (s_disc st) (s_tm st) (s_closed st) (s_recv st) (s_sent st) (c_ws st) (c_loop st) (c_exit st) (c_paused st) v (c_tm st) (c_rl st) (c_closed st) (c_recv st) (c_sent st) (k_req st) (k_resp st) (k_posts st) (k_oks st) (k_ws st) (k_cs st) (k_sc st) (broke st).
Definition set_c_tm (v : tmr) (st : state) : state := mkState (s_ws st) (s_pq st) (s_get st) (s_cand st) (s_noop st) (s_disc st) (s_tm st) (s_closed st) (s_recv st) (s_sent st) (c_ws st) (c_loop st) (c_exit st) (c_paused st) (c_cand st) v (c_rl st) (c_closed st) (c_recv st) (c_sent st) (k_req st) (k_resp st) (k_posts st) (k_oks st) (k_ws st) (k_cs st) (k_sc st) (broke st).
Definition set_c_rl (v : nat) (st : state) : state := mkState (s_ws st) (s_pq st) (s_get st) (s_cand st) (s_noop st) (s_disc st) (s_tm st) (s_closed st) (s_recv st) (s_sent st) (c_ws st) (c_loop st) (c_exit st) (c_paused st) (c_cand st) (c_tm st) v (c_closed st) (c_recv st) (c_sent st) (k_req st) (k_resp st) (k_posts st) (k_oks st) (k_ws st) (k_cs st) (k_sc st) (broke st).
Definition set_c_closed (v : bool) (st : state) : state := mkState (s_ws st) (s_pq st) (s_get st) (s_cand st) (s_noop st) (s_disc st) (s_tm st) (s_closed st) (s_recv st) (s_sent st) (c_ws st) (c_loop st) (c_exit st) (c_paused st) (c_cand st) (c_tm st) (c_rl st) v (c_recv st) (c_sent st) (k_req st) (k_resp st) (k_posts st) (k_oks st) (k_ws st) (k_cs st) (k_sc st) (broke st).
Definition set_c_recv (v : list N) (st : state) : state := mkState (s_ws st) (s_pq st) (s_get st) (s_cand st) (s_noop st) (s_disc st) (s_tm st) (s_closed st) (s_recv st) (s_sent st) (c_ws st) (c_loop st) (c_exit st) (c_paused st) (c_cand st) (c_tm st) (c_rl st) (c_closed st) v (c_sent st) (k_req st) (k_resp st) (k_posts st) (k_oks st) (k_ws st) (k_cs st) (k_sc st) (broke st).
Definition set_c_sent (v : N) (st : state) : state := mkState (s_ws st) (s_pq st) (s_get st) (s_cand st) (s_noop st) (s_disc st) (s_tm st) (s_closed st) (s_recv st) (s_sent st) (c_ws st) (c_loop st) (c_exit st) (c_paused st) (c_cand st) (c_tm st) (c_rl st) (c_closed st) (c_recv st) v (k_req st) (k_resp st) (k_posts st) (k_oks st) (k_ws st) (k_cs st) (k_sc st) (broke st).
Definition set_k_req (v : bool) (st : state) : state := mkState (s_ws st) (s_pq st) (s_get st) (s_cand st) (s_noop st) (s_disc st) (s_tm st) (s_closed st) (s_recv st) (s_sent st) (c_ws st) (c_loop st) (c_exit st) (c_paused st) (c_cand st) (c_tm st) (c_rl st) (c_closed st) (c_recv st) (c_sent st) v (k_resp st) (k_posts st) (k_oks st) (k_ws st) (k_cs st) (k_sc st) (broke st).
Definition set_k_resp (v : resp) (st : state) : state := mkState (s_ws st) (s_pq st) (s_get st) (s_cand st) (s_noop st) (s_disc st) (s_tm st) (s_closed st) (s_recv st) (s_sent st) (c_ws st) (c_loop st) (c_exit st) (c_paused st) (c_cand st) (c_tm st) (c_rl st) (c_closed st) (c_recv st) (c_sent st) (k_req st) v (k_posts st) (k_oks st) (k_ws st) (k_cs st) (k_sc st) (broke st).
Definition set_k_posts (v : list N) (st : state) : state := mkState (s_ws st) (s_pq st) (s_get st) (s_cand st) (s_noop st) (s_disc st) (s_tm st) (s_closed st) (s_recv st) (s_sent st) (c_ws st) (c_loop st) (c_exit st) (c_paused st) (c_cand st) (c_tm st) (c_rl st) (c_closed st) (c_recv st) (c_sent st) (k_req st) (k_resp st) v (k_oks st) (k_ws st) (k_cs st) (k_sc st) (broke st).
Definition set_k_oks (v : nat) (st : state) : state := mkState (s_ws st) (s_pq st) (s_get st) (s_cand st) (s_noop st) (s_disc st) (s_tm st) (s_closed st) (s_recv st) (s_sent st) (c_ws st) (c_loop st) (c_exit st) (c_paused st) (c_cand st) (c_tm st) (c_rl st) (c_closed st) (c_recv st) (c_sent st) (k_req st) (k_resp st) (k_posts st) v (k_ws st) (k_cs st) (k_sc st) (broke st).
Definition set_k_ws (v : wst) (st : state) : state := mkState (s_ws st) (s_pq st) (s_get st) (s_cand st) (s_noop st) (s_disc st) (s_tm st) (s_closed st) (s_recv st) (s_sent st) (c_ws st) (c_loop st) (c_exit st) (c_paused st) (c_cand st) (c_tm st) (c_rl st) (c_closed st) (c_recv st) (c_sent st) (k_req st) (k_resp st) (k_posts st) (k_oks st) v (k_cs st) (k_sc st) (broke st).
Definition set_k_cs (v : list pkt) (st : state) : state := mkState (s_ws st) (s_pq st) (s_get st) (s_cand st) (s_noop st) (s_disc st) (s_tm st) (s_closed st) (s_recv st) (s_sent st) (c_ws st) (c_loop st) (c_exit st) (c_paused st) (c_cand st) (c_tm st) (c_rl st) (c_closed st) (c_recv st) (c_sent st) (k_req st) (k_resp st) (k_posts st) (k_oks st) (k_ws st) v (k_sc st) (broke st).
Definition set_k_sc (v : list pkt) (st : state) : state := mkState (s_ws st) (s_pq st) (s_get st) (s_cand st) (s_noop st) (s_disc st) (s_tm st) (s_closed st) (s_recv st) (s_sent st) (c_ws st) (c_loop st) (c_exit st) (c_paused st) (c_cand st) (c_tm st) (c_rl st) (c_closed st) (c_recv st) (c_sent st) (k_req st) (k_resp st) (k_posts st) (k_oks st) (k_ws st) (k_cs st) v (broke st).
Definition set_broke (v : bool) (st : state) : state := mkState (s_ws st) (s_pq st) (s_get st) (s_cand st) (s_noop st) (s_disc st) (s_tm st) (s_closed st) (s_recv st) (s_sent st) (c_ws st) (c_loop st) (c_exit st) (c_paused st) (c_cand st) (c_tm st) (c_rl st) (c_closed st) (c_recv st) (c_sent st) (k_req st) (k_resp st) (k_posts st) (k_oks st) (k_ws st) (k_cs st) (k_sc st) v.


Definition init : state :=
  mkState false [] GIdle CNone 0 0 TOff false [] 0
          false LIdle false false KNone TOff 0 false [] 0
          false RNone [] 0 WNone [] [] false.

(** ** helpers *)
Definition is_noop (p : pkt) : bool := match p with Noop => true | _ => false end.
Fixpoint msgs (l : list pkt) : list N :=
  match l with [] => [] | Msg n :: l' => n :: msgs l' | _ :: l' => msgs l' end.

Fixpoint remove_nth {A} (i : nat) (l : list A) : list A :=
  match l, i with
  | [], _ => []
  | _ :: l', O => l'
  | x :: l', S i' => x :: remove_nth i' l'
  end.

(** pollQueue.add: append under the mutex; the non-blocking send on [ready] succeeds iff the
    poller is parked in its select. *)
Definition pq_add (p : pkt) (st : state) : state :=
  let st' := set_s_pq (s_pq st ++ [p]) st in
  match s_get st with GParked => set_s_get GWoken st' | _ => st' end.

(** websocket write by the server / the client; a write on a dead connection fails: the transport
    closes itself and, being the current transport, closes the socket. *)
Definition ws_sc (p : pkt) (st : state) : state :=
  match k_ws st with
  | WOpen | WStalled => set_k_sc (k_sc st ++ [p]) st
  | _ => set_s_closed true st
  end.
Definition ws_cs (p : pkt) (st : state) : state :=
  match k_ws st with
  | WOpen | WStalled => set_k_cs (k_cs st ++ [p]) st
  | _ => set_c_closed true st
  end.

(** serverSocket.Send: transportMu.RLock; transport.Send *)
Definition s_send (p : pkt) (st : state) : state :=
  if s_ws st then ws_sc p st else pq_add p st.

(** serverSocket.onTransportClose(name): ignored when the socket is closed or the name is not the
    current transport's. [name_ws] = the closing transport is the websocket. *)
Definition s_on_transport_close (name_ws : bool) (st : state) : state :=
  if s_closed st then st else if Bool.eqb name_ws (s_ws st) then set_s_closed true st else st.
Definition c_on_transport_close (name_ws : bool) (st : state) : state :=
  if c_closed st then st else if Bool.eqb name_ws (c_ws st) then set_c_closed true st else st.

(** polling.ClientTransport.close(err): one [once] shared with Discard; closes pollExit. *)
Definition c_polling_close (st : state) : state :=
  if c_exit st then st else c_on_transport_close false (set_c_exit true st).

(** the websocket dies (closed by an endpoint, or cut): frames in flight are gone. *)
Definition ws_kill (st : state) : state := set_k_ws WCut (set_k_cs [] (set_k_sc [] st)).

Definition c_committed (st : state) : bool :=
  match c_cand st with KSwapWait | KUp => true | _ => false end.
Definition s_upgraded (st : state) : bool := match s_cand st with CUp => true | _ => false end.
Definition tm_done (t : tmr) : tmr := match t with TArmed => TOff | t => t end.

Inductive label :=
| SSend | CSend                                   (* application sends (environment) *)
| CPollStart | GetArrive | GetRoute | GetFirst | GetWake | RespDeliver   (* long-polling GET *)
| PostDeliver (i : nat) | PostOk                  (* long-polling POST *)
| CDial | SAccept | CDialOk | CDialFail           (* websocket handshake of the candidate *)
| SRecvWs | CRecvWs | CSwap                       (* websocket reader goroutines; client swap *)
| SNoopGo | SDiscGo                               (* `go socket.Send(noop)`, Discard's `go Send(NOOP)` *)
| STimerFire | STimerClose | CTimerFire | CTimerClose   (* upgrade timers *)
| Refuse | Stall | Cut                            (* faults on the websocket connection *)
| SSeeCut | CSeeCut                               (* reader goroutine notices the dead connection *)
| SOldClose | COldClose.                          (* the superseded polling transport reports close *)

Definition step (l : label) (st : state) : option state :=
  match l with
  | SSend =>
      Some (set_s_sent (N.succ (s_sent st)) (s_send (Msg (s_sent st)) st))
  | CSend =>
      (* clientSocket.Send takes transportMu.RLock: blocked while finishUpgradeTo waits for Lock *)
      match c_cand st with
      | KSwapWait => None
      | _ =>
        let n := c_sent st in
        let st1 := set_c_sent (N.succ n) st in
        Some (if c_ws st then ws_cs (Msg n) st1
              else set_c_rl (S (c_rl st)) (set_k_posts (k_posts st ++ [n]) st1))
      end
  | CPollStart =>
      match c_loop st with
      | LIdle => if c_exit st then Some (set_c_loop LExit st)
                 else if c_paused st then None   (* parked by Pause until Resume / Discard *)
                 else Some (set_c_loop LFlight (set_k_req true st))
      | _ => None
      end
  | GetArrive =>
      if k_req st then match s_get st with
                       | GIdle => Some (set_k_req false (set_s_get GArrived st))
                       | _ => None end
      else None
  | GetRoute =>
      (* Server.ServeHTTP: transport name of the request vs socket.Transport().Name() *)
      match s_get st with
      | GArrived => Some (if s_ws st then set_k_resp RBad (set_s_get GIdle st)
                          else set_s_get GStart st)
      | _ => None
      end
  | GetFirst =>
      match s_get st with
      | GStart => Some (match s_pq st with
                        | [] => set_s_get GParked st
                        | l => set_k_resp (RPkts l) (set_s_pq [] (set_s_get GIdle st))
                        end)
      | _ => None
      end
  | GetWake =>
      match s_get st with
      | GWoken =>
          (* woken by [ready]: get(); a stale signal (the packets were already taken, e.g. by
             QueuedPackets at the swap) makes the poller wait again instead of answering empty *)
          Some (match s_pq st with
                | [] => set_s_get GParked st
                | l => set_k_resp (RPkts l) (set_s_pq [] (set_s_get GIdle st))
                end)
      | _ => None
      end
  | RespDeliver =>
      match c_loop st, k_resp st with
      | LFlight, RPkts (p :: l) =>
          Some (set_c_recv (c_recv st ++ msgs (p :: l)) (set_k_resp RNone (set_c_loop LIdle st)))
      | LFlight, RPkts [] | LFlight, RBad =>
          (* empty body does not decode / non-200: polling.ClientTransport.close(err) *)
          Some (c_polling_close (set_k_resp RNone (set_c_loop LExit st)))
      | _, _ => None
      end
  | PostDeliver i =>
      match nth_error (k_posts st) i with
      | Some n =>
          let st1 := set_k_posts (remove_nth i (k_posts st)) st in
          Some (if s_ws st
                then (* 400: the client transport closes; the message is lost *)
                     c_polling_close (set_c_rl (pred (c_rl st)) st1)
                else set_k_oks (S (k_oks st)) (set_s_recv (s_recv st ++ [n]) st1))
      | None => None
      end
  | PostOk =>
      match k_oks st with
      | S k => Some (set_k_oks k (set_c_rl (pred (c_rl st)) st))
      | O => None
      end
  | CDial =>
      match c_cand st, k_ws st with
      | KNone, WNone => Some (set_c_cand KDial (set_k_ws WDialing st))
      | _, _ => None
      end
  | SAccept =>
      match k_ws st with
      | WDialing => Some (set_s_cand CWait (set_s_tm TArmed (set_k_ws WOpen st)))
      | _ => None
      end
  | CDialOk =>
      match c_cand st, k_ws st with
      | KDial, WOpen =>
          (* Handshake ok; old.Pause() (long-polling stops after the poll in flight); go t.Run();
             go t.Send(ping "probe"); timer armed *)
          Some (set_c_paused true (set_c_cand KProbe (set_c_tm TArmed (set_k_cs (k_cs st ++ [Ping]) st))))
      | _, _ => None
      end
  | CDialFail =>
      match c_cand st, k_ws st with
      | KDial, WRefused | KDial, WCut => Some (set_c_cand KFail st)
      | _, _ => None
      end
  | SRecvWs =>
      match k_ws st, k_cs st with
      | WOpen, p :: rest =>
          let st1 := set_k_cs rest st in
          match s_cand st with
          | CWait | CProbed =>
              match p with
              | Ping => Some (set_s_cand CProbed (set_s_noop (S (s_noop st))
                                (set_k_sc (k_sc st ++ [Pong]) st1)))
              | Upg =>
                  (* once(done); upgradeTo: Lock; swap; old.Discard(); re-send QueuedPackets \ NOOP *)
                  Some (set_s_cand CUp (set_s_tm (tm_done (s_tm st)) (set_s_ws true (set_s_disc 1
                         (set_s_pq [] (set_k_sc (k_sc st ++ filter (fun q => negb (is_noop q)) (s_pq st))
                           st1))))))
              | _ => (* any other packet on a candidate: t.Close() + error (upgrade failed: invalid
                        packet).  The repo's client never sends one before UPGRADE - it holds its
                        transport write lock across swap + Discard + UPGRADE, so no Send gets in
                        between: this branch is unreachable (candidate_gets_only_probe_packets). *)
                     Some (set_s_cand CDead (ws_kill st1))
              end
          | CUp => Some (match p with
                         | Msg n => set_s_recv (s_recv st ++ [n]) st1
                         | _ => st1 end)
          | _ => None
          end
      | _, _ => None
      end
  | CRecvWs =>
      match k_ws st, k_sc st with
      | WOpen, p :: rest =>
          let st1 := set_k_sc rest st in
          match c_cand st with
          | KProbe =>
              match p with
              | Pong =>
                  (* the handler waits until polling has stopped (the poll in flight has returned
                     and its packets were delivered); then it and the timer decide under one
                     mutex: if the timer already chose its time-out branch the pong is dropped *)
                  match c_loop st, c_tm st with
                  | LFlight, TFiring => Some st1
                  | LFlight, _ => None
                  | _, TFiring => Some st1
                  | _, _ => Some (set_c_cand KSwapWait (set_c_tm (tm_done (c_tm st)) st1))
                  end
              | _ => Some (set_c_paused false (set_c_cand KFail (ws_kill st1)))
              end
          | KUp => Some (match p with
                         | Msg n => set_c_recv (c_recv st ++ [n]) st1
                         | _ => st1 end)
          | _ => None
          end
      | _, _ => None
      end
  | CSwap =>
      (* finishUpgradeTo: transportMu.Lock (needs every Send to have returned); swap; old.Discard();
         t.Send(UPGRADE); go upgradeDone *)
      match c_cand st, c_rl st with
      | KSwapWait, O => Some (ws_cs Upg (set_c_cand KUp (set_c_ws true (set_c_exit true (set_c_paused false st)))))
      | _, _ => None
      end
  | SNoopGo =>
      match s_noop st with
      | S k => Some (s_send Noop (set_s_noop k st))
      | O => None
      end
  | SDiscGo =>
      match s_disc st with
      | S k => Some (pq_add Noop (set_s_disc k st))
      | O => None
      end
  | STimerFire =>
      match s_tm st with TArmed => Some (set_s_tm TFiring st) | _ => None end
  | STimerClose =>
      match s_tm st with
      | TFiring =>
          let st1 := set_broke (broke st || c_committed st || s_upgraded st) (set_s_tm TOff st) in
          (* t.Close(): on a stalled link the close never reaches the peer *)
          let st2 := match k_ws st with WOpen => ws_kill st1 | _ => st1 end in
          Some (match s_cand st with
                | CUp => s_on_transport_close true (set_s_cand CDead st2)
                | CWait | CProbed => set_s_cand CDead st2
                | _ => st2
                end)
      | _ => None
      end
  | CTimerFire =>
      match c_tm st with TArmed => Some (set_c_tm TFiring st) | _ => None end
  | CTimerClose =>
      match c_tm st with
      | TFiring =>
          let st1 := set_broke (broke st || c_committed st) (set_c_tm TOff st) in
          let st2 := match k_ws st with WOpen => ws_kill st1 | _ => st1 end in
          Some (match c_cand st with
                | KProbe => set_c_paused false (set_c_cand KFail st2)   (* Resume(); t.Close() *)
                | KUp => c_on_transport_close true st2
                | _ => st2
                end)
      | _ => None
      end
  | Refuse =>
      match k_ws st with WDialing => Some (set_k_ws WRefused st) | _ => None end
  | Stall =>
      match k_ws st with
      | WDialing | WOpen =>
          if s_upgraded st then None
          else Some (set_broke (broke st || c_committed st) (set_k_ws WStalled st))
      | _ => None
      end
  | Cut =>
      match k_ws st with
      | WOpen | WStalled =>
          if s_upgraded st then None
          else Some (set_broke (broke st || c_committed st) (ws_kill st))
      | _ => None
      end
  | SSeeCut =>
      match k_ws st, s_cand st with
      | WCut, CWait | WCut, CProbed => Some (set_s_cand CDead st)
      | WCut, CUp => Some (s_on_transport_close true (set_s_cand CDead st))
      | _, _ => None
      end
  | CSeeCut =>
      match k_ws st, c_cand st with
      | WCut, KUp => if c_closed st then None else Some (c_on_transport_close true st)
      | _, _ => None
      end
  | SOldClose =>
      (* the old polling transport (once already consumed by Discard) reports close; even if the
         callback ran, onTransportClose("polling") compares with the current name *)
      if s_ws st then Some (s_on_transport_close false st) else None
  | COldClose =>
      if c_ws st then Some (c_on_transport_close false st) else None
  end.

(** Runs: a disabled label is skipped. *)
Definition step_skip (st : state) (l : label) : state :=
  match step l st with Some st' => st' | None => st end.
Definition run (sched : list label) (st : state) : state := fold_left step_skip sched st.

(** Internal labels = everything the two programs and a fault-free network do on their own.
    Application sends and faults are the environment. [quiescentb] says none is enabled. *)
Definition enabledb (l : label) (st : state) : bool :=
  match step l st with Some _ => true | None => false end.

(** The upgrade timers are internal too, but they only matter when the probe does not finish:
    the canonical scheduler [drain] lets them fire only when nothing else can move. *)
Definition internal_core : list label :=
  [CPollStart; GetArrive; GetRoute; GetFirst; GetWake; RespDeliver; PostDeliver 0; PostOk;
   CDial; SAccept; CDialOk; CDialFail; SRecvWs; CRecvWs; CSwap; SNoopGo; SDiscGo;
   STimerClose; CTimerClose; SSeeCut; CSeeCut].
Definition internal_fixed : list label := internal_core ++ [STimerFire; CTimerFire].

Definition core_quiescentb (st : state) : bool := forallb (fun l => negb (enabledb l st)) internal_core.
Definition quiescentb (st : state) : bool := forallb (fun l => negb (enabledb l st)) internal_fixed.

(** Drain: run the internal labels round-robin ([k] rounds); timers fire only at core quiescence. *)
Definition round (st : state) : state :=
  let st' := run internal_core st in
  if core_quiescentb st' then run [STimerFire; CTimerFire] st' else st'.
Fixpoint drain (k : nat) (st : state) : state :=
  match k with O => st | S k' => drain k' (round st) end.

(** count of message [n] in packet lists / delivery lists *)
Fixpoint cntN (n : N) (l : list N) : nat :=
  match l with [] => 0 | x :: l' => (if N.eqb n x then 1 else 0) + cntN n l' end.
Definition cnt (n : N) (l : list pkt) : nat := cntN n (msgs l).
Definition resp_pkts (r : resp) : list pkt := match r with RPkts l => l | _ => [] end.

(** exactly-once at a state: every message sent so far has been delivered once, nothing else. *)
Definition sent_ind (n k : N) : nat := if N.ltb n k then 1 else 0.
Definition delivered_exactly_once (st : state) : Prop :=
  forall n, cntN n (c_recv st) = sent_ind n (s_sent st) /\ cntN n (s_recv st) = sent_ind n (c_sent st).
