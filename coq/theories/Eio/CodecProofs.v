(** Proofs about the packet codec (Eio/Codec.v): round trips in the three encodings, exact
    encoded length, no panic on arbitrary bytes. *)
From SioV Require Import Eio.Codec Eio.Base64Proofs.
From Coq Require Import ZifyN ZifyNat ZifyBool Lia.
Local Open Scope N_scope.
Ltac Zify.zify_post_hook ::= Z.to_euclidean_division_equations.

Lemma packet_ok_iff p : packet_ok p = true <->
  bytes_ok (p_data p) = true /\ p_type p <= type_max /\ (p_binary p = true -> p_type p = type_message).
Proof.
  unfold packet_ok. rewrite !andb_true_iff, N.leb_le. destruct (p_binary p).
  - rewrite N.eqb_eq. intuition.
  - intuition discriminate.
Qed.

(** Text packets: any data, in every encoding mode (supportsBinary is irrelevant for text). *)
Theorem packet_roundtrip_text : forall sb p,
  p_binary p = false -> p_type p <= type_max ->
  decode_packet false (encode_packet sb p) = Ok p.
Proof.
  intros sb [b t d] Hb Ht. cbn [p_binary p_type p_data] in *. subst b.
  unfold encode_packet, decode_packet. cbn [p_binary p_type p_data]. unfold to_char, type_max, base64_prefix in *.
  replace ((t + 48) mod 256) with (t + 48) by lia.
  destruct (t + 48 =? 98) eqn:E1; [lia|].
  destruct ((t + 48 <? 48) || (48 + 6 <? t + 48)) eqn:E2; [lia|].
  f_equal. f_equal. lia.
Qed.

(** Binary packets on a transport with binary frames: the frame is the data. *)
Theorem packet_roundtrip_binary : forall p,
  p_binary p = true -> p_type p = type_message ->
  decode_packet true (encode_packet true p) = Ok p.
Proof.
  intros [b t d] Hb Ht. cbn [p_binary p_type p_data] in *. subst b t. reflexivity.
Qed.

(** Binary packets without binary support: 'b' + base64. *)
Theorem packet_roundtrip_b64 : forall p,
  p_binary p = true -> p_type p = type_message -> bytes_ok (p_data p) = true ->
  decode_packet false (encode_packet false p) = Ok p.
Proof.
  intros [b t d] Hb Ht Hd. cbn [p_binary p_type p_data] in *. subst b t.
  unfold encode_packet, decode_packet. cbn [p_binary p_data].
  rewrite N.eqb_refl. pose proof (b64_roundtrip d Hd) as R. rewrite R.
  pose proof (b64_dec_len_bound _ _ R) as L. apply N.leb_le in L. rewrite L. reflexivity.
Qed.

Lemma b64_len_Z n : Z.of_N (b64_enc_len n) = b64_encoded_len (Z.of_N n).
Proof. unfold b64_enc_len, b64_encoded_len. lia. Qed.

(** EncodedLen(supportsBinary) is the number of bytes Encode writes. *)
Theorem encoded_len_exact : forall sb p, zlen (encode_packet sb p) = encoded_len sb p.
Proof.
  intros sb [b t d]. unfold encode_packet, encoded_len, zlen. cbn [p_binary p_type p_data].
  destruct b, sb; cbn [length]; try lia.
  pose proof (b64_enc_length d) as L. unfold nlen in L.
  pose proof (b64_len_Z (N.of_nat (length d))) as LZ. rewrite <- L in LZ.
  replace (Z.of_N (N.of_nat (length d))) with (Z.of_nat (length d)) in LZ by lia. lia.
Qed.

(** decode never panics, whatever the bytes. *)
Theorem decode_no_panic : forall bf data, decode_packet bf data <> Panic.
Proof.
  intros bf data. unfold decode_packet. destruct bf; [discriminate|].
  destruct data as [|t d]; [discriminate|].
  destruct (t =? base64_prefix).
  - destruct (b64_dec d) as [out|] eqn:E; [|discriminate].
    pose proof (b64_dec_len_bound _ _ E) as L. apply N.leb_le in L. rewrite L. discriminate.
  - destruct ((t <? 48) || (48 + type_max <? t)); discriminate.
Qed.

(** What decode accepts as a text packet re-encodes to the same bytes (no two spellings). *)
Theorem decode_text_canonical : forall data p,
  decode_packet false data = Ok p -> p_binary p = false -> encode_packet false p = data.
Proof.
  intros data p H Hb. unfold decode_packet in H. destruct data as [|t d]; [discriminate|].
  destruct (t =? base64_prefix) eqn:E.
  - destruct (b64_dec d); [|discriminate]. destruct (_ <=? _); [|discriminate].
    inversion H; subst. discriminate.
  - destruct ((t <? 48) || (48 + type_max <? t)) eqn:E2; [discriminate|]. inversion H; subst.
    unfold encode_packet, to_char, type_max in *. cbn [p_binary p_type p_data]. f_equal. lia.
Qed.

(** The encoding of a packet for long-polling never contains the record separator, provided
    text data do not. *)
Lemma encode_false_no_sep : forall p,
  packet_ok p = true -> (p_binary p = false -> ~ In 30 (p_data p)) ->
  ~ In 30 (encode_packet false p).
Proof.
  intros [b t d] Hok Hs. apply packet_ok_iff in Hok as [Hd [Ht Hm]].
  cbn [p_binary p_type p_data] in *. unfold encode_packet. cbn [p_binary p_type p_data].
  destruct b.
  - intros [E|E]; [discriminate|]. now apply (b64_enc_no_sep d Hd).
  - intros [E|E]; [unfold to_char, type_max in *; lia|]. now apply Hs.
Qed.
