(** The two heartbeat automata of Eio/Heartbeat.v composed through a link (C14, "never kill a live
    one" for the whole connection).

    Pings written by the server loop travel to the client (on either transport, across a swap), where handlePacket deposits a token for
    the watchdog and writes the pong; pongs travel back to onPong.  Each direction is a FIFO of
    messages in flight (stamped with their send time).  A message is delivered no earlier than it
    was sent and no later than [lDown] (server -> client) / [lUp] (client -> server, including the
    client's handling of the ping) after it: the link bounds are deadlines like the scheduling
    slack.  Actual delays vary freely below the bounds, from message to message.

    [xlast] is a ghost field (time of the latest ping delivery); no step reads it. *)
From SioV Require Export Eio.Heartbeat.
Open Scope Z_scope.

(** The downlink (server -> client) carries typed packets.  While the session is on long-polling
    they wait in the transport's queue until a poll picks them up; on an upgrade
    (serverSocket.upgradeTo) the packets still queued in the old transport are taken out
    (old.QueuedPackets()) and re-sent on the new one, filtered: the code keeps everything but NOOP.
    The filter is the parameter [lKeep] of the link so that the theorem can say exactly what it
    needs of it (pings survive a swap); [keep_code] is the filter of the code. *)
Inductive dpkt :=
| DPing (s : Z)       (* heartbeat ping written by the loop at s *)
| DMsg                (* application message / close packet *)
| DNoop.              (* NOOP forcing a poll cycle *)

Definition keep_code (p : dpkt) : bool := match p with DNoop => false | _ => true end.

Record link := mkLink { lDown : Z; lUp : Z; lKeep : dpkt -> bool }.

Fixpoint pings_of (q : list dpkt) : list Z :=
  match q with
  | [] => []
  | DPing s :: q' => s :: pings_of q'
  | _ :: q' => pings_of q'
  end.

Record xst := mkX { xs : sst; xc : cst; xdown : list dpkt; xpong : list Z; xlast : Z }.

Inductive xev :=
| XS (e : sev)        (* a step of the server loop (SPong excluded: pongs come from the link) *)
| XC (e : cev)        (* a step of the client watchdog (CPing excluded) *)
| XSend (p : dpkt)    (* the server side queues a message or a NOOP (DPing excluded: only SWake pings) *)
| XSwap               (* transport upgrade: queued packets are carried over through [lKeep] *)
| XDeliver            (* head of the downlink reaches the client; a ping: token + pong written *)
| XDeliverPong.       (* head of the pong FIFO reaches onPong *)

Definition xstep (c : cfg) (l : link) (st : xst) (t : Z) (e : xev) : option xst :=
  match e with
  | XS SPong => None
  | XS SWake =>
      match sstep c (xs st) t SWake with
      | Some s' => Some (mkX s' (xc st) (xdown st ++ [DPing t]) (xpong st) (xlast st))
      | None => None
      end
  | XS e' =>
      match sstep c (xs st) t e' with
      | Some s' => Some (mkX s' (xc st) (xdown st) (xpong st) (xlast st))
      | None => None
      end
  | XC CPing => None
  | XC e' =>
      match cstep c (xc st) t e' with
      | Some c' => Some (mkX (xs st) c' (xdown st) (xpong st) (xlast st))
      | None => None
      end
  | XSend (DPing _) => None
  | XSend p => Some (mkX (xs st) (xc st) (xdown st ++ [p]) (xpong st) (xlast st))
  | XSwap => Some (mkX (xs st) (xc st) (filter (lKeep l) (xdown st)) (xpong st) (xlast st))
  | XDeliver =>
      match xdown st with
      | DPing s :: rest =>
          if s <=? t then
            match cstep c (xc st) t CPing with
            | Some c' => Some (mkX (xs st) c' rest (xpong st ++ [t]) t)
            | None => None
            end
          else None
      | _ :: rest => Some (mkX (xs st) (xc st) rest (xpong st) (xlast st))
      | [] => None
      end
  | XDeliverPong =>
      match xpong st with
      | p :: rest =>
          if p <=? t then
            match sstep c (xs st) t SPong with
            | Some s' => Some (mkX s' (xc st) (xdown st) rest (xlast st))
            | None => None
            end
          else None
      | [] => None
      end
  end.

Definition head_deadline (q : list Z) (bound : Z) : option Z :=
  match q with s :: _ => Some (s + bound) | [] => None end.

(** The oldest queued ping must have reached the client [lDown] after it was written - whether it
    went out on a poll, or waited in the polling queue and was carried over by a swap. *)
Definition xwithin (c : cfg) (l : link) (st : xst) (t : Z) : bool :=
  within (sdeadline c (xs st)) t && within (cdeadline c (xc st)) t
  && within (head_deadline (pings_of (xdown st)) (lDown l)) t && within (head_deadline (xpong st) (lUp l)) t.

(** no close from outside the heartbeat on either side *)
Definition x_no_ext (e : xev) : bool :=
  match e with XS (SExt _) | XC (CExt _) => false | _ => true end.

Fixpoint xrun (c : cfg) (l : link) (st : xst) (now : Z) (evs : list (Z * xev)) : option (xst * Z) :=
  match evs with
  | [] => Some (st, now)
  | (t, e) :: evs' =>
      if (now <=? t) && xwithin c l st t && x_no_ext e
      then match xstep c l st t e with
           | Some st' => xrun c l st' t evs'
           | None => None
           end
      else None
  end.

(** Both loops start at the handshake instant. *)
Definition xinit (start : Z) : xst := mkX (sinit start) (cinit start) [] [] start.

Definition xvalid (c : cfg) (l : link) (start : Z) (evs : list (Z * xev)) (t_end : Z) : option xst :=
  match xrun c l (xinit start) start evs with
  | Some (st, now) => if (now <=? t_end) && xwithin c l st t_end then Some st else None
  | None => None
  end.

Definition is_timeout (e : xev) : bool :=
  match e with XS STimeout | XC CTimeout => true | _ => false end.

(** Round-trip times seen by the server in a run: the k-th pong delivery answers the k-th ping
    (FIFO links, one pong per ping).  [rtt_within b evs t_end]: every answered ping was answered
    within b, and every ping still unanswered at t_end is younger than b. *)
Fixpoint times_of (f : xev -> bool) (evs : list (Z * xev)) : list Z :=
  match evs with
  | [] => []
  | (t, e) :: evs' => if f e then t :: times_of f evs' else times_of f evs'
  end.

Fixpoint rtt_ok (b : Z) (sent got : list Z) (t_end : Z) : bool :=
  match sent, got with
  | s :: sent', g :: got' => (g - s <=? b) && rtt_ok b sent' got' t_end
  | s :: sent', [] => (t_end - s <=? b) && rtt_ok b sent' [] t_end
  | [], _ => true
  end.

Definition rtt_within (b : Z) (evs : list (Z * xev)) (t_end : Z) : bool :=
  rtt_ok b (times_of (fun e => match e with XS SWake => true | _ => false end) evs)
           (times_of (fun e => match e with XDeliverPong => true | _ => false end) evs) t_end.
