(** Preservation of the upgrade invariant (Eio/UpgradeInv.v) by label GetWake. *)
From SioV Require Import Base.GoSem Base.Conc Eio.Upgrade Eio.UpgradeInv.
From Coq Require Import Lia.

Lemma inv_GetWake n st st' : inv n st -> step GetWake st = Some st' -> inv n st'.
Proof. intros I H. label_case. Qed.
