(** Long-polling payloads: port of engine.io/parser/payload.go
    ([EncodePayloads], [splitByte], [DecodePayloads]).

    Go:
      EncodePayloads: for i, p := range packets { p.Encode(w, false); if i != len-1 { w(0x1e) } }
      splitByte(buf, delim): last := 0; for i, c := range buf { if c == delim {
            buffers = append(buffers, buf[last:i]); last = i+1 } }
          if len(buffers) == 0 { buffers = [buf] } else if last <= len(buf) { append buf[last:] }
      DecodePayloads: for each piece: decode(piece, false); first error aborts. *)
From SioV Require Export Eio.Codec.
Local Open Scope N_scope.

Definition delim : N := 30.

Fixpoint encode_payload (ps : list packet) : bytes :=
  match ps with
  | [] => []
  | [p] => encode_packet false p
  | p :: ps' => encode_packet false p ++ delim :: encode_payload ps'
  end.

(** The loop of splitByte: [cur] = buf[last:i] collected so far (reversed), [acc] = buffers
    (reversed). *)
Fixpoint split_loop (d : N) (buf : bytes) (cur : bytes) (acc : list bytes) : list bytes * bytes :=
  match buf with
  | [] => (acc, cur)
  | c :: buf' =>
      if c =? d then split_loop d buf' [] (rev cur :: acc)
      else split_loop d buf' (c :: cur) acc
  end.

Definition split_byte (d : N) (buf : bytes) : list bytes :=
  let '(acc, cur) := split_loop d buf [] [] in
  match acc with
  | [] => [buf]                          (* len(buffers) == 0 *)
  | _ => rev (rev cur :: acc)            (* last <= len(buf) always holds *)
  end.

Fixpoint decode_all (pieces : list bytes) : res (list packet) :=
  match pieces with
  | [] => Ok []
  | b :: rest =>
      match decode_packet false b with
      | Ok p => match decode_all rest with Ok ps => Ok (p :: ps) | Err => Err | Panic => Panic end
      | Err => Err
      | Panic => Panic
      end
  end.

Definition decode_payload (buf : bytes) : res (list packet) :=
  decode_all (split_byte delim buf).
