(** Proofs about long-polling payloads (Eio/Payload.v). *)
From SioV Require Import Eio.Payload Eio.Base64Proofs Eio.CodecProofs.
From Coq Require Import ZifyN ZifyNat ZifyBool Lia.
Local Open Scope N_scope.

(** A packet of either kind survives the text-frame encoding used inside payloads. *)
Lemma packet_roundtrip_false p : packet_ok p = true ->
  decode_packet false (encode_packet false p) = Ok p.
Proof.
  intros H. apply packet_ok_iff in H as [Hd [Ht Hm]]. destruct (p_binary p) eqn:B.
  - apply packet_roundtrip_b64; auto.
  - apply packet_roundtrip_text; auto.
Qed.

(** ** splitByte *)
Lemma split_loop_nosep d a : ~ In d a -> forall rest cur acc,
  split_loop d (a ++ rest) cur acc = split_loop d rest (rev a ++ cur) acc.
Proof.
  induction a as [|x a IH]; intros H rest cur acc; [reflexivity|].
  cbn [app split_loop]. destruct (x =? d) eqn:E.
  - apply N.eqb_eq in E. subst. exfalso. apply H. now left.
  - rewrite IH by (intros I; apply H; now right). cbn [rev]. now rewrite <- app_assoc.
Qed.

Definition enc (p : packet) : bytes := encode_packet false p.

Lemma split_loop_payload : forall ps acc, ps <> [] ->
  (forall p, In p ps -> ~ In delim (enc p)) ->
  split_loop delim (encode_payload ps) [] acc =
  (rev (map enc (removelast ps)) ++ acc, rev (enc (last ps (mkPacket false 0 [])))).
Proof.
  induction ps as [|p ps IH]; intros acc Hne Hs; [congruence|].
  destruct ps as [|p' ps'].
  - cbn [encode_payload removelast last map rev app].
    rewrite <- (app_nil_r (encode_packet false p)).
    rewrite split_loop_nosep by (apply Hs; now left). cbn [split_loop]. now rewrite app_nil_r.
  - change (encode_payload (p :: p' :: ps')) with (enc p ++ delim :: encode_payload (p' :: ps')).
    rewrite split_loop_nosep by (apply Hs; now left).
    cbn [split_loop]. rewrite N.eqb_refl, app_nil_r, rev_involutive.
    rewrite IH; [|discriminate|intros q Hq; apply Hs; now right].
    change (removelast (p :: p' :: ps')) with (p :: removelast (p' :: ps')).
    change (last (p :: p' :: ps') (mkPacket false 0 [])) with (last (p' :: ps') (mkPacket false 0 [])).
    cbn [map rev]. now rewrite <- app_assoc.
Qed.

Lemma split_payload : forall ps, ps <> [] ->
  (forall p, In p ps -> ~ In delim (enc p)) ->
  split_byte delim (encode_payload ps) = map enc ps.
Proof.
  intros ps Hne Hs. unfold split_byte. rewrite (split_loop_payload ps [] Hne Hs).
  rewrite app_nil_r, rev_involutive.
  destruct ps as [|p [|p' ps']]; [congruence|reflexivity|].
  set (l := p :: p' :: ps') in *.
  assert (l <> []) as Hl by discriminate.
  assert (map enc l = map enc (removelast l) ++ [enc (last l (mkPacket false 0 []))]) as M.
  { rewrite (app_removelast_last (mkPacket false 0 []) Hl) at 1. now rewrite map_app. }
  rewrite M.
  destruct (rev (map enc (removelast l))) eqn:E.
  - exfalso. subst l. cbn [removelast map rev] in E. apply app_eq_nil in E as [_ E]. discriminate.
  - rewrite <- E. cbn [rev]. now rewrite rev_involutive.
Qed.

Lemma decode_all_map : forall ps, (forall p, In p ps -> packet_ok p = true) ->
  decode_all (map enc ps) = Ok ps.
Proof.
  induction ps as [|p ps IH]; intros H; [reflexivity|].
  cbn [map decode_all]. unfold enc at 1. rewrite packet_roundtrip_false by (apply H; now left).
  rewrite IH by (intros q Hq; apply H; now right). reflexivity.
Qed.

(** Every non-empty list of packets whose text data are free of the record separator survives
    EncodePayloads / DecodePayloads. *)
Theorem payload_roundtrip : forall ps, ps <> [] ->
  (forall p, In p ps -> packet_ok p = true /\ (p_binary p = false -> ~ In delim (p_data p))) ->
  decode_payload (encode_payload ps) = Ok ps.
Proof.
  intros ps Hne H. unfold decode_payload. rewrite split_payload; auto.
  - apply decode_all_map. intros p Hp. now apply H.
  - intros p Hp. destruct (H p Hp) as [Hok Hs]. now apply encode_false_no_sep.
Qed.

(** The empty list is written as the empty body, which does not decode (v4 has no
    representation of "no packets"). *)
Theorem empty_payload_is_error : encode_payload [] = [] /\ decode_payload [] = Err.
Proof. split; reflexivity. Qed.

(** EncodedPayloadsLen (Content-Length of a long-polling POST) is the number of bytes written. *)
Theorem payload_len_exact : forall ps, zlen (encode_payload ps) = payload_len ps.
Proof.
  induction ps as [|p ps IH]; [reflexivity|].
  destruct ps as [|p' ps'].
  - cbn [encode_payload payload_len]. apply encoded_len_exact.
  - change (encode_payload (p :: p' :: ps')) with (encode_packet false p ++ delim :: encode_payload (p' :: ps')).
    change (payload_len (p :: p' :: ps')) with (encoded_len false p + 1 + payload_len (p' :: ps'))%Z.
    rewrite <- IH, <- (encoded_len_exact false p). unfold zlen. rewrite app_length. cbn [length]. lia.
Qed.

Lemma decode_all_no_panic : forall l, decode_all l <> Panic.
Proof.
  induction l as [|b l IH]; [discriminate|]. cbn [decode_all].
  pose proof (decode_no_panic false b). destruct (decode_packet false b); try congruence.
  destruct (decode_all l); congruence.
Qed.

(** DecodePayloads never panics, whatever the body. *)
Theorem decode_payload_no_panic : forall buf, decode_payload buf <> Panic.
Proof. intros. apply decode_all_no_panic. Qed.
