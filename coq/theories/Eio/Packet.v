(** Engine.IO packet: port of engine.io/parser/packet.go (type [Packet], [EncodedLen]).
    The encoder/decoder themselves live in Eio/Codec.v (C11). *)
From SioV Require Export Base.GoSem.

Record packet := mkPacket {
  p_binary : bool;   (* Packet.IsBinary *)
  p_type   : N;      (* Packet.Type, 0..6 *)
  p_data   : bytes   (* Packet.Data *)
}.

Definition zlen {A} (l : list A) : Z := Z.of_nat (length l).

(** base64.StdEncoding.EncodedLen(n) = (n + 2) / 3 * 4 *)
Definition b64_encoded_len (n : Z) : Z := ((n + 2) / 3 * 4)%Z.

(** Packet.EncodedLen(supportsBinary) *)
Definition encoded_len (sb : bool) (p : packet) : Z :=
  if p_binary p then
    (if sb then zlen (p_data p) else 1 + b64_encoded_len (zlen (p_data p)))%Z
  else (1 + zlen (p_data p))%Z.

(** Length of a long-polling payload: packets joined by one separator byte (payload.go). *)
Fixpoint payload_len (ps : list packet) : Z :=
  match ps with
  | [] => 0
  | [p] => encoded_len false p
  | p :: ps' => (encoded_len false p + 1 + payload_len ps')%Z
  end.

Lemma zlen_nonneg {A} (l : list A) : (0 <= zlen l)%Z.
Proof. unfold zlen; lia. Qed.

Lemma b64_encoded_len_nonneg n : (0 <= n -> 0 <= b64_encoded_len n)%Z.
Proof.
  intros H; unfold b64_encoded_len.
  assert (0 <= (n + 2) / 3)%Z by (apply Z.div_pos; lia). lia.
Qed.

Lemma encoded_len_false_pos p : (1 <= encoded_len false p)%Z.
Proof.
  unfold encoded_len; destruct (p_binary p).
  - pose proof (b64_encoded_len_nonneg (zlen (p_data p)) (zlen_nonneg _)). lia.
  - pose proof (zlen_nonneg (p_data p)). lia.
Qed.
