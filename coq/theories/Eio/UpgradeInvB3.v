(** Preservation of the upgrade invariant, label group B3 (see Eio/UpgradeInv.v). *)
From SioV Require Import Base.GoSem Base.Conc Eio.Upgrade Eio.UpgradeInv.
From Coq Require Import Lia.

Lemma inv_SRecvWs_CUp n st st' : s_cand st = CUp -> inv n st -> step SRecvWs st = Some st' -> inv n st'.
Proof. intros E I H. destruct st; cbn in E; subst; unf H; go I H. Qed.
