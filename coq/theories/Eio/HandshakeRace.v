(** Handshakes racing [Server.Close] (C17): a transition system over Base/Conc.v.

    Threads.  Any number of handshake threads (thread [i] is a valid handshake request that will be
    given the sid [sidf i]) and one thread executing [Server.Close()].

    Handshake thread, engine.io/server.go:
      H0  ServeHTTP: [if s.IsClosed()] -> 503                      (reads the flag)
      H1  handleHandshake: Authenticator, generateSID, transport handshake (the response is
          written here), newSocket: NewSocketCallback, [store.set]   (one critical section of
          store.mu; everything before it touches no shared state of this model)
      H2  newSocket: [if s.IsClosed() { socket.Close() }]            (the re-check; [recheck =
          false] is the code before the fix, kept to exhibit the schedule that leaked a session)
    Close thread:
      C0  [close(s.closed)]
      C1  [store.getAll()]  (snapshot under store.mu)
      C2  [socket.Close()] for each socket of the snapshot: closeOnce -> store.delete + OnClose
    [serverSocket.close] is idempotent (closeOnce), so closing a socket twice records it once. *)
From SioV Require Import Base.GoSem Base.Conc.

Inductive hpc :=
| H0               (* not started / before the closed check *)
| H1               (* passed the closed check *)
| H2               (* socket is in the store, flag not yet re-checked *)
| HRefused         (* answered 503 *)
| HAdmitted.       (* answered with an OPEN packet; finished *)

Inductive cpc :=
| C0 | C1 | C2 (rem : list N) | CDone.

Record rstate := mkR {
  q_closed : bool;
  q_store : list N;            (* sids in socketStore *)
  q_hs : nat -> hpc;           (* handshake threads *)
  q_cp : cpc;                  (* the Close thread *)
  q_closedsocks : list N       (* sockets whose close ran (OnClose callbacks), most recent first *)
}.

Definition remove_sid (x : N) (l : list N) : list N := filter (fun y => negb (N.eqb y x)) l.
Definition mem (x : N) (l : list N) : bool := existsb (N.eqb x) l.

Definition upd (f : nat -> hpc) (i : nat) (v : hpc) : nat -> hpc :=
  fun j => if Nat.eqb j i then v else f j.

(** Actions: [None] = the Close thread, [Some i] = handshake thread [i]. *)
Definition tid := option nat.

Section Race.
  Variable recheck : bool.        (* true = the code as it is now *)
  Variable sidf : nat -> N.       (* the sid handshake thread i gets *)

  (** socket.Close(): closeOnce { OnClose; store.delete } *)
  Definition close_sock (x : N) (s : rstate) : rstate :=
    if mem x (q_closedsocks s) then s
    else mkR (q_closed s) (remove_sid x (q_store s)) (q_hs s) (q_cp s) (x :: q_closedsocks s).

  Definition set_h (s : rstate) (i : nat) (v : hpc) : rstate :=
    mkR (q_closed s) (q_store s) (upd (q_hs s) i v) (q_cp s) (q_closedsocks s).
  Definition set_c (s : rstate) (c : cpc) : rstate :=
    mkR (q_closed s) (q_store s) (q_hs s) c (q_closedsocks s).

  Definition step (t : tid) (s : rstate) : option rstate :=
    match t with
    | Some i =>
        match q_hs s i with
        | H0 => Some (set_h s i (if q_closed s then HRefused else H1))
        | H1 => Some (set_h (mkR (q_closed s) (q_store s ++ [sidf i]) (q_hs s) (q_cp s) (q_closedsocks s)) i H2)
        | H2 => Some (set_h (if recheck && q_closed s then close_sock (sidf i) s else s) i HAdmitted)
        | HRefused | HAdmitted => None
        end
    | None =>
        match q_cp s with
        | C0 => Some (mkR true (q_store s) (q_hs s) C1 (q_closedsocks s))
        | C1 => Some (set_c s (C2 (q_store s)))
        | C2 [] => Some (set_c s CDone)
        | C2 (x :: r) => Some (set_c (close_sock x s) (C2 r))
        | CDone => None
        end
    end.

  Definition init_state (live : list N) : rstate := mkR false live (fun _ => H0) C0 [].

  Definition run (sched : list tid) (live : list N) : rstate := exec step sched (init_state live).
End Race.

(** Nothing is in flight: every handshake thread is either not started or has been answered. *)
Definition settled (s : rstate) : Prop := forall i, q_hs s i <> H1 /\ q_hs s i <> H2.

(** Observables of a finished run with handshake threads [0..n-1]. *)
Definition admitted_list (s : rstate) (n : nat) : list bool :=
  map (fun i => match q_hs s i with HAdmitted => true | _ => false end) (seq 0 n).

(** The schedule forced by an Authenticator (or NewSocketCallback) that calls [srv.Close()]:
    thread 0 passes the check, Close runs to completion over [k] live sessions, thread 0 goes on. *)
Definition forced_schedule (k : nat) : list tid :=
  [Some 0%nat] ++ repeat None (k + 4) ++ [Some 0%nat; Some 0%nat].
