(** Engine.IO heartbeat as timed transition systems (C14).

    Ported from engine.io/server_socket.go and engine.io/client_socket.go:

    server, one goroutine per socket (pingPong):
        for { time.Sleep(I)
              select { case <-closeChan: return; default: }
              [drain: select { case <-pongChan: default: }]      (* since the stale-pong fix *)
              Send(ping)
              select { case <-pongChan:            (* pong received *)
                       case <-time.After(T): close(ReasonPingTimeout); return
                       case <-closeChan: return } }
        onPong (reader goroutine): select { case pongChan <- struct{}{}: default: }   (* cap 1 *)

    client, one goroutine per socket (handleTimeout):
        for { select { case <-pingChan:                         (* re-arm *)
                       case <-time.After(I+T): close(ReasonPingTimeout); return
                       case <-closeChan: return } }
        handlePacket(PING): select { case pingChan <- struct{}{}: default: }; Send(pong)   (* cap 1 *)

    close(reason) is guarded by a sync.Once: the first reason wins.

    Time is [Z] milliseconds and is DATA: every event carries its timestamp.  Scheduling slack
    (timer latency, goroutine wake-up, the few instructions between two steps of a loop) is the
    parameter [cD] >= 0: a timer set for d fires in [d, d + cD]; an enabled step of a loop is taken
    within cD.  Urgency is expressed by deadlines: time cannot pass the deadline of a state
    (a run is valid up to [t_end] only if every event, and [t_end] itself, is within the deadline
    of the state it meets).

    Go's select is modelled as it behaves: a token deposited while the loop is parked wins over a
    timer that has not fired yet; when the token arrives at or after the nominal expiry, either
    case may be taken. *)
From SioV Require Export Base.GoSem.
Open Scope Z_scope.

Inductive reason := PingTimeout | TransportClose | TransportError | ForcedClose.

Definition reason_eqb (a b : reason) : bool :=
  match a, b with
  | PingTimeout, PingTimeout | TransportClose, TransportClose
  | TransportError, TransportError | ForcedClose, ForcedClose => true
  | _, _ => false
  end.

(** Configuration: pingInterval, pingTimeout, scheduling slack, and whether the server loop
    discards a stale pong before it sends a ping (the code after the fix does). *)
Record cfg := mkCfg { cI : Z; cT : Z; cD : Z; cDrain : bool }.

Definition cfg_ok (c : cfg) : Prop := 0 < cI c /\ 0 < cT c /\ 0 <= cD c.

(* ------------------------------------------------------------------------------------------ *)
(** * Server ping loop *)

Inductive sphase :=
| SSleep (s : Z)                 (* in time.Sleep(I) since s *)
| SAwait (s : Z)                 (* ping written at s; parked in the select, timer armed for s+T *)
| SClosed (t : Z) (r : reason).  (* close(r) ran at t *)

(** [smb]: the 1-slot pong mailbox; [Some d] = a token deposited at time d. *)
Record sst := mkS { sph : sphase; smb : option Z }.

Inductive sev :=
| SWake                (* sleep over, closeChan check passed, [drain,] ping written *)
| SPong                (* a PONG packet reached onPong: non-blocking deposit *)
| STake                (* the select took the mailbox token: "pong received" *)
| STimeout             (* the select took time.After(T): close(ping timeout) *)
| SExt (r : reason)    (* close(r) called from elsewhere: transport close / error, forced close *)
| SApp.                (* any other packet in or out: no effect on the heartbeat *)

Definition deposit (mb : option Z) (t : Z) : option Z :=
  match mb with None => Some t | Some d => Some d end.

Definition sstep (c : cfg) (st : sst) (t : Z) (e : sev) : option sst :=
  match e, sph st with
  | SWake, SSleep s =>
      if (s + cI c <=? t) && (t <=? s + cI c + cD c)
      then Some (mkS (SAwait t) (if cDrain c then None else smb st))
      else None
  | SPong, _ => Some (mkS (sph st) (deposit (smb st) t))
  | STake, SAwait s =>
      match smb st with
      | Some d => Some (mkS (SSleep t) None)
      | None => None
      end
  | STimeout, SAwait s =>
      if (s + cT c <=? t) && match smb st with None => true | Some d => s + cT c <=? d end
      then Some (mkS (SClosed t PingTimeout) (smb st))
      else None
  | SExt PingTimeout, _ => None                          (* only the loop raises a ping timeout *)
  | SExt r, SClosed _ _ => Some st                       (* sync.Once: later closes are no-ops *)
  | SExt r, _ => Some (mkS (SClosed t r) (smb st))
  | SApp, _ => Some st
  | _, _ => None
  end.

(** Latest moment at which something must have happened in this state. *)
Definition sdeadline (c : cfg) (st : sst) : option Z :=
  match sph st with
  | SSleep s => Some (s + cI c + cD c)
  | SAwait s =>
      match smb st with
      | Some d => if d <? s + cT c then Some (Z.max s d + cD c) else Some (s + cT c + cD c)
      | None => Some (s + cT c + cD c)
      end
  | SClosed _ _ => None
  end.

Definition within (dl : option Z) (t : Z) : bool :=
  match dl with Some d => t <=? d | None => true end.

(** Runs.  [g] is a guard on (state, time, event): a hypothesis about the run (what the
    environment does or does not do); [gtrue] imposes nothing. *)
Definition sguard := sst -> Z -> sev -> bool.

Fixpoint srun (c : cfg) (g : sguard) (st : sst) (now : Z) (evs : list (Z * sev)) : option (sst * Z) :=
  match evs with
  | [] => Some (st, now)
  | (t, e) :: evs' =>
      if (now <=? t) && within (sdeadline c st) t && g st t e
      then match sstep c st t e with
           | Some st' => srun c g st' t evs'
           | None => None
           end
      else None
  end.

Definition sinit (t0 : Z) : sst := mkS (SSleep t0) None.

(** [svalid c g start evs t_end = Some st]: [evs] is a run of the server loop created at [start],
    valid (all deadlines met) up to time [t_end], ending in [st]. *)
Definition svalid (c : cfg) (g : sguard) (start : Z) (evs : list (Z * sev)) (t_end : Z) : option sst :=
  match srun c g (sinit start) start evs with
  | Some (st, now) => if (now <=? t_end) && within (sdeadline c st) t_end then Some st else None
  | None => None
  end.

Definition gtrue : sguard := fun _ _ _ => true.
Definition gand (a b : sguard) : sguard := fun st t e => a st t e && b st t e.

(** no pong is PROCESSED (taken by the loop) after t0 *)
Definition g_no_take_after (t0 : Z) : sguard :=
  fun _ t e => match e with STake => t <=? t0 | _ => true end.
(** no pong ARRIVES after t0 (the peer is dead, or the link black-holed, from t0 on) *)
Definition g_no_pong_after (t0 : Z) : sguard :=
  fun _ t e => match e with SPong => t <=? t0 | _ => true end.
(** nothing but the heartbeat closes the socket *)
Definition g_no_ext : sguard :=
  fun _ _ e => match e with SExt _ => false | _ => true end.
(** the peer is protocol-conforming: a pong only in answer to an outstanding ping, one per ping *)
Definition g_conforming : sguard :=
  fun st _ e => match e, sph st, smb st with
                | SPong, SAwait _, None => true
                | SPong, _, _ => false
                | _, _, _ => true
                end.
(** every ping is answered: the state "ping outstanding, mailbox empty" never lasts until the
    nominal expiry s+T (the pong is deposited strictly before it) *)
Definition g_answered (c : cfg) : sguard :=
  fun st t _ => match sph st, smb st with
                | SAwait s, None => t <? s + cT c
                | _, _ => true
                end.

Definition s_closed_by (st : sst) (bound : Z) : Prop :=
  exists t r, sph st = SClosed t r /\ t <= bound.
Definition s_reason (st : sst) : option reason :=
  match sph st with SClosed _ r => Some r | _ => None end.

(* ------------------------------------------------------------------------------------------ *)
(** * Client watchdog *)

Inductive cphase :=
| CArmed (a : Z)                 (* parked in the select since a; timer armed for a+I+T *)
| CClosed (t : Z) (r : reason).

Record cst := mkC { cph : cphase; cmb : option Z }.   (* cmb: the 1-slot ping mailbox *)

Inductive cev :=
| CPing                (* a PING packet reached handlePacket: non-blocking deposit (+ pong written) *)
| CRearm               (* the select took the token: the watchdog is re-armed *)
| CTimeout             (* the select took time.After(I+T): close(ping timeout) *)
| CExt (r : reason)
| CApp.

Definition cstep (c : cfg) (st : cst) (t : Z) (e : cev) : option cst :=
  match e, cph st with
  | CPing, _ => Some (mkC (cph st) (deposit (cmb st) t))
  | CRearm, CArmed a =>
      match cmb st with
      | Some d => Some (mkC (CArmed t) None)
      | None => None
      end
  | CTimeout, CArmed a =>
      if (a + cI c + cT c <=? t)
         && match cmb st with None => true | Some d => a + cI c + cT c <=? d end
      then Some (mkC (CClosed t PingTimeout) (cmb st))
      else None
  | CExt PingTimeout, _ => None
  | CExt r, CClosed _ _ => Some st
  | CExt r, _ => Some (mkC (CClosed t r) (cmb st))
  | CApp, _ => Some st
  | _, _ => None
  end.

Definition cdeadline (c : cfg) (st : cst) : option Z :=
  match cph st with
  | CArmed a =>
      match cmb st with
      | Some d => if d <? a + cI c + cT c then Some (Z.max a d + cD c)
                  else Some (a + cI c + cT c + cD c)
      | None => Some (a + cI c + cT c + cD c)
      end
  | CClosed _ _ => None
  end.

Definition cguard := cst -> Z -> cev -> bool.

Fixpoint crun (c : cfg) (g : cguard) (st : cst) (now : Z) (evs : list (Z * cev)) : option (cst * Z) :=
  match evs with
  | [] => Some (st, now)
  | (t, e) :: evs' =>
      if (now <=? t) && within (cdeadline c st) t && g st t e
      then match cstep c st t e with
           | Some st' => crun c g st' t evs'
           | None => None
           end
      else None
  end.

Definition cinit (t0 : Z) : cst := mkC (CArmed t0) None.

Definition cvalid (c : cfg) (g : cguard) (start : Z) (evs : list (Z * cev)) (t_end : Z) : option cst :=
  match crun c g (cinit start) start evs with
  | Some (st, now) => if (now <=? t_end) && within (cdeadline c st) t_end then Some st else None
  | None => None
  end.

Definition cgtrue : cguard := fun _ _ _ => true.
Definition cgand (a b : cguard) : cguard := fun st t e => a st t e && b st t e.
Definition cg_no_ping_after (t0 : Z) : cguard :=
  fun _ t e => match e with CPing => t <=? t0 | _ => true end.
Definition cg_no_rearm_after (t0 : Z) : cguard :=
  fun _ t e => match e with CRearm => t <=? t0 | _ => true end.
Definition cg_no_ext : cguard :=
  fun _ _ e => match e with CExt _ => false | _ => true end.
(** pings keep coming: the state "armed, mailbox empty" never lasts until the nominal expiry *)
Definition cg_fed (c : cfg) : cguard :=
  fun st t _ => match cph st, cmb st with
                | CArmed a, None => t <? a + cI c + cT c
                | _, _ => true
                end.

Definition c_closed_by (st : cst) (bound : Z) : Prop :=
  exists t r, cph st = CClosed t r /\ t <= bound.
Definition c_reason (st : cst) : option reason :=
  match cph st with CClosed _ r => Some r | _ => None end.
