(** Eio/PollQueue.v - the long-polling transport's pollQueue as a concurrent transition system
    (engine.io/transport/polling/poll_queue.go, as repaired: `ready` has capacity 1 and poll
    re-checks the queue after every wake-up and after the timeout), plus the ORIGINAL queue
    (unbuffered `ready`, no re-check) kept for the refutation witness.

    Go code (repaired)                                   model
    ---------------------------------------------------  ------------------------------------
    add: lock; append; non-blocking send on ready(cap 1) [PAdd pkts]      one atomic step
    poll: packets := get(); non-empty -> return          [PStart c]       get() is atomic (mutex)
          timer := NewTimer(pollTimeout)
          for { <yield point>                            pc = CWin
            select {
            case <-ready:                                [PSelTok c]      token consumed
                 packets = get();                        [PGet c]
                 non-empty -> return; else loop                            back to CWin
            case <-timer.C: return get() } }             [PSelTimeout c]  needs [fired c]
    the poll timer expiring                              [PTimerFire c]
    QueuedPackets() = get()                              [PExtGet]

    Any number of producers and consumers: producers are anonymous (every [PAdd] is a producer
    running its critical section), consumers are numbered.  The ghost [log] records what was
    added and what every get() handed out, in linearisation order. *)
From Coq Require Import List NArith Bool Arith.
From SioV Require Import Base.Conc.
Import ListNotations.

Definition pkt := N.

Inductive cpc :=
| CIdle                      (* not polling *)
| CWin                       (* first get() was empty: at the yield point / waiting in select *)
| CWoke                      (* took the token, about to get() *)
| CDone (r : list pkt).      (* poll returned r *)

Inductive pevent :=
| EAdd (pkts : list pkt)
| ERet (c : nat) (pkts : list pkt)     (* a poll of consumer c returned pkts *)
| EExt (pkts : list pkt).              (* QueuedPackets() returned pkts *)

Record pstate := mkP {
  p_q : list pkt;            (* pq.packets *)
  p_tok : bool;              (* len(pq.ready) = 1 *)
  p_pc : nat -> cpc;
  p_fired : nat -> bool;     (* consumer c's poll timer has expired *)
  p_log : list pevent        (* ghost, oldest first *)
}.

Definition pinit : pstate := mkP [] false (fun _ => CIdle) (fun _ => false) [].

Inductive plabel :=
| PAdd (pkts : list pkt)
| PStart (c : nat)
| PSelTok (c : nat)
| PSelTimeout (c : nat)
| PGet (c : nat)
| PTimerFire (c : nat)
| PExtGet.

Definition is_nil {A} (l : list A) : bool := match l with [] => true | _ => false end.

Definition pstep (l : plabel) (s : pstate) : option pstate :=
  match l with
  | PAdd pkts =>
      Some (mkP (p_q s ++ pkts) true (p_pc s) (p_fired s) (p_log s ++ [EAdd pkts]))
  | PStart c =>
      match p_pc s c with
      | CIdle | CDone _ =>
          if is_nil (p_q s)
          then Some (mkP [] (p_tok s) (upd (p_pc s) c CWin) (upd (p_fired s) c false) (p_log s))
          else Some (mkP [] (p_tok s) (upd (p_pc s) c (CDone (p_q s))) (p_fired s)
                         (p_log s ++ [ERet c (p_q s)]))
      | _ => None
      end
  | PSelTok c =>
      match p_pc s c with
      | CWin => if p_tok s
                then Some (mkP (p_q s) false (upd (p_pc s) c CWoke) (p_fired s) (p_log s))
                else None
      | _ => None
      end
  | PSelTimeout c =>
      match p_pc s c with
      | CWin => if p_fired s c
                then Some (mkP [] (p_tok s) (upd (p_pc s) c (CDone (p_q s))) (p_fired s)
                               (p_log s ++ [ERet c (p_q s)]))
                else None
      | _ => None
      end
  | PGet c =>
      match p_pc s c with
      | CWoke =>
          if is_nil (p_q s)
          then Some (mkP [] (p_tok s) (upd (p_pc s) c CWin) (p_fired s) (p_log s))
          else Some (mkP [] (p_tok s) (upd (p_pc s) c (CDone (p_q s))) (p_fired s)
                         (p_log s ++ [ERet c (p_q s)]))
      | _ => None
      end
  | PTimerFire c =>
      match p_pc s c with
      | CWin | CWoke => Some (mkP (p_q s) (p_tok s) (p_pc s) (upd (p_fired s) c true) (p_log s))
      | _ => None
      end
  | PExtGet =>
      Some (mkP [] (p_tok s) (p_pc s) (p_fired s) (p_log s ++ [EExt (p_q s)]))
  end.

Definition preachable : pstate -> Prop := reachable pstep (fun s => s = pinit).

(** Ghost projections of the log. *)
Fixpoint added (l : list pevent) : list pkt :=
  match l with
  | [] => []
  | EAdd p :: l' => p ++ added l'
  | _ :: l' => added l'
  end.

Fixpoint handed_out (l : list pevent) : list pkt :=
  match l with
  | [] => []
  | EAdd _ :: l' => handed_out l'
  | ERet _ p :: l' => p ++ handed_out l'
  | EExt p :: l' => p ++ handed_out l'
  end.

(** A consumer is waiting inside poll. *)
Definition waiting (p : cpc) : bool := match p with CWin | CWoke => true | _ => false end.

(** Labels that involve no timer: the consumer's own wake-up path. *)
Definition timer_free (l : plabel) : bool :=
  match l with PSelTimeout _ | PTimerFire _ => false | _ => true end.

(** * The ORIGINAL queue: unbuffered [ready], single select, no re-check.

    poll: packets := get(); non-empty -> return
          <window>                                       pc = OWin
          select {                                       [OEnter c]: now parked, pc = OPark
          case <-ready: packets = get()                  [OGet c] (after a producer handed the token)
          case <-time.After(pollTimeout): }              [OTimeout c]
          return packets                                 (timeout: the EMPTY first result)
    add: lock; append; non-blocking send on unbuffered ready: succeeds iff a consumer is parked
         in the select                                   [OAdd pkts (Some c)] / [OAdd pkts None]

    Consumers are numbered below [ncons] (the label [OAdd _ None] is enabled only when none of
    them is parked). *)
Inductive opc := OIdle | OWin | OPark | OWoke | ODone (r : list pkt).

Record ostate := mkO { o_q : list pkt; o_pc : nat -> opc }.
Definition oinit : ostate := mkO [] (fun _ => OIdle).

Inductive olabel :=
| OAdd (pkts : list pkt) (wake : option nat)
| OStart (c : nat) | OEnter (c : nat) | OGet (c : nat) | OTimeout (c : nat).

Definition is_park (p : opc) : bool := match p with OPark => true | _ => false end.

Definition ostep (ncons : nat) (l : olabel) (s : ostate) : option ostate :=
  match l with
  | OAdd pkts (Some c) =>
      if is_park (o_pc s c) then Some (mkO (o_q s ++ pkts) (upd (o_pc s) c OWoke)) else None
  | OAdd pkts None =>
      if existsb (fun c => is_park (o_pc s c)) (seq 0 ncons) then None
      else Some (mkO (o_q s ++ pkts) (o_pc s))
  | OStart c =>
      match o_pc s c with
      | OIdle | ODone _ =>
          if is_nil (o_q s) then Some (mkO [] (upd (o_pc s) c OWin))
          else Some (mkO [] (upd (o_pc s) c (ODone (o_q s))))
      | _ => None
      end
  | OEnter c => match o_pc s c with OWin => Some (mkO (o_q s) (upd (o_pc s) c OPark)) | _ => None end
  | OGet c => match o_pc s c with OWoke => Some (mkO [] (upd (o_pc s) c (ODone (o_q s)))) | _ => None end
  | OTimeout c => match o_pc s c with OPark => Some (mkO (o_q s) (upd (o_pc s) c (ODone []))) | _ => None end
  end.
