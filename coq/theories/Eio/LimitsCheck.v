(** Executable comparison and property oracle for the live limits rig of C13 (kernel evaluation).

    A case is one message pushed through the real server / client (harness/cmd/vh/limits.go):
    configuration, what the handshake announced, direction, transport, wire size, and what was
    observed. *)
From SioV Require Import Eio.Limits.
Local Open Scope Z_scope.

(** (MaxBufferSize, DisableMaxBufferSize, announced maxPayload, direction (0 = client->server,
     1 = server->client), transport (0 POST+Content-Length, 1 chunked POST, 2 websocket,
     3 polling GET), size,
     (HTTP status or -1, size delivered to the receiver's OnPacket or -1, receiver reported the
      session closed, follow-up message delivered, bytes the handler read from the body or -1)) *)
Definition lcase := (Z * bool * Z * N * N * Z * (Z * Z * bool * bool * Z))%type.

Definition dir_of (n : N) : direction := if (n =? 0)%N then C2S else S2C.
Definition tr_of (n : N) : transport :=
  if (n =? 0)%N then PostCL else if (n =? 1)%N then PostChunked
  else if (n =? 2)%N then WS else if (n =? 3)%N then Poll else WT.

(** Observation classes; anything else (delivered but closed, lost but alive, ...) is neither. *)
Definition obs_accept (size delivered : Z) (closed alive : bool) : bool :=
  (delivered =? size) && alive && negb closed.
Definition obs_reject (delivered : Z) (closed alive : bool) : bool :=
  (delivered =? -1) && closed && negb alive.

(** The rig sends a 3-byte message ("4ok") after the probe to see whether the connection survived. *)
Definition follow_up_size : Z := 3.

(** Correspondence: the model takes the decision the implementation took, announces the limit the
    implementation announced, and (for a POST) answers with the same status after pulling the
    same number of bytes from the body. *)
Definition agree (c : lcase) : bool :=
  let '(max, dis, ann, d, t, size, (status, delivered, closed, alive, read)) := c in
  let cf := mkCfg max dis in
  let o := decide cf (dir_of d) (tr_of t) size in
  (* the probe followed by the 3-byte follow-up, as one session of the model *)
  let '(dl, cl) := session cf (dir_of d) (tr_of t) [size; follow_up_size] in
  (ann =? announced_max_payload cf)
  && (delivered =? match dl with s :: _ => s | [] => -1 end)
  && Bool.eqb alive (Nat.eqb (length dl) 2)
  && Bool.eqb closed cl
  && ((status =? -1) || (status =? o_status o))
  && ((read =? -1) || (read =? o_pulled o)).

(** The limit the documentation promises for a configuration (None: no limit). *)
Definition spec_limit (max : Z) (dis : bool) : option Z :=
  if dis then None
  else if max =? 0 then Some 1000000
  else if max >? 0 then Some max else None.

(** The property itself on the observation (no model function involved):
    - the handshake announces the limit (0 or less when there is none);
    - inbound to the server: over the limit -> not delivered, session closed, at most limit+1
      bytes pulled from the body, POST answered 413; within the limit -> delivered, still open;
    - towards the client: everything within the announced maxPayload is delivered, still open. *)
Definition oracle (c : lcase) : bool :=
  let '(max, dis, ann, d, t, size, (status, delivered, closed, alive, read)) := c in
  let lim := spec_limit max dis in
  (match lim with Some l => ann =? l | None => ann <=? 0 end)
  && match dir_of d with
     | C2S =>
         match lim with
         | Some l =>
             (read <=? l + 1)
             && (if size >? l
                 then obs_reject delivered closed alive && ((status =? -1) || (status =? 413))
                 else obs_accept size delivered closed alive)
         | None => obs_accept size delivered closed alive
         end
     | S2C =>
         if (ann <=? 0) || (size <=? ann) then obs_accept size delivered closed alive else true
     end.

(** Finding classes (keys of known_findings.txt), decidable on the case.  None are open after the
    three fixes; the classifier stays so that a regression is reported under its class. *)
Definition finding_class (c : lcase) : N :=
  let '(max, dis, ann, d, t, size, _) := c in
  match dir_of d, tr_of t with
  | S2C, WS => 1%N                      (* ws client read limit *)
  | C2S, WS => if dis then 2%N else 4%N (* ws server: disabled keeps library default / limit value *)
  | C2S, PostChunked => 3%N             (* undeclared body size *)
  | C2S, WT => 5%N                      (* webtransport declared frame length *)
  | _, _ => 0%N
  end.
