(** Handshakes racing Server.Close (C17): for every schedule, once Close has returned and no
    handshake is in flight, the store is empty and every socket that ever entered it was closed
    exactly once.  Inductive invariant over Base/Conc.v. *)
From SioV Require Import Base.GoSem Base.Conc Eio.HandshakeRace.

Arguments upd : simpl never.
Arguments close_sock : simpl never.

(* ------------------------------------------------------------------ small facts *)
Lemma in_remove_sid y x l : In y (remove_sid x l) <-> In y l /\ y <> x.
Proof.
  unfold remove_sid. rewrite filter_In. split; intros [H1 H2]; (split; [exact H1|]).
  - intros ->. rewrite N.eqb_refl in H2. discriminate.
  - apply negb_true_iff. now apply N.eqb_neq.
Qed.

Lemma mem_in x l : mem x l = true <-> In x l.
Proof.
  unfold mem. rewrite existsb_exists. split.
  - intros (y & I & E). apply N.eqb_eq in E. now subst.
  - intros I. exists x. split; [exact I | apply N.eqb_refl].
Qed.

Lemma upd_same f i v : upd f i v i = v.
Proof. unfold upd. now rewrite Nat.eqb_refl. Qed.

Lemma upd_other f i v j : j <> i -> upd f i v j = f j.
Proof. intros H. unfold upd. apply Nat.eqb_neq in H. now rewrite H. Qed.

(* ------------------------------------------------------------------ close_sock *)
Lemma close_sock_fields x s :
  q_closed (close_sock x s) = q_closed s /\ q_hs (close_sock x s) = q_hs s /\ q_cp (close_sock x s) = q_cp s.
Proof. unfold close_sock. destruct (mem x (q_closedsocks s)); auto. Qed.

Lemma close_sock_closed x s y :
  In y (q_closedsocks (close_sock x s)) <-> y = x \/ In y (q_closedsocks s).
Proof.
  unfold close_sock. destruct (mem x (q_closedsocks s)) eqn:E; cbn.
  - apply mem_in in E. split; [auto|]. intros [->|H]; assumption.
  - split; intros [H|H]; auto.
Qed.

Lemma close_sock_store x s y :
  (forall z, In z (q_closedsocks s) -> ~ In z (q_store s)) ->
  In y (q_store (close_sock x s)) -> In y (q_store s) /\ y <> x.
Proof.
  intros K. unfold close_sock. destruct (mem x (q_closedsocks s)) eqn:E; cbn.
  - apply mem_in in E. intros H. split; [exact H|]. intros ->. exact (K _ E H).
  - apply in_remove_sid.
Qed.

Lemma close_sock_keeps x s y :
  In y (q_store s) \/ In y (q_closedsocks s) ->
  In y (q_store (close_sock x s)) \/ In y (q_closedsocks (close_sock x s)).
Proof.
  unfold close_sock. destruct (mem x (q_closedsocks s)) eqn:E; cbn; [auto|].
  intros [H|H]; [|auto]. destruct (N.eq_dec y x) as [->|Ne]; [auto|]. left. now apply in_remove_sid.
Qed.

Lemma close_sock_K x s :
  (forall z, In z (q_closedsocks s) -> ~ In z (q_store s)) ->
  forall z, In z (q_closedsocks (close_sock x s)) -> ~ In z (q_store (close_sock x s)).
Proof.
  intros K z. unfold close_sock. destruct (mem x (q_closedsocks s)) eqn:E; cbn; [apply K|].
  intros [<-|H] I; apply in_remove_sid in I as [I Ne]; [congruence | exact (K _ H I)].
Qed.

Lemma close_sock_nodup x s : NoDup (q_closedsocks s) -> NoDup (q_closedsocks (close_sock x s)).
Proof.
  unfold close_sock. destruct (mem x (q_closedsocks s)) eqn:E; cbn; [auto|].
  intros H. constructor; [|exact H]. intros I. apply mem_in in I. congruence.
Qed.

(* ------------------------------------------------------------------ the invariant *)
Section RaceProofs.
  Variable sidf : nat -> N.
  Variable live : list N.
  Hypothesis sid_inj : forall i j, sidf i = sidf j -> i = j.   (* C17_ids_distinct_by_seq / store.set *)
  Hypothesis sid_new : forall i, ~ In (sidf i) live.

  Definition in_store_phase (h : hpc) : Prop := h = H2 \/ h = HAdmitted.

  (** [x] is the sid of a socket that has been put in the store at some point *)
  Definition tracked (s : rstate) (x : N) : Prop :=
    In x live \/ exists j, in_store_phase (q_hs s j) /\ sidf j = x.

  (** someone is still going to close [x] *)
  Definition covered (s : rstate) (x : N) : Prop :=
    (q_cp s = C0 \/ q_cp s = C1) \/ (exists r, q_cp s = C2 r /\ In x r) \/ (exists i, q_hs s i = H2 /\ sidf i = x).

  Record Inv (s : rstate) : Prop := {
    iA0 : q_cp s = C0 -> q_closed s = false;
    iA1 : q_cp s <> C0 -> q_closed s = true;
    iB : forall x, In x (q_store s) -> covered s x;
    iJ : forall x, (In x (q_store s) \/ In x (q_closedsocks s) \/ exists r, q_cp s = C2 r /\ In x r) -> tracked s x;
    iK : forall x, In x (q_closedsocks s) -> ~ In x (q_store s);
    iL : forall x, tracked s x -> In x (q_store s) \/ In x (q_closedsocks s);
    iM : NoDup (q_closedsocks s)
  }.

  Lemma inv_init : Inv (init_state live).
  Proof.
    constructor; cbn; try tauto; try discriminate.
    - intros x _. left. now left.
    - intros x [H|[[]|(r & E & _)]]; [now left | discriminate].
    - intros x [H|(j & [E|E] & _)]; [now left | discriminate | discriminate].
    - constructor.
  Qed.

  (** changing thread [i] from a state outside {H2, HAdmitted} to anything keeps other witnesses *)
  Lemma tracked_upd_keep s i v x hs' :
    hs' = upd (q_hs s) i v ->
    (in_store_phase (q_hs s i) -> in_store_phase v) ->
    tracked s x ->
    In x live \/ exists j, in_store_phase (hs' j) /\ sidf j = x.
  Proof.
    intros -> Hv [H|(j & P & E)]; [now left|]. right. exists j. split; [|exact E].
    destruct (Nat.eq_dec j i) as [->|Ne]; [rewrite upd_same; auto | now rewrite upd_other].
  Qed.

  Lemma covered3_upd_keep hs i v x :
    hs i <> H2 \/ sidf i <> x ->
    (exists j, hs j = H2 /\ sidf j = x) -> exists j, upd hs i v j = H2 /\ sidf j = x.
  Proof.
    intros Hi (j & P & E). exists j. split; [|exact E].
    destruct (Nat.eq_dec j i) as [->|Ne]; [destruct Hi; congruence | now rewrite upd_other].
  Qed.

  Lemma inv_step : forall s t s', Inv s -> step true sidf t s = Some s' -> Inv s'.
  Proof.
    intros s t s' I St. destruct t as [i|]; cbn [step] in St.
    - (* handshake thread i *)
      destruct (q_hs s i) eqn:Hi; try discriminate; injection St as <-.
      + (* H0: the closed check *)
        set (v := if q_closed s then HRefused else H1).
        assert (Vn : ~ in_store_phase v) by (unfold v; destruct (q_closed s); intros [E|E]; discriminate).
        constructor; unfold tracked, covered; cbn.
        * apply (iA0 _ I). * apply (iA1 _ I).
        * intros x H. destruct (iB _ I x H) as [C|[C|C]]; [left; exact C | right; left; exact C | right; right].
          apply covered3_upd_keep; [left; cbn; rewrite Hi; discriminate | exact C].
        * intros x H. eapply tracked_upd_keep; [reflexivity | | apply (iJ _ I x H)].
          rewrite Hi. intros [E|E]; discriminate.
        * apply (iK _ I).
        * intros x [H|(j & P & E)]; apply (iL _ I); [now left|]. right. exists j. split; [|exact E].
          cbn [q_hs set_h] in P. destruct (Nat.eq_dec j i) as [->|Ne]; [rewrite upd_same in P; contradiction | now rewrite upd_other in P].
        * apply (iM _ I).
      + (* H1: store.set *)
        assert (Fresh : ~ In (sidf i) (q_store s) /\ ~ In (sidf i) (q_closedsocks s)).
        { split; intros H.
          - destruct (iJ _ I (sidf i) (or_introl H)) as [L|(j & P & E)]; [exact (sid_new _ L)|].
            apply sid_inj in E. subst j. rewrite Hi in P. destruct P; discriminate.
          - destruct (iJ _ I (sidf i) (or_intror (or_introl H))) as [L|(j & P & E)]; [exact (sid_new _ L)|].
            apply sid_inj in E. subst j. rewrite Hi in P. destruct P; discriminate. }
        constructor; unfold tracked, covered; cbn.
        * apply (iA0 _ I). * apply (iA1 _ I).
        * intros x H. apply in_app_iff in H as [H|[<-|[]]].
          -- destruct (iB _ I x H) as [C|[C|C]]; [left; exact C | right; left; exact C | right; right].
             apply covered3_upd_keep; [left; cbn; rewrite Hi; discriminate | exact C].
          -- right. right. exists i. split; [apply upd_same | reflexivity].
        * intros x H.
          assert (H' : x = sidf i \/ In x (q_store s) \/ In x (q_closedsocks s) \/ (exists r, q_cp s = C2 r /\ In x r)).
          { destruct H as [H|H]; [apply in_app_iff in H as [H|[<-|[]]]; auto | auto]. }
          destruct H' as [->|H'].
          -- right. exists i. split; [rewrite upd_same; now left | reflexivity].
          -- eapply tracked_upd_keep; [reflexivity | | apply (iJ _ I x H')]. intros _. now left.
        * intros x H Hs. apply in_app_iff in Hs as [Hs|[<-|[]]]; [exact (iK _ I x H Hs) | exact (proj2 Fresh H)].
        * intros x [H|(j & P & E)].
          -- destruct (iL _ I x (or_introl H)) as [S|S]; [left; apply in_app_iff; now left | now right].
          -- cbn [q_hs set_h] in P. destruct (Nat.eq_dec j i) as [->|Ne].
             ++ left. apply in_app_iff. right. left. exact E.
             ++ rewrite upd_other in P by exact Ne.
                destruct (iL _ I x (or_intror (ex_intro _ j (conj P E)))) as [S|S]; [left; apply in_app_iff; now left | now right].
        * apply (iM _ I).
      + (* H2: the re-check *)
        cbn [andb].
        set (s1 := if q_closed s then close_sock (sidf i) s else s).
        assert (F : q_closed s1 = q_closed s /\ q_hs s1 = q_hs s /\ q_cp s1 = q_cp s).
        { unfold s1. destruct (q_closed s) eqn:Cq; [|auto].
          destruct (close_sock_fields (sidf i) s) as (a & b & c). rewrite a, b, c, Cq. auto. }
        destruct F as (F1 & F2 & F3).
        assert (St : forall y, In y (q_store s1) -> In y (q_store s) /\ (q_closed s = true -> y <> sidf i)).
        { unfold s1. destruct (q_closed s); intros y H.
          - apply close_sock_store in H; [|apply (iK _ I)]. split; [tauto|]. intros _. tauto.
          - split; [exact H | discriminate]. }
        assert (Cl : forall y, In y (q_closedsocks s1) -> y = sidf i \/ In y (q_closedsocks s)).
        { unfold s1. destruct (q_closed s); intros y H; [now apply close_sock_closed | now right]. }
        assert (Keep : forall y, In y (q_store s) \/ In y (q_closedsocks s) -> In y (q_store s1) \/ In y (q_closedsocks s1)).
        { unfold s1. destruct (q_closed s); [intros y; apply close_sock_keeps | auto]. }
        assert (K1 : forall z, In z (q_closedsocks s1) -> ~ In z (q_store s1)).
        { unfold s1. destruct (q_closed s); [apply close_sock_K, (iK _ I) | apply (iK _ I)]. }
        assert (M1 : NoDup (q_closedsocks s1)).
        { unfold s1. destruct (q_closed s); [apply close_sock_nodup, (iM _ I) | apply (iM _ I)]. }
        constructor; unfold tracked, covered; cbn; rewrite ?F1, ?F2, ?F3.
        * apply (iA0 _ I). * apply (iA1 _ I).
        * intros x H. apply St in H as [H Ne].
          destruct (q_closed s) eqn:C.
          -- specialize (Ne eq_refl).
             destruct (iB _ I x H) as [C'|[C'|C']]; [left; exact C' | right; left; exact C' | right; right].
             apply covered3_upd_keep; [right; congruence | exact C'].
          -- left. left. destruct (q_cp s) eqn:P; try reflexivity;
               (assert (X : q_closed s = true) by (apply (iA1 _ I); congruence); congruence).
        * intros x H.
          assert (H' : x = sidf i \/ In x (q_store s) \/ In x (q_closedsocks s) \/ (exists r, q_cp s = C2 r /\ In x r)).
          { destruct H as [H|[H|H]]; [apply St in H; tauto | apply Cl in H; tauto | auto]. }
          destruct H' as [->|H'].
          -- right. exists i. split; [rewrite upd_same; now right | reflexivity].
          -- eapply tracked_upd_keep; [reflexivity | | apply (iJ _ I x H')]. intros _. now right.
        * exact K1.
        * intros x T. apply Keep. apply (iL _ I).
          destruct T as [T|(j & P & E)]; [now left|]. right. exists j. split; [|exact E].
          cbn [q_hs set_h] in P. rewrite ?F2 in P.
          destruct (Nat.eq_dec j i) as [->|Ne]; [rewrite Hi; now left | now rewrite upd_other in P].
        * exact M1.
    - (* the Close thread *)
      destruct (q_cp s) as [| |[|x r]|] eqn:P; try discriminate; injection St as <-.
      + (* C0: set the flag *)
        constructor; unfold tracked, covered; cbn; try discriminate; auto.
        * intros x [H|[H|(r & E & _)]]; [apply (iJ _ I); auto | apply (iJ _ I); auto | discriminate].
        * apply (iK _ I). * apply (iL _ I). * apply (iM _ I).
      + (* C1: snapshot *)
        constructor; unfold tracked, covered; cbn; try discriminate.
        * intros _. apply (iA1 _ I). congruence.
        * intros x H. right. left. exists (q_store s). auto.
        * intros x [H|[H|(r & E & H)]]; [apply (iJ _ I); auto | apply (iJ _ I); auto|].
          injection E as <-. apply (iJ _ I). auto.
        * apply (iK _ I). * apply (iL _ I). * apply (iM _ I).
      + (* C2 []: done *)
        constructor; unfold tracked, covered; cbn; try discriminate.
        * intros _. apply (iA1 _ I). congruence.
        * intros x H. destruct (iB _ I x H) as [[C|C]|[(r & C & Hr)|C]]; try congruence.
          -- rewrite P in C. injection C as <-. destruct Hr.
          -- right. right. exact C.
        * intros x [H|[H|(r & E & _)]]; [apply (iJ _ I); auto | apply (iJ _ I); auto | discriminate].
        * apply (iK _ I). * apply (iL _ I). * apply (iM _ I).
      + (* C2 (x :: r): close one socket of the snapshot *)
        destruct (close_sock_fields x s) as (F1 & F2 & F3).
        constructor; unfold tracked, covered; cbn; rewrite ?F1, ?F2; try discriminate.
        * intros _. apply (iA1 _ I). congruence.
        * intros y H. apply close_sock_store in H as [H Ne]; [|apply (iK _ I)].
          destruct (iB _ I y H) as [[C|C]|[(r' & C & Hr)|C]]; try congruence.
          -- right. left. exists r. split; [reflexivity|]. rewrite P in C. injection C as <-.
             destruct Hr as [->|Hr]; [congruence | exact Hr].
          -- right. right. exact C.
        * intros y H.
          assert (H' : In y (q_store s) \/ In y (q_closedsocks s) \/ (exists r', q_cp s = C2 r' /\ In y r')).
          { destruct H as [H|[H|(r' & E & H)]].
            - apply close_sock_store in H; [tauto | apply (iK _ I)].
            - apply close_sock_closed in H as [->|H]; [|auto]. right. right. exists (x :: r). split; [exact P | now left].
            - injection E as <-. right. right. exists (x :: r). split; [exact P | now right]. }
          destruct (iJ _ I y H') as [L|T]; [now left | now right].
        * apply close_sock_K, (iK _ I).
        * intros y T. apply close_sock_keeps. apply (iL _ I). exact T.
        * apply close_sock_nodup, (iM _ I).
  Qed.

  Lemma inv_run sched : Inv (run true sidf sched live).
  Proof.
    unfold run. apply (@invariant_exec _ _ (step true sidf) (fun s => s = init_state live) Inv); [|reflexivity].
    split; [intros s ->; apply inv_init | intros s t s' I St; eapply inv_step; eassumption].
  Qed.

  (** For every schedule: when Close has returned and no handshake is in flight, the store is
      empty, every session that was live and every session admitted meanwhile has been closed,
      each exactly once, and the server is closed. *)
  Theorem close_race_closes_all : forall sched,
    let s := run true sidf sched live in
    q_cp s = CDone -> settled s ->
    q_store s = []
    /\ q_closed s = true
    /\ (forall x, In x live -> In x (q_closedsocks s))
    /\ (forall i, q_hs s i = HAdmitted -> In (sidf i) (q_closedsocks s))
    /\ NoDup (q_closedsocks s).
  Proof.
    intros sched s D Q. pose proof (inv_run sched) as I. fold s in I.
    assert (E : q_store s = []).
    { destruct (q_store s) as [|x l] eqn:S; [reflexivity|exfalso].
      destruct (iB _ I x) as [[C|C]|[(r & C & _)|(i & C & _)]]; try congruence; [rewrite S; now left|].
      destruct (Q i) as [_ N2]. contradiction. }
    split; [exact E|]. split; [apply (iA1 _ I); congruence|]. split; [|split; [|apply (iM _ I)]].
    - intros x L. destruct (iL _ I x (or_introl L)) as [H|H]; [rewrite E in H; destruct H | exact H].
    - intros i A. destruct (iL _ I (sidf i)) as [H|H]; [|rewrite E in H; destruct H | exact H].
      right. exists i. split; [right; exact A | reflexivity].
  Qed.

  (** A handshake whose closed-check happens after the flag was set is refused. *)
  Lemma refused_when_closed : forall s i s',
    q_closed s = true -> q_hs s i = H0 -> step true sidf (Some i) s = Some s' -> q_hs s' i = HRefused /\ q_store s' = q_store s.
  Proof.
    intros s i s' C Hi St. cbn in St. rewrite Hi, C in St. injection St as <-. cbn. now rewrite upd_same.
  Qed.
End RaceProofs.

(** The code before the fix ([recheck = false]): the schedule forced by an Authenticator that calls
    [srv.Close()] ends with the late session in the store of a closed server, never closed. *)
Lemma unfixed_leaks :
  let s := run false (fun i => N.of_nat i) (forced_schedule 0) [] in
  q_cp s = CDone /\ settled s /\ q_closed s = true /\ q_store s = [0%N] /\ q_closedsocks s = [].
Proof.
  cbv zeta. split; [reflexivity|]. split; [|repeat split].
  intros i. destruct i as [|i]; split; discriminate.
Qed.
