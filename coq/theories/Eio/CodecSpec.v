(** The Engine.IO v4 wire format written down independently of the model functions, following
    the protocol document (engine.io-protocol, revision 4) and RFC 4648, and the proof that the
    model functions - hence, through the correspondence, the library - print exactly this.

      packet   := <type digit "0".."6"> <data>            (text)
                | <data>                                    (binary, binary-capable transport)
                | "b" <base64 (RFC 4648 section 4, with padding) of data>   (binary otherwise)
      payload  := packet ( 0x1e packet )*                  (HTTP long-polling)
      frame    := header packet                            (WebTransport)
      header   := 1 bit "is binary", 7 bits: length if < 126; 126 then 16-bit length; 127 then
                  64-bit length (network byte order) *)
From Coq Require Import String Ascii.
From SioV Require Import Eio.Payload Eio.WTFrame Eio.Base64Proofs Eio.WTFrameProofs.
From Coq Require Import ZifyN ZifyNat ZifyBool Lia.
Local Open Scope N_scope.
Ltac Zify.zify_post_hook ::= Z.to_euclidean_division_equations.

Fixpoint str_bytes (s : string) : bytes :=
  match s with
  | EmptyString => []
  | String a s' => N_of_ascii a :: str_bytes s'
  end.

(** RFC 4648, table 1 *)
Definition rfc_alphabet : bytes :=
  str_bytes "ABCDEFGHIJKLMNOPQRSTUVWXYZabcdefghijklmnopqrstuvwxyz0123456789+/".

Definition rfc_char (v : N) : N := nth (N.to_nat v) rfc_alphabet 0.
Definition eq_sign : N := N_of_ascii "="%char.

(** RFC 4648 section 4: a 24-bit group is cut into four 6-bit values; a final group of 8 bits
    gives two characters and "==", of 16 bits three characters and "=". *)
Fixpoint spec_b64 (s : bytes) : bytes :=
  match s with
  | [] => []
  | [x] => [rfc_char (x / 4); rfc_char ((x mod 4) * 16); eq_sign; eq_sign]
  | [x; y] => [rfc_char (x / 4); rfc_char ((x mod 4) * 16 + y / 16); rfc_char ((y mod 16) * 4); eq_sign]
  | x :: y :: z :: s' =>
      rfc_char (x / 4) :: rfc_char ((x mod 4) * 16 + y / 16)
        :: rfc_char ((y mod 16) * 4 + z / 64) :: rfc_char (z mod 64) :: spec_b64 s'
  end.

Definition spec_digits : bytes := str_bytes "0123456".

Definition spec_packet (supports_binary : bool) (p : packet) : bytes :=
  if p_binary p then
    if supports_binary then p_data p
    else str_bytes "b" ++ spec_b64 (p_data p)
  else nth (N.to_nat (p_type p)) spec_digits 0 :: p_data p.

Definition record_separator : N := 30.

Fixpoint intercalate (sep : N) (l : list bytes) : bytes :=
  match l with
  | [] => []
  | [x] => x
  | x :: l' => x ++ sep :: intercalate sep l'
  end.

Definition spec_payload (ps : list packet) : bytes :=
  intercalate record_separator (map (spec_packet false) ps).

(** byte i (from the most significant) of a k-byte unsigned integer in network byte order *)
Definition net_order (k : nat) (n : N) : bytes :=
  map (fun i => (n / 256 ^ N.of_nat (k - 1 - i)) mod 256) (seq 0 k).

Definition spec_header (n : N) (binary : bool) : bytes :=
  let bit := if binary then 128 else 0 in
  if n <? 126 then [bit + n]
  else if n <? 65536 then (bit + 126) :: net_order 2 n
  else (bit + 127) :: net_order 8 n.

Definition spec_frame (p : packet) : bytes :=
  let body := spec_packet true p in
  spec_header (nlen body) (p_binary p) ++ body.

(** ** The model prints the specification *)
Definition char_ok (v : N) : bool := b64_char v =? rfc_char v.

Lemma char_sweep : forallb char_ok range64 = true.
Proof. vm_compute. reflexivity. Qed.

Lemma b64_char_rfc v : v < 64 -> b64_char v = rfc_char v.
Proof.
  intros H. apply N.eqb_eq. exact (proj1 (forallb_forall _ _) char_sweep v (in_range64 v H)).
Qed.

Lemma sextets_rfc x y z : x < 256 -> y < 256 -> z < 256 ->
  sextets x y z = (x / 4, (x mod 4) * 16 + y / 16, (y mod 16) * 4 + z / 64, z mod 64).
Proof. intros. unfold sextets. cbv zeta. f_equal; [f_equal; [f_equal|]|]; lia. Qed.

Theorem b64_is_rfc4648 : forall s, bytes_ok s = true -> b64_enc s = spec_b64 s.
Proof.
  intros s. induction s using list_ind3; intros Hok.
  - reflexivity.
  - apply bytes_ok_cons in Hok as [Hx _]. cbn [b64_enc spec_b64].
    pose proof (sext_bounds x 0 0 Hx ltac:(lia) ltac:(lia)) as B.
    rewrite (sextets_rfc x 0 0) in * by lia. cbv beta iota zeta in *. destruct B as [Ba [Bb _]].
    rewrite !b64_char_rfc by assumption.
    replace ((x mod 4) * 16 + 0 / 16) with ((x mod 4) * 16) by lia. reflexivity.
  - apply bytes_ok_cons in Hok as [Hx Hok]. apply bytes_ok_cons in Hok as [Hy _]. cbn [b64_enc spec_b64].
    pose proof (sext_bounds x y 0 Hx Hy ltac:(lia)) as B.
    rewrite (sextets_rfc x y 0) in * by lia. cbv beta iota zeta in *. destruct B as [Ba [Bb [Bc _]]].
    rewrite !b64_char_rfc by assumption.
    replace ((y mod 16) * 4 + 0 / 64) with ((y mod 16) * 4) by lia. reflexivity.
  - apply bytes_ok_cons in Hok as [Hx Hok]. apply bytes_ok_cons in Hok as [Hy Hok].
    apply bytes_ok_cons in Hok as [Hz Hok]. cbn [b64_enc spec_b64].
    pose proof (sext_bounds x y z Hx Hy Hz) as B.
    rewrite (sextets_rfc x y z) in * by lia. cbv beta iota zeta in *. destruct B as [Ba [Bb [Bc Bd]]].
    rewrite !b64_char_rfc by assumption. now rewrite IHs.
Qed.

Theorem packet_is_v4 : forall sb p, packet_ok p = true -> encode_packet sb p = spec_packet sb p.
Proof.
  intros sb [b t d] Hok. apply CodecProofs.packet_ok_iff in Hok as [Hd [Ht Hm]].
  cbn [p_binary p_type p_data] in *. unfold encode_packet, spec_packet. cbn [p_binary p_type p_data].
  destruct b.
  - destruct sb; [reflexivity|]. now rewrite b64_is_rfc4648.
  - f_equal. unfold to_char, type_max in *.
    assert (In t [0; 1; 2; 3; 4; 5; 6]) as I.
    { replace t with (N.of_nat (N.to_nat t)) by lia.
      assert (N.to_nat t < 7)%nat as L by lia. revert L. generalize (N.to_nat t). intros k L.
      do 7 (destruct k as [|k]; [cbn; tauto|]). lia. }
    cbn [In] in I. destruct I as [<-|[<-|[<-|[<-|[<-|[<-|[<-|[]]]]]]]]; reflexivity.
Qed.

Theorem payload_is_v4 : forall ps, (forall p, In p ps -> packet_ok p = true) ->
  encode_payload ps = spec_payload ps.
Proof.
  unfold spec_payload. induction ps as [|p ps IH]; intros H; [reflexivity|].
  destruct ps as [|p' ps'].
  - cbn [encode_payload map intercalate]. apply packet_is_v4, H. now left.
  - change (encode_payload (p :: p' :: ps')) with (encode_packet false p ++ delim :: encode_payload (p' :: ps')).
    rewrite IH by (intros q Hq; apply H; now right).
    rewrite packet_is_v4 by (apply H; now left). reflexivity.
Qed.

Lemma net_order_2 n : n < 65536 -> net_order 2 n = be_bytes 2 n.
Proof.
  intros H. unfold net_order. cbn [seq map be_bytes app Nat.sub N.of_nat Pos.of_succ_nat Pos.succ].
  change (256 ^ 1) with 256. change (256 ^ 0) with 1. rewrite N.div_1_r. repeat f_equal; lia.
Qed.

Lemma net_order_8 n : net_order 8 n = be_bytes 8 n.
Proof.
  unfold net_order. cbn [seq map be_bytes app Nat.sub N.of_nat Pos.of_succ_nat Pos.succ].
  rewrite !N.div_div by lia. rewrite N.div_1_r.
  repeat (f_equal; try reflexivity).
Qed.

Theorem frame_is_v4 : forall p, packet_ok p = true -> wt_send p = spec_frame p.
Proof.
  intros p Hok. unfold wt_send, spec_frame. rewrite <- packet_is_v4 by assumption.
  assert (nlen (encode_packet true p) = Z.to_N (encoded_len true p)) as Hn.
  { rewrite <- CodecProofs.encoded_len_exact. unfold zlen, nlen. lia. }
  rewrite Hn. set (n := Z.to_N (encoded_len true p)). unfold wt_header, spec_header. f_equal.
  destruct (n <? 126) eqn:E1; [f_equal; lia|]. destruct (n <? 65536) eqn:E2.
  - rewrite net_order_2 by lia. f_equal. lia.
  - rewrite net_order_8. f_equal. lia.
Qed.

(** Texts of the protocol-document examples (Props/C11.v does not import String). *)
Definition txt_hello := str_bytes "hello".
Definition txt_world := str_bytes "world".
Definition txt_probe := str_bytes "probe".
Definition txt_4hello := str_bytes "4hello".
Definition txt_4world := str_bytes "4world".
Definition txt_2probe := str_bytes "2probe".
Definition txt_2 := str_bytes "2".
Definition txt_b64_1234 := str_bytes "bAQIDBA==".
