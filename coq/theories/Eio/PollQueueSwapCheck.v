(** Executable correspondence and oracle for the forced-schedule runs of the REAL engine.io server
    socket (harness engine `queues -queue swap`): senders held inside transport.Send, an upgrade
    racing them.  The model (Eio/PollQueueSwap.v, [locked = true]) is driven by the same ops under
    Go's RWMutex discipline (a reader waits while a writer holds or waits for the lock); the
    observation after each op is compared exactly (the only choice - the order in which waiting
    readers get the lock - is resolved by the observation). *)
From Coq Require Import List NArith Bool Arith.
From SioV Require Import Base.Conc Base.ConcSim Eio.PollQueueSwap.
Import ListNotations.

Inductive wop :=
| ON (c : nat) (hold : bool)   (* sender c: socket.Send(packet c+1); hold: parked in transport.Send *)
| OR (c : nat)                 (* release sender c *)
| OU.                          (* upgradeTo(new transport) *)

Inductive wst := WIdle | WHeld | WBlk | WRet.

(** sender statuses, upgrade status (0 idle, 1 blocked, 2 done), message ids in the old
    transport's queue, ids sent with the new transport *)
Definition wobs := (list wst * N * list N * list N)%type.
Definition wcase := (nat * list (wop * wobs))%type.

Record rig := mkR {
  r_s : wstate;
  r_held : list nat;
  r_pend : list (nat * bool);      (* senders waiting for the read lock, in arrival order *)
  r_done : list nat;
  r_up : N                         (* 0 idle, 1 waiting for the write lock, 2 done *)
}.

Definition rinit : rig := mkR winit [] [] [] 0.

Definition mem (c : nat) (l : list nat) : bool := existsb (Nat.eqb c) l.
Definition run (ls : list wlabel) (s : wstate) : wstate := exec (wstep true) ls s.

(** A sender that got the read lock: held by the wrapper if asked to and the transport it picked
    is the old (wrapped) one, else it adds and releases. *)
Definition start_send (r : rig) (c : nat) (hold : bool) : rig :=
  let s1 := run [WAcquire c (N.of_nat (S c))] (r_s r) in
  if hold && Nat.eqb (w_cur (r_s r)) 0
  then mkR s1 (c :: r_held r) (r_pend r) (r_done r) (r_up r)
  else mkR (run [WAdd c; WRelease c] s1) (r_held r) (r_pend r) (c :: r_done r) (r_up r).

(** All orders in which the waiting readers may get the lock (Go wakes them together). *)
Fixpoint insert_all {A} (x : A) (l : list A) : list (list A) :=
  match l with
  | [] => [[x]]
  | y :: l' => (x :: l) :: map (cons y) (insert_all x l')
  end.
Fixpoint perms {A} (l : list A) : list (list A) :=
  match l with
  | [] => [[]]
  | x :: l' => flat_map (insert_all x) (perms l')
  end.

(** After a release: a waiting upgrade goes first (writer preference), then the waiting senders,
    in any order. *)
Definition settle (r : rig) : list rig :=
  if N.eqb (r_up r) 1 && is_nil (w_holders (r_s r))
  then let r1 := mkR (run [UAcquire; USwap; UDrain; URelease] (r_s r)) (r_held r) [] (r_done r) 2 in
       map (fun order => fold_left (fun a ch => start_send a (fst ch) (snd ch)) order r1) (perms (r_pend r))
  else [r].

Definition apply_op (o : wop) (r : rig) : list rig :=
  match o with
  | ON c hold =>
      if mem c (r_held r) || mem c (r_done r) || mem c (map fst (r_pend r)) then [r]
      else if N.eqb (r_up r) 1 then [mkR (r_s r) (r_held r) (r_pend r ++ [(c, hold)]) (r_done r) (r_up r)]
      else [start_send r c hold]
  | OR c =>
      if mem c (r_held r)
      then settle (mkR (run [WAdd c; WRelease c] (r_s r))
                       (filter (fun x => negb (Nat.eqb c x)) (r_held r)) (r_pend r) (c :: r_done r) (r_up r))
      else [r]
  | OU =>
      if negb (N.eqb (r_up r) 0) then [r]
      else settle (mkR (r_s r) (r_held r) (r_pend r) (r_done r) 1)
  end.

Definition status (r : rig) (c : nat) : wst :=
  if mem c (r_held r) then WHeld
  else if mem c (map fst (r_pend r)) then WBlk
  else if mem c (r_done r) then WRet else WIdle.

Definition wst_eqb (a b : wst) : bool :=
  match a, b with WIdle, WIdle | WHeld, WHeld | WBlk, WBlk | WRet, WRet => true | _, _ => false end.

Fixpoint wsts_eqb (a b : list wst) : bool :=
  match a, b with
  | [], [] => true
  | x :: a', y :: b' => if wst_eqb x y then wsts_eqb a' b' else false
  | _, _ => false
  end.

Definition matches (n : nat) (o : wobs) (r : rig) : bool :=
  let '(sts, up, oq, ns) := o in
  wsts_eqb (map (status r) (seq 0 n)) sts && N.eqb (r_up r) up
  && key_eqb (w_queue (r_s r) 0) oq && key_eqb (w_queue (r_s r) 1) ns.

Fixpoint replay (n : nat) (steps : list (wop * wobs)) (r : rig) : bool :=
  match steps with
  | [] => true
  | (o, ob) :: rest =>
      match filter (matches n ob) (apply_op o r) with
      | r' :: _ => replay n rest r'      (* the observation determines the state *)
      | [] => false
      end
  end.

Definition agree (c : wcase) : bool := let '(n, steps) := c in replay n steps rinit.

(** * The property on the observations alone *)

Fixpoint nodupb (l : list N) : bool :=
  match l with [] => true | x :: l' => negb (existsb (N.eqb x) l') && nodupb l' end.

Definition is_ret (s : wst) : bool := match s with WRet => true | _ => false end.

(** Ids of the senders whose Send has returned. *)
Definition returned_ids (sts : list wst) : list N :=
  flat_map (fun ci => if is_ret (snd ci) then [N.of_nat (S (fst ci))] else [])
           (combine (seq 0 (length sts)) sts).

Definition subset (a b : list N) : bool := forallb (fun x => existsb (N.eqb x) b) a.

(** At every quiescent point: a packet whose Send has returned is held by a transport exactly
    once; once the upgrade is done the discarded transport holds nothing (none stranded) and
    every returned packet is with the current transport; the upgrade and the senders only wait
    for each other while a sender is held inside transport.Send. *)
Fixpoint oracle_steps (steps : list (wop * wobs)) : bool :=
  match steps with
  | [] => true
  | (_, (sts, up, oq, ns)) :: rest =>
      let held_any := existsb (fun s => match s with WHeld => true | _ => false end) sts in
      nodupb (oq ++ ns)
      && subset (returned_ids sts) (oq ++ ns)
      && (negb (N.eqb up 2) || (is_nil oq && subset (returned_ids sts) ns))
      && (held_any || (negb (N.eqb up 1) && negb (existsb (fun s => match s with WBlk => true | _ => false end) sts)))
      && oracle_steps rest
  end.

Definition oracle (c : wcase) : bool := oracle_steps (snd c).

(** Constructor-style builders for the generated literals. *)
Definition WO (sts : list wst) (up : N) (oq ns : list N) : wobs := (sts, up, oq, ns).
Definition WS (o : wop) (ob : wobs) : wop * wobs := (o, ob).
Definition WC (n : nat) (l : list (wop * wobs)) : wcase := (n, l).
Arguments WO sts up%N oq ns.
