(** Eio/PollQueueSwap.v - the engine.io server socket's send path across a transport swap
    (engine.io/server_socket.go: Send, upgradeTo), as a concurrent transition system.

    The two queue models (Eio/PollQueue.v, Sio/PacketQueue.v) cover the wake-up protocol of one
    queue.  The property's send path also decides WHICH transport's queue a packet goes to, and
    the transport changes under the senders' feet when the connection is upgraded:

    Go code                                                model
    -----------------------------------------------------  -----------------------------------
    Send: transportMu.RLock()                              [WAcquire i p]  needs no writer; reads
          t := s.transport                                                 the current transport
          t.Send(p)        (polling: pollQueue.add)        [WAdd i]        append to t's queue
          transportMu.RUnlock()                            [WRelease i]
    upgradeTo: transportMu.Lock()                          [UAcquire]      needs no reader, no writer
          old := s.transport; s.transport = new            [USwap]
          old.Discard(); for p in old.QueuedPackets():     [UDrain]        old queue -> new transport,
              new.Send(p)                                                  old queue emptied
          transportMu.Unlock()                             [URelease]
    the peer / poll request taking what transport t holds  [WTake t]

    Transports are numbered 0, 1, 2, ... in the order they become current; any number of senders
    (numbered), any number of successive upgrades.  The parameter [locked] selects the code as it
    is ([true]: Send holds the read lock across the write) or the variant that releases the lock
    right after reading the transport ([false]: `s.Transport().Send(p)`), kept for the refutation. *)
From Coq Require Import List NArith Bool Arith.
From SioV Require Import Base.Conc.
Import ListNotations.

Definition pkt := N.

Inductive spc :=
| SIdle
| SHave (t : nat) (p : pkt)     (* picked transport t, packet not yet in its queue *)
| SAdded.                       (* packet is in the queue, read lock not yet released *)

Inductive upc := UIdle | ULocked | USwapped (old : nat) | UDrained.

Record wstate := mkW {
  w_cur : nat;                  (* s.transport *)
  w_queue : nat -> list pkt;    (* what each transport holds for its peer *)
  w_wr : bool;                  (* transportMu write-locked *)
  w_holders : list nat;         (* senders holding the read lock *)
  w_spc : nat -> spc;
  w_upc : upc;
  w_taken : list (nat * list pkt)   (* ghost: what the peers took, oldest first *)
}.

Definition winit : wstate := mkW 0 (fun _ => []) false [] (fun _ => SIdle) UIdle [].

Inductive wlabel :=
| WAcquire (i : nat) (p : pkt) | WAdd (i : nat) | WRelease (i : nat)
| UAcquire | USwap | UDrain | URelease
| WTake (t : nat).

Definition drop_holder (i : nat) (l : list nat) : list nat := filter (fun x => negb (Nat.eqb i x)) l.

Definition is_nil {A} (l : list A) : bool := match l with [] => true | _ => false end.

Definition wstep (locked : bool) (l : wlabel) (s : wstate) : option wstate :=
  match l with
  | WAcquire i p =>
      match w_spc s i with
      | SIdle =>
          if w_wr s then None
          else Some (mkW (w_cur s) (w_queue s) false
                         (if locked then i :: w_holders s else w_holders s)
                         (upd (w_spc s) i (SHave (w_cur s) p)) (w_upc s) (w_taken s))
      | _ => None
      end
  | WAdd i =>
      match w_spc s i with
      | SHave t p =>
          Some (mkW (w_cur s) (upd (w_queue s) t (w_queue s t ++ [p])) (w_wr s) (w_holders s)
                    (upd (w_spc s) i SAdded) (w_upc s) (w_taken s))
      | _ => None
      end
  | WRelease i =>
      match w_spc s i with
      | SAdded =>
          Some (mkW (w_cur s) (w_queue s) (w_wr s) (drop_holder i (w_holders s))
                    (upd (w_spc s) i SIdle) (w_upc s) (w_taken s))
      | _ => None
      end
  | UAcquire =>
      match w_upc s with
      | UIdle =>
          if w_wr s then None
          else if is_nil (w_holders s)
          then Some (mkW (w_cur s) (w_queue s) true [] (w_spc s) ULocked (w_taken s))
          else None
      | _ => None
      end
  | USwap =>
      match w_upc s with
      | ULocked => Some (mkW (S (w_cur s)) (w_queue s) (w_wr s) (w_holders s) (w_spc s)
                             (USwapped (w_cur s)) (w_taken s))
      | _ => None
      end
  | UDrain =>
      match w_upc s with
      | USwapped old =>
          Some (mkW (w_cur s)
                    (upd (upd (w_queue s) (w_cur s) (w_queue s (w_cur s) ++ w_queue s old)) old [])
                    (w_wr s) (w_holders s) (w_spc s) UDrained (w_taken s))
      | _ => None
      end
  | URelease =>
      match w_upc s with
      | UDrained => Some (mkW (w_cur s) (w_queue s) false (w_holders s) (w_spc s) UIdle (w_taken s))
      | _ => None
      end
  | WTake t =>
      Some (mkW (w_cur s) (upd (w_queue s) t []) (w_wr s) (w_holders s) (w_spc s) (w_upc s)
                (w_taken s ++ [(t, w_queue s t)]))
  end.

Definition wreachable (locked : bool) : wstate -> Prop :=
  reachable (wstep locked) (fun s => s = winit).

(** Transport [t] has been discarded: it is no longer current and its drain is over. *)
Definition discarded (s : wstate) (t : nat) : Prop :=
  t <> w_cur s /\ w_upc s <> USwapped t.
