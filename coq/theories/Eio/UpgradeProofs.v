(** Proofs about the upgrade model Eio/Upgrade.v: the invariant of Eio/UpgradeInv.v is inductive
    (one lemma per label, in the UpgradeInv_*.v files), hence holds in every reachable state, for
    ALL schedules; at quiescence it gives exactly-once delivery in both directions. *)
From SioV Require Import Base.GoSem Base.Conc Eio.Upgrade Eio.UpgradeInv.
From SioV Require Import Eio.UpgradeInv_SSend Eio.UpgradeInv_CSend Eio.UpgradeInv_CPollStart
  Eio.UpgradeInv_GetArrive Eio.UpgradeInv_GetRoute Eio.UpgradeInv_GetFirst Eio.UpgradeInv_GetWake
  Eio.UpgradeInv_RespDeliver Eio.UpgradeInv_PostOk Eio.UpgradeInv_CDial Eio.UpgradeInv_SAccept
  Eio.UpgradeInv_CDialOk Eio.UpgradeInv_CDialFail Eio.UpgradeInv_SRecvWs Eio.UpgradeInv_CRecvWs
  Eio.UpgradeInv_CSwap Eio.UpgradeInv_SNoopGo Eio.UpgradeInv_SDiscGo Eio.UpgradeInv_STimerFire
  Eio.UpgradeInv_CTimerFire Eio.UpgradeInv_CTimerClose Eio.UpgradeInv_Refuse Eio.UpgradeInv_Stall
  Eio.UpgradeInv_Cut Eio.UpgradeInv_SSeeCut Eio.UpgradeInv_CSeeCut Eio.UpgradeInv_SOldClose
  Eio.UpgradeInv_COldClose Eio.UpgradeInv_PostDeliver Eio.UpgradeInv_STimerClose_CNone
  Eio.UpgradeInv_STimerClose_CWait Eio.UpgradeInv_STimerClose_CProbed Eio.UpgradeInv_STimerClose_CUp
  Eio.UpgradeInv_STimerClose_CDead.
From Coq Require Import Lia.

(** ** Superseded close *)

Lemma s_old_close_ignored st : s_ws st = true -> s_on_transport_close false st = st.
Proof. unfold s_on_transport_close. intros ->. destruct (s_closed st); reflexivity. Qed.

Lemma c_old_close_ignored st : c_ws st = true -> c_on_transport_close false st = st.
Proof. unfold c_on_transport_close. intros ->. destruct (c_closed st); reflexivity. Qed.

Lemma superseded_close_ignored st st' :
  (step SOldClose st = Some st' \/ step COldClose st = Some st') -> st' = st.
Proof.
  simpl. intros [H|H].
  - destruct (s_ws st) eqn:E; [|discriminate]. injection H as <-. now apply s_old_close_ignored.
  - destruct (c_ws st) eqn:E; [|discriminate]. injection H as <-. now apply c_old_close_ignored.
Qed.

(** ** The commit window: witnesses *)

Definition sched_commit_cut : list label :=
  [CPollStart; GetArrive; GetRoute; GetFirst; CDial; SAccept; CDialOk; SRecvWs; SNoopGo; GetWake;
   RespDeliver; CRecvWs; CSwap; Cut; SSend; CSend].

Definition sched_timer_race : list label :=
  [CPollStart; GetArrive; GetRoute; GetFirst; CDial; SAccept; CDialOk; SRecvWs; SNoopGo; GetWake;
   RespDeliver; CRecvWs; CSwap; STimerFire; SRecvWs; STimerClose; SSend].

(** ** The invariant is inductive *)

Lemma inv_STimerClose n st st' : inv n st -> step STimerClose st = Some st' -> inv n st'.
Proof.
  intros I H. destruct (s_cand st) eqn:E.
  - exact (inv_STimerClose_CNone n st st' E I H).
  - exact (inv_STimerClose_CWait n st st' E I H).
  - exact (inv_STimerClose_CProbed n st st' E I H).
  - exact (inv_STimerClose_CUp n st st' E I H).
  - exact (inv_STimerClose_CDead n st st' E I H).
Qed.

Lemma step_inv n l st st' : inv n st -> step l st = Some st' -> inv n st'.
Proof.
  intros I H. destruct l.
  - exact (inv_SSend n st st' I H).
  - exact (inv_CSend n st st' I H).
  - exact (inv_CPollStart n st st' I H).
  - exact (inv_GetArrive n st st' I H).
  - exact (inv_GetRoute n st st' I H).
  - exact (inv_GetFirst n st st' I H).
  - exact (inv_GetWake n st st' I H).
  - exact (inv_RespDeliver n st st' I H).
  - exact (inv_PostDeliver n i st st' I H).
  - exact (inv_PostOk n st st' I H).
  - exact (inv_CDial n st st' I H).
  - exact (inv_SAccept n st st' I H).
  - exact (inv_CDialOk n st st' I H).
  - exact (inv_CDialFail n st st' I H).
  - exact (inv_SRecvWs n st st' I H).
  - exact (inv_CRecvWs n st st' I H).
  - exact (inv_CSwap n st st' I H).
  - exact (inv_SNoopGo n st st' I H).
  - exact (inv_SDiscGo n st st' I H).
  - exact (inv_STimerFire n st st' I H).
  - exact (inv_STimerClose n st st' I H).
  - exact (inv_CTimerFire n st st' I H).
  - exact (inv_CTimerClose n st st' I H).
  - exact (inv_Refuse n st st' I H).
  - exact (inv_Stall n st st' I H).
  - exact (inv_Cut n st st' I H).
  - exact (inv_SSeeCut n st st' I H).
  - exact (inv_CSeeCut n st st' I H).
  - exact (inv_SOldClose n st st' I H).
  - exact (inv_COldClose n st st' I H).
Qed.

Definition is_init (st : state) : Prop := st = init.
Definition reach := reachable step is_init.

Lemma reach_inv st : reach st -> forall n, inv n st.
Proof.
  intros R n. revert st R. apply invariant_reachable. split.
  - intros s ->. apply inv_init.
  - intros s t s' I H. eapply step_inv; eauto.
Qed.

Lemma run_exec sched st : run sched st = exec step sched st.
Proof. reflexivity. Qed.

Lemma reach_run sched : reach (run sched init).
Proof. rewrite run_exec. apply reachable_exec. now apply reach_init. Qed.

(** ** Quiescence *)

Lemma quiescent_disabled st l : quiescentb st = true -> In l internal_fixed -> step l st = None.
Proof.
  unfold quiescentb. rewrite forallb_forall. intros H I. specialize (H l I).
  unfold enabledb in H. destruct (step l st); [discriminate | reflexivity].
Qed.

(** [quiescentb] is exactly "no internal label is enabled" (every [PostDeliver i] included). *)
Lemma quiescent_no_internal st :
  quiescentb st = true ->
  (forall l, In l internal_fixed -> step l st = None) /\ (forall i, step (PostDeliver i) st = None).
Proof.
  intros Hq. split; [intros l; now apply quiescent_disabled|].
  intros i. assert (D : step (PostDeliver 0) st = None) by (apply (quiescent_disabled st _ Hq); cbn; tauto).
  cbn in *. destruct (k_posts st); [now destruct i | discriminate].
Qed.

Ltac dis st Hq l :=
  let H := fresh "D" in
  assert (H : step l st = None) by (apply (quiescent_disabled st l Hq); cbn; tauto).

Lemma quiescent_counts n st :
  inv n st -> broke st = false -> quiescentb st = true ->
  cntN n (c_recv st) = sent_ind n (s_sent st) /\ cntN n (s_recv st) = sent_ind n (c_sent st).
Proof.
  intros I B Hq.
  dis st Hq CPollStart. dis st Hq GetArrive. dis st Hq GetRoute. dis st Hq GetFirst. dis st Hq GetWake.
  dis st Hq RespDeliver. dis st Hq (PostDeliver 0). dis st Hq PostOk. dis st Hq SRecvWs. dis st Hq CRecvWs.
  dis st Hq CSwap. dis st Hq CTimerFire. dis st Hq CTimerClose.
  clear Hq.
  destruct st; cbn in *. subst broke.
  assert (Hposts : k_posts = []) by (destruct k_posts; [reflexivity | discriminate]).
  subst k_posts.
  assert (Hoks : k_oks = 0) by (destruct k_oks; [reflexivity | discriminate]).
  subst k_oks.
  destruct I as [i_sc i_cup i_exit i_rl i_wsrl i_tok i_park i_woke i_bad i_up1 i_up2 i_lexit i_open i_cand i_upg i_noupg i_pong i_pre i_closed i_paused i_ptm i_sw i_idle i_pre2 i_shape i_upg2 b_sc b_cs b_pq b_s2c b_c2s].
  cbn in *. unfold c_committed in *. cbn in *.
  specialize (b_s2c eq_refl). specialize (b_c2s eq_refl).
  (* no response in flight *)
  assert (Hresp : k_resp = RNone).
  { destruct k_resp as [|l|]; [reflexivity| |];
      (destruct c_loop; cbn in *; try lia; try (destruct l; discriminate); try discriminate). }
  subst k_resp. cbn in *. rewrite cnt_nil in b_s2c.
  destruct s_ws.
  - (* both on the websocket *)
    specialize (i_sc eq_refl). subst c_ws.
    destruct i_cup as [i_cup _]. specialize (i_cup eq_refl). subst c_cand.
    specialize (i_open eq_refl eq_refl). subst k_ws.
    specialize (b_pq eq_refl).
    destruct (i_up2 eq_refl) as [-> | ?]; [|discriminate].
    assert (k_sc = []) by (destruct k_sc; [reflexivity | discriminate]).
    assert (k_cs = []) by (destruct k_cs; [reflexivity | discriminate]).
    subst. rewrite cnt_nil in *. split; lia.
  - (* both on long-polling *)
    assert (Hc : c_ws = false).
    { destruct c_ws; [|reflexivity]. exfalso.
      destruct i_cup as [i_cup _]. specialize (i_cup eq_refl). subst c_cand.
      specialize (i_open eq_refl eq_refl). subst k_ws.
      specialize (i_upg eq_refl eq_refl eq_refl).
      destruct (i_cand eq_refl eq_refl eq_refl) as [-> | ->];
        (destruct k_cs as [|[] ?]; cbn in *; try discriminate). }
    subst c_ws. specialize (b_sc eq_refl). specialize (b_cs eq_refl).
    assert (Hex : c_exit = false) by (destruct c_exit; [destruct i_exit as [i_exit _]; now specialize (i_exit eq_refl) | reflexivity]).
    subst c_exit.
    (* polling is not paused: a probe in progress has its timer running, a client waiting for
       the write lock can take it *)
    assert (Hpa : c_paused = false).
    { destruct c_paused; [|reflexivity]. exfalso.
      destruct (i_paused eq_refl) as [-> | ->].
      - specialize (i_ptm eq_refl). destruct c_tm; cbn in *; try discriminate. now apply i_ptm.
      - cbn in *. subst c_rl. cbn in *. discriminate. }
    subst c_paused.
    assert (Hpq : s_pq = []).
    { destruct c_loop; cbn in *; try discriminate.
      - destruct k_req; cbn in *.
        + destruct s_get; cbn in *; try discriminate; lia.
        + destruct s_get; cbn in *; try discriminate; try lia. now apply i_park.
      - now specialize (i_lexit eq_refl). }
    subst s_pq. rewrite cnt_nil in *. split; lia.
Qed.


Lemma quiescent_same st :
  inv 0%N st -> broke st = false -> quiescentb st = true -> c_ws st = s_ws st.
Proof.
  intros I0 B Hq.
  dis st Hq SRecvWs.
  clear Hq.
  destruct st; cbn in *. subst broke.
  destruct I0 as [i_sc i_cup i_exit i_rl i_wsrl i_tok i_park i_woke i_bad i_up1 i_up2 i_lexit i_open i_cand i_upg i_noupg i_pong i_pre i_closed i_paused i_ptm i_sw i_idle i_pre2 i_shape i_upg2 b_sc b_cs b_pq b_s2c b_c2s].
  cbn in *. unfold c_committed in *. cbn in *.
  destruct c_ws, s_ws; try reflexivity.
  - exfalso. destruct i_cup as [i_cup _]. specialize (i_cup eq_refl). subst c_cand.
    specialize (i_open eq_refl eq_refl). subst k_ws.
    specialize (i_upg eq_refl eq_refl eq_refl).
    destruct (i_cand eq_refl eq_refl eq_refl) as [-> | ->];
      (destruct k_cs as [|[] ?]; cbn in *; try discriminate).
  - specialize (i_sc eq_refl). discriminate.
Qed.

Theorem exactly_once_at_quiescence sched :
  let st := run sched init in
  broke st = false -> quiescentb st = true ->
  delivered_exactly_once st /\ c_closed st = false /\ s_closed st = false /\ c_ws st = s_ws st.
Proof.
  intros st B Hq. pose proof (reach_inv st (reach_run sched)) as I.
  assert (Hc : forall n, cntN n (c_recv st) = sent_ind n (s_sent st) /\ cntN n (s_recv st) = sent_ind n (c_sent st))
    by (intros n; now apply quiescent_counts).
  pose proof (quiescent_same st (I 0%N) B Hq) as Hs.
  destruct (i_closed _ _ (I 0%N) B) as [C1 C2].
  repeat split; try assumption; apply Hc.
Qed.

(** A refused / stalled / cut / timed-out attempt that did not hit the commit window leaves both
    sides on long-polling with the socket open - in every reachable state, whatever the schedule. *)
Theorem failed_upgrade_keeps_transport sched :
  let st := run sched init in
  broke st = false ->
  (k_ws st = WRefused \/ k_ws st = WStalled \/ k_ws st = WCut) ->
  c_ws st = false /\ s_ws st = false /\ c_closed st = false /\ s_closed st = false.
Proof.
  intros st B W. pose proof (reach_inv st (reach_run sched) 0%N) as I.
  destruct (i_closed _ _ I B) as [C1 C2].
  assert (Hc : c_ws st = false).
  { destruct (c_ws st) eqn:E; [|reflexivity]. exfalso.
    pose proof (proj1 (i_cup _ _ I) E) as K.
    assert (O : k_ws st = WOpen) by (apply (i_open _ _ I); [unfold c_committed; now rewrite K | exact B]).
    rewrite O in W. destruct W as [W|[W|W]]; discriminate. }
  assert (Hs : s_ws st = false).
  { destruct (s_ws st) eqn:E; [|reflexivity]. rewrite (i_sc _ _ I E) in Hc. discriminate. }
  auto.
Qed.

(** The repaired client: once it has swapped, no long-polling request is in flight any more (and
    none is issued again), so long-polling never delivers anything after - or in between - what
    the websocket delivers. *)
Theorem no_poll_in_flight_after_swap sched :
  let st := run sched init in
  c_ws st = true -> c_loop st <> LFlight /\ k_req st = false /\ k_resp st = RNone.
Proof.
  intros st W. pose proof (reach_inv st (reach_run sched) 0%N) as I.
  pose proof (proj1 (i_cup _ _ I) W) as K.
  assert (L : c_loop st <> LFlight) by (apply (i_idle _ _ I); unfold c_committed; now rewrite K).
  pose proof (i_tok _ _ I) as T.
  destruct (c_loop st); try congruence; cbn in T;
    (destruct (k_req st); destruct (k_resp st); cbn in T; try lia; repeat split; congruence).
Qed.

(** The client holds its transport write lock across swap + Discard + UPGRADE ([CSwap] is one step and
    every [CSend] is before or after it), so - for every schedule and any number of concurrent
    senders - what is in flight to a server that has not upgraded yet is: probe PINGs, then UPGRADE,
    and only behind it application messages.  The server's "invalid packet on a candidate" branch
    (close the new transport, lose what follows) is therefore never taken with this client. *)
Theorem candidate_gets_only_probe_packets sched :
  let st := run sched init in
  s_ws st = false ->
  pre_ok (k_cs st) = true /\ match k_cs st with [] => True | p :: _ => p = Ping \/ p = Upg end.
Proof.
  intros st W. pose proof (i_shape _ _ (reach_inv st (reach_run sched) 0%N) W) as P.
  split; [exact P|]. destruct (k_cs st) as [|[] l]; simpl in *; auto; discriminate.
Qed.
