(** Proofs about the upgrade model Eio/Upgrade.v. *)
From SioV Require Import Base.GoSem Base.Conc Eio.Upgrade.

(** ** Superseded close *)

Lemma s_old_close_ignored st : s_ws st = true -> s_on_transport_close false st = st.
Proof. unfold s_on_transport_close. intros ->. destruct (s_closed st); reflexivity. Qed.

Lemma c_old_close_ignored st : c_ws st = true -> c_on_transport_close false st = st.
Proof. unfold c_on_transport_close. intros ->. destruct (c_closed st); reflexivity. Qed.

Lemma superseded_close_ignored st st' :
  (step SOldClose st = Some st' \/ step COldClose st = Some st') -> st' = st.
Proof.
  simpl. intros [H|H].
  - destruct (s_ws st) eqn:E; [|discriminate]. injection H as <-. now apply s_old_close_ignored.
  - destruct (c_ws st) eqn:E; [|discriminate]. injection H as <-. now apply c_old_close_ignored.
Qed.

(** ** The commit window: witnesses *)

Definition sched_commit_cut : list label :=
  [CPollStart; GetArrive; GetRoute; GetFirst; CDial; SAccept; CDialOk; SRecvWs; CRecvWs; CSwap;
   Cut; SSend; CSend].

Definition sched_timer_race : list label :=
  [CPollStart; GetArrive; GetRoute; GetFirst; CDial; SAccept; CDialOk; SRecvWs; CRecvWs; CSwap;
   STimerFire; SRecvWs; STimerClose; SSend].
