(** Proofs about the Engine.IO request decision, store and Close (C17). *)
From SioV Require Import Base.GoSem Eio.Handshake Eio.HandshakeIdProofs.

Lemma serve_closed : forall rnd st rq, s_closed st = true -> serve rnd st rq = (RClosed, st).
Proof. intros rnd st rq H. unfold serve. now rewrite H. Qed.

(* ------------------------------------------------------------------ the store *)
Definition wf (st : sstate) : Prop := NoDup (sids (s_store st)).

Lemma store_get_none sid st : store_get sid st = None <-> ~ In sid (sids st).
Proof.
  induction st as [|[k v] r IH]; simpl; [tauto|].
  destruct (bytes_eqb k sid) eqn:E.
  - apply bytes_eqb_eq in E. subst. split; [discriminate | intros H; exfalso; apply H; now left].
  - apply bytes_eqb_neq in E. rewrite IH. tauto.
Qed.

Lemma store_exists_false sid st : store_exists sid st = false <-> ~ In sid (sids st).
Proof.
  unfold store_exists. rewrite <- store_get_none. destruct (store_get sid st); split; congruence.
Qed.

Lemma generate_sid_fresh rnd st : forall tries q sid q',
  generate_sid rnd st q tries = (Some sid, q') -> store_exists sid st = false.
Proof.
  induction tries as [|k IH]; intros q sid q' H; simpl in H; [discriminate|].
  destruct (store_exists (generate_id q (rnd q)) st) eqn:E.
  - eapply IH, H.
  - injection H as <- _. exact E.
Qed.

Lemma sids_app a b : sids (a ++ b) = sids a ++ sids b.
Proof. apply map_app. Qed.

Lemma store_delete_absent sid st : ~ In sid (sids st) -> store_delete sid st = st.
Proof.
  induction st as [|[k v] r IH]; simpl; intros H; [reflexivity|].
  destruct (bytes_eqb k sid) eqn:E.
  - apply bytes_eqb_eq in E. subst. exfalso. apply H. now left.
  - simpl. f_equal. apply IH. tauto.
Qed.

Lemma NoDup_app_one {A} (l : list A) x : NoDup l -> ~ In x l -> NoDup (l ++ [x]).
Proof.
  induction l as [|y l IH]; simpl; intros N H.
  - constructor; [intros []|constructor].
  - apply NoDup_cons_iff in N as [Ny N]. apply NoDup_cons_iff. split.
    + rewrite in_app_iff. simpl. intros [I|[E|[]]]; [contradiction|]. apply H. now left.
    + apply IH; [exact N|]. intros I. apply H. now right.
Qed.


Definition is_open (r : response) : bool := match r with ROpen _ _ => true | _ => false end.

(** the session an answer announces / implies *)
Definition creates (r : response) : option (bytes * tkind) :=
  match r with
  | ROpen sid k => Some (sid, k)
  | ROpenVia sid _ => Some (sid, Polling)
  | _ => None
  end.

(* ------------------------------------------------------------------ the decision *)

Lemma new_socket_effect st sid k a r st' :
  s_closed st = false -> store_exists sid (s_store st) = false ->
  new_socket st sid k a = (r, st') ->
  r = a /\ s_closed st' = false /\ s_seq st' = s_seq st /\ s_store st' = s_store st ++ [(sid, k)].
Proof.
  intros C E H. unfold new_socket, store_set in H. rewrite E in H. cbn in H. rewrite C in H.
  injection H as <- <-. cbn. auto.
Qed.

Arguments generate_sid : simpl never.
Arguments new_socket : simpl never.
Arguments eio_is4 : simpl never.

(** What a request can do to the server: nothing, except that an accepted handshake adds exactly
    one session, under an id no live session has (the sequence counter may advance).  Over
    HTTP/1.x and HTTP/2 such a handshake is a GET with protocol version 4 answered with the OPEN
    packet; over HTTP/3 the code checks neither (see C17_http3_* in Props/C17.v). *)
Lemma serve_effect : forall rnd st rq r st',
  serve rnd st rq = (r, st') ->
  s_closed st' = s_closed st /\
  ((creates r = None /\ s_store st' = s_store st)
   \/ exists sid k, creates r = Some (sid, k) /\ r_sid rq = [] /\ r_auth rq = true
        /\ (is_p3 (r_proto rq) = false -> r = ROpen sid k /\ r_meth rq = GET /\ eio_is4 (r_eio rq) = true)
        /\ ~ In sid (sids (s_store st)) /\ s_store st' = s_store st ++ [(sid, k)]).
Proof.
  intros rnd st rq r st' H. unfold serve in H.
  destruct (s_closed st) eqn:C; [injection H as <- <-; rewrite C; auto|].
  destruct (negb (is_p3 (r_proto rq)) && negb (eio_is4 (r_eio rq))) eqn:V; [injection H as <- <-; auto|].
  assert (V' : is_p3 (r_proto rq) = false -> eio_is4 (r_eio rq) = true).
  { intros P. rewrite P in V. cbn in V. now destruct (eio_is4 (r_eio rq)). }
  destruct (r_sid rq) as [|c sid'] eqn:S.
  - unfold handshake in H.
    destruct (negb (is_get (r_meth rq)) && negb (is_p3 (r_proto rq))) eqn:M; [injection H as <- <-; rewrite C; now auto|].
    assert (M' : is_p3 (r_proto rq) = false -> r_meth rq = GET).
    { intros P. rewrite P in M. cbn in M. destruct (r_meth rq); try discriminate; reflexivity. }
    destruct (is_connect (r_meth rq) && is_p3 (r_proto rq) && is_nil (r_tr rq)); [injection H as <- <-; rewrite C; now auto|].
    destruct (r_auth rq) eqn:A; cbn [negb] in H; [|injection H as <- <-; rewrite C; now auto].
    destruct (generate_sid rnd (s_store st) (s_seq st) 11) as [[sid|] q] eqn:G;
      [|injection H as <- <-; cbn; rewrite C; now auto].
    pose proof (generate_sid_fresh _ _ _ _ _ _ G) as F.
    assert (C1 : s_closed (set_seq st q) = false) by exact C.
    destruct (bytes_eqb (r_tr rq) s_polling).
    { apply new_socket_effect in H as (-> & C' & _ & St); [|exact C1|exact F].
      rewrite C'. split; [reflexivity|]. right. exists sid, Polling. split; [destruct (is_get (r_meth rq)); reflexivity|].
      repeat split; try assumption.
      - rewrite (M' H). reflexivity.
      - now apply M'.
      - now apply V'.
      - now apply store_exists_false. }
    destruct (bytes_eqb (r_tr rq) s_websocket); [|injection H as <- <-; cbn; rewrite C; now auto].
    destruct (r_wsup rq); [|injection H as <- <-; cbn; rewrite C; now auto].
    apply new_socket_effect in H as (-> & C' & _ & St); [|exact C1|exact F].
    rewrite C'. split; [reflexivity|]. right. exists sid, Websocket. repeat split; try assumption; auto.
    now apply store_exists_false.
  - destruct (store_get (c :: sid') (s_store st)) as [k|]; [|injection H as <- <-; auto].
    destruct (negb (is_get_or_post (r_meth rq)) && negb (is_p3 (r_proto rq))); [injection H as <- <-; auto|].
    destruct (bytes_eqb (tname k) (r_tr rq)); cbn [negb] in H; injection H as <- <-; split; auto; left; split; auto.
    + destruct k, (r_meth rq); reflexivity.
    + unfold maybe_upgrade. destruct (bytes_eqb (r_tr rq) s_websocket); [destruct (r_wsup rq); reflexivity|].
      destruct (bytes_eqb (r_tr rq) s_webtransport); reflexivity.
Qed.

Lemma serve_wf rnd st rq r st' : wf st -> serve rnd st rq = (r, st') -> wf st'.
Proof.
  intros W H. apply serve_effect in H as [_ [[_ E]|(sid & k & _ & _ & _ & _ & F & E)]]; unfold wf in *; rewrite E; [exact W|].
  rewrite sids_app. simpl. apply NoDup_app_one; assumption.
Qed.

(* ------------------------------------------------------------------ invalid requests *)
Lemma in_defects st rq d : In d (defects st rq) <-> has_defect st rq d = true.
Proof.
  unfold defects. rewrite filter_In. split; [tauto|]. intros H. split; [|exact H].
  destruct d; simpl; tauto.
Qed.

Lemma no_defects st rq : (forall d, has_defect st rq d = false) -> defects st rq = [].
Proof.
  intros H. unfold defects, all_defects. cbn [filter]. now rewrite !H.
Qed.

(** Sid generation gives up only when 11 consecutive proposals are all ids of live sessions. *)
Definition gen_ok (rnd : N -> bytes) (st : sstate) : Prop :=
  fst (generate_sid rnd (s_store st) (s_seq st) 11) <> None.

Lemma wt_connect_not_p3 rq : is_p3 (r_proto rq) = false -> wt_connect rq = false.
Proof. intros P. unfold wt_connect. now rewrite P. Qed.

Ltac defect d := exists d; split; [apply in_defects; unfold has_defect | ].

(** Requests over HTTP/1.x and HTTP/2. *)
Lemma invalid_is_error_and_pure : forall rnd st rq,
  is_p3 (r_proto rq) = false ->
  s_closed st = false -> r_auth rq = true -> gen_ok rnd st ->
  defects st rq <> [] ->
  exists d, In d (defects st rq)
    /\ fst (serve rnd st rq) = RErr (code_of d)
    /\ s_store (snd (serve rnd st rq)) = s_store st
    /\ s_closed (snd (serve rnd st rq)) = false.
Proof.
  intros rnd st rq P C A G ND. pose proof (wt_connect_not_p3 rq P) as W.
  unfold serve. rewrite C, P. cbn [is_p3 negb andb].
  destruct (eio_is4 (r_eio rq)) eqn:V; cbn [negb].
  2:{ defect BadVersion; [now rewrite V, W | cbn; auto]. }
  destruct (r_sid rq) as [|c sid'] eqn:S.
  - unfold handshake. rewrite P. cbn [negb andb]. rewrite andb_true_r, andb_false_r. cbn [andb].
    destruct (is_get (r_meth rq)) eqn:M; cbn [negb].
    2:{ defect BadMethod; [now rewrite S, M, W | cbn; auto]. }
    rewrite A. cbn [negb]. unfold gen_ok in G.
    destruct (generate_sid rnd (s_store st) (s_seq st) 11) as [[sid|] q] eqn:E; [|now contradiction G].
    destruct (bytes_eqb (r_tr rq) s_polling) eqn:T1.
    { exfalso. apply ND, no_defects. intros []; unfold has_defect; rewrite ?V, ?S, ?M, ?T1, ?W; reflexivity. }
    destruct (bytes_eqb (r_tr rq) s_websocket) eqn:T2.
    { exfalso. apply ND, no_defects. intros []; unfold has_defect; rewrite ?V, ?S, ?M, ?T1, ?T2, ?W; reflexivity. }
    defect UnknownTransport; [now rewrite S, T1, T2 | cbn; auto].
  - destruct (store_get (c :: sid') (s_store st)) as [k|] eqn:L.
    2:{ defect UnknownSid; [now rewrite S, L | cbn; auto]. }
    rewrite andb_true_r.
    destruct (is_get_or_post (r_meth rq)) eqn:M; cbn [negb].
    2:{ defect BadMethod; [now rewrite S, L, M | cbn; auto]. }
    destruct (bytes_eqb (tname k) (r_tr rq)) eqn:T; cbn [negb].
    { exfalso. apply ND, no_defects. intros []; unfold has_defect; rewrite ?V, ?S, ?L, ?M, ?T, ?W; reflexivity. }
    unfold maybe_upgrade.
    destruct (bytes_eqb (r_tr rq) s_websocket) eqn:T1.
    { exfalso. apply ND, no_defects. intros []; unfold has_defect; rewrite ?V, ?S, ?L, ?M, ?T, ?T1, ?W; reflexivity. }
    destruct (bytes_eqb (r_tr rq) s_webtransport) eqn:T2.
    { exfalso. apply ND, no_defects. intros []; unfold has_defect; rewrite ?V, ?S, ?L, ?M, ?T, ?T1, ?T2, ?W; reflexivity. }
    defect BadSessionTransport; [now rewrite S, L, T, T1, T2 | cbn; auto].
Qed.

(** A request with exactly one defect gets exactly that defect's code. *)
Corollary single_defect_code : forall rnd st rq d,
  is_p3 (r_proto rq) = false ->
  s_closed st = false -> r_auth rq = true -> gen_ok rnd st ->
  defects st rq = [d] -> fst (serve rnd st rq) = RErr (code_of d).
Proof.
  intros rnd st rq d P C A G D.
  destruct (invalid_is_error_and_pure rnd st rq P C A G) as (d' & I & R & _); [rewrite D; discriminate|].
  rewrite D in I. destruct I as [<-|[]]. exact R.
Qed.

(** A refused authentication creates nothing either. *)
Lemma forbidden_pure : forall rnd st rq r st',
  r_auth rq = false -> serve rnd st rq = (r, st') -> creates r = None /\ s_store st' = s_store st.
Proof.
  intros rnd st rq r st' A H. apply serve_effect in H as [_ [[O E]|(sid & k & _ & _ & A' & _)]]; [auto|congruence].
Qed.

(* ------------------------------------------------------------------ accepted handshakes *)
Lemma valid_handshake_fresh : forall rnd st rq r sid k st',
  serve rnd st rq = (r, st') -> creates r = Some (sid, k) ->
  ~ In sid (sids (s_store st)) /\ s_store st' = s_store st ++ [(sid, k)] /\ (wf st -> wf st').
Proof.
  intros rnd st rq r sid k st' H Cr. pose proof H as H0.
  apply serve_effect in H as [_ [[O _]|(sid' & k' & E & _ & _ & _ & F & St)]]; [congruence|].
  rewrite Cr in E. injection E as <- <-. repeat split; try assumption. intros W. eapply serve_wf; eassumption.
Qed.

(** No session is created by a request with an unsupported version or a wrong method that
    arrives over HTTP/1.x or HTTP/2 (whatever else the request says). *)
Lemma creation_needs_valid_request : forall rnd st rq r st' sid k,
  is_p3 (r_proto rq) = false ->
  serve rnd st rq = (r, st') -> creates r = Some (sid, k) ->
  eio_is4 (r_eio rq) = true /\ r_meth rq = GET /\ r_sid rq = [] /\ r_auth rq = true.
Proof.
  intros rnd st rq r st' sid k P H Cr.
  apply serve_effect in H as [_ [[O _]|(sid' & k' & _ & S & A & V & _)]]; [congruence|].
  destruct (V P) as (_ & M & E). auto.
Qed.

(* ------------------------------------------------------------------ HTTP/3 *)
(** The code skips the version check and the method checks for EVERY request with
    [r.ProtoMajor = 3], not only for the WebTransport session request: over HTTP/3 a polling
    handshake with protocol version 3, or with POST, is accepted and creates a session. *)
Definition h3_bad_version : request := mkReq P3 GET [51]%N s_polling [] false true.
Definition h3_bad_method : request := mkReq P3 POST [52]%N s_polling [] false true.

Lemma http3_refuted :
  let st := mkState false [] 0 in
  let rnd := fun _ : N => repeat 7%N 12 in
  defects st h3_bad_version = [BadVersion] /\ creates (fst (serve rnd st h3_bad_version)) <> None
  /\ defects st h3_bad_method = [BadMethod] /\ creates (fst (serve rnd st h3_bad_method)) <> None.
Proof. vm_compute. repeat split; discriminate. Qed.

(* ------------------------------------------------------------------ Close *)
Lemma filter_filter {A} (f g : A -> bool) l : filter f (filter g l) = filter (fun x => g x && f x) l.
Proof.
  induction l as [|x l IH]; [reflexivity|]. cbn [filter]. destruct (g x); cbn [andb filter]; [|exact IH].
  destruct (f x); now rewrite IH.
Qed.

Definition close_fold (l : store) (st : sstate) : sstate :=
  fold_left (fun s e => close_socket (fst e) s) l st.

Lemma fold_close_store : forall (l : store) (st : sstate),
  s_store (close_fold l st)
  = filter (fun e => negb (existsb (bytes_eqb (fst e)) (sids l))) (s_store st)
  /\ s_closed (close_fold l st) = s_closed st
  /\ s_seq (close_fold l st) = s_seq st.
Proof.
  induction l as [|[k v] l IH]; intros st.
  - split; [|auto]. change (close_fold [] st) with st. change (sids []) with (@nil bytes).
    induction (s_store st) as [|e r IHr]; [reflexivity|]. cbn [filter existsb negb]. f_equal. exact IHr.
  - change (close_fold ((k, v) :: l) st) with (close_fold l (close_socket k st)).
    destruct (IH (close_socket k st)) as (E & C & Q). rewrite E, C, Q. split; [|auto].
    change (s_store (close_socket k st)) with (store_delete k (s_store st)).
    unfold store_delete. rewrite filter_filter. apply filter_ext. intros e.
    change (sids ((k, v) :: l)) with (k :: sids l). cbn [existsb].
    rewrite negb_orb. reflexivity.
Qed.

Lemma close_closes_all : forall st,
  s_closed (close st) = true /\ s_store (close st) = [] /\ s_seq (close st) = s_seq st.
Proof.
  intros st. unfold close. cbn [s_store]. fold (close_fold (s_store st) (mkState true (s_store st) (s_seq st))).
  destruct (fold_close_store (s_store st) (mkState true (s_store st) (s_seq st))) as (E & C & Q).
  rewrite E, C, Q. cbn [s_closed s_store s_seq]. repeat split.
  assert (H : forall (l big : store), (forall e, In e l -> In (fst e) (sids big)) ->
              filter (fun e => negb (existsb (bytes_eqb (fst e)) (sids big))) l = []).
  { induction l as [|e l IH]; intros big Hin; [reflexivity|]. cbn [filter].
    assert (X : existsb (bytes_eqb (fst e)) (sids big) = true).
    { apply existsb_exists. exists (fst e). split; [apply Hin; now left | apply bytes_eqb_refl]. }
    rewrite X. cbn [negb]. apply IH. intros e' I. apply Hin. now right. }
  apply H. intros e I. unfold sids. now apply in_map.
Qed.

(** After Close: whatever requests arrive, each is answered 503 and the store stays empty. *)
Lemma closed_forever : forall rqs st,
  s_closed st = true ->
  snd (serve_all st rqs) = st /\ Forall (fun r => r = RClosed) (fst (serve_all st rqs)).
Proof.
  induction rqs as [|[rnd rq] rqs IH]; intros st C; cbn [serve_all]; [split; [reflexivity|constructor]|].
  rewrite serve_closed by exact C. destruct (IH st C) as [E F].
  destruct (serve_all st rqs) as [l st2]. cbn in *. split; [exact E | constructor; [reflexivity | exact F]].
Qed.

Lemma close_then_nothing : forall st rqs,
  let '(answers, st') := serve_all (close st) rqs in
  Forall (fun r => r = RClosed) answers /\ s_store st' = [] /\ s_closed st' = true.
Proof.
  intros st rqs. destruct (close_closes_all st) as (C & E & _).
  destruct (closed_forever rqs (close st) C) as [S F].
  destruct (serve_all (close st) rqs) as [answers st']. cbn in *. subst st'. auto.
Qed.
