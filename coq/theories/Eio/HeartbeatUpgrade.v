(** Link between C14 and the upgrade model of C07 (Eio/Upgrade.v, owned by C07).

    In the composed heartbeat system (Eio/HeartbeatLink.v) "the downlink delivers every ping within
    lDown" is a hypothesis.  While the client probes a new transport its long-polling loop is
    paused (polling.ClientTransport.Pause): the downlink is then down.  A client that stayed paused
    after a FAILED upgrade would be a link that never delivers a ping again, and both heartbeats
    would close a healthy connection.  C07's invariant excludes it: [c_paused] holds only while the
    candidate is being probed or swapped in, so once the attempt has failed polling has resumed. *)
From SioV Require Import Eio.Upgrade Eio.UpgradeInv Eio.UpgradeProofs.

Lemma failed_upgrade_resumes_polling : forall sched,
  let st := run sched init in
  c_cand st = KFail -> c_paused st = false.
Proof.
  intros sched st Hf. destruct (c_paused st) eqn:E; [|reflexivity]. exfalso.
  pose proof (reach_inv _ (reach_run sched) BinNums.N0) as Hi. fold st in Hi.
  destruct (i_paused _ _ Hi E) as [X|X]; rewrite Hf in X; discriminate.
Qed.

(** ... and, more generally, polling is paused only during a probe / swap. *)
Lemma paused_only_while_probing : forall sched,
  let st := run sched init in
  c_paused st = true -> c_cand st = KProbe \/ c_cand st = KSwapWait.
Proof.
  intros sched st E. pose proof (reach_inv _ (reach_run sched) BinNums.N0) as Hi. fold st in Hi.
  exact (i_paused _ _ Hi E).
Qed.
