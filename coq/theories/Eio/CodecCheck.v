(** Executable comparisons ([agree_*]: the model computes what the implementation was observed to
    compute) and property oracles ([oracle_*]: the property evaluated on the implementation's
    observation alone) for the C11 correspondence suites (checks/C11.py, harness eiocodec.go). *)
From SioV Require Import Eio.Payload Eio.WTFrame Eio.CodecSpec.
Local Open Scope N_scope.

(** ** Data descriptions shared with the harness *)
Inductive dspec := DLit (b : bytes) | DGen (seed len : N) | DPat (len : N).

(** harness genBytes: x <- (x*75+74) mod 65537, byte = x mod 256 *)
Definition gen_bytes (seed len : N) : bytes :=
  rev' (snd (N.iter len
              (fun st : N * bytes => let x' := (fst st * 75 + 74) mod 65537 in (x', x' mod 256 :: snd st))
              (seed mod 65537, []))).

(** harness patBytes: byte i = i mod 251, built by doubling a 251-byte block (no arithmetic per
    byte, so megabytes are cheap) *)
Definition block251 : bytes := map N.of_nat (seq 0 251).

Fixpoint dbl (k : nat) (l : bytes) : bytes :=
  match k with O => l | S k' => dbl k' (l ++ l) end.

Definition pat_bytes (n : N) : bytes :=
  takeN n (dbl (N.to_nat (N.size (n / 251)) + 1) block251).

Definition data_of (d : dspec) : bytes :=
  match d with DLit b => b | DGen s l => gen_bytes s l | DPat l => pat_bytes l end.

Definition adler32 (bs : bytes) : N :=
  let st := fold_left (fun (st : N * N) d => let a' := (fst st + d) mod 65521 in (a', (snd st + a') mod 65521))
                      bs (1, 0) in
  snd st * 65536 + fst st.

Inductive wobs :=
| WLit (b : bytes)
| WSum (len : N) (pre : bytes) (adler : N)
| WSamp (len : N) (pre suf : bytes) (samples : list (N * N)).
    (* samples: (distance from the previous sampled position, byte), positions ascending *)

(** One pass over the data: the bytes at the sampled positions. *)
Fixpoint samples_ok (w : bytes) (ds : list (N * N)) : bool :=
  match ds with
  | [] => true
  | dv :: ds' =>
      match dropN (fst dv) w with
      | x :: w' => (x =? snd dv) && samples_ok (x :: w') ds'
      | [] => false
      end
  end.

Definition beq (a b : bytes) : bool := list_eqb N.eqb a b.

Definition wire_matches (w : bytes) (o : wobs) : bool :=
  match o with
  | WLit b => beq w b
  | WSum len pre ad => (nlen w =? len) && beq (takeN (nlen pre) w) pre && (adler32 w =? ad)
  | WSamp len pre suf samples =>
      (nlen w =? len) && beq (takeN (nlen pre) w) pre
      && match suf with [] => true | _ => beq (dropN (len - nlen suf) w) suf end
      && samples_ok w samples
  end.

Definition wobs_len (o : wobs) : N :=
  match o with WLit b => nlen b | WSum l _ _ => l | WSamp l _ _ _ => l end.

Inductive pobs := POk (t : N) (b : bool) (d : wobs) | PErr | PPanic.

Definition packet_matches (p : packet) (o : pobs) : bool :=
  match o with
  | POk t b d => (p_type p =? t) && Bool.eqb (p_binary p) b && wire_matches (p_data p) d
  | _ => false
  end.

Definition res_matches (r : res packet) (o : pobs) : bool :=
  match r, o with
  | Ok p, POk _ _ _ => packet_matches p o
  | Err, PErr => true
  | Panic, PPanic => true
  | _, _ => false
  end.

Definition not_panic (o : pobs) : bool := match o with PPanic => false | _ => true end.

(** ** Single packets *)
Definition pkt_case := (N * bool * dspec * bool * wobs * Z * bool * pobs)%type.

Definition agree_pkt (c : pkt_case) : bool :=
  let '(t, b, d, sb, wire, elen, bf, dec) := c in
  let p := mkPacket b t (data_of d) in
  let w := encode_packet sb p in
  wire_matches w wire && (encoded_len sb p =? elen)%Z && res_matches (decode_packet bf w) dec.

(** Round trip, advertised length = real length, and the protocol form of the bytes. *)
Definition oracle_pkt (c : pkt_case) : bool :=
  let '(t, b, d, sb, wire, elen, bf, dec) := c in
  let p := mkPacket b t (data_of d) in
  (Z.of_N (wobs_len wire) =? elen)%Z
  && (if packet_ok p then packet_matches p dec else not_panic dec)
  && (if packet_ok p then wire_matches (spec_packet sb p) wire else true).

(** ** Arbitrary bytes through Decode *)
Definition dec_case := (bytes * bool * pobs)%type.

Definition agree_dec (c : dec_case) : bool :=
  let '(i, bf, dec) := c in res_matches (decode_packet bf i) dec.

(** Never a panic; whatever decodes as a text packet re-encodes to the same bytes. *)
Definition oracle_dec (c : dec_case) : bool :=
  let '(i, bf, dec) := c in
  match dec with
  | PPanic => false
  | PErr => true
  | POk t b (WLit d) =>
      if b then (t =? 4) else (t <=? 6) && negb bf && beq (encode_packet false (mkPacket false t d)) i
  | POk _ _ _ => true
  end.

(** ** Payloads *)
Definition ppkt := (N * bool * dspec)%type.
Definition mk_ppkt (x : ppkt) : packet := let '(t, b, d) := x in mkPacket b t (data_of d).

Fixpoint all_match (ps : list packet) (os : list pobs) : bool :=
  match ps, os with
  | [], [] => true
  | p :: ps', o :: os' => packet_matches p o && all_match ps' os'
  | _, _ => false
  end.

Definition cls := N.   (* 0 ok, 1 err, 2 panic *)

Definition resl_matches (r : res (list packet)) (c : cls) (os : list pobs) : bool :=
  match r with
  | Ok ps => (c =? 0) && all_match ps os
  | Err => c =? 1
  | Panic => c =? 2
  end.

Definition pay_case := (list ppkt * wobs * Z * cls * list pobs)%type.

Definition agree_pay (c : pay_case) : bool :=
  let '(ps, wire, elen, cl, os) := c in
  let pk := map mk_ppkt ps in
  let w := encode_payload pk in
  wire_matches w wire && (payload_len pk =? elen)%Z && resl_matches (decode_payload w) cl os.

Definition text_sep_free (p : packet) : bool :=
  p_binary p || forallb (fun x => negb (x =? delim)) (p_data p).

Definition oracle_pay (c : pay_case) : bool :=
  let '(ps, wire, elen, cl, os) := c in
  let pk := map mk_ppkt ps in
  (Z.of_N (wobs_len wire) =? elen)%Z
  && match pk with
     | [] => (cl =? 1) && (wobs_len wire =? 0)      (* v4 cannot represent the empty list *)
     | _ => if forallb packet_ok pk && forallb text_sep_free pk
            then (cl =? 0) && all_match pk os && wire_matches (spec_payload pk) wire
            else negb (cl =? 2)
     end.

Definition paydec_case := (bytes * cls * list pobs)%type.

Definition agree_paydec (c : paydec_case) : bool :=
  let '(i, cl, os) := c in resl_matches (decode_payload i) cl os.

Definition oracle_paydec (c : paydec_case) : bool :=
  let '(i, cl, os) := c in negb (cl =? 2) && forallb not_panic os.

(** ** base64 against encoding/base64 *)
Definition b64_case := (bytes * bytes * cls * bytes * N * N)%type.

Definition agree_b64 (c : b64_case) : bool :=
  let '(i, enc, cl, dec, dl, el) := c in
  beq (b64_enc i) enc
  && match b64_dec i with Some d => (cl =? 0) && beq d dec | None => cl =? 1 end
  && (b64_dec_len (nlen i) =? dl) && (b64_enc_len (nlen i) =? el).

Definition oracle_b64 (c : b64_case) : bool :=
  let '(i, enc, cl, dec, dl, el) := c in
  (nlen enc =? el)
  && match b64_dec enc with Some d => beq d i | None => false end
  && (if cl =? 0 then nlen dec <=? dl else true).

(** ** WebTransport frames *)
Fixpoint chunk_by (sizes : list N) (b : bytes) : stream :=
  match sizes with
  | [] => match b with [] => [] | _ => [b] end
  | k :: sz => match b with [] => [] | _ => takeN k b :: chunk_by sz (dropN k b) end
  end.

(** observation of one nextPacket call: outcome, bytes left in the stream, Read sizes, bytes the
    stream handed out, heap bytes allocated *)
Definition wt_read := (pobs * N * list N * N * N)%type.

Definition nbeq (a b : list N) : bool := list_eqb N.eqb a b.

Definition read_agrees (r : rd) (s : stream) (o : wt_read) : bool :=
  let '(dec, rest, reqs, given, alloc) := o in
  let '(res, tr) := next_packet r s in
  nbeq (reads_of tr) reqs
  && match res with
     | Ok (p, s') => packet_matches p dec && (total_len s' =? rest)
     | Err => match dec with PErr => true | _ => false end
     | Panic => match dec with PPanic => true | _ => false end
     end.

Definition limit_of (r : rd) : N :=
  match r with Some l => if (0 <? l)%Z then Z.to_N l else 0 | None => 0 end.

(** "A frame header never makes the reader allocate beyond the configured limit": every buffer
    handed to Read beyond the 8 header bytes is within the limit, never larger than
    max(64 KiB, bytes actually received), and the heap growth stays proportional to the data
    received (slack for the packet struct, the harness closure and the runtime). *)
Definition reads_bounded (r : rd) (o : wt_read) : bool :=
  let '(dec, rest, reqs, given, alloc) := o in
  let lim := limit_of r in
  forallb (fun k => (k <=? 8) || (((lim =? 0) || (k <=? lim)) && (k <=? N.max 65536 given))) reqs
  && (alloc <=? 4 * given + 65536 + 262144)
  && ((lim =? 0) || (alloc <=? 4 * lim + 65536 + 262144)).

Definition wt_case := (N * bool * dspec * bytes * list N * rd * wobs * wt_read)%type.

Definition agree_wt (c : wt_case) : bool :=
  let '(t, b, d, trail, sizes, r, wire, o) := c in
  let p := mkPacket b t (data_of d) in
  let w := wt_send p in
  wire_matches w wire && read_agrees r (chunk_by sizes (w ++ trail)) o.

Definition oracle_wt (c : wt_case) : bool :=
  let '(t, b, d, trail, sizes, r, wire, o) := c in
  let '(dec, rest, reqs, given, alloc) := o in
  let p := mkPacket b t (data_of d) in
  let n := Z.to_N (encoded_len true p) in
  reads_bounded r o
  && (if packet_ok p then wire_matches (spec_frame p) wire else true)
  && (if negb (packet_ok p) then not_panic dec
      else if exceeds r n then match dec with PErr => true | _ => false end
      else packet_matches p dec && (rest =? nlen trail)).

(** every length: header form and round trip (data stay in the harness) *)
Definition wtlen_case := (N * bool * bytes * N * cls * bool * N * list N * N * bool * bool)%type.

(** The frame that follows on the stream (harness nextFrameBytes): text MESSAGE "next". *)
Definition follow_frame : bytes := [5; 52; 110; 101; 120; 116].

(** The sizes of the Read buffers do not depend on the data, so the model is run on a frame of
    zeros: cheap enough for megabytes.  Done for every length above 64 KiB (where the buffer
    grows), for the small ones and for a stride in between. *)
Definition model_reads (n : N) (hdr : bytes) : list N :=
  reads_of (snd (next_packet (Some (Z.of_N n)) [hdr ++ repeat 0 (N.to_nat n) ++ follow_frame])).

Definition agree_wtlen (c : wtlen_case) : bool :=
  let '(n, b, hdr, wlen, cl, same, rest, reqs, alloc, next, rej) := c in
  beq hdr (wt_header n b) && (wlen =? nlen hdr + n)
  && (if (65536 <? n) || (n <? 1500) || (n mod 97 =? 0) then nbeq (model_reads n hdr) reqs else true).

Definition sumN (l : list N) : N := fold_left N.add l 0.

Definition oracle_wtlen (c : wtlen_case) : bool :=
  let '(n, b, hdr, wlen, cl, same, rest, reqs, alloc, next, rej) := c in
  (cl =? 0) && same && (rest =? nlen follow_frame) && next && rej
  && (sumN reqs =? wlen)      (* with the whole frame available the reader asks for exactly the frame *)
  && reads_bounded (Some (Z.of_N n)) (PErr, rest, reqs, wlen, alloc)
  && beq hdr (spec_header n b) && (wlen =? nlen hdr + n).

Definition wtdec_case := (bytes * list N * rd * wt_read)%type.

Definition agree_wtdec (c : wtdec_case) : bool :=
  let '(i, sizes, r, o) := c in read_agrees r (chunk_by sizes i) o.

Definition oracle_wtdec (c : wtdec_case) : bool :=
  let '(i, sizes, r, o) := c in
  let '(dec, rest, reqs, given, alloc) := o in
  not_panic dec && reads_bounded r o.
