(** Proofs about the WebTransport framer and its reader (Eio/WTFrame.v). *)
From SioV Require Import Eio.WTFrame Eio.Base64Proofs Eio.CodecProofs.
From Coq Require Import ZifyN ZifyNat ZifyBool Lia.
Local Open Scope N_scope.

(** ** takeN / dropN are firstn / skipn *)
Lemma takeN_firstn {A} (l : list A) : forall k, takeN k l = firstn (N.to_nat k) l.
Proof.
  induction l as [|x l IH]; intros k; cbn [takeN]; [now rewrite firstn_nil|].
  destruct (k =? 0) eqn:E.
  - apply N.eqb_eq in E. now subst.
  - apply N.eqb_neq in E. rewrite IH. replace (N.to_nat k) with (S (N.to_nat (N.pred k))) by lia.
    reflexivity.
Qed.

Lemma dropN_skipn {A} (l : list A) : forall k, dropN k l = skipn (N.to_nat k) l.
Proof.
  induction l as [|x l IH]; intros k; cbn [dropN]; [now rewrite skipn_nil|].
  destruct (k =? 0) eqn:E.
  - apply N.eqb_eq in E. now subst.
  - apply N.eqb_neq in E. rewrite IH. replace (N.to_nat k) with (S (N.to_nat (N.pred k))) by lia.
    reflexivity.
Qed.

Lemma takeN_0 {A} (l : list A) : takeN 0 l = [].
Proof. now destruct l. Qed.

Lemma dropN_0 {A} (l : list A) : dropN 0 l = l.
Proof. now destruct l. Qed.

Lemma take_drop {A} k (l : list A) : takeN k l ++ dropN k l = l.
Proof. rewrite takeN_firstn, dropN_skipn. apply firstn_skipn. Qed.

Lemma nlen_takeN {A} k (l : list A) : nlen (takeN k l) = N.min k (nlen l).
Proof. unfold nlen. rewrite takeN_firstn, firstn_length. lia. Qed.

Lemma nlen_dropN {A} k (l : list A) : nlen (dropN k l) = nlen l - k.
Proof. unfold nlen. rewrite dropN_skipn, skipn_length. lia. Qed.

Lemma nlen_app {A} (a b : list A) : nlen (a ++ b) = nlen a + nlen b.
Proof. unfold nlen. rewrite app_length. lia. Qed.

Lemma takeN_all {A} k (l : list A) : nlen l <= k -> takeN k l = l.
Proof. intros H. rewrite takeN_firstn. apply firstn_all2. unfold nlen in H. lia. Qed.

Lemma dropN_all {A} k (l : list A) : nlen l <= k -> dropN k l = [].
Proof. intros H. rewrite dropN_skipn. apply skipn_all2. unfold nlen in H. lia. Qed.

Lemma takeN_app_l {A} k (a b : list A) : k <= nlen a -> takeN k (a ++ b) = takeN k a.
Proof.
  intros H. rewrite !takeN_firstn, firstn_app. unfold nlen in H.
  replace (N.to_nat k - length a)%nat with O by lia. cbn. now rewrite app_nil_r.
Qed.

Lemma dropN_app_l {A} k (a b : list A) : k <= nlen a -> dropN k (a ++ b) = dropN k a ++ b.
Proof.
  intros H. rewrite !dropN_skipn, skipn_app. unfold nlen in H.
  replace (N.to_nat k - length a)%nat with O by lia. reflexivity.
Qed.

Lemma takeN_app_r {A} k (a b : list A) : nlen a <= k -> takeN k (a ++ b) = a ++ takeN (k - nlen a) b.
Proof.
  intros H. rewrite !takeN_firstn, firstn_app. unfold nlen in *.
  rewrite firstn_all2 by lia. f_equal. f_equal. lia.
Qed.

Lemma dropN_app_r {A} k (a b : list A) : nlen a <= k -> dropN k (a ++ b) = dropN (k - nlen a) b.
Proof.
  intros H. rewrite !dropN_skipn, skipn_app. unfold nlen in *.
  rewrite skipn_all2 by lia. cbn [app]. f_equal. lia.
Qed.

Lemma firstn_add {A} (l : list A) : forall a b, firstn (a + b) l = firstn a l ++ firstn b (skipn a l).
Proof.
  induction l as [|x l IH]; intros a b.
  - now rewrite skipn_nil, !firstn_nil.
  - destruct a; [reflexivity|]. cbn. now rewrite IH.
Qed.

Lemma takeN_add {A} a b (l : list A) : takeN (a + b) l = takeN a l ++ takeN b (dropN a l).
Proof.
  rewrite !takeN_firstn, dropN_skipn. replace (N.to_nat (a + b)) with (N.to_nat a + N.to_nat b)%nat by lia.
  apply firstn_add.
Qed.

Lemma skipn_add {A} (l : list A) : forall a b, skipn (a + b) l = skipn b (skipn a l).
Proof.
  induction l as [|x l IH]; intros a b.
  - now rewrite !skipn_nil.
  - destruct a; [reflexivity|]. cbn. now rewrite IH.
Qed.

Lemma dropN_add {A} a b (l : list A) : dropN (a + b) l = dropN b (dropN a l).
Proof.
  rewrite !dropN_skipn. replace (N.to_nat (a + b)) with (N.to_nat a + N.to_nat b)%nat by lia.
  apply skipn_add.
Qed.

(** ** The limit predicate *)
Lemma exceeds_mono r n m : n <= m -> exceeds r n = true -> exceeds r m = true.
Proof. unfold exceeds. destruct r as [l|]; [|discriminate]. lia. Qed.

Lemma not_exceeds_le r n m : n <= m -> exceeds r m = false -> exceeds r n = false.
Proof.
  intros H E. destruct (exceeds r n) eqn:X; [|reflexivity].
  now rewrite (exceeds_mono r n m H X) in E.
Qed.

Lemma not_exceeds_limit r n l : exceeds r n = false -> r = Some l -> (0 < l)%Z -> (Z.of_N n <= l)%Z.
Proof. intros E -> H. unfold exceeds in E. lia. Qed.

(** ** io.ReadFull *)
Definition total_len' (s : stream) : N := nlen (concat s).

(** Whatever comes back has exactly the requested size and is a prefix of the stream. *)
Lemma read_full_some : forall s r k g s' t,
  read_full r k s = (Some (g, s'), t) -> nlen g = k /\ concat s = g ++ concat s'.
Proof.
  induction s as [|c cs IH]; intros r k g s' t H; cbn [read_full] in H.
  - destruct (k =? 0) eqn:E; [|discriminate]. inversion H; subst. apply N.eqb_eq in E. now subst.
  - destruct (k =? 0) eqn:E.
    { inversion H; subst. apply N.eqb_eq in E. now subst. }
    destruct (nlen (takeN k c) =? k) eqn:F.
    + inversion H; subst. apply N.eqb_eq in F. split; [assumption|].
      cbn [concat]. rewrite <- (take_drop k c) at 1. rewrite <- app_assoc. f_equal.
      destruct (dropN k c); reflexivity.
    + destruct (exceeds r (nlen (takeN k c))); [discriminate|].
      destruct (read_full r (k - nlen (takeN k c)) cs) as [[[g2 s2]|] t2] eqn:R; [|discriminate].
      inversion H; subst. apply IH in R as [L C].
      apply N.eqb_neq in F. rewrite nlen_takeN in *.
      assert (nlen c < k) by lia.
      rewrite takeN_all by lia. split.
      * rewrite nlen_app. replace (N.min k (nlen c)) with (nlen c) in L by lia. lia.
      * cbn [concat]. rewrite C. now rewrite app_assoc.
Qed.

(** When the stream holds enough bytes and no read can trip the limit, ReadFull succeeds,
    whatever the chunking. *)
Lemma read_full_ok : forall s r k,
  k <= nlen (concat s) -> exceeds r k = false ->
  exists s' t, read_full r k s = (Some (takeN k (concat s), s'), t)
               /\ concat s' = dropN k (concat s).
Proof.
  induction s as [|c cs IH]; intros r k Hk Hx; cbn [read_full].
  - cbn in Hk. replace k with 0 by (unfold nlen in Hk; cbn in Hk; lia). cbn. eauto.
  - destruct (k =? 0) eqn:E.
    { apply N.eqb_eq in E. subst. exists (c :: cs), []. rewrite takeN_0, dropN_0. auto. }
    apply N.eqb_neq in E. cbn [concat] in *. rewrite nlen_app in Hk.
    destruct (nlen (takeN k c) =? k) eqn:F.
    + apply N.eqb_eq in F. rewrite nlen_takeN in F. assert (k <= nlen c) by lia.
      eexists. eexists. split; [rewrite takeN_app_l by assumption; reflexivity|].
      rewrite dropN_app_l by assumption. destruct (dropN k c); reflexivity.
    + apply N.eqb_neq in F. rewrite nlen_takeN in *. assert (nlen c < k) by lia.
      replace (N.min k (nlen c)) with (nlen c) by lia.
      rewrite (not_exceeds_le r (nlen c) k) by (lia || assumption).
      destruct (IH r (k - nlen c)) as [s' [t [R C]]]; [lia|apply (not_exceeds_le r _ k); [lia|assumption]|].
      rewrite R. eexists. eexists. split.
      * rewrite takeN_app_r by lia. rewrite (takeN_all k c) by lia. reflexivity.
      * rewrite C. now rewrite dropN_app_r by lia.
Qed.

(** Reads never ask for more than the buffer they fill. *)
Lemma read_full_reads : forall s r k, Forall (fun e => match e with EvRead j => j <= k | EvAlloc _ => False end)
                                            (snd (read_full r k s)).
Proof.
  induction s as [|c cs IH]; intros r k; cbn [read_full].
  - destruct (k =? 0); cbn; repeat constructor. lia.
  - destruct (k =? 0); [constructor|].
    destruct (nlen (takeN k c) =? k); [cbn; repeat constructor; lia|].
    destruct (exceeds r (nlen (takeN k c))); [cbn; repeat constructor; lia|].
    specialize (IH r (k - nlen (takeN k c))).
    destruct (read_full r (k - nlen (takeN k c)) cs) as [o t]. cbn [snd] in *.
    constructor; [lia|]. eapply Forall_impl; [|exact IH]. intros [j|a]; [lia|auto].
Qed.

Lemma allocs_of_app a b : allocs_of (a ++ b) = allocs_of a ++ allocs_of b.
Proof. unfold allocs_of. now rewrite flat_map_app. Qed.

Lemma read_full_no_alloc s r k : allocs_of (snd (read_full r k s)) = [].
Proof.
  pose proof (read_full_reads s r k) as H. induction H as [|e t He Ht IH]; [reflexivity|].
  destruct e; [exact IH|contradiction].
Qed.

(** ** The growth loop of DecodeWithLen *)
Lemma pow2_pos k : 1 <= 2 ^ k.
Proof. pose proof (N.pow_nonzero 2 k). lia. Qed.

Lemma dwl_loop_S f r len buf cap s :
  dwl_loop (S f) r len buf cap s =
  let '(o, t) := read_full r (cap - nlen buf) s in
  match o with
  | None => (Err, t)
  | Some (g, s') =>
      let buf' := buf ++ g in
      if cap =? len then (Ok (buf', s'), t)
      else
        let next := if cap <? len - cap then 2 * cap else len in
        let '(o2, t2) := dwl_loop f r len buf' next s' in
        (o2, t ++ EvAlloc next :: t2)
  end.
Proof. reflexivity. Qed.

(** Enough data, limit not exceeded: the loop returns exactly the next [len] bytes. *)
Lemma dwl_loop_ok : forall f r len buf cap s,
  nlen buf <= cap -> cap <= len -> len <= cap * 2 ^ N.of_nat f ->
  exceeds r len = false -> len - nlen buf <= nlen (concat s) ->
  exists s' t, dwl_loop (S f) r len buf cap s = (Ok (buf ++ takeN (len - nlen buf) (concat s), s'), t)
               /\ concat s' = dropN (len - nlen buf) (concat s).
Proof.
  induction f as [|f IH]; intros r len buf cap s Hb Hc Hf Hx Hs.
  - (* last round: cap = len *)
    cbn in Hf. assert (cap = len) by lia. subst cap. cbn [dwl_loop].
    destruct (read_full_ok s r (len - nlen buf)) as [s' [t [R C]]];
      [assumption|apply (not_exceeds_le r _ len); [lia|assumption]|].
    rewrite R, N.eqb_refl. eauto.
  - rewrite dwl_loop_S. cbv zeta.
    destruct (read_full_ok s r (cap - nlen buf)) as [s1 [t1 [R C]]];
      [lia|apply (not_exceeds_le r _ len); [lia|assumption]|].
    rewrite R. destruct (cap =? len) eqn:E.
    + apply N.eqb_eq in E. subst cap. eauto.
    + apply N.eqb_neq in E.
      set (next := if cap <? len - cap then 2 * cap else len).
      set (buf' := buf ++ takeN (cap - nlen buf) (concat s)).
      assert (nlen buf' = cap) as Lb.
      { unfold buf'. rewrite nlen_app, nlen_takeN. lia. }
      assert (cap <= next /\ next <= len /\ len <= next * 2 ^ N.of_nat f) as [N1 [N2 N3]].
      { unfold next. rewrite Nat2N.inj_succ, N.pow_succ_r' in Hf. pose proof (pow2_pos (N.of_nat f)).
        destruct (cap <? len - cap) eqn:C2.
        - repeat split; try lia.
        - repeat split; try lia. rewrite <- (N.mul_1_r len) at 1. apply N.mul_le_mono_l. assumption. }
      destruct (IH r len buf' next s1) as [s' [t [R2 C2]]]; try lia; try assumption.
      { rewrite Lb, C, nlen_dropN. lia. }
      rewrite R2. eexists. eexists. split.
      * f_equal. f_equal. f_equal. rewrite Lb, C. unfold buf'. rewrite <- app_assoc. f_equal.
        replace (len - nlen buf) with ((cap - nlen buf) + (len - cap)) by lia.
        apply eq_sym, takeN_add.
      * rewrite C2, Lb, C. replace (len - nlen buf) with ((cap - nlen buf) + (len - cap)) by lia.
        apply eq_sym, dropN_add.
Qed.

(** With the fuel handed out by decode_with_len the loop never runs dry, whatever the stream. *)
Lemma dwl_loop_no_panic : forall f r len buf cap s,
  nlen buf <= cap -> cap <= len -> len <= cap * 2 ^ N.of_nat f ->
  fst (dwl_loop (S f) r len buf cap s) <> Panic.
Proof.
  induction f as [|f IH]; intros r len buf cap s Hb Hc Hf; rewrite dwl_loop_S; cbv zeta.
  - cbn in Hf. assert (cap = len) by lia. subst cap.
    destruct (read_full r (len - nlen buf) s) as [[[g s']|] t]; [|discriminate].
    rewrite N.eqb_refl. discriminate.
  - destruct (read_full r (cap - nlen buf) s) as [[[g s1]|] t1] eqn:R; [|discriminate].
    destruct (cap =? len) eqn:E; [discriminate|]. apply N.eqb_neq in E.
    apply read_full_some in R as [Lg _].
    set (next := if cap <? len - cap then 2 * cap else len).
    assert (cap <= next /\ next <= len /\ len <= next * 2 ^ N.of_nat f) as [N1 [N2 N3]].
    { unfold next. rewrite Nat2N.inj_succ, N.pow_succ_r' in Hf. pose proof (pow2_pos (N.of_nat f)).
      destruct (cap <? len - cap) eqn:C2.
      - repeat split; try lia.
      - repeat split; try lia. rewrite <- (N.mul_1_r len) at 1. apply N.mul_le_mono_l. assumption. }
    specialize (IH r len (buf ++ g) next s1).
    destruct (dwl_loop (S f) r len (buf ++ g) next s1) as [o2 t2]. cbn [fst] in *.
    apply IH; try assumption. rewrite nlen_app. lia.
Qed.

(** Every buffer the loop allocates is within the declared length and at most twice what has
    already been received. *)
Lemma dwl_loop_allocs : forall f r len buf cap s,
  nlen buf <= cap -> cap <= len ->
  Forall (fun a => a <= len /\ a <= 2 * (nlen buf + nlen (concat s)))
         (allocs_of (snd (dwl_loop f r len buf cap s))).
Proof.
  induction f as [|f IH]; intros r len buf cap s Hb Hc; [constructor|]. rewrite dwl_loop_S. cbv zeta.
  destruct (read_full r (cap - nlen buf) s) as [[[g s1]|] t1] eqn:R.
  - pose proof (read_full_no_alloc s r (cap - nlen buf)) as NA. rewrite R in NA. cbn [snd] in NA.
    apply read_full_some in R as [Lg Cg].
    destruct (cap =? len) eqn:E; [cbn [snd]; rewrite NA; constructor|]. apply N.eqb_neq in E.
    set (next := if cap <? len - cap then 2 * cap else len).
    assert (cap <= next /\ next <= len /\ next <= 2 * cap) as [N1 [N2 N3]].
    { unfold next. destruct (cap <? len - cap) eqn:C2; lia. }
    specialize (IH r len (buf ++ g) next s1).
    destruct (dwl_loop f r len (buf ++ g) next s1) as [o2 t2]. cbn [snd] in *.
    rewrite allocs_of_app, NA. cbn [app allocs_of flat_map].
    assert (nlen (buf ++ g) = cap) as Lb by (rewrite nlen_app; lia).
    assert (nlen buf + nlen (concat s) = nlen (buf ++ g) + nlen (concat s1)) as Eq.
    { rewrite Cg, !nlen_app. lia. }
    constructor.
    + split; [lia|]. rewrite Eq, Lb. lia.
    + rewrite Eq. apply IH; lia.
  - pose proof (read_full_no_alloc s r (cap - nlen buf)) as NA. rewrite R in NA. cbn [snd] in *.
    rewrite NA. constructor.
Qed.

Lemma dwl_loop_result : forall f r len buf cap s b s' t,
  dwl_loop f r len buf cap s = (Ok (b, s'), t) -> nlen buf <= cap -> cap <= len ->
  nlen b = len /\ nlen b <= nlen buf + nlen (concat s).
Proof.
  induction f as [|f IH]; intros r len buf cap s b s' t H Hb Hc; [discriminate|]. rewrite dwl_loop_S in H. cbv zeta in H.
  destruct (read_full r (cap - nlen buf) s) as [[[g s1]|] t1] eqn:R; [|discriminate].
  apply read_full_some in R as [Lg Cg].
  destruct (cap =? len) eqn:E.
  - apply N.eqb_eq in E. inversion H; subst. rewrite Cg, !nlen_app. lia.
  - apply N.eqb_neq in E.
    set (next := if cap <? len - cap then 2 * cap else len) in *.
    assert (cap <= next /\ next <= len) as [N1 N2].
    { unfold next. destruct (cap <? len - cap) eqn:C2; lia. }
    destruct (dwl_loop f r len (buf ++ g) next s1) as [o2 t2] eqn:D. inversion H; subst.
    apply IH in D as [L1 L2]; [|rewrite nlen_app; lia|lia].
    split; [assumption|]. rewrite Cg, !nlen_app in *. lia.
Qed.

Lemma size_bound n : n <= N.min n max_prealloc * 2 ^ N.of_nat (N.to_nat (N.size n)).
Proof.
  rewrite N2Nat.id. unfold max_prealloc. pose proof (pow2_pos (N.size n)).
  destruct (N.le_gt_cases n 65536) as [H1|H1].
  - rewrite N.min_l by assumption. rewrite <- (N.mul_1_r n) at 1. now apply N.mul_le_mono_l.
  - rewrite N.min_r by lia. pose proof (N.size_gt n). lia.
Qed.

(** ** DecodeWithLen *)
Lemma decode_with_len_ok r bin n body rest s :
  nlen body = n -> concat s = body ++ rest -> exceeds r n = false ->
  exists s' t,
    decode_with_len r bin (Z.of_N n) s =
      (match decode_packet bin body with Ok p => Ok (p, s') | Err => Err | Panic => Panic end, t)
    /\ concat s' = rest.
Proof.
  intros Hn Hs Hx. unfold decode_with_len.
  destruct (Z.of_N n <? 0)%Z eqn:E; [lia|]. rewrite N2Z.id. unfold dwl_fuel.
  destruct (dwl_loop_ok (N.to_nat (N.size n)) r n [] (N.min n max_prealloc) s) as [s' [t [R C]]].
  - unfold nlen; cbn; lia.
  - lia.
  - apply size_bound.
  - assumption.
  - rewrite Hs, nlen_app. unfold nlen at 1. cbn [length]. lia.
  - rewrite R. cbn [app]. replace (n - nlen (@nil N)) with n in * by (unfold nlen; cbn; lia).
    rewrite Hs in *. rewrite takeN_app_l, takeN_all in * by lia.
    rewrite dropN_app_l, dropN_all in C by lia. cbn [app] in C.
    exists s'. eexists. split; [reflexivity|assumption].
Qed.

Lemma decode_with_len_no_panic r bin len s : fst (decode_with_len r bin len s) <> Panic.
Proof.
  unfold decode_with_len. destruct (len <? 0)%Z; [discriminate|].
  set (n := Z.to_N len). unfold dwl_fuel.
  pose proof (dwl_loop_no_panic (N.to_nat (N.size n)) r n [] (N.min n max_prealloc) s) as NP.
  destruct (dwl_loop (S (N.to_nat (N.size n))) r n [] (N.min n max_prealloc) s) as [[[b s']| |] t];
    cbn [fst] in *.
  - pose proof (decode_no_panic bin b). destruct (decode_packet bin b); congruence.
  - discriminate.
  - exfalso. apply NP; try reflexivity; [unfold nlen; cbn; lia|lia|apply size_bound].
Qed.

Lemma b64_dec_len_le n : b64_dec_len n <= n.
Proof. unfold b64_dec_len. pose proof (N.div_mod n 4 ltac:(lia)). lia. Qed.

Lemma decode_allocs_bound bin b : Forall (fun a => a <= nlen b) (allocs_of (map EvAlloc (decode_allocs bin b))).
Proof.
  unfold decode_allocs. destruct bin; [constructor|]. destruct b as [|t d]; [constructor|].
  destruct (t =? base64_prefix); [|constructor]. cbn. constructor; [|constructor].
  pose proof (b64_dec_len_le (nlen d)). unfold nlen in *. cbn [length]. lia.
Qed.

(** Every allocation of DecodeWithLen is within the declared length, and beyond the first 64 KiB
    never more than twice what the stream actually holds. *)
Lemma decode_with_len_allocs r bin n s :
  Forall (fun a => a <= n /\ (a <= max_prealloc \/ a <= 2 * nlen (concat s)))
         (allocs_of (snd (decode_with_len r bin (Z.of_N n) s))).
Proof.
  unfold decode_with_len. destruct (Z.of_N n <? 0)%Z; [constructor|]. rewrite N2Z.id. unfold dwl_fuel.
  pose proof (dwl_loop_allocs (S (N.to_nat (N.size n))) r n [] (N.min n max_prealloc) s) as A.
  pose proof (dwl_loop_result (S (N.to_nat (N.size n))) r n [] (N.min n max_prealloc) s) as Rz.
  destruct (dwl_loop (S (N.to_nat (N.size n))) r n [] (N.min n max_prealloc) s) as [[[b s']| |] t];
    cbn [snd] in *.
  - cbn [allocs_of flat_map app]. fold (allocs_of (t ++ map EvAlloc (decode_allocs bin b))).
    constructor; [lia|]. rewrite allocs_of_app. apply Forall_app. split.
    + eapply Forall_impl; [|apply A; unfold nlen; cbn; lia]. intros a [H1 H2]. replace (nlen (@nil N)) with 0 in H2 by reflexivity. lia.
    + destruct (Rz b s' t eq_refl) as [L1 L2]; [unfold nlen; cbn; lia|lia|].
      replace (nlen (@nil N)) with 0 in L2 by reflexivity. eapply Forall_impl; [|apply decode_allocs_bound]. intros a H1. cbn beta in H1. lia.
  - cbn [allocs_of flat_map app]. fold (allocs_of t). constructor; [lia|].
    eapply Forall_impl; [|apply A; unfold nlen; cbn; lia]. intros a [H1 H2]. replace (nlen (@nil N)) with 0 in H2 by reflexivity. lia.
  - cbn [allocs_of flat_map app]. fold (allocs_of t). constructor; [lia|].
    eapply Forall_impl; [|apply A; unfold nlen; cbn; lia]. intros a [H1 H2]. replace (nlen (@nil N)) with 0 in H2 by reflexivity. lia.
Qed.

(** ** Big-endian integers *)
Lemma be_val_snoc l x : be_val (l ++ [x]) = be_val l * 256 + x.
Proof. unfold be_val. now rewrite fold_left_app. Qed.

Lemma be_roundtrip : forall k n, be_val (be_bytes k n) = n mod 256 ^ N.of_nat k.
Proof.
  induction k as [|k IH]; intros n.
  - cbn. now rewrite N.mod_1_r.
  - cbn [be_bytes]. rewrite be_val_snoc, IH, Nat2N.inj_succ, N.pow_succ_r'.
    rewrite (N.mod_mul_r n 256 (256 ^ N.of_nat k)); [lia|lia|apply N.pow_nonzero; lia].
Qed.

Lemma be_bytes_len : forall k n, nlen (be_bytes k n) = N.of_nat k.
Proof.
  induction k as [|k IH]; intros n; [reflexivity|].
  cbn [be_bytes]. rewrite nlen_app, IH. unfold nlen. cbn [length]. lia.
Qed.

(** ** The first header byte *)
Definition first_byte_ok (x : N * bool) : bool :=
  let '(n, bin) := x in
  let b0 := n + (if bin then 128 else 0) in
  (N.land b0 127 =? n) && Bool.eqb (N.land b0 128 =? 128) bin.

Definition first_bytes : list (N * bool) :=
  flat_map (fun i => [(N.of_nat i, true); (N.of_nat i, false)]) (seq 0 128).

Lemma first_byte_sweep : forallb first_byte_ok first_bytes = true.
Proof. vm_compute. reflexivity. Qed.

Lemma first_byte (n : N) (bin : bool) : n < 128 ->
  let b0 := n + (if bin then 128 else 0) in
  N.land b0 127 = n /\ (N.land b0 128 =? 128) = bin.
Proof.
  intros H. assert (In (n, bin) first_bytes) as I.
  { unfold first_bytes. apply in_flat_map. exists (N.to_nat n). split; [apply in_seq; lia|].
    rewrite N2Nat.id. destruct bin; cbn; auto. }
  pose proof (proj1 (forallb_forall _ _) first_byte_sweep _ I) as T. unfold first_byte_ok in T.
  apply andb_true_iff in T as [T1 T2]. apply N.eqb_eq in T1. apply eqb_prop in T2. auto.
Qed.

(** ** Reading a known prefix *)
Lemma read_prefix r k h tail s :
  concat s = h ++ tail -> nlen h = k -> exceeds r k = false ->
  exists s1 t1, read_full r k s = (Some (h, s1), t1) /\ concat s1 = tail.
Proof.
  intros Hs Hk Hx. destruct (read_full_ok s r k) as [s1 [t1 [R C]]].
  - rewrite Hs, nlen_app. lia.
  - assumption.
  - rewrite Hs in *. rewrite takeN_app_l, takeN_all in R by lia.
    rewrite dropN_app_l, dropN_all in C by lia. eauto.
Qed.

Lemma exceeds_1 r : exceeds r 1 = false.
Proof. unfold exceeds. destruct r; lia. Qed.

Lemma decode_own_encoding p : packet_ok p = true ->
  decode_packet (p_binary p) (encode_packet true p) = Ok p.
Proof.
  intros H. apply packet_ok_iff in H as [Hd [Ht Hm]]. destruct (p_binary p) eqn:B.
  - apply packet_roundtrip_binary; auto.
  - apply packet_roundtrip_text; auto.
Qed.

Lemma wt_payload_ok r p rest s t :
  packet_ok p = true -> concat s = encode_packet true p ++ rest ->
  exceeds r (Z.to_N (encoded_len true p)) = false ->
  exists s' t', wt_payload r (p_binary p) (Z.to_N (encoded_len true p)) s t = (Ok (p, s'), t')
                /\ concat s' = rest.
Proof.
  intros Hok Hs Hx. unfold wt_payload. rewrite Hx.
  assert (nlen (encode_packet true p) = Z.to_N (encoded_len true p)) as Hn.
  { rewrite <- encoded_len_exact. unfold zlen, nlen. lia. }
  destruct (decode_with_len_ok r (p_binary p) _ _ rest s Hn Hs Hx) as [s' [t' [R C]]].
  rewrite R, decode_own_encoding by assumption. eauto.
Qed.

(** ** Round trip of a frame, for every length below 2^63, every chunking, with or without a
    limit that admits the frame *)
Theorem wt_roundtrip : forall r p s rest,
  packet_ok p = true -> (encoded_len true p <= Z.of_N max_int)%Z ->
  concat s = wt_send p ++ rest ->
  exceeds r (Z.to_N (encoded_len true p)) = false ->
  exists s' t, next_packet r s = (Ok (p, s'), t) /\ concat s' = rest.
Proof.
  intros r p s rest Hok Hmax Hs Hx. unfold wt_send, wt_header in Hs.
  set (n := Z.to_N (encoded_len true p)) in *.
  set (flag := if p_binary p then 128 else 0) in *.
  unfold next_packet.
  destruct (n <? 126) eqn:E1; [|destruct (n <? 65536) eqn:E2].
  - (* one header byte *)
    apply N.ltb_lt in E1. cbn [app] in Hs.
    destruct (read_prefix r 1 [n + flag] (encode_packet true p ++ rest) s Hs eq_refl (exceeds_1 r))
      as [s1 [t1 [R C]]].
    rewrite R. cbv beta iota zeta. destruct (first_byte n (p_binary p) ltac:(lia)) as [F1 F2]. fold flag in F1, F2.
    rewrite F1, F2. apply N.ltb_lt in E1. rewrite E1. now apply wt_payload_ok.
  - (* 126 + 16-bit length *)
    apply N.ltb_ge in E1. apply N.ltb_lt in E2. cbn [app] in Hs.
    destruct (read_prefix r 1 [126 + flag] (be_bytes 2 n ++ encode_packet true p ++ rest) s)
      as [s1 [t1 [R C]]]; [now rewrite <- app_assoc in Hs|reflexivity|apply exceeds_1|].
    rewrite R. cbv beta iota zeta. destruct (first_byte 126 (p_binary p) ltac:(lia)) as [F1 F2]. fold flag in F1, F2.
    rewrite F1, F2. cbn [N.ltb N.compare Pos.compare Pos.compare_cont N.eqb Pos.eqb].
    destruct (read_prefix r 2 (be_bytes 2 n) (encode_packet true p ++ rest) s1 C (be_bytes_len 2 n))
      as [s2 [t2 [R2 C2]]]; [apply (not_exceeds_le r 2 n); [lia|assumption]|].
    rewrite R2. cbv beta iota zeta. rewrite be_roundtrip. replace (n mod 256 ^ N.of_nat 2) with n by (cbn; lia).
    now apply wt_payload_ok.
  - (* 127 + 64-bit length *)
    apply N.ltb_ge in E1. apply N.ltb_ge in E2. cbn [app] in Hs.
    destruct (read_prefix r 1 [127 + flag] (be_bytes 8 n ++ encode_packet true p ++ rest) s)
      as [s1 [t1 [R C]]]; [now rewrite <- app_assoc in Hs|reflexivity|apply exceeds_1|].
    rewrite R. cbv beta iota zeta. destruct (first_byte 127 (p_binary p) ltac:(lia)) as [F1 F2]. fold flag in F1, F2.
    rewrite F1, F2. cbn [N.ltb N.compare Pos.compare Pos.compare_cont N.eqb Pos.eqb].
    destruct (read_prefix r 8 (be_bytes 8 n) (encode_packet true p ++ rest) s1 C (be_bytes_len 8 n))
      as [s2 [t2 [R2 C2]]]; [apply (not_exceeds_le r 8 n); [lia|assumption]|].
    rewrite R2. cbv beta iota zeta. rewrite be_roundtrip.
    assert (n <= max_int) by (unfold n; lia).
    replace (n mod 256 ^ N.of_nat 8) with n by (unfold max_int in *; cbn; lia).
    replace (max_int <? n) with false by lia.
    now apply wt_payload_ok.
Qed.

Lemma read_full_prefix r k s g s1 t h tail :
  read_full r k s = (Some (g, s1), t) -> concat s = h ++ tail -> nlen h = k ->
  g = h /\ concat s1 = tail.
Proof.
  intros R Hs Hk. apply read_full_some in R as [Lg Cg]. rewrite Hs in Cg.
  assert (g = h) as ->.
  { apply (f_equal (takeN k)) in Cg. rewrite !takeN_app_l, !takeN_all in Cg by lia. now symmetry. }
  split; [reflexivity|]. now apply app_inv_head in Cg.
Qed.

(** A frame longer than the configured limit is refused (no prefix of it is accepted as a
    packet), whatever the chunking. *)
Theorem wt_limit_enforced : forall r p s rest,
  (encoded_len true p <= Z.of_N max_int)%Z ->
  concat s = wt_send p ++ rest ->
  exceeds r (Z.to_N (encoded_len true p)) = true ->
  fst (next_packet r s) = Err.
Proof.
  intros r p s rest Hmax Hs Hx. unfold wt_send, wt_header in Hs.
  set (n := Z.to_N (encoded_len true p)) in *.
  set (flag := if p_binary p then 128 else 0) in *.
  unfold next_packet.
  assert (forall bin s t, fst (wt_payload r bin n s t) = Err) as WP.
  { intros. unfold wt_payload. now rewrite Hx. }
  destruct (read_full r 1 s) as [[[g s1]|] t1] eqn:R; [|reflexivity].
  destruct (n <? 126) eqn:E1; [|destruct (n <? 65536) eqn:E2].
  - apply N.ltb_lt in E1.
    destruct (read_full_prefix r 1 s g s1 t1 [n + flag] (encode_packet true p ++ rest) R) as [-> C];
      [exact Hs|reflexivity|].
    cbv beta iota zeta.
    destruct (first_byte n (p_binary p) ltac:(lia)) as [F1 F2]. fold flag in F1, F2.
    rewrite F1, F2. apply N.ltb_lt in E1. rewrite E1. apply WP.
  - apply N.ltb_ge in E1. apply N.ltb_lt in E2.
    destruct (read_full_prefix r 1 s g s1 t1 [126 + flag] (be_bytes 2 n ++ encode_packet true p ++ rest) R)
      as [-> C]; [rewrite Hs; cbn [app]; now rewrite <- app_assoc|reflexivity|].
    cbv beta iota zeta.
    destruct (first_byte 126 (p_binary p) ltac:(lia)) as [F1 F2]. fold flag in F1, F2.
    rewrite F1, F2. cbn [N.ltb N.compare Pos.compare Pos.compare_cont N.eqb Pos.eqb].
    destruct (read_full r 2 s1) as [[[h s2]|] t2] eqn:R2; [|reflexivity].
    destruct (read_full_prefix r 2 s1 h s2 t2 (be_bytes 2 n) (encode_packet true p ++ rest) R2 C (be_bytes_len 2 n))
      as [-> C2].
    cbv beta iota zeta. rewrite be_roundtrip. replace (n mod 256 ^ N.of_nat 2) with n by (cbn; lia). apply WP.
  - apply N.ltb_ge in E1. apply N.ltb_ge in E2.
    destruct (read_full_prefix r 1 s g s1 t1 [127 + flag] (be_bytes 8 n ++ encode_packet true p ++ rest) R)
      as [-> C]; [rewrite Hs; cbn [app]; now rewrite <- app_assoc|reflexivity|].
    cbv beta iota zeta.
    destruct (first_byte 127 (p_binary p) ltac:(lia)) as [F1 F2]. fold flag in F1, F2.
    rewrite F1, F2. cbn [N.ltb N.compare Pos.compare Pos.compare_cont N.eqb Pos.eqb].
    destruct (read_full r 8 s1) as [[[h s2]|] t2] eqn:R2; [|reflexivity].
    destruct (read_full_prefix r 8 s1 h s2 t2 (be_bytes 8 n) (encode_packet true p ++ rest) R2 C (be_bytes_len 8 n))
      as [-> C2].
    cbv beta iota zeta. rewrite be_roundtrip.
    assert (n <= max_int) by (unfold n; lia).
    replace (n mod 256 ^ N.of_nat 8) with n by (unfold max_int in *; cbn; lia).
    replace (max_int <? n) with false by lia. apply WP.
Qed.

(** ** nextPacket never panics, whatever the bytes, their chunking and the limit *)
Lemma wt_payload_no_panic r bin n s t : fst (wt_payload r bin n s t) <> Panic.
Proof.
  unfold wt_payload. destruct (exceeds r n); [discriminate|].
  pose proof (decode_with_len_no_panic r bin (Z.of_N n) s).
  destruct (decode_with_len r bin (Z.of_N n) s). assumption.
Qed.

Theorem wt_no_panic : forall r s, fst (next_packet r s) <> Panic.
Proof.
  intros r s. unfold next_packet.
  destruct (read_full r 1 s) as [[[g s1]|] t1] eqn:R; [|discriminate].
  apply read_full_some in R as [Lg _].
  destruct g as [|b0 [|b1 g]]; try (exfalso; unfold nlen in Lg; cbn in Lg; lia).
  cbv beta iota zeta.
  destruct (N.land b0 127 <? 126); [apply wt_payload_no_panic|].
  destruct (N.land b0 127 =? 126).
  - destruct (read_full r 2 s1) as [[[h s2]|] t2]; [apply wt_payload_no_panic|discriminate].
  - destruct (read_full r 8 s1) as [[[h s2]|] t2]; [|discriminate].
    destruct (max_int <? be_val h); [discriminate|apply wt_payload_no_panic].
Qed.

(** ** Allocation is bounded by the configured limit and by the data received *)
Definition alloc_ok (r : rd) (avail : N) (a : N) : Prop :=
  (forall l, r = Some l -> (0 < l)%Z -> (Z.of_N a <= l)%Z)
  /\ (a <= max_prealloc \/ a <= 2 * avail).

Lemma wt_payload_allocs r bin n s t avail :
  allocs_of t = [] -> nlen (concat s) <= avail ->
  Forall (alloc_ok r avail) (allocs_of (snd (wt_payload r bin n s t))).
Proof.
  intros Ht Hs. unfold wt_payload. destruct (exceeds r n) eqn:X; [cbn [snd]; rewrite Ht; constructor|].
  pose proof (decode_with_len_allocs r bin n s) as A.
  destruct (decode_with_len r bin (Z.of_N n) s) as [o t']. cbn [snd] in *.
  rewrite allocs_of_app, Ht. cbn [app]. eapply Forall_impl; [|exact A].
  intros a [H1 H2]. split.
  - intros l -> Hl. pose proof (not_exceeds_limit (Some l) n l X eq_refl Hl). lia.
  - lia.
Qed.

Theorem wt_alloc_bounded : forall r s,
  Forall (alloc_ok r (nlen (concat s))) (allocs_of (snd (next_packet r s))).
Proof.
  intros r s. unfold next_packet.
  pose proof (read_full_no_alloc s r 1) as NA1.
  destruct (read_full r 1 s) as [[[g s1]|] t1] eqn:R; cbn [snd] in NA1; cbv beta iota zeta;
    [|cbn [snd]; rewrite NA1; constructor].
  apply read_full_some in R as [Lg Cg].
  assert (nlen (concat s1) <= nlen (concat s)) as L1 by (rewrite Cg, nlen_app; lia).
  destruct g as [|b0 [|b1 g]]; cbv beta iota zeta; try (cbn [snd]; rewrite NA1; constructor).
  destruct (N.land b0 127 <? 126); [now apply wt_payload_allocs|].
  destruct (N.land b0 127 =? 126).
  - pose proof (read_full_no_alloc s1 r 2) as NA2.
    destruct (read_full r 2 s1) as [[[h s2]|] t2] eqn:R2; cbn [snd] in NA2.
    + apply read_full_some in R2 as [Lh Ch]. apply wt_payload_allocs.
      * now rewrite allocs_of_app, NA1, NA2.
      * rewrite Ch, nlen_app in L1. lia.
    + cbn [snd]. rewrite allocs_of_app, NA1, NA2. constructor.
  - pose proof (read_full_no_alloc s1 r 8) as NA2.
    destruct (read_full r 8 s1) as [[[h s2]|] t2] eqn:R2; cbn [snd] in NA2.
    + apply read_full_some in R2 as [Lh Ch].
      destruct (max_int <? be_val h); [cbn [snd]; rewrite allocs_of_app, NA1, NA2; constructor|].
      apply wt_payload_allocs.
      * now rewrite allocs_of_app, NA1, NA2.
      * rewrite Ch, nlen_app in L1. lia.
    + cbn [snd]. rewrite allocs_of_app, NA1, NA2. constructor.
Qed.

(** ** The three prefix forms *)
Theorem wt_prefix_forms : forall (n : N) (bin : bool),
  let flag := if bin then 128 else 0 in
  (n < 126 -> wt_header n bin = [n + flag])
  /\ (126 <= n < 65536 -> wt_header n bin = [126 + flag; n / 256; n mod 256])
  /\ (65536 <= n -> wt_header n bin = (127 + flag) :: be_bytes 8 n /\ nlen (wt_header n bin) = 9).
Proof.
  intros n bin flag. unfold wt_header. fold flag. repeat split.
  - intros H. apply N.ltb_lt in H. now rewrite H.
  - intros [H1 H2]. apply N.ltb_ge in H1. apply N.ltb_lt in H2. rewrite H1, H2.
    cbn [be_bytes app]. f_equal. f_equal. apply N.mod_small. apply N.div_lt_upper_bound; lia.
  - assert (n <? 126 = false) as -> by lia. assert (n <? 65536 = false) as -> by lia. reflexivity.
  - assert (n <? 126 = false) as -> by lia. assert (n <? 65536 = false) as -> by lia.
    change (nlen ((127 + flag) :: be_bytes 8 n)) with (N.of_nat (S (length (be_bytes 8 n)))).
    pose proof (be_bytes_len 8 n) as L. unfold nlen in L. lia.
Qed.
