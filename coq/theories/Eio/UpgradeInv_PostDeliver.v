(** Preservation of the upgrade invariant (Eio/UpgradeInv.v) by label PostDeliver. *)
From SioV Require Import Base.GoSem Base.Conc Eio.Upgrade Eio.UpgradeInv.
From Coq Require Import Lia.

Lemma inv_PostDeliver n i st st' : inv n st -> step (PostDeliver i) st = Some st' -> inv n st'.
Proof. intros I H. label_case. Qed.
