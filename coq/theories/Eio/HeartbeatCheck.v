(** Executable comparison and oracles used by the C14 correspondence check (kernel evaluation).

    A recorded live history (timestamps of pings seen by the client, pongs seen by the server, the
    OnClose callbacks) is turned by the check into a candidate run of the model: the observed
    events plus the internal steps (STake / CRearm, unobserved SWake) placed by the check.  The
    candidate is only a certificate: [agree_s] / [agree_c] accept it iff it is a VALID run of the
    model of Eio/Heartbeat.v (slack := the tolerance measured for that scenario) that ends in the
    observed close (time and reason) or in no close.  So "the implementation's history is a
    behaviour of the model" is decided by the model itself. *)
From SioV Require Import Eio.Heartbeat.
Open Scope Z_scope.

Definition reason_of (k : N) : reason :=
  match k with 0%N => PingTimeout | 1%N => TransportClose | 2%N => TransportError | _ => ForcedClose end.

Definition sev_of (k : N) : sev :=
  match k with
  | 0%N => SWake | 1%N => SPong | 2%N => STake | 3%N => STimeout
  | 4%N => SExt TransportClose | 5%N => SExt TransportError | 6%N => SExt ForcedClose
  | _ => SApp
  end.

Definition cev_of (k : N) : cev :=
  match k with
  | 0%N => CPing | 1%N => CRearm | 2%N => CTimeout
  | 4%N => CExt TransportClose | 5%N => CExt TransportError | 6%N => CExt ForcedClose
  | _ => CApp
  end.

(** (I, T, D, drain, start, events, t_end, observed close (time, reason code)) *)
Definition hcase := (Z * Z * Z * bool * Z * list (Z * N) * Z * option (Z * N))%type.

Definition close_matches_s (st : sst) (cl : option (Z * N)) : bool :=
  match sph st, cl with
  | SClosed t r, Some (t', k) => (t =? t') && reason_eqb r (reason_of k)
  | SClosed _ _, None => false
  | _, None => true
  | _, Some _ => false
  end.

Definition close_matches_c (st : cst) (cl : option (Z * N)) : bool :=
  match cph st, cl with
  | CClosed t r, Some (t', k) => (t =? t') && reason_eqb r (reason_of k)
  | CClosed _ _, None => false
  | _, None => true
  | _, Some _ => false
  end.

Definition agree_s (x : hcase) : bool :=
  let '(pI, pT, pD, dr, start, evs, t_end, cl) := x in
  match svalid (mkCfg pI pT pD dr) gtrue start (map (fun te => (fst te, sev_of (snd te))) evs) t_end with
  | Some st => close_matches_s st cl
  | None => false
  end.

Definition agree_c (x : hcase) : bool :=
  let '(pI, pT, pD, dr, start, evs, t_end, cl) := x in
  match cvalid (mkCfg pI pT pD dr) cgtrue start (map (fun te => (fst te, cev_of (snd te))) evs) t_end with
  | Some st => close_matches_c st cl
  | None => false
  end.

(** Property oracles, evaluated on the implementation's observation alone.
    (kind, I, T, D, t0, observed close, t_end):
      kind 0  server, no pong arrived after t0: closed by t0 + I + T + 3D, by the heartbeat
              ("ping timeout") or because the transport was closed under it before that;
      kind 1  client, no ping arrived after t0: closed by t0 + I + T + 2D, same reasons;
      kind 2  live peer: not closed at all during the observation;
      kind 5  live peer, client side: not closed, and pings keep flowing: the latest ping (t0) is no
              older than I + 3D when the observation ends;
      kind 3/4 as 0/1 when BOTH directions are black-holed: nothing but the heartbeat can have
              closed the socket, so the reason must be "ping timeout". *)
Definition ocase := (N * Z * Z * Z * Z * option (Z * N) * Z)%type.

Definition reason_acceptable (k : N) : bool :=
  match k with 0%N | 1%N | 2%N => true | _ => false end.

Definition oracle (x : ocase) : bool :=
  let '(kind, pI, pT, pD, t0, cl, t_end) := x in
  match kind with
  | 0%N => match cl with
           | Some (t, k) => (t <=? t0 + pI + pT + 3 * pD) && reason_acceptable k
           | None => t_end <=? t0 + pI + pT + 3 * pD      (* observation ended before the bound *)
           end
  | 1%N => match cl with
           | Some (t, k) => (t <=? t0 + pI + pT + 2 * pD) && reason_acceptable k
           | None => t_end <=? t0 + pI + pT + 2 * pD
           end
  | 2%N => match cl with None => true | Some _ => false end
  | 5%N => match cl with None => t_end - t0 <=? pI + 3 * pD | Some _ => false end
  | 3%N => match cl with
           | Some (t, k) => (t <=? t0 + pI + pT + 3 * pD) && (k =? 0)%N
           | None => t_end <=? t0 + pI + pT + 3 * pD
           end
  | _ => match cl with
           | Some (t, k) => (t <=? t0 + pI + pT + 2 * pD) && (k =? 0)%N
           | None => t_end <=? t0 + pI + pT + 2 * pD
           end
  end.

(** * Live histories as runs of the composed system (Eio/HeartbeatLink.v) *)
From SioV Require Import Eio.HeartbeatLink.

Definition xev_of (k : N) : xev :=
  match k with
  | 0%N => XS SWake | 2%N => XS STake | 3%N => XS STimeout
  | 10%N => XDeliver | 11%N => XDeliverPong | 14%N => XSwap | 15%N => XSend DNoop | 16%N => XSend DMsg | 12%N => XC CRearm | 13%N => XC CTimeout
  | 7%N => XS SApp | _ => XC CApp
  end.

(** (I, T, D, lDown, lUp, start, events, t_end): a live scenario's history must be a valid run of
    the composition under the link bounds measured for it, with both sides still open; when
    lDown + lUp + 2D < T this is an instance of C14_live_never_killed. *)
Definition xcase := (Z * Z * Z * Z * Z * Z * list (Z * N) * Z)%type.

Definition agree_x (x : xcase) : bool :=
  let '(pI, pT, pD, ld, lu, start, evs, t_end) := x in
  (ld + lu + 2 * pD <? pT) &&
  match xvalid (mkCfg pI pT pD true) (mkLink ld lu keep_code) start
               (map (fun te => (fst te, xev_of (snd te))) evs) t_end with
  | Some st => match s_reason (xs st), c_reason (xc st) with None, None => true | _, _ => false end
  | None => false
  end.
