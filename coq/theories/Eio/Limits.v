(** Limit decisions of Engine.IO, every transport, both directions (property C13).

    Ports (code as repaired by the three `fix:` commits recorded in known_findings.txt):
    - engine.io/server.go:newServer            effective limit from MaxBufferSize / DisableMaxBufferSize
    - engine.io/server.go:newHandshakePacket   maxPayload announced in the OPEN packet
    - transport/polling/server.go:handleDataRequest
          if max > 0 && r.ContentLength > max { 413; close }           (declared size, nothing read)
          if max > 0 { r.Body = http.MaxBytesReader(w, r.Body, max) }  (undeclared size: chunked)
          DecodePayloads(r.Body) = io.ReadAll ...; error -> 413 (MaxBytesError) + close
    - transport/websocket/server.go:Handshake  readLimit > 0 ? SetReadLimit(readLimit) : SetReadLimit(-1)
    - transport/websocket/client.go:Handshake  maxPayload > 0 ? SetReadLimit(maxPayload) : SetReadLimit(-1)
    - transport/polling/client.go:poll         DecodePayloads(io.ReadAll(body)): no limit
    - transport/webtransport/packet.go:nextPacket   server: declared frame length over the limit ->
                                                ErrLimitReached before the payload is read (C11's fix);
                                                client: no limit
    and the two library readers the decisions rest on, as small-step relations over every way the
    bytes of one message can be cut into reads:
    - nhooyr.io/websocket read.go:limitReader.Read  (SetReadLimit(n) stores n+1)
    - net/http request.go:maxBytesReader.Read
    Sizes are bytes on the wire: POST body, WebSocket message, encoded packet.  All sizes are [Z]. *)
From SioV Require Export Base.GoSem.
Local Open Scope Z_scope.

(** * Configuration and announced limit *)

Record cfg := mkCfg {
  c_max : Z;          (* ServerConfig.MaxBufferSize *)
  c_disabled : bool   (* ServerConfig.DisableMaxBufferSize *)
}.

Definition default_max_buffer_size : Z := 1000000.   (* constants.go: defaultMaxBufferSize = 1e6 *)

(** newServer: s.maxBufferSize after defaulting; 0 = no limit. *)
Definition effective_max (c : cfg) : Z :=
  if c_disabled c then 0
  else if c_max c =? 0 then default_max_buffer_size else c_max c.

(** newHandshakePacket: MaxPayload: int64(s.maxBufferSize). *)
Definition announced_max_payload (c : cfg) : Z := effective_max c.

(** * Outcome of handling one inbound message *)

Record outcome := mkOutcome {
  o_accept : bool;   (* handed to OnPacket; the transport stays open *)
  o_status : Z;      (* HTTP status of a POST; -1 on other transports *)
  o_pulled : Z;      (* bytes taken from the body / message before the decision *)
  o_closed : bool    (* transport closed by the receiver *)
}.

Definition accepted (status size : Z) : outcome := mkOutcome true status size false.
Definition rejected (status pulled : Z) : outcome := mkOutcome false status pulled true.

(** * Long-polling POST (server side) *)

(** r.ContentLength: the declared size, -1 for a chunked body. *)
Definition content_length (declared : option Z) : Z :=
  match declared with Some n => n | None => -1 end.

(** Summary of io.ReadAll over http.MaxBytesReader(body, max) ([mbr_run] below is the reader itself):
    a body of at most [max] bytes is read in full, from a longer one exactly [max+1] bytes are
    taken (the byte that proves the overrun) and [max] are handed on. *)
Definition max_bytes_read (body_len max : Z) : bool * Z :=
  if body_len <=? max then (true, body_len) else (false, max + 1).

(** handleDataRequest on a well-formed payload of [body_len] bytes. *)
Definition post_decision (declared : option Z) (body_len max : Z) : outcome :=
  if (max >? 0) && (content_length declared >? max) then rejected 413 0
  else if max >? 0 then
    let '(ok, pulled) := max_bytes_read body_len max in
    if ok then accepted 200 pulled else rejected 413 pulled
  else accepted 200 body_len.

(** * WebSocket (either side) *)

(** The read limit in force on a connection: [Some l] = SetReadLimit(l), [None] = SetReadLimit(-1).
    [m] is s.maxBufferSize on the server and the handshake's maxPayload on the client. *)
Definition ws_read_limit (m : Z) : option Z := if m >? 0 then Some m else None.

(** Summary of io.ReadAll over the library's limitReader ([lr_run] below). *)
Definition ws_outcome (lim : option Z) (size : Z) : outcome :=
  match lim with
  | None => accepted (-1) size
  | Some l => if size <=? l then accepted (-1) size else rejected (-1) (l + 1)
  end.

(** [accepts len limit] of the design: a message of [len] bytes passes a reader limited to [limit]. *)
Definition accepts (len : Z) (lim : option Z) : bool := o_accept (ws_outcome lim len).

(** * Every transport, both directions *)

Inductive direction := C2S | S2C.
(** For S2C the three polling variants are the same thing: the body of a GET response. *)
Inductive transport := PostCL | PostChunked | WS | Poll | WT.

(** WebTransport frame on the server: the header declares the length; over the limit it is refused
    before a byte of the payload is read or allocated (limitedReader.exceeds in nextPacket). *)
Definition wt_decision (size max : Z) : outcome :=
  if (max >? 0) && (size >? max) then rejected (-1) 0 else accepted (-1) size.

Definition decide (c : cfg) (d : direction) (t : transport) (size : Z) : outcome :=
  match d, t with
  | C2S, PostCL => post_decision (Some size) size (effective_max c)
  | C2S, (PostChunked | Poll) => post_decision None size (effective_max c)
  | C2S, WS => ws_outcome (ws_read_limit (effective_max c)) size
  | C2S, WT => wt_decision size (effective_max c)
  | S2C, WS => ws_outcome (ws_read_limit (announced_max_payload c)) size
  | S2C, _ => accepted (-1) size     (* polling and webtransport clients: no limit *)
  end.

(** * A session: messages one after the other on one transport

    The receiver handles messages in order; the first one it refuses closes the transport and
    nothing after it is delivered.  Result: sizes delivered to OnPacket, and whether the transport
    was closed by the receiver. *)
Fixpoint session (c : cfg) (d : direction) (t : transport) (sizes : list Z) : list Z * bool :=
  match sizes with
  | [] => ([], false)
  | s :: rest =>
      if o_accept (decide c d t s)
      then let '(dl, cl) := session c d t rest in (s :: dl, cl)
      else ([], true)
  end.

(** * The library readers, read by read *)

Inductive read_result :=
| RDone (got : Z)      (* io.ReadAll returned [got] bytes, nil *)
| RTooBig (got : Z).   (* io.ReadAll returned an error after [got] bytes were handed to it *)

(** nhooyr.io/websocket limitReader under io.ReadAll.  State: [rem] bytes of the message not yet
    read (over all of its frames), [n] = lr.n >= 0 (the limited case; SetReadLimit(l) stores l+1,
    reset per message), [got] bytes handed on.  Each Read gets a buffer of [buf] >= 1 bytes and the
    source returns any [k] with 1 <= k <= min(buf, n, rem); at rem = 0 the source returns EOF.
      if lr.n == 0 { writeError(StatusMessageTooBig); return 0, err }
      if len(p) > lr.n { p = p[:lr.n] }; n, err := lr.r.Read(p); lr.n -= n *)
Inductive lr_run : Z -> Z -> Z -> read_result -> Prop :=
| lr_limit : forall rem got, lr_run rem 0 got (RTooBig got)
| lr_eof : forall n got, 0 < n -> lr_run 0 n got (RDone got)
| lr_read : forall rem n got buf k r,
    0 < n -> 0 < rem -> 1 <= buf -> 1 <= k -> k <= buf -> k <= n -> k <= rem ->
    lr_run (rem - k) (n - k) (got + k) r ->
    lr_run rem n got r.

(** net/http maxBytesReader under io.ReadAll.  State: [rem], [n] = l.n, [got] bytes handed on,
    [pulled] bytes taken from the body.
      if len(p)-1 > l.n { p = p[:l.n+1] }; n, err = l.r.Read(p)
      if n <= l.n { l.n -= n; return n, err }
      n = l.n; l.n = 0; l.err = &MaxBytesError{}; return n, l.err *)
Inductive mbr_run : Z -> Z -> Z -> Z -> read_result * Z -> Prop :=
| mbr_eof : forall n got pulled, mbr_run 0 n got pulled (RDone got, pulled)
| mbr_read : forall rem n got pulled buf k r,
    0 < rem -> 1 <= buf -> 1 <= k -> k <= buf -> k <= n + 1 -> k <= rem -> k <= n ->
    mbr_run (rem - k) (n - k) (got + k) (pulled + k) r ->
    mbr_run rem n got pulled r
| mbr_over : forall rem n got pulled buf k,
    0 < rem -> 1 <= buf -> 1 <= k -> k <= buf -> k <= n + 1 -> k <= rem -> n < k ->
    mbr_run rem n got pulled (RTooBig (got + n), pulled + k).
