From SioV Require Import Eio.Batcher.

Lemma payload_len_app_single cur p :
  cur <> [] -> payload_len (cur ++ [p]) = (payload_len cur + 1 + encoded_len false p)%Z.
Proof.
  induction cur as [|a cur IH]; intros Hne; [congruence|].
  destruct cur as [|b cur].
  - simpl. lia.
  - change ((a :: b :: cur) ++ [p]) with (a :: ((b :: cur) ++ [p])).
    assert (E : forall x l, l <> [] -> payload_len (x :: l) = (encoded_len false x + 1 + payload_len l)%Z).
    { intros x [|y l] H; [congruence|reflexivity]. }
    rewrite (E a ((b :: cur) ++ [p])) by (simpl; discriminate).
    rewrite IH by discriminate. rewrite (E a (b :: cur)) by discriminate. lia.
Qed.

(** Invariant of the loop: [sz] is the real payload length of the open batch. *)
Lemma batch_go_concat max ps : forall cur sz,
  concat (batch_go max cur sz ps) = cur ++ ps.
Proof.
  induction ps as [|p ps IH]; intros cur sz; simpl.
  - now rewrite app_nil_r.
  - destruct (_ >? _)%Z; simpl; rewrite IH; [reflexivity|now rewrite <- app_assoc].
Qed.

Lemma batch_go_nonempty max ps : forall cur sz,
  cur <> [] -> Forall (fun b => b <> []) (batch_go max cur sz ps).
Proof.
  induction ps as [|p ps IH]; intros cur sz Hc; simpl.
  - constructor; auto.
  - destruct (_ >? _)%Z.
    + constructor; auto. apply IH; discriminate.
    + apply IH. destruct cur; discriminate.
Qed.

(** Every batch is within the limit unless it consists of a single packet. *)
Definition batch_ok (max : Z) (b : list packet) : Prop :=
  (payload_len b <= max)%Z \/ length b = 1%nat.

Lemma batch_go_within max ps : forall cur sz,
  cur <> [] -> sz = payload_len cur -> batch_ok max cur ->
  Forall (batch_ok max) (batch_go max cur sz ps).
Proof.
  induction ps as [|p ps IH]; intros cur sz Hne Hsz Hok; simpl.
  - constructor; auto.
  - destruct (Z.gtb_spec (sz + 1 + encoded_len false p) max) as [Hgt|Hle].
    + constructor; auto. apply IH; [discriminate|reflexivity|right; reflexivity].
    + apply IH.
      * destruct cur; discriminate.
      * rewrite payload_len_app_single by assumption. lia.
      * left. rewrite payload_len_app_single by assumption. lia.
Qed.

(** Greedy: a batch is closed only when the next packet would not have fitted. *)
Fixpoint greedy (max : Z) (bs : list (list packet)) : Prop :=
  match bs with
  | b :: ((p :: _) :: _) as rest => (payload_len (b ++ [p]) > max)%Z /\ greedy max rest
  | _ => True
  end.

Lemma batch_go_head max ps : forall cur sz,
  exists b rest, batch_go max cur sz ps = b :: rest /\ exists tl, b = cur ++ tl.
Proof.
  induction ps as [|p ps IH]; intros cur sz; simpl.
  - exists cur, []; split; auto. exists []; now rewrite app_nil_r.
  - destruct (_ >? _)%Z.
    + exists cur, (batch_go max [p] (encoded_len false p) ps); split; auto. exists []; now rewrite app_nil_r.
    + destruct (IH (cur ++ [p]) (sz + 1 + encoded_len false p)%Z) as (b & rest & E & tl & Eb).
      exists b, rest; split; auto. exists (p :: tl). now rewrite Eb, <- app_assoc.
Qed.

Lemma batch_go_greedy max ps : forall cur sz,
  cur <> [] -> sz = payload_len cur -> greedy max (batch_go max cur sz ps).
Proof.
  induction ps as [|p ps IH]; intros cur sz Hne Hsz; simpl; auto.
  destruct (Z.gtb_spec (sz + 1 + encoded_len false p) max) as [Hgt|Hle].
  - destruct (batch_go_head max ps [p] (encoded_len false p)) as (b & rest & E & tl & Eb).
    pose proof (IH [p] (encoded_len false p) ltac:(discriminate) eq_refl) as G.
    rewrite E in *. subst b. simpl. split; auto.
    rewrite payload_len_app_single by assumption. lia.
  - apply IH; [destruct cur; discriminate|].
    rewrite payload_len_app_single by assumption. lia.
Qed.

(** * Statements about what the client hands to the transport *)

Lemma write_concat max polling ps : concat (write_writable max polling ps) = ps.
Proof.
  destruct ps as [|p ps]; simpl; auto.
  destruct (_ && _).
  - now rewrite batch_go_concat.
  - simpl. now rewrite app_nil_r.
Qed.

Lemma write_nonempty max polling ps :
  Forall (fun b => b <> []) (write_writable max polling ps).
Proof.
  destruct ps as [|p ps]; simpl; auto.
  destruct (_ && _).
  - apply batch_go_nonempty; discriminate.
  - constructor; auto; discriminate.
Qed.

Lemma write_within max ps :
  (max > 0)%Z -> Forall (batch_ok max) (write_writable max true ps).
Proof.
  intros Hmax. destruct ps as [|p ps]; simpl; auto.
  assert (Hm : (max >? 0)%Z = true) by (apply Z.gtb_lt; lia). rewrite Hm; simpl.
  destruct ps as [|q ps]; simpl.
  - constructor; auto. right; reflexivity.
  - apply (batch_go_within max (q :: ps) [p]); [discriminate|reflexivity|right; reflexivity].
Qed.

Lemma write_greedy max ps :
  (max > 0)%Z -> greedy max (write_writable max true ps).
Proof.
  intros Hmax. destruct ps as [|p ps]; simpl; auto.
  assert (Hm : (max >? 0)%Z = true) by (apply Z.gtb_lt; lia). rewrite Hm; simpl.
  destruct ps as [|q ps]; [simpl; auto|].
  apply (batch_go_greedy max (q :: ps) [p]); [discriminate|reflexivity].
Qed.

Lemma write_unlimited max polling ps :
  ps <> [] -> (max <= 0)%Z \/ polling = false -> write_writable max polling ps = [ps].
Proof.
  intros Hne H. destruct ps as [|p ps]; [congruence|]. simpl.
  destruct H as [H|H].
  - assert (Hm : (max >? 0)%Z = false) by (rewrite Z.gtb_ltb; apply Z.ltb_ge; lia). now rewrite Hm.
  - subst. now rewrite andb_false_r.
Qed.
