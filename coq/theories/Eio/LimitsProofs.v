(** Proofs about the limit decisions (Eio/Limits.v); all sizes and limits are unbounded [Z]. *)
From SioV Require Import Eio.Limits Eio.Batcher Eio.BatcherProofs.
Local Open Scope Z_scope.

(** * The library readers decide by size alone, however the message is cut into reads *)

Lemma lr_run_sound rem n got r :
  lr_run rem n got r -> 0 <= rem -> 0 <= n ->
  r = if rem <? n then RDone (got + rem) else RTooBig (got + n).
Proof.
  induction 1; intros Hrem Hn.
  - destruct (Z.ltb_spec rem 0); [lia|]. f_equal; lia.
  - destruct (Z.ltb_spec 0 n); [|lia]. f_equal; lia.
  - rewrite IHlr_run by lia.
    destruct (Z.ltb_spec (rem - k) (n - k)), (Z.ltb_spec rem n); try lia; f_equal; lia.
Qed.

Lemma lr_run_exists rem n got : 0 <= rem -> 0 <= n -> exists r, lr_run rem n got r.
Proof.
  intros Hrem Hn.
  destruct (Z.eq_dec n 0) as [->|Hn0]; [eexists; apply lr_limit|].
  destruct (Z.eq_dec rem 0) as [->|Hr0]; [eexists; apply lr_eof; lia|].
  set (k := Z.min n rem).
  assert (Hk : 1 <= k /\ k <= n /\ k <= rem) by (unfold k; lia).
  destruct (Z.eq_dec (n - k) 0) as [E|E].
  - eexists. apply lr_read with (buf := k) (k := k); try lia. rewrite E. apply lr_limit.
  - assert (E' : rem - k = 0) by (unfold k in *; lia).
    eexists. apply lr_read with (buf := k) (k := k); try lia. rewrite E'. apply lr_eof. lia.
Qed.

Lemma mbr_run_sound rem n got pulled r :
  mbr_run rem n got pulled r -> 0 <= rem -> 0 <= n ->
  r = if rem <=? n then (RDone (got + rem), pulled + rem)
      else (RTooBig (got + n), pulled + n + 1).
Proof.
  induction 1; intros Hrem Hn.
  - destruct (Z.leb_spec 0 n); [|lia]. f_equal; [f_equal|]; lia.
  - rewrite IHmbr_run by lia.
    destruct (Z.leb_spec (rem - k) (n - k)), (Z.leb_spec rem n); try lia; (f_equal; [f_equal|]; lia).
  - destruct (Z.leb_spec rem n); [lia|]. f_equal; lia.
Qed.

Lemma mbr_run_exists rem n got pulled :
  0 <= rem -> 0 <= n -> exists r, mbr_run rem n got pulled r.
Proof.
  intros Hrem Hn.
  destruct (Z.eq_dec rem 0) as [->|Hr0]; [eexists; apply mbr_eof|].
  destruct (Z_le_gt_dec rem n).
  - eexists. apply mbr_read with (buf := rem) (k := rem); try lia.
    replace (rem - rem) with 0 by lia. apply mbr_eof.
  - eexists. apply mbr_over with (buf := n + 1) (k := n + 1); lia.
Qed.

(** The executable summaries are these readers. *)

Definition lr_start (lim : option Z) : option Z :=   (* SetReadLimit stores l+1; None: unlimited *)
  match lim with Some l => Some (l + 1) | None => None end.

Lemma ws_outcome_is_limit_reader l size r :
  0 <= size -> 0 <= l -> lr_run size (l + 1) 0 r ->
  match r with
  | RDone got => got = size /\ ws_outcome (Some l) size = accepted (-1) size
  | RTooBig got => got = l + 1 /\ ws_outcome (Some l) size = rejected (-1) (l + 1)
  end.
Proof.
  intros Hs Hl Hrun. apply lr_run_sound in Hrun; try lia. subst r. unfold ws_outcome.
  destruct (Z.ltb_spec size (l + 1)), (Z.leb_spec size l); try lia; split; auto; lia.
Qed.

Lemma max_bytes_read_is_reader body max r :
  0 <= body -> 0 <= max -> mbr_run body max 0 0 r ->
  r = (if fst (max_bytes_read body max) then RDone body else RTooBig max,
       snd (max_bytes_read body max)).
Proof.
  intros Hb Hm Hrun. apply mbr_run_sound in Hrun; try lia. subst r. unfold max_bytes_read.
  destruct (Z.leb_spec body max); simpl; rewrite ?Z.add_0_l; reflexivity.
Qed.

(** * Configuration *)

(** The limit is switched on: not disabled, and MaxBufferSize is not negative (a negative value is
    not given a meaning by the documentation; the code treats it as "no limit"). *)
Definition limit_on (c : cfg) : Prop := c_disabled c = false /\ 0 <= c_max c.

(** The limit the documentation promises: MaxBufferSize, 1e6 when left at 0. *)
Definition the_limit (c : cfg) : Z :=
  if c_max c =? 0 then default_max_buffer_size else c_max c.

Lemma effective_max_on c : limit_on c -> effective_max c = the_limit c /\ 0 < the_limit c.
Proof.
  intros [Hd Hm]. unfold effective_max, the_limit, default_max_buffer_size. rewrite Hd.
  destruct (Z.eqb_spec (c_max c) 0); lia.
Qed.

Lemma effective_max_disabled c : c_disabled c = true -> effective_max c = 0.
Proof. intros H. unfold effective_max. now rewrite H. Qed.

Lemma announced_is_limit c : limit_on c -> announced_max_payload c = the_limit c.
Proof. intros H. apply effective_max_on in H. apply H. Qed.

Lemma announced_disabled c : c_disabled c = true -> announced_max_payload c = 0.
Proof. apply effective_max_disabled. Qed.

(** * Decisions *)

Lemma post_decision_cases declared body max :
  0 <= body -> (forall n, declared = Some n -> n = body) ->
  post_decision declared body max =
    if (max >? 0) && (body >? max)
    then rejected 413 (match declared with Some _ => 0 | None => max + 1 end)
    else accepted 200 body.
Proof.
  intros Hb Hd. unfold post_decision, max_bytes_read, content_length.
  destruct declared as [n|].
  - rewrite (Hd n eq_refl).
    destruct (Z.gtb_spec max 0), (Z.gtb_spec body max); simpl; auto.
    destruct (Z.leb_spec body max); auto; lia.
  - destruct (Z.gtb_spec max 0); simpl.
    + destruct (Z.gtb_spec (-1) max); [lia|].
      destruct (Z.leb_spec body max), (Z.gtb_spec body max); auto; lia.
    + reflexivity.
Qed.

Lemma decide_c2s c t size :
  0 <= size ->
  decide c C2S t size =
    let m := effective_max c in
    if (m >? 0) && (size >? m)
    then rejected (match t with WS | WT => -1 | _ => 413 end)
                  (match t with PostCL | WT => 0 | _ => m + 1 end)
    else accepted (match t with WS | WT => -1 | _ => 200 end) size.
Proof.
  intros Hs. cbv zeta.
  destruct t; unfold decide;
    try (rewrite post_decision_cases by (try lia; congruence); reflexivity).
  - unfold ws_outcome, ws_read_limit.
    destruct (Z.gtb_spec (effective_max c) 0); simpl; auto.
    destruct (Z.leb_spec size (effective_max c)), (Z.gtb_spec size (effective_max c)); auto; lia.
  - reflexivity.
Qed.

Lemma decide_s2c c t size :
  decide c S2C t size =
    let m := announced_max_payload c in
    match t with
    | WS => if (m >? 0) && (size >? m) then rejected (-1) (m + 1) else accepted (-1) size
    | _ => accepted (-1) size
    end.
Proof.
  cbv zeta. destruct t; unfold decide; auto.
  unfold ws_outcome, ws_read_limit.
  destruct (Z.gtb_spec (announced_max_payload c) 0); simpl; auto.
  destruct (Z.leb_spec size (announced_max_payload c)),
           (Z.gtb_spec size (announced_max_payload c)); auto; lia.
Qed.

(** The server never takes more than limit+1 bytes of one inbound message from any transport (the
    extra byte is the one that proves an undeclared size is over the limit; with a declared size
    nothing is read), what it accepts is within the limit, and what it does not accept closes the
    transport. *)
Lemma server_never_buffers_beyond c t size :
  limit_on c -> 0 <= size ->
  let o := decide c C2S t size in
  o_pulled o <= the_limit c + 1 /\
  (o_accept o = true -> o_pulled o = size /\ size <= the_limit c) /\
  (o_accept o = false -> o_closed o = true /\ the_limit c < size).
Proof.
  intros Hon Hs. destruct (effective_max_on c Hon) as [E Hpos]. cbv zeta.
  rewrite decide_c2s by assumption. cbv zeta. rewrite E.
  destruct (Z.gtb_spec (the_limit c) 0); [|lia].
  destruct (Z.gtb_spec size (the_limit c)); simpl.
  - repeat split; try discriminate; try lia. destruct t; lia.
  - repeat split; try discriminate; lia.
Qed.

Lemma over_limit_rejected_and_closed c t size :
  limit_on c -> the_limit c < size ->
  let o := decide c C2S t size in
  o_accept o = false /\ o_closed o = true /\
  (t <> WS -> t <> WT -> o_status o = 413) /\ (t = PostCL \/ t = WT -> o_pulled o = 0).
Proof.
  intros Hon Hs. destruct (effective_max_on c Hon) as [E Hpos]. cbv zeta.
  rewrite decide_c2s by lia. cbv zeta. rewrite E.
  destruct (Z.gtb_spec (the_limit c) 0); [|lia].
  destruct (Z.gtb_spec size (the_limit c)); [|lia]. simpl.
  repeat split; auto.
  - destruct t; auto; congruence.
  - intros [-> | ->]; reflexivity.
Qed.

(** [size] is within what the handshake announced (maxPayload = 0: nothing is announced). *)
Definition within_announced (c : cfg) (size : Z) : Prop :=
  announced_max_payload c <= 0 \/ size <= announced_max_payload c.

Lemma within_limit_accepted c d t size :
  0 <= size -> within_announced c size ->
  let o := decide c d t size in
  o_accept o = true /\ o_pulled o = size /\ o_closed o = false.
Proof.
  intros Hs Hw. cbv zeta. unfold within_announced, announced_max_payload in Hw.
  destruct d.
  - rewrite decide_c2s by assumption. cbv zeta.
    destruct (Z.gtb_spec (effective_max c) 0), (Z.gtb_spec size (effective_max c));
      simpl; auto; lia.
  - rewrite decide_s2c. cbv zeta. unfold announced_max_payload.
    destruct t; simpl; auto.
    destruct (Z.gtb_spec (effective_max c) 0), (Z.gtb_spec size (effective_max c));
      simpl; auto; lia.
Qed.

Lemma disabled_accepts_all c d t size :
  c_disabled c = true -> 0 <= size ->
  let o := decide c d t size in
  o_accept o = true /\ o_pulled o = size /\ o_closed o = false.
Proof.
  intros Hd Hs. apply within_limit_accepted; auto.
  left. rewrite announced_disabled by assumption. lia.
Qed.

(** * The two halves together: what the client batcher sends, the server accepts *)

Lemma payload_len_nonneg ps : 0 <= payload_len ps.
Proof.
  induction ps as [|p [|q ps] IH]; simpl in *; try lia;
    pose proof (encoded_len_false_pos p); lia.
Qed.

Lemma batches_accepted_by_server c ps :
  0 < announced_max_payload c ->
  Forall (fun b => length b = 1%nat \/
                   o_accept (decide c C2S PostCL (payload_len b)) = true)
         (write_writable (announced_max_payload c) true ps).
Proof.
  intros Hpos.
  eapply Forall_impl; [|apply write_within; lia].
  intros b [Hle|Hone]; [right|left; assumption].
  apply within_limit_accepted; [apply payload_len_nonneg|right; assumption].
Qed.

(** * Exact characterisation and sessions *)

(** A message is accepted exactly when no limit applies to the receiving side or it fits. *)
Lemma accept_iff c d t size :
  0 <= size ->
  (o_accept (decide c d t size) = true <->
   (effective_max c <= 0 \/ size <= effective_max c \/ (d = S2C /\ t <> WS))).
Proof.
  intros Hs. destruct d.
  - rewrite decide_c2s by assumption. cbv zeta.
    destruct (Z.gtb_spec (effective_max c) 0), (Z.gtb_spec size (effective_max c)); simpl;
      split; auto; try lia; intros [?|[?|[? _]]]; try lia; discriminate.
  - rewrite decide_s2c. cbv zeta. unfold announced_max_payload.
    destruct t; simpl; try (split; auto; intros _; right; right; split; congruence).
    destruct (Z.gtb_spec (effective_max c) 0), (Z.gtb_spec size (effective_max c)); simpl;
      split; auto; try lia; intros [?|[?|[_ ?]]]; try lia; congruence.
Qed.

(** handleDataRequest, branch by branch, on top of the MaxBytesReader relation: whatever run the
    reader takes, the handler's answer is [post_decision]. *)
Lemma post_decision_is_handler declared body max r :
  0 <= body -> 0 < max -> content_length declared <= max ->
  mbr_run body max 0 0 r ->
  post_decision declared body max =
    match fst r with
    | RDone _ => accepted 200 (snd r)
    | RTooBig _ => rejected 413 (snd r)
    end.
Proof.
  intros Hb Hm Hcl Hrun. apply max_bytes_read_is_reader in Hrun; try lia. subst r.
  unfold post_decision.
  destruct (Z.gtb_spec max 0); [|lia].
  destruct (Z.gtb_spec (content_length declared) max); [lia|]. simpl.
  unfold max_bytes_read. destruct (Z.leb_spec body max); reflexivity.
Qed.

(** What a session delivers is a prefix of what was sent; it is everything exactly when the
    transport was not closed; every delivered message was accepted; and the message at which a
    session was closed is one the receiver refuses. *)
Lemma session_prefix c d t sizes :
  let '(dl, cl) := session c d t sizes in
  exists rest, sizes = dl ++ rest /\
    Forall (fun s => o_accept (decide c d t s) = true) dl /\
    (cl = false -> rest = []) /\
    (cl = true -> exists s rest', rest = s :: rest' /\ o_accept (decide c d t s) = false).
Proof.
  induction sizes as [|s sizes IH]; simpl.
  - exists []. repeat split; auto. discriminate.
  - destruct (o_accept (decide c d t s)) eqn:E.
    + destruct (session c d t sizes) as [dl cl]. destruct IH as (rest & -> & Hall & Hopen & Hcl).
      exists rest. repeat split; auto.
    + exists (s :: sizes). repeat split; auto; try discriminate.
      intros _. exists s, sizes. auto.
Qed.

Lemma session_all_within c d t sizes :
  Forall (fun s => 0 <= s /\ within_announced c s) sizes ->
  session c d t sizes = (sizes, false).
Proof.
  induction 1 as [|s sizes [Hs Hw] _ IH]; simpl; auto.
  destruct (within_limit_accepted c d t s Hs Hw) as (-> & _). now rewrite IH.
Qed.

(** On the server, with the limit on: nothing over the limit is ever delivered in any session. *)
Lemma session_server_delivers_within c t sizes :
  limit_on c -> Forall (fun s => 0 <= s) sizes ->
  Forall (fun s => s <= the_limit c) (fst (session c C2S t sizes)).
Proof.
  intros Hon Hnn. pose proof (session_prefix c C2S t sizes) as H.
  destruct (session c C2S t sizes) as [dl cl]. destruct H as (rest & -> & Hall & _). simpl.
  apply Forall_app in Hnn. destruct Hnn as [Hnn _].
  rewrite Forall_forall in *. intros s Hin.
  destruct (server_never_buffers_beyond c t s Hon (Hnn s Hin)) as (_ & Hacc & _).
  apply Hacc. apply Hall. assumption.
Qed.

(** * Statements as used by Props/C13.v *)

Lemma announced_is_limit_full c :
  (limit_on c -> announced_max_payload c = the_limit c /\ 0 < the_limit c) /\
  (c_disabled c = true -> announced_max_payload c = 0).
Proof.
  split; [intros H; split; [exact (announced_is_limit c H)|exact (proj2 (effective_max_on c H))]
         |exact (announced_disabled c)].
Qed.

Lemma ws_limit_reader_exact l size :
  0 <= size -> 0 <= l ->
  (exists r, lr_run size (l + 1) 0 r) /\
  forall r, lr_run size (l + 1) 0 r ->
    match r with
    | RDone got => got = size /\ ws_outcome (Some l) size = accepted (-1) size
    | RTooBig got => got = l + 1 /\ ws_outcome (Some l) size = rejected (-1) (l + 1)
    end.
Proof.
  intros Hs Hl; split; [apply lr_run_exists; lia|].
  intros r; exact (ws_outcome_is_limit_reader l size r Hs Hl).
Qed.

Lemma max_bytes_reader_exact body max :
  0 <= body -> 0 <= max ->
  (exists r, mbr_run body max 0 0 r) /\
  forall r, mbr_run body max 0 0 r ->
    r = (if fst (max_bytes_read body max) then RDone body else RTooBig max,
         snd (max_bytes_read body max)).
Proof.
  intros Hb Hm; split; [apply mbr_run_exists; lia|].
  intros r; exact (max_bytes_read_is_reader body max r Hb Hm).
Qed.

(** * The model satisfies the executable property (the oracle of Eio/LimitsCheck.v) *)
From SioV Require Import Eio.LimitsCheck.

(** What the rig would record if the implementation behaved exactly as the model. *)
Definition case_of_model (max : Z) (dis : bool) (d t : N) (size : Z) : lcase :=
  let o := decide (mkCfg max dis) (dir_of d) (tr_of t) size in
  (max, dis, announced_max_payload (mkCfg max dis), d, t, size,
   (o_status o, if o_accept o then size else -1, o_closed o, o_accept o, o_pulled o)).

Ltac zb :=
  repeat match goal with
  | |- context [(?a <=? ?b)] => destruct (Z.leb_spec a b)
  | |- context [(?a <? ?b)] => destruct (Z.ltb_spec a b)
  | |- context [(?a >? ?b)] => destruct (Z.gtb_spec a b)
  | |- context [(?a =? ?b)] => destruct (Z.eqb_spec a b)
  end.

Lemma model_satisfies_oracle max dis d t size :
  0 <= size -> oracle (case_of_model max dis d t size) = true.
Proof.
  intros Hs. unfold case_of_model, oracle, spec_limit, announced_max_payload.
  destruct (dir_of d) eqn:Ed.
  - rewrite decide_c2s by assumption. cbv zeta.
    unfold effective_max, default_max_buffer_size, obs_accept, obs_reject; simpl c_disabled; simpl c_max.
    destruct dis; simpl.
    + zb; simpl; try reflexivity; try lia.
    + destruct (Z.eqb_spec max 0) as [->|Hm]; simpl.
      * destruct (Z.gtb_spec size 1000000); simpl; destruct (tr_of t); simpl; zb; simpl; try reflexivity; lia.
      * destruct (Z.gtb_spec max 0); simpl.
        -- destruct (Z.gtb_spec size max); simpl; destruct (tr_of t); simpl; zb; simpl; try reflexivity; lia.
        -- zb; simpl; try reflexivity; lia.
  - rewrite decide_s2c. cbv zeta. unfold announced_max_payload.
    set (m := effective_max (mkCfg max dis)).
    assert (Hann : (match (if dis then None else if max =? 0 then Some 1000000
                           else if max >? 0 then Some max else None) with
                    | Some l => m =? l | None => m <=? 0 end) = true).
    { unfold m, effective_max, default_max_buffer_size; simpl. destruct dis; simpl; auto.
      destruct (Z.eqb_spec max 0); simpl; [reflexivity|].
      destruct (Z.gtb_spec max 0); simpl; zb; auto; lia. }
    rewrite Hann. simpl. unfold obs_accept.
    destruct (tr_of t); simpl;
      try (destruct (Z.gtb_spec m 0), (Z.gtb_spec size m); simpl);
      zb; simpl; try reflexivity; try lia.
Qed.
