(** Executable comparison ([agree_*]) and property oracles ([oracle_*]) of the C17 correspondence
    suites (kernel evaluation on the rows recorded by harness/cmd/vh/eiohttp.go). *)
From SioV Require Import Base.GoSem Base.Conc Eio.Handshake Eio.HandshakeRace.

(* ------------------------------------------------------------------ request matrix *)
(** Observed response: HTTP status, JSON error code (if the body is one of the protocol's error
    objects), sid of the OPEN packet (if any), kind of body
    (0 empty, 1 error object, 2 OPEN packet, 3 "ok", 4 payload, 5 anything else). *)
Definition obs := (N * option N * bytes * N)%type.

(** state before, request, random bytes drawn (by sequence number), observation, state after,
    sids of the sessions the rig has closed so far (by whatever cause: server-side Close, CLOSE
    packet, parse error, oversized body, ping timeout, websocket hang-up) *)
Definition mcase := (sstate * request * list (N * bytes) * obs * sstate * list bytes)%type.

Definition rnd_fun (l : list (N * bytes)) : N -> bytes :=
  fun q => match find (fun e => N.eqb (fst e) q) l with Some e => snd e | None => [] end.

Definition resp_status (r : response) : N :=
  match r with
  | RClosed => 503 | RErr _ => 400 | RForbidden => 403 | RInternal => 500
  | ROpen _ Polling => 200 | ROpen _ Websocket => 101 | ROverlap _ => 200 | ROpenVia _ _ => 200
  | RPoll => 200 | RData => 200 | REmpty200 => 200 | RUpgrade => 101
  | RLib s => s | RPlain400 => 400
  end%N.
Definition resp_code (r : response) : option N := match r with RErr c => Some c | _ => None end.
Definition resp_sid (r : response) : bytes :=
  match r with ROpen sid _ => sid | ROverlap sid => sid | _ => [] end.
Definition resp_body (r : response) : N :=
  match r with
  | RErr _ => 1 | ROpen _ _ | ROverlap _ => 2 | RData | ROpenVia _ POST => 3 | RPoll => 4 | RLib _ => 5 | _ => 0
  end%N.

Definition opt_eqb (a b : option N) : bool :=
  match a, b with Some x, Some y => N.eqb x y | None, None => true | _, _ => false end.

Definition entry_eqb (a b : bytes * tkind) : bool := bytes_eqb (fst a) (fst b) && tkind_eqb (snd a) (snd b).
Definition sub_store (a b : store) : bool := forallb (fun e => existsb (entry_eqb e) b) a.
(** stores are Go maps: compared as sets of entries *)
Definition store_eqb (a b : store) : bool :=
  Nat.eqb (length a) (length b) && sub_store a b && sub_store b a.

Definition state_eqb (a b : sstate) : bool :=
  Bool.eqb (s_closed a) (s_closed b) && store_eqb (s_store a) (s_store b) && N.eqb (s_seq a) (s_seq b).

Definition agree (c : mcase) : bool :=
  let '(pre, rq, rnd, (st, code, sid, body), post, _) := c in
  let '(r, post') := serve (rnd_fun rnd) pre rq in
  N.eqb (resp_status r) st && opt_eqb (resp_code r) code && bytes_eqb (resp_sid r) sid
  && N.eqb (resp_body r) body && state_eqb post' post.

Fixpoint nodupb (l : list bytes) : bool :=
  match l with [] => true | x :: r => negb (existsb (bytes_eqb x) r) && nodupb r end.

Definition memN (x : N) (l : list N) : bool := existsb (N.eqb x) l.

(** The property, on the observation alone (no [serve]): see C17_invalid_is_error_and_pure,
    C17_valid_handshake_fresh, C17_closed_admits_none. *)
Definition without (killed : list bytes) (st : store) : store :=
  filter (fun e => negb (existsb (bytes_eqb (fst e)) killed)) st.

(** A closed session is not a live session, whatever the store still says: the requests are
    judged against the sessions the rig has NOT closed (so a request carrying the sid of a closed
    session must get code 1 even if the server forgot to drop it). *)
Definition oracle (c : mcase) : bool :=
  let '(pre0, rq, _, (st, code, sid, _), post0, killed) := c in
  let pre := mkState (s_closed pre0) (without killed (s_store pre0)) (s_seq pre0) in
  let post := mkState (s_closed post0) (without killed (s_store post0)) (s_seq post0) in
  let ds := defects pre rq in
  Bool.eqb (s_closed post) (s_closed pre) && nodupb (sids (s_store post0)) &&
  if s_closed pre then
    (* closed: nothing is admitted, nothing is left *)
    N.eqb st 503 && is_nil sid && is_nil (s_store post0)
  else if negb (is_nil ds) then
    (* an invalid request: the code of (one of) its defects, nothing created, nothing altered;
       a request the Authenticator refuses may be answered 403 instead *)
    is_nil sid && store_eqb (s_store post) (s_store pre) &&
    ((N.eqb st 400 && match code with Some k => memN k (map code_of ds) | None => false end)
     || (negb (r_auth rq) && N.eqb st 403))
  else if negb (is_nil sid) then
    (* an accepted handshake: a session id that no live session has, and exactly that session is new *)
    is_nil (r_sid rq) && r_auth rq && (N.eqb st 200 || N.eqb st 101)
    && negb (existsb (bytes_eqb sid) (sids (s_store pre0)))
    && store_eqb (s_store post)
         (s_store pre ++ [(sid, if bytes_eqb (r_tr rq) s_polling then Polling else Websocket)])
  else
    (* anything else (traffic on a live session, 403, 426, 500): no session appears or disappears *)
    store_eqb (s_store post) (s_store pre).

(* ------------------------------------------------------------------ Close *)
(** store before Close, store after, number of OnClose callbacks *)
Definition ccase := (sstate * sstate * N)%type.
Definition agree_close (c : ccase) : bool :=
  let '(pre, post, _) := c in state_eqb (close pre) post.
Definition oracle_close (c : ccase) : bool :=
  let '(pre, post, nclosed) := c in
  s_closed post && is_nil (s_store post) && N.eqb nclosed (N.of_nat (length (s_store pre))).

(* ------------------------------------------------------------------ ids *)
(** sequence number, 12 random bytes, the id returned *)
Definition icase := (N * bytes * bytes)%type.
Definition agree_id (c : icase) : bool := let '(q, rnd, id) := c in bytes_eqb (generate_id q rnd) id.

(** each id is the model's id and carries its sequence number where the theorem says *)
Definition oracle_id (c : icase) : bool :=
  let '(q, rnd, id) := c in
  Nat.eqb (length id) 20 &&
  bytes_eqb (skipn 16 id) (skipn 16 (generate_id q (repeat 0%N 12))).

(** compact rows: the 12 random bytes and the 20 characters of the id as big-endian numbers *)
Fixpoint N_to_bytes_aux (len : nat) (n : N) (acc : bytes) : bytes :=
  match len with O => acc | S k => N_to_bytes_aux k (n / 256)%N ((n mod 256)%N :: acc) end.
Definition N_to_bytes (len : nat) (n : N) : bytes := N_to_bytes_aux len n [].
(** start of the run, index in the run, sequence number, random bytes, id *)
Definition icaseN := (N * N * N * N * N)%type.
Definition unpack_id (c : icaseN) : icase := let '(_, _, q, r, i) := c in (q, N_to_bytes 12 r, N_to_bytes 20 i).
Definition agree_idN (c : icaseN) : bool := agree_id (unpack_id c).
(** the i-th id of a run carries the sequence number start+i (mod 2^32): consecutive numbers, so
    (HandshakeProofs.ids_rows_distinct) the ids of a run of at most 2^24 are pairwise distinct *)
Definition oracle_idN (c : icaseN) : bool :=
  let '(start, i, q, _, _) := c in N.eqb q (wrap32 (start + i)) && oracle_id (unpack_id c).

(* ------------------------------------------------------------------ race *)
(** forced?, sessions live before, per racer: admitted (status 200/101) or refused (503),
    sessions left in the store, NewSocketCallback invocations, OnClose callbacks, status of a
    handshake attempted afterwards *)
Definition rcase := (bool * N * list N * N * N * N * N)%type.

Definition count_true (l : list bool) : N := N.of_nat (length (filter (fun b => b) l)).

Definition live_sids (k : N) : list N := map (fun i => 1000 + N.of_nat i)%N (seq 0 (N.to_nat k)).

(** the model under the forced schedule gives the same answers and the same store *)
Definition agree_race (c : rcase) : bool :=
  let '(forced, live, statuses, nleft, onsocket, onclose, _) := c in
  if forced then
    let s := run true (fun i => N.of_nat i) (forced_schedule (N.to_nat live)) (live_sids live) in
    list_eqb Bool.eqb (admitted_list s 1) (map (fun st => negb (N.eqb st 503)) statuses)
    && N.eqb (N.of_nat (length (q_store s))) nleft
    && N.eqb (N.of_nat (length (q_closedsocks s))) onclose
  else true.

Definition oracle_race (c : rcase) : bool :=
  let '(_, live, statuses, nleft, onsocket, onclose, after) := c in
  forallb (fun st => N.eqb st 200 || N.eqb st 101 || N.eqb st 503) statuses
  && N.eqb nleft 0                                 (* all existing ones are closed ... *)
  && N.eqb onclose (live + onsocket)               (* ... each exactly once, the late comer included *)
  && N.leb onsocket (count_true (map (fun st => negb (N.eqb st 503)) statuses))
  && N.eqb after 503.                              (* and nothing is admitted afterwards *)

(* ------------------------------------------------------------------ known finding class *)
(** key http3-skips-version-and-method-checks: the request arrived with r.ProtoMajor = 3 (the
    negation of the side condition of C17_invalid_is_error_and_pure_partial) *)
Definition finding_http3 (c : mcase) : bool :=
  let '(_, rq, _, _, _, _) := c in is_p3 (r_proto rq).
