(** Preservation of the upgrade invariant, label group G (see Eio/UpgradeInv.v). *)
From SioV Require Import Base.GoSem Base.Conc Eio.Upgrade Eio.UpgradeInv.
From Coq Require Import Lia.

Lemma inv_CSwap n st st' : inv n st -> step CSwap st = Some st' -> inv n st'.
Proof. intros I H. label_case. Qed.

Lemma inv_SNoopGo n st st' : inv n st -> step SNoopGo st = Some st' -> inv n st'.
Proof. intros I H. label_case. Qed.

Lemma inv_SDiscGo n st st' : inv n st -> step SDiscGo st = Some st' -> inv n st'.
Proof. intros I H. label_case. Qed.

Lemma inv_CTimerClose n st st' : inv n st -> step CTimerClose st = Some st' -> inv n st'.
Proof. intros I H. label_case. Qed.

Lemma inv_CSeeCut n st st' : inv n st -> step CSeeCut st = Some st' -> inv n st'.
Proof. intros I H. label_case. Qed.

