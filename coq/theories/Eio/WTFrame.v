(** WebTransport framing: port of engine.io/transport/webtransport/packet.go ([send],
    [nextPacket]), limited_reader.go ([limitedReader.Read], [exceeds]), io.ReadFull, and
    engine.io/parser/packet.go:[DecodeWithLen] as they are after the `fix:` commit recorded in
    known_findings.txt.

    A byte stream is a list of chunks: one [Read] returns bytes of the first chunk only (as a
    QUIC stream or any io.Reader may), so short reads - which is what the limited reader reacts
    to - are part of the model.  Every function also returns its trace: the size of the buffer
    handed to each [Read] and every heap allocation made for frame data.

    Go (nextPacket):
      ReadFull(r, firstByte[:1]);  len7 = b & 0x7f;  isBinary = b&0x80 == 0x80
      len7 < 126 -> payload | len7 == 126 -> ReadFull 2 bytes, Uint16 | else ReadFull 8 bytes,
        n := Uint64; n > math.MaxInt -> error
      payload: if r is *limitedReader && r.exceeds(len) -> ErrLimitReached
               DecodeWithLen(r, isBinary, len)
    Go (DecodeWithLen): length < 0 -> error; buf := make(min(length, 64K)); read := 0
      loop { ReadFull(r, buf[read:]) (error -> return); read = len(buf); read == length -> break
             next := length; if read < length-read { next = 2*read }; grown := make(next); copy } ;
      decode(buf, binaryFrame) *)
From SioV Require Export Eio.Codec.
Local Open Scope N_scope.

Definition stream := list bytes.

(** [None]: a plain reader (client transport).  [Some l]: limitedReader{limit: l} (server). *)
Definition rd := option Z.

(** limitedReader.exceeds: a limit of 0 (or less) means no limit *)
Definition exceeds (r : rd) (n : N) : bool :=
  match r with
  | None => false
  | Some l => (0 <? l)%Z && (l <? Z.of_N n)%Z
  end.

Inductive ev := EvRead (k : N) | EvAlloc (n : N).

Fixpoint takeN {A} (k : N) (l : list A) : list A :=
  match l with
  | [] => []
  | x :: l' => if k =? 0 then [] else x :: takeN (N.pred k) l'
  end.

Fixpoint dropN {A} (k : N) (l : list A) : list A :=
  match l with
  | [] => []
  | x :: l' => if k =? 0 then l else dropN (N.pred k) l'
  end.

(** io.ReadFull(r, buf) with len(buf) = k, through the (possibly limited) reader.
    ReadAtLeast: for n < min && err == nil { nn, err = r.Read(buf[n:]); n += nn };
    if n >= min { err = nil }.  limitedReader.Read turns a Read of more than limit bytes into an
    error - which ReadFull drops when that Read filled the buffer. *)
Fixpoint read_full (r : rd) (k : N) (s : stream) : option (bytes * stream) * list ev :=
  if k =? 0 then (Some ([], s), [])
  else
    match s with
    | [] => (None, [EvRead k])                      (* 0, io.EOF *)
    | c :: cs =>
        let got := takeN k c in
        let n := nlen got in
        if n =? k then
          (Some (got, match dropN k c with [] => cs | rest => rest :: cs end), [EvRead k])
        else if exceeds r n then (None, [EvRead k])
        else
          let '(o, t) := read_full r (k - n) cs in
          (match o with Some (g, s') => Some (got ++ g, s') | None => None end, EvRead k :: t)
    end.

Definition max_prealloc : N := 65536.

(** The growth loop of DecodeWithLen.  [buf] holds what has been read (len(buf) before the
    make/copy), [cap] the size of the current buffer.  Out of fuel is [Panic]; the fuel given by
    [decode_with_len] is shown sufficient (WTFrameProofs.dwl_fuel_enough). *)
Fixpoint dwl_loop (fuel : nat) (r : rd) (len : N) (buf : bytes) (cap : N) (s : stream)
  : res (bytes * stream) * list ev :=
  match fuel with
  | O => (Panic, [])
  | S f =>
      let '(o, t) := read_full r (cap - nlen buf) s in
      match o with
      | None => (Err, t)
      | Some (g, s') =>
          let buf' := buf ++ g in
          if cap =? len then (Ok (buf', s'), t)
          else
            let next := if cap <? len - cap then 2 * cap else len in
            let '(o2, t2) := dwl_loop f r len buf' next s' in
            (o2, t ++ EvAlloc next :: t2)
      end
  end.

Definition dwl_fuel (n : N) : nat := S (N.to_nat (N.size n)).

Definition decode_with_len (r : rd) (bin : bool) (len : Z) (s : stream)
  : res (packet * stream) * list ev :=
  if (len <? 0)%Z then (Err, [])
  else
    let n := Z.to_N len in
    let cap := N.min n max_prealloc in
    let '(o, t) := dwl_loop (dwl_fuel n) r n [] cap s in
    match o with
    | Ok (buf, s') =>
        (match decode_packet bin buf with
         | Ok p => Ok (p, s') | Err => Err | Panic => Panic end,
         EvAlloc cap :: t ++ map EvAlloc (decode_allocs bin buf))
    | Err => (Err, EvAlloc cap :: t)
    | Panic => (Panic, EvAlloc cap :: t)
    end.

(** binary.BigEndian *)
Fixpoint be_bytes (k : nat) (n : N) : bytes :=
  match k with
  | O => []
  | S k' => be_bytes k' (n / 256) ++ [n mod 256]
  end.

Definition be_val (bs : bytes) : N := fold_left (fun a b => a * 256 + b) bs 0.

(** The length prefix written by [send]; [n] = EncodedLen(true). *)
Definition wt_header (n : N) (bin : bool) : bytes :=
  let flag := if bin then 128 else 0 in
  if n <? 126 then [n + flag]
  else if n <? 65536 then (126 + flag) :: be_bytes 2 n
  else (127 + flag) :: be_bytes 8 n.

Definition wt_send (p : packet) : bytes :=
  wt_header (Z.to_N (encoded_len true p)) (p_binary p) ++ encode_packet true p.

Definition max_int : N := 9223372036854775807.   (* math.MaxInt on a 64-bit platform *)

Definition wt_payload (r : rd) (bin : bool) (len : N) (s : stream) (t : list ev)
  : res (packet * stream) * list ev :=
  if exceeds r len then (Err, t)
  else let '(o, t') := decode_with_len r bin (Z.of_N len) s in (o, t ++ t').

Definition next_packet (r : rd) (s : stream) : res (packet * stream) * list ev :=
  let '(o, t1) := read_full r 1 s in
  match o with
  | None => (Err, t1)
  | Some ([b0], s1) =>
      let len7 := N.land b0 127 in
      let bin := N.land b0 128 =? 128 in
      if len7 <? 126 then wt_payload r bin len7 s1 t1
      else if len7 =? 126 then
        let '(o2, t2) := read_full r 2 s1 in
        match o2 with
        | None => (Err, t1 ++ t2)
        | Some (h, s2) => wt_payload r bin (be_val h) s2 (t1 ++ t2)
        end
      else
        let '(o2, t2) := read_full r 8 s1 in
        match o2 with
        | None => (Err, t1 ++ t2)
        | Some (h, s2) =>
            let n := be_val h in
            if max_int <? n then (Err, t1 ++ t2) else wt_payload r bin n s2 (t1 ++ t2)
        end
  | Some (_, _) => (Panic, t1)     (* ReadFull of a 1-byte buffer returns one byte *)
  end.

Definition allocs_of (t : list ev) : list N :=
  flat_map (fun e => match e with EvAlloc n => [n] | EvRead _ => [] end) t.

Definition reads_of (t : list ev) : list N :=
  flat_map (fun e => match e with EvRead n => [n] | EvAlloc _ => [] end) t.

Definition total_len (s : stream) : N := nlen (concat s).
