(** Executable comparison and oracle used by the C07 correspondence check (kernel evaluation).

    A live-rig row is one connection: the fault applied to the candidate websocket, how many
    messages each side sent (ids 0,1,2,... in Send order; [streams] = the ids sent by each additional sender goroutine), the ids
    delivered to each side in callback order, and the final transport / close flags. *)
From SioV Require Import Base.GoSem Eio.Upgrade.

(** fault codes: 0 none; 1 refuse\@tcp; 2 refuse\@http; 3 stall\@handshake; 4 stall\@ping;
    5 stall\@pong; 6 stall\@upgrade; 7 cut\@handshake; 8 cut\@ping; 9 cut\@pong; 10 cut\@upgrade *)
Definition ucase :=
  (nat * (nat * list (list N)) * (nat * list (list N)) * list N * list N * (bool * bool * bool * bool))%type.

Definition probe_prefix (f : nat) : list label :=
  match f with
  | 0 => [CDial; SAccept; CDialOk; SRecvWs; CRecvWs]
  | 1 | 2 => [CDial; Refuse]
  | 3 => [CDial; Stall]
  | 4 => [CDial; SAccept; CDialOk; Stall]
  | 5 => [CDial; SAccept; CDialOk; SRecvWs; Stall]
  | 6 => [CDial; SAccept; CDialOk; SRecvWs; SNoopGo; GetWake; RespDeliver; CRecvWs; PostDeliver 0; PostOk; PostDeliver 0; PostOk; CSwap; Stall]
  | 7 => [CDial; SAccept; Cut]
  | 8 => [CDial; SAccept; CDialOk; Cut]
  | 9 => [CDial; SAccept; CDialOk; SRecvWs; Cut]
  | _ => [CDial; SAccept; CDialOk; SRecvWs; SNoopGo; GetWake; RespDeliver; CRecvWs; PostDeliver 0; PostOk; PostDeliver 0; PostOk; CSwap; Cut]
  end.

Fixpoint drain_q (fuel : nat) (st : state) : state :=
  match fuel with
  | O => st
  | S k => if quiescentb st then st else drain_q k (round st)
  end.

(** Canonical schedule for a row: a poll is parked, one message each way before the probe, the
    probe up to the fault, the fault, everything settles (timers included), the remaining
    messages, everything settles. *)
Definition predict (f : nat) (ns nc : nat) : state :=
  let pre := [CPollStart; GetArrive; GetRoute; GetFirst; SSend; CSend] in
  (* (a Send the client issues while finishUpgradeTo waits for the write lock blocks: skipped) *)
  let st1 := run (pre ++ probe_prefix f ++ [SSend; CSend]) init in
  let st2 := drain_q (40 + 4 * (ns + nc)) st1 in
  let st3 := run (repeat SSend (ns - N.to_nat (s_sent st2)) ++ repeat CSend (nc - N.to_nat (c_sent st2))) st2 in
  (* (the websocket readers first, one frame per step: same result as draining, cheaper to evaluate) *)
  let st4 := run (repeat SRecvWs nc ++ repeat CRecvWs ns) st3 in
  drain_q (40 + 4 * (ns + nc)) st4.

Definition msetb (a b : list N) : bool :=
  Nat.eqb (length a) (length b) && forallb (fun x => Nat.eqb (cntN x a) (cntN x b)) (a ++ b).
Definition nodupb (a : list N) : bool := forallb (fun x => Nat.eqb (cntN x a) 1) a.
Definition subsetb (a b : list N) : bool := forallb (fun x => negb (Nat.eqb (cntN x b) 0)) a.
Definition memb (x : N) (l : list N) : bool := negb (Nat.eqb (cntN x l) 0).

Fixpoint seqN (i : N) (k : nat) : list N :=
  match k with O => [] | S k' => i :: seqN (N.succ i) k' end.

Fixpoint increasing (l : list N) : bool :=
  match l with
  | x :: ((y :: _) as l') => N.ltb x y && increasing l'
  | _ => true
  end.

(** one sender goroutine, deliveries through two transports: those that went through long-polling
    are older than those that went through the websocket, and each transport keeps order. *)
Definition two_runs (l : list N) : bool :=
  existsb (fun k => increasing (filter (fun x => N.ltb x k) l) && increasing (filter (fun x => negb (N.ltb x k)) l))
          (0%N :: map N.succ l).

(** per sender goroutine: the main stream is what belongs to none of the additional ones *)
Definition in_any (x : N) (ss : list (list N)) : bool := existsb (memb x) ss.
Definition streams_ordered (ss : list (list N)) (recv : list N) : bool :=
  increasing (filter (fun x => negb (in_any x ss)) recv)
  && forallb (fun s => increasing (filter (fun x => memb x s) recv)) ss.

(** The property evaluated on the implementation's observation alone. *)
Definition oracle (c : ucase) : bool :=
  let '(f, (ns, sburst), (nc, cburst), crecv, srecv, (cws, sws, cclosed, sclosed)) := c in
  (* exactly once, both directions *)
  msetb crecv (seqN 0 ns) && msetb srecv (seqN 0 nc)
  (* nothing breaks *)
  && negb cclosed && negb sclosed
  (* upgraded, or (failed attempt) still on the original transport *)
  && (match f with 0 => cws && sws | _ => negb cws && negb sws end)
  (* per-transport order, per sender goroutine *)
  (* (repaired client: long-polling has stopped before the swap, so one sender's messages arrive
     in order across the swap, also server -> client) *)
  && streams_ordered sburst crecv
  && streams_ordered cburst srecv.

(** Correspondence: the observed outcome is the one the model predicts for this fault (the
    theorems of Props/C07.v say the outcome does not depend on the schedule unless the fault falls
    in the commit window; there only the flags and "no duplicate, nothing invented" are compared,
    what is lost depends on timing). *)
Definition agree (c : ucase) : bool :=
  let '(f, (ns, _), (nc, _), crecv, srecv, (cws, sws, cclosed, sclosed)) := c in
  let st := predict f ns nc in
  let ssent := seqN 0 ns in let csent := seqN 0 nc in
  quiescentb st
  && Bool.eqb (c_ws st) cws && Bool.eqb (s_ws st) sws
  && Bool.eqb (c_closed st) cclosed && Bool.eqb (s_closed st) sclosed
  && (if broke st
      then nodupb crecv && nodupb srecv && subsetb crecv ssent && subsetb srecv csent
      else msetb (c_recv st) crecv && msetb (s_recv st) srecv).

(** The finding class "fault inside the commit window", as the model sees it. *)
Definition commit_window (c : ucase) : bool :=
  let '(f, (ns, _), (nc, _), _, _, _) := c in
  broke (predict f ns nc).

(** ** Forced schedules: a raw protocol peer drives the real server one link-level action at a time.
    The model takes the same action, lets the server's own steps run to completion, and must show
    the same outputs: the poll response that completed (if any), the frames that came out of the
    websocket, everything delivered to the server application so far, the server's transport. *)
(** [AGetHold]: a GET that the rig holds at the yield point of pollQueue.poll (after its first,
    empty, get() and before its wait) until [ARelease]: in the model the poller is parked / woken
    but its wake-up processing ([GetWake]) does not run while it is held. *)
Inductive act := ASend | AGet | ADial | APing | AUpg | AWsMsg | APost | AGetHold | ARelease.

Definition server_closure : list label :=
  [SAccept; PostDeliver 0; PostOk; SRecvWs; SNoopGo; SDiscGo; GetArrive; GetRoute; GetFirst; GetWake].
Definition settle (st : state) : state := run (server_closure ++ server_closure ++ server_closure) st.
Definition server_closure_held : list label :=
  [SAccept; PostDeliver 0; PostOk; SRecvWs; SNoopGo; SDiscGo; GetArrive; GetRoute; GetFirst].
Definition settle_held (st : state) : state :=
  run (server_closure_held ++ server_closure_held ++ server_closure_held) st.

Definition inj (p : pkt) (st : state) : state :=
  match k_ws st with WOpen => set_k_cs (k_cs st ++ [p]) st | _ => st end.

Definition do_act (a : act) (st : state) : state :=
  match a with
  | ASend => step_skip st SSend
  | ARelease => st
  | AGet | AGetHold => (* the raw peer's GET: one at a time, not bound to the model client's poll loop *)
            match c_loop st with LFlight => st | _ => set_c_loop LFlight (set_k_req true st) end
  | ADial => step_skip st CDial
  | APing => inj Ping st
  | AUpg => inj Upg st
  | AWsMsg => set_c_sent (N.succ (c_sent st)) (inj (Msg (c_sent st)) st)
  | APost => step_skip st CSend
  end.

Definition code (p : pkt) : Z :=
  match p with Msg n => Z.of_N n | Noop => -1 | Pong => -2 | _ => -3 end%Z.

Definition fobs := (option (list Z) * list Z * list N * bool)%type.

Definition observe (st : state) : fobs * state :=
  let r := match k_resp st with
           | RNone => None | RPkts l => Some (map code l) | RBad => Some [(-9)%Z] end in
  let st1 := match k_resp st with RNone => st | _ => set_k_resp RNone (set_c_loop LIdle st) end in
  ((r, map code (k_sc st), s_recv st, s_ws st), set_k_sc [] st1).

Fixpoint frun_h (held : bool) (acts : list act) (st : state) : list fobs :=
  match acts with
  | [] => []
  | a :: r =>
      let held' := match a with AGetHold => true | ARelease => false | _ => held end in
      let st1 := do_act a st in
      let '(o, st') := observe (if held' then settle_held st1 else settle st1) in
      o :: frun_h held' r st'
  end.
Definition frun (acts : list act) (st : state) : list fobs := frun_h false acts st.

(** what the rig waits for at each step: (poll response?, #frames, #deliveries so far, on websocket?) *)
Definition fexpect (acts : list act) : list (list nat) :=
  map (fun o : fobs => let '(r, w, s, t) := o in
         [match r with Some _ => 1 | None => 0 end; length w; length s; if t then 1 else 0])
      (frun acts init).

Definition fobs_eqb (a b : fobs) : bool :=
  let '(ra, wa, sa, ta) := a in let '(rb, wb, sb, tb) := b in
  match ra, rb with
  | None, None => true
  | Some x, Some y => list_eqb Z.eqb x y
  | _, _ => false
  end && list_eqb Z.eqb wa wb && list_eqb N.eqb sa sb && Bool.eqb ta tb.

Definition fcase := (list act * list fobs)%type.

Definition agree_forced (c : fcase) : bool := let '(acts, obs) := c in list_eqb fobs_eqb (frun acts init) obs.

(** Property on the observation alone: what came out of the server (poll responses and websocket
    frames together) has no duplicate and nothing invented; once the schedule has upgraded, every
    message the server application sent has come out exactly once; deliveries to the server
    application are duplicate-free and were sent. *)
Definition count_act (a : act) (acts : list act) : nat :=
  length (filter (fun b => match a, b with
                           | ASend, ASend | AUpg, AUpg | AWsMsg, AWsMsg | APost, APost => true
                           | _, _ => false end) acts).

Definition oracle_forced (c : fcase) : bool :=
  let '(acts, obs) := c in
  let outs := flat_map (fun o => let '(r, w, _, _) := o in
                 (match r with Some l => l | None => [] end) ++ w) obs in
  let ids := map Z.to_N (filter (fun z => (0 <=? z)%Z) outs) in
  let ns := count_act ASend acts in
  let nc := count_act AWsMsg acts + count_act APost acts in
  let srecv := match rev obs with (_, _, s, _) :: _ => s | [] => [] end in
  nodupb ids && subsetb ids (seqN 0 ns)
  && (if Nat.ltb 0 (count_act AUpg acts) && existsb (fun o => let '(_, _, _, t) := o in t) obs
      then msetb ids (seqN 0 ns) else true)
  && nodupb srecv && subsetb srecv (seqN 0 nc).
