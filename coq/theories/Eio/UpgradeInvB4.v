(** Preservation of the upgrade invariant, label group B4 (see Eio/UpgradeInv.v). *)
From SioV Require Import Base.GoSem Base.Conc Eio.Upgrade Eio.UpgradeInv.
From Coq Require Import Lia.

Lemma inv_SRecvWs_CDead n st st' : s_cand st = CDead -> inv n st -> step SRecvWs st = Some st' -> inv n st'.
Proof. intros E I H. destruct st; cbn in E; subst; unf H; go I H. Qed.
