(** Proofs about the heartbeat automata of Eio/Heartbeat.v (C14). *)
From SioV Require Import Eio.Heartbeat.
Open Scope Z_scope.
Local Arguments Z.mul : simpl never.
Local Arguments Z.add : simpl never.
Local Arguments Z.max : simpl never.

(* ------------------------------------------------------------------------------------------ *)
(** * Generic invariant rule for runs *)

Lemma srun_inv c g (P : sst -> Z -> Prop) :
  (forall st now t e st', P st now -> now <= t -> within (sdeadline c st) t = true ->
      g st t e = true -> sstep c st t e = Some st' -> P st' t) ->
  forall evs st now st' now', P st now -> srun c g st now evs = Some (st', now') -> P st' now'.
Proof.
  intros Hstep evs; induction evs as [|[t e] evs IH]; intros st now st' now' HP Hrun; simpl in Hrun.
  - inversion Hrun; subst; exact HP.
  - destruct ((now <=? t) && within (sdeadline c st) t && g st t e) eqn:E; [|discriminate].
    apply andb_true_iff in E as [E Eg]. apply andb_true_iff in E as [En Ew].
    destruct (sstep c st t e) as [st1|] eqn:Es; [|discriminate].
    eapply IH; [|exact Hrun]. eapply Hstep; eauto. lia.
Qed.

Lemma crun_inv c g (P : cst -> Z -> Prop) :
  (forall st now t e st', P st now -> now <= t -> within (cdeadline c st) t = true ->
      g st t e = true -> cstep c st t e = Some st' -> P st' t) ->
  forall evs st now st' now', P st now -> crun c g st now evs = Some (st', now') -> P st' now'.
Proof.
  intros Hstep evs; induction evs as [|[t e] evs IH]; intros st now st' now' HP Hrun; simpl in Hrun.
  - inversion Hrun; subst; exact HP.
  - destruct ((now <=? t) && within (cdeadline c st) t && g st t e) eqn:E; [|discriminate].
    apply andb_true_iff in E as [E Eg]. apply andb_true_iff in E as [En Ew].
    destruct (cstep c st t e) as [st1|] eqn:Es; [|discriminate].
    eapply IH; [|exact Hrun]. eapply Hstep; eauto. lia.
Qed.

(** A guarded run is a run: guards only restrict. *)
Lemma srun_guard_weaken c g evs : forall st now r,
  srun c g st now evs = Some r -> srun c gtrue st now evs = Some r.
Proof.
  induction evs as [|[t e] evs IH]; intros st now r H; simpl in *; [exact H|].
  destruct ((now <=? t) && within (sdeadline c st) t && g st t e) eqn:E; [|discriminate].
  apply andb_true_iff in E as [E _]. unfold gtrue. rewrite E. simpl.
  destruct (sstep c st t e); [|discriminate]. now apply IH.
Qed.

Lemma crun_guard_weaken c g evs : forall st now r,
  crun c g st now evs = Some r -> crun c cgtrue st now evs = Some r.
Proof.
  induction evs as [|[t e] evs IH]; intros st now r H; simpl in *; [exact H|].
  destruct ((now <=? t) && within (cdeadline c st) t && g st t e) eqn:E; [|discriminate].
  apply andb_true_iff in E as [E _]. unfold cgtrue. rewrite E. simpl.
  destruct (cstep c st t e); [|discriminate]. now apply IH.
Qed.

Lemma svalid_inv c g (P : sst -> Z -> Prop) start evs t_end st :
  (forall st now t e st', P st now -> now <= t -> within (sdeadline c st) t = true ->
      g st t e = true -> sstep c st t e = Some st' -> P st' t) ->
  P (sinit start) start ->
  svalid c g start evs t_end = Some st ->
  exists now, P st now /\ now <= t_end /\ within (sdeadline c st) t_end = true.
Proof.
  intros Hstep H0 Hv. unfold svalid in Hv.
  destruct (srun c g (sinit start) start evs) as [[st1 now1]|] eqn:Er; [|discriminate].
  destruct ((now1 <=? t_end) && within (sdeadline c st1) t_end) eqn:E; [|discriminate].
  inversion Hv; subst. apply andb_true_iff in E as [E1 E2].
  exists now1. split; [|split; [lia|exact E2]].
  eapply srun_inv; eauto.
Qed.

Lemma cvalid_inv c g (P : cst -> Z -> Prop) start evs t_end st :
  (forall st now t e st', P st now -> now <= t -> within (cdeadline c st) t = true ->
      g st t e = true -> cstep c st t e = Some st' -> P st' t) ->
  P (cinit start) start ->
  cvalid c g start evs t_end = Some st ->
  exists now, P st now /\ now <= t_end /\ within (cdeadline c st) t_end = true.
Proof.
  intros Hstep H0 Hv. unfold cvalid in Hv.
  destruct (crun c g (cinit start) start evs) as [[st1 now1]|] eqn:Er; [|discriminate].
  destruct ((now1 <=? t_end) && within (cdeadline c st1) t_end) eqn:E; [|discriminate].
  inversion Hv; subst. apply andb_true_iff in E as [E1 E2].
  exists now1. split; [|split; [lia|exact E2]].
  eapply crun_inv; eauto.
Qed.

Lemma srun_inv_ev c g (P : sst -> Z -> Prop) (Q : sev -> Prop) :
  (forall st now t e st', P st now -> now <= t -> within (sdeadline c st) t = true ->
      g st t e = true -> sstep c st t e = Some st' -> Q e /\ P st' t) ->
  forall evs st now r, P st now -> srun c g st now evs = Some r ->
    Forall (fun te => Q (snd te)) evs /\ P (fst r) (snd r).
Proof.
  intros Hstep evs; induction evs as [|[t e] evs IH]; intros st now r HP Hrun; simpl in Hrun.
  - inversion Hrun; subst; simpl. split; [constructor|exact HP].
  - destruct ((now <=? t) && within (sdeadline c st) t && g st t e) eqn:E; [|discriminate].
    apply andb_true_iff in E as [E Eg]. apply andb_true_iff in E as [En Ew].
    destruct (sstep c st t e) as [st1|] eqn:Es; [|discriminate].
    destruct (Hstep st now t e st1) as [HQ HP1]; auto. { lia. }
    destruct (IH st1 t r HP1 Hrun) as [HF HPr]. split; [constructor; [exact HQ|exact HF]|exact HPr].
Qed.

Lemma crun_inv_ev c g (P : cst -> Z -> Prop) (Q : cev -> Prop) :
  (forall st now t e st', P st now -> now <= t -> within (cdeadline c st) t = true ->
      g st t e = true -> cstep c st t e = Some st' -> Q e /\ P st' t) ->
  forall evs st now r, P st now -> crun c g st now evs = Some r ->
    Forall (fun te => Q (snd te)) evs /\ P (fst r) (snd r).
Proof.
  intros Hstep evs; induction evs as [|[t e] evs IH]; intros st now r HP Hrun; simpl in Hrun.
  - inversion Hrun; subst; simpl. split; [constructor|exact HP].
  - destruct ((now <=? t) && within (cdeadline c st) t && g st t e) eqn:E; [|discriminate].
    apply andb_true_iff in E as [E Eg]. apply andb_true_iff in E as [En Ew].
    destruct (cstep c st t e) as [st1|] eqn:Es; [|discriminate].
    destruct (Hstep st now t e st1) as [HQ HP1]; auto. { lia. }
    destruct (IH st1 t r HP1 Hrun) as [HF HPr]. split; [constructor; [exact HQ|exact HF]|exact HPr].
Qed.

(** Case-splitting helper: destruct every boolean comparison / if / match on options in sight. *)
Ltac zb :=
  repeat match goal with
  | H : andb _ _ = true |- _ => apply andb_true_iff in H; destruct H
  | H : (_ <=? _) = true |- _ => apply Z.leb_le in H
  | H : (_ <? _) = true |- _ => apply Z.ltb_lt in H
  | H : (_ <=? _) = false |- _ => apply Z.leb_gt in H
  | H : (_ <? _) = false |- _ => apply Z.ltb_ge in H
  end.

Ltac step_cases st e Hs :=
  destruct st as [ph mb]; destruct e; destruct ph; destruct mb;
  try match goal with r : reason |- _ => destruct r end; simpl in *;
  repeat match type of Hs with
         | context [if ?b then _ else _] => let E := fresh "E" in destruct b eqn:E
         end;
  try discriminate; inversion Hs; subst; clear Hs; simpl in *.

(* ------------------------------------------------------------------------------------------ *)
(** * Server: a dead peer is detected *)

Section ServerDetect.
  Variable c : cfg.
  Hypothesis Hc : cfg_ok c.
  Local Notation I := (cI c). Local Notation T := (cT c). Local Notation D := (cD c).

  (** timestamps carried by the state never exceed the current time *)
  Definition s_stamp_ok (st : sst) (now : Z) : Prop :=
    match sph st with SSleep s | SAwait s => s <= now | SClosed t _ => t <= now end
    /\ match smb st with Some d => d <= now | None => True end.

  (** ** no pong processed after t0  =>  closed by t0 + I + T + 2D *)
  Definition inv_take (t0 : Z) (st : sst) (now : Z) : Prop :=
    s_stamp_ok st now /\
    match sph st with
    | SSleep s => s <= t0
    | SAwait s => s <= t0 + I + D
    | SClosed t _ => t <= t0 + I + T + 2 * D
    end.

  Lemma inv_take_step t0 g st now t e st' :
    inv_take t0 st now -> now <= t -> within (sdeadline c st) t = true ->
    gand (g_no_take_after t0) g st t e = true ->
    sstep c st t e = Some st' -> inv_take t0 st' t.
  Proof.
    destruct Hc as (HI & HT & HD).
    intros [[Hs1 Hs2] Hi] Hn Hw Hg Hs. unfold gand, g_no_take_after in Hg.
    unfold inv_take, s_stamp_ok, sstep, sdeadline, within, deposit in *.
    step_cases st e Hs; zb;
      repeat match goal with
             | H : context [if ?b then _ else _] |- _ => let E := fresh "E" in destruct b eqn:E
             end; zb; repeat split; try lia.
  Qed.

  Lemma server_detects_take t0 g start evs t_end st :
    start <= t0 ->
    svalid c (gand (g_no_take_after t0) g) start evs t_end = Some st ->
    t0 + I + T + 2 * D < t_end ->
    s_closed_by st (t0 + I + T + 2 * D).
  Proof.
    destruct Hc as (HI & HT & HD).
    intros Hst Hv Hend.
    destruct (svalid_inv c (gand (g_no_take_after t0) g) (inv_take t0) start evs t_end st) as (now & [Hs Hi] & Hn & Hw); auto.
    - intros; eapply inv_take_step; eauto.
    - unfold inv_take, s_stamp_ok, sinit; simpl. repeat split; lia.
    - unfold s_closed_by. unfold sdeadline, within in Hw.
      destruct st as [ph mb]; simpl in *. destruct ph.
      + zb. lia.
      + destruct mb as [d|]; [destruct (d <? s + T) eqn:E|]; zb;
          destruct Hs as [Hs1 Hs2]; simpl in *; lia.
      + eauto.
  Qed.

  (** ** the reason is "ping timeout" unless something else closed the socket *)
  Definition inv_reason (st : sst) (now : Z) : Prop :=
    match sph st with SClosed _ r => r = PingTimeout | _ => True end.

  Lemma server_reason g start evs t_end st :
    svalid c (gand g_no_ext g) start evs t_end = Some st ->
    forall r, s_reason st = Some r -> r = PingTimeout.
  Proof.
    intros Hv r Hr.
    destruct (svalid_inv c (gand g_no_ext g) inv_reason start evs t_end st) as (now & Hi & _); auto.
    - clear. intros st now t e st' Hi Hn Hw Hg Hs. unfold gand, g_no_ext in Hg.
      unfold inv_reason, sstep in *.
      step_cases st e Hs; auto.
    - exact Logic.I.
    - unfold inv_reason, s_reason in *. destruct (sph st); try discriminate.
      inversion Hr; subst; auto.
  Qed.

  (** ** no pong ARRIVES after t0, conforming peer  =>  closed by t0 + I + T + 3D *)
  Definition inv_conf (t0 : Z) (st : sst) (now : Z) : Prop :=
    s_stamp_ok st now /\
    match sph st, smb st with
    | SSleep s, None => s <= t0 + D
    | SSleep s, Some d => False
    | SAwait s, None => s <= t0 + I + 2 * D
    | SAwait s, Some d => s <= d /\ d <= t0
    | SClosed t _, _ => t <= t0 + I + T + 3 * D
    end.

  Lemma inv_conf_step t0 g st now t e st' :
    inv_conf t0 st now -> now <= t -> within (sdeadline c st) t = true ->
    gand (gand (g_no_pong_after t0) g_conforming) g st t e = true ->
    sstep c st t e = Some st' -> inv_conf t0 st' t.
  Proof.
    destruct Hc as (HI & HT & HD).
    intros [[Hs1 Hs2] Hi] Hn Hw Hg Hs. unfold gand, g_no_pong_after, g_conforming in Hg.
    unfold inv_conf, s_stamp_ok, sstep, sdeadline, within, deposit in *.
    step_cases st e Hs; zb;
      repeat match goal with
             | H : context [if ?b then _ else _] |- _ => let E := fresh "E" in destruct b eqn:E
             | |- context [if ?b then _ else _] => let E := fresh "E" in destruct b eqn:E
             end; zb; try discriminate; repeat split; try lia.
  Qed.

  Lemma server_detects_conforming t0 g start evs t_end st :
    start <= t0 ->
    svalid c (gand (gand (g_no_pong_after t0) g_conforming) g) start evs t_end = Some st ->
    t0 + I + T + 3 * D < t_end ->
    s_closed_by st (t0 + I + T + 3 * D).
  Proof.
    destruct Hc as (HI & HT & HD).
    intros Hst Hv Hend.
    destruct (svalid_inv c (gand (gand (g_no_pong_after t0) g_conforming) g) (inv_conf t0) start evs t_end st) as (now & [Hs Hi] & Hn & Hw); auto.
    - intros; eapply inv_conf_step; eauto.
    - unfold inv_conf, s_stamp_ok, sinit; simpl. repeat split; lia.
    - unfold s_closed_by. unfold sdeadline, within in Hw.
      destruct st as [ph mb]; simpl in *. destruct ph.
      + destruct mb; [tauto|]. zb. lia.
      + destruct mb as [d|]; [destruct (d <? s + T) eqn:E|]; zb;
          destruct Hs as [Hs1 Hs2]; simpl in *; lia.
      + eauto.
  Qed.

  (** ** no pong arrives after t0, ANY peer (stale / unsolicited pongs allowed) *)
  (** with the drain: t0 + I + T + 3D; without it a stale pong masks one round: t0 + 2I + T + 4D *)
  Definition any_bound (t0 : Z) : Z :=
    if cDrain c then t0 + I + T + 3 * D else t0 + 2 * I + T + 4 * D.

  Definition inv_any (t0 : Z) (st : sst) (now : Z) : Prop :=
    s_stamp_ok st now /\
    match sph st, smb st with
    | SSleep s, Some d => s <= d /\ d <= t0
    | SSleep s, None => if cDrain c then s <= t0 + D else s <= t0 + I + 2 * D
    | SAwait s, Some d => d <= t0 /\ (if cDrain c then s <= d else s <= t0 + I + D)
    | SAwait s, None => if cDrain c then s <= t0 + I + 2 * D else s <= t0 + 2 * I + 3 * D
    | SClosed t _, _ => t <= any_bound t0
    end.

  Lemma inv_any_step t0 g st now t e st' :
    inv_any t0 st now -> now <= t -> within (sdeadline c st) t = true ->
    gand (g_no_pong_after t0) g st t e = true ->
    sstep c st t e = Some st' -> inv_any t0 st' t.
  Proof.
    destruct Hc as (HI & HT & HD).
    intros [[Hs1 Hs2] Hi] Hn Hw Hg Hs. unfold gand, g_no_pong_after in Hg.
    unfold inv_any, any_bound, s_stamp_ok, sstep, sdeadline, within, deposit in *.
    destruct (cDrain c) eqn:Edr;
    step_cases st e Hs; zb;
      repeat match goal with
             | H : context [if ?b then _ else _] |- _ => let E := fresh "E" in destruct b eqn:E
             | |- context [if ?b then _ else _] => let E := fresh "E" in destruct b eqn:E
             end; zb; try discriminate; repeat split; try lia.
  Qed.

  Lemma server_detects_any t0 g start evs t_end st :
    start <= t0 ->
    svalid c (gand (g_no_pong_after t0) g) start evs t_end = Some st ->
    any_bound t0 < t_end ->
    s_closed_by st (any_bound t0).
  Proof.
    destruct Hc as (HI & HT & HD).
    intros Hst Hv Hend.
    destruct (svalid_inv c (gand (g_no_pong_after t0) g) (inv_any t0) start evs t_end st) as (now & [Hs Hi] & Hn & Hw); auto.
    - intros; eapply inv_any_step; eauto.
    - unfold inv_any, s_stamp_ok, sinit; simpl. destruct (cDrain c); repeat split; lia.
    - unfold s_closed_by. unfold sdeadline, within in Hw. unfold any_bound in *.
      destruct st as [ph mb]; simpl in *. destruct Hs as [Hs1 Hs2]; simpl in *.
      destruct (cDrain c); destruct ph.
      all: try (destruct mb as [d|]; [try destruct (d <? s + T) eqn:E|]; zb; simpl in *; lia).
      all: eauto.
  Qed.

  (** ** a live peer is never killed by the server loop *)
  Definition inv_live (st : sst) (now : Z) : Prop :=
    s_stamp_ok st now /\
    match sph st, smb st with
    | SAwait s, Some d => d < s + T
    | SClosed _ r, _ => r <> PingTimeout
    | _, _ => True
    end.

  Lemma inv_live_step g st now t e st' :
    inv_live st now -> now <= t -> within (sdeadline c st) t = true ->
    gand (g_answered c) g st t e = true ->
    sstep c st t e = Some st' -> e <> STimeout /\ inv_live st' t.
  Proof.
    destruct Hc as (HI & HT & HD).
    intros [[Hs1 Hs2] Hi] Hn Hw Hg Hs. unfold gand, g_answered in Hg.
    unfold inv_live, s_stamp_ok, sstep, sdeadline, within, deposit in *.
    step_cases st e Hs; zb;
      repeat match goal with
             | H : context [if ?b then _ else _] |- _ => let E := fresh "E" in destruct b eqn:E
             | |- context [if ?b then _ else _] => let E := fresh "E" in destruct b eqn:E
             end; zb; try discriminate; repeat split; try lia; try congruence.
  Qed.

  Lemma server_live g start evs t_end st :
    svalid c (gand (g_answered c) g) start evs t_end = Some st ->
    Forall (fun te => snd te <> STimeout) evs /\ s_reason st <> Some PingTimeout.
  Proof.
    intros Hv. unfold svalid in Hv.
    destruct (srun c (gand (g_answered c) g) (sinit start) start evs) as [[st1 now1]|] eqn:Er; [|discriminate].
    destruct ((now1 <=? t_end) && within (sdeadline c st1) t_end) eqn:E; [|discriminate].
    inversion Hv; subst.
    destruct (srun_inv_ev c (gand (g_answered c) g) inv_live (fun e => e <> STimeout)
                (fun st now t e st' => inv_live_step g st now t e st') evs (sinit start) start (st, now1))
      as [HF HP]; auto.
    - unfold inv_live, s_stamp_ok, sinit; simpl. repeat split; lia.
    - split; [exact HF|]. simpl in HP. destruct HP as [_ HP]. unfold s_reason.
      destruct st as [ph mb]; simpl in *. destruct ph; try discriminate.
      destruct mb; intros X; inversion X; subst; congruence.
  Qed.
End ServerDetect.

(* ------------------------------------------------------------------------------------------ *)
(** * Client watchdog *)

Ltac cstep_cases st e Hs :=
  destruct st as [ph mb]; destruct e; destruct ph; destruct mb;
  try match goal with r : reason |- _ => destruct r end; simpl in *;
  repeat match type of Hs with
         | context [if ?b then _ else _] => let E := fresh "E" in destruct b eqn:E
         end;
  try discriminate; inversion Hs; subst; clear Hs; simpl in *.

Ltac ifs :=
  repeat match goal with
         | H : context [if ?b then _ else _] |- _ => let E := fresh "E" in destruct b eqn:E
         | |- context [if ?b then _ else _] => let E := fresh "E" in destruct b eqn:E
         end.

Section Client.
  Variable c : cfg.
  Hypothesis Hc : cfg_ok c.
  Local Notation I := (cI c). Local Notation T := (cT c). Local Notation D := (cD c).

  Definition c_stamp_ok (st : cst) (now : Z) : Prop :=
    match cph st with CArmed a => a <= now | CClosed t _ => t <= now end
    /\ match cmb st with Some d => d <= now | None => True end.

  (** ** no ping ARRIVES after t0  =>  closed by t0 + I + T + 2D *)
  Definition cinv_ping (t0 : Z) (st : cst) (now : Z) : Prop :=
    c_stamp_ok st now /\
    match cph st, cmb st with
    | CArmed a, None => a <= t0 + D
    | CArmed a, Some d => a <= d /\ d <= t0
    | CClosed t _, _ => t <= t0 + I + T + 2 * D
    end.

  Lemma cinv_ping_step t0 g st now t e st' :
    cinv_ping t0 st now -> now <= t -> within (cdeadline c st) t = true ->
    cgand (cg_no_ping_after t0) g st t e = true ->
    cstep c st t e = Some st' -> cinv_ping t0 st' t.
  Proof.
    destruct Hc as (HI & HT & HD).
    intros [[Hs1 Hs2] Hi] Hn Hw Hg Hs. unfold cgand, cg_no_ping_after in Hg.
    unfold cinv_ping, c_stamp_ok, cstep, cdeadline, within, deposit in *.
    cstep_cases st e Hs; zb; ifs; zb; try discriminate; repeat split; try lia.
  Qed.

  Lemma client_detects_ping t0 g start evs t_end st :
    start <= t0 ->
    cvalid c (cgand (cg_no_ping_after t0) g) start evs t_end = Some st ->
    t0 + I + T + 2 * D < t_end ->
    c_closed_by st (t0 + I + T + 2 * D).
  Proof.
    destruct Hc as (HI & HT & HD).
    intros Hst Hv Hend.
    destruct (cvalid_inv c (cgand (cg_no_ping_after t0) g) (cinv_ping t0) start evs t_end st)
      as (now & [Hs Hi] & Hn & Hw); auto.
    - intros; eapply cinv_ping_step; eauto.
    - unfold cinv_ping, c_stamp_ok, cinit; simpl. repeat split; lia.
    - unfold c_closed_by. unfold cdeadline, within in Hw.
      destruct st as [ph mb]; simpl in *. destruct Hs as [Hs1 Hs2]; simpl in *. destruct ph.
      + destruct mb as [d|]; [destruct (d <? a + I + T) eqn:E|]; zb; simpl in *; lia.
      + eauto.
  Qed.

  (** ** no ping PROCESSED (watchdog re-armed) after t0  =>  closed by t0 + I + T + D *)
  Definition cinv_rearm (t0 : Z) (st : cst) (now : Z) : Prop :=
    c_stamp_ok st now /\
    match cph st with
    | CArmed a => a <= t0
    | CClosed t _ => t <= t0 + I + T + D
    end.

  Lemma cinv_rearm_step t0 g st now t e st' :
    cinv_rearm t0 st now -> now <= t -> within (cdeadline c st) t = true ->
    cgand (cg_no_rearm_after t0) g st t e = true ->
    cstep c st t e = Some st' -> cinv_rearm t0 st' t.
  Proof.
    destruct Hc as (HI & HT & HD).
    intros [[Hs1 Hs2] Hi] Hn Hw Hg Hs. unfold cgand, cg_no_rearm_after in Hg.
    unfold cinv_rearm, c_stamp_ok, cstep, cdeadline, within, deposit in *.
    cstep_cases st e Hs; zb; ifs; zb; try discriminate; repeat split; try lia.
  Qed.

  Lemma client_detects_rearm t0 g start evs t_end st :
    start <= t0 ->
    cvalid c (cgand (cg_no_rearm_after t0) g) start evs t_end = Some st ->
    t0 + I + T + D < t_end ->
    c_closed_by st (t0 + I + T + D).
  Proof.
    destruct Hc as (HI & HT & HD).
    intros Hst Hv Hend.
    destruct (cvalid_inv c (cgand (cg_no_rearm_after t0) g) (cinv_rearm t0) start evs t_end st)
      as (now & [Hs Hi] & Hn & Hw); auto.
    - intros; eapply cinv_rearm_step; eauto.
    - unfold cinv_rearm, c_stamp_ok, cinit; simpl. repeat split; lia.
    - unfold c_closed_by. unfold cdeadline, within in Hw.
      destruct st as [ph mb]; simpl in *. destruct Hs as [Hs1 Hs2]; simpl in *. destruct ph.
      + destruct mb as [d|]; [destruct (d <? a + I + T) eqn:E|]; zb; simpl in *; try lia.
        (* a token deposited before the expiry must be taken: excluded by the guard only after t0,
           but then the deadline Z.max a d + D is what bounds t_end *)
        all: lia.
      + eauto.
  Qed.

  Definition cinv_reason (st : cst) (now : Z) : Prop :=
    match cph st with CClosed _ r => r = PingTimeout | _ => True end.

  Lemma client_reason g start evs t_end st :
    cvalid c (cgand cg_no_ext g) start evs t_end = Some st ->
    forall r, c_reason st = Some r -> r = PingTimeout.
  Proof.
    intros Hv r Hr.
    destruct (cvalid_inv c (cgand cg_no_ext g) cinv_reason start evs t_end st) as (now & Hi & _); auto.
    - clear. intros st now t e st' Hi Hn Hw Hg Hs. unfold cgand, cg_no_ext in Hg.
      unfold cinv_reason, cstep in *.
      cstep_cases st e Hs; auto.
    - exact Logic.I.
    - unfold cinv_reason, c_reason in *. destruct (cph st); try discriminate.
      inversion Hr; subst; auto.
  Qed.

  (** ** a fed watchdog never fires *)
  Definition cinv_live (st : cst) (now : Z) : Prop :=
    c_stamp_ok st now /\
    match cph st, cmb st with
    | CArmed a, Some d => d < a + I + T
    | CClosed _ r, _ => r <> PingTimeout
    | _, _ => True
    end.

  Lemma cinv_live_step g st now t e st' :
    cinv_live st now -> now <= t -> within (cdeadline c st) t = true ->
    cgand (cg_fed c) g st t e = true ->
    cstep c st t e = Some st' -> e <> CTimeout /\ cinv_live st' t.
  Proof.
    destruct Hc as (HI & HT & HD).
    intros [[Hs1 Hs2] Hi] Hn Hw Hg Hs. unfold cgand, cg_fed in Hg.
    unfold cinv_live, c_stamp_ok, cstep, cdeadline, within, deposit in *.
    cstep_cases st e Hs; zb; ifs; zb; try discriminate; repeat split; try lia; try congruence.
  Qed.

  Lemma client_live g start evs t_end st :
    cvalid c (cgand (cg_fed c) g) start evs t_end = Some st ->
    Forall (fun te => snd te <> CTimeout) evs /\ c_reason st <> Some PingTimeout.
  Proof.
    intros Hv. unfold cvalid in Hv.
    destruct (crun c (cgand (cg_fed c) g) (cinit start) start evs) as [[st1 now1]|] eqn:Er; [|discriminate].
    destruct ((now1 <=? t_end) && within (cdeadline c st1) t_end) eqn:E; [|discriminate].
    inversion Hv; subst.
    destruct (crun_inv_ev c (cgand (cg_fed c) g) cinv_live (fun e => e <> CTimeout)
                (fun st now t e st' => cinv_live_step g st now t e st') evs (cinit start) start (st, now1))
      as [HF HP]; auto.
    - unfold cinv_live, c_stamp_ok, cinit; simpl. repeat split; lia.
    - split; [exact HF|]. simpl in HP. destruct HP as [_ HP]. unfold c_reason.
      destruct st as [ph mb]; simpl in *. destruct ph; try discriminate.
      destruct mb; intros X; inversion X; subst; congruence.
  Qed.
End Client.
