"""C07 - a transport upgrade loses, duplicates and breaks nothing."""
from lib.vlib import gN, gnat, gbool, glist, gpair

FAULTS = ["none", "refuse@tcp", "refuse@http", "stall@handshake", "stall@ping", "stall@pong", "stall@upgrade",
          "cut@handshake", "cut@ping", "cut@pong", "cut@upgrade"]
COMMIT = ("stall@upgrade", "cut@upgrade")
HDR = "From SioV Require Import Base.GoSem Eio.Upgrade Eio.UpgradeCheck.\n"
THEOREMS = ["C07_exactly_once_partial", "C07_failed_upgrade_keeps_transport_partial", "C07_superseded_close_ignored"]


def nl(xs):
    if not xs:
        return "(@nil N)"
    return "[" + "; ".join("%d" % (x if x >= 0 else 99999999) for x in xs) + "]%N"


def row_term(r):
    # ids are 0..n-1 in Send order on each side (checked here), so only the counts go to Coq
    assert r["ssent"] == list(range(len(r["ssent"]))) and r["csent"] == list(range(len(r["csent"]))), "rig id numbering"
    # "poststall" (a POST in flight across the pong, longer than the client's upgrade time-out) is not a fault of
    # the websocket: the model's prediction and the oracle are those of an undisturbed upgrade (code 0)
    # "slowdiscard" (the old transport's Discard takes 50 ms while 8 goroutines send) likewise
    code = 0 if r["fault"] in ("poststall", "slowdiscard") else FAULTS.index(r["fault"])
    sstreams = glist([nl(r["sburst"])])
    cstreams = glist([nl(r["cburst"])] + [nl(x) for x in (r.get("cstreams") or [])])
    return gpair(gnat(code), gpair(gnat(len(r["ssent"])), sstreams),
                 gpair(gnat(len(r["csent"])), cstreams), nl(r["crecv"]), nl(r["srecv"]),
                 gpair(gbool(r["ctr1"] == "websocket"), gbool(r["str1"] == "websocket"),
                       gbool(r["cclosed"]), gbool(r["sclosed"])))


def describe(r):
    lost_c = sorted(set(r["ssent"]) - set(r["crecv"]))
    lost_s = sorted(set(r["csent"]) - set(r["srecv"]))
    dup_c = sorted(x for x in set(r["crecv"]) if r["crecv"].count(x) > 1)
    dup_s = sorted(x for x in set(r["srecv"]) if r["srecv"].count(x) > 1)
    return ("fault=%s: server sent %d, client got %d (lost %s dup %s); client sent %d, server got %d (lost %s dup %s); "
            "client transport %s->%s closed=%s(%s), server transport %s->%s closed=%s" % (
                r["fault"], len(r["ssent"]), len(r["crecv"]), lost_c[:8], dup_c[:8], len(r["csent"]), len(r["srecv"]),
                lost_s[:8], dup_s[:8], r["ctr0"], r["ctr1"], r["cclosed"], r["creason"], r["str0"], r["str1"], r["sclosed"]))


def live_suite(ctx, vh, name, args, min_upgrades):
    rows = ctx.vh_jsonl(vh, "upgrade", args, timeout=600)
    if rows is None:
        return
    env = [r for r in rows if r["env"]]
    rows = [r for r in rows if not r["env"]]
    ctx.indeterminate += len(env)
    # a fault-free connection that did not upgrade before the deadline says nothing about the swap
    slow = [r for r in rows if r["fault"] == "none" and not r["updone"]
            and sorted(r["crecv"]) == sorted(r["ssent"]) and sorted(r["srecv"]) == sorted(r["csent"])
            and not r["cclosed"] and not r["sclosed"]]
    if slow:
        ctx.indeterminate += len(slow)
        rows = [r for r in rows if r not in slow]
    # a fault-free live upgrade that ran into the SERVER's upgrade timer (5 s) although neither side reported anything
    # else (a probe slower than 5 s: machine overloaded) is the commit-window class produced by the environment
    overload = [r for r in rows if r["fault"] == "none" and r["ms"] >= 5000 and not (r.get("cerrs") or [])
                and (r.get("serrs") or []) and all("upgradeTimeout exceeded" in e for e in r["serrs"])]
    if overload:
        ctx.indeterminate += len(overload)
        ctx.note("%d undisturbed upgrades hit the server's upgrade time-out (overloaded machine)" % len(overload))
        rows = [r for r in rows if r not in overload]
    not_engaged = [r for r in rows if r["fault"] != "none" and not r["engaged"]]
    if not_engaged:   # the proxy never reached its step (e.g. dial raced): nothing was tested
        ctx.indeterminate += len(not_engaged)
        rows = [r for r in rows if r not in not_engaged]
    upgrades = sum(1 for r in rows if r["fault"] == "none" and r["updone"])
    if len(env) * 5 > len(rows) + len(env) or upgrades < min_upgrades:
        ctx.violation("upgrade rig did not exercise enough connections (%d rows, %d environmental failures %s, %d upgrades, "
                      "needed %d)" % (len(rows), len(env), [r["env"] for r in env[:3]], upgrades, min_upgrades),
                      {"kind": "correspondence-broken", "suite": "upgrade/" + name, "theorems": THEOREMS}, no_input=True)
        return
    terms = [row_term(r) for r in rows]
    for r in rows:
        if r["fault"] == "none":
            mid = (0 < r["ssentatswap"] < len(r["ssent"])) and (0 < r["csentatswap"] < len(r["csent"]))
            key = ("u", len(r["ssent"]), len(r["csent"]), r["ssentatswap"], r["csentatswap"], tuple(r["cbatches"][:40])) if mid else None
            ctx.count(1, nontrivial_key=key, dist="upgrade:live:" + ("traffic-across-swap" if mid else "idle-swap"))
            ctx.count(len(r["ssent"]) + len(r["csent"]), dist="upgrade:messages")
        else:
            ctx.count(1, nontrivial_key=("f", r["fault"], len(r["ssent"]), len(r["csent"]), len(r["crecv"]), len(r["srecv"])),
                      dist="upgrade:fault:" + r["fault"])
    if rows:
        mid = rows[len(rows) // 2]
        ctx.sample({"suite": "upgrade/" + name, "fault": mid["fault"], "server_sent": len(mid["ssent"]),
                    "client_sent": len(mid["csent"]), "client_recv_head": mid["crecv"][:30], "client_batches_head": mid["cbatches"][:20],
                    "sent_at_swap": [mid["ssentatswap"], mid["csentatswap"]], "transports": [mid["ctr0"], mid["ctr1"], mid["str1"]]})
    bad_oracle = ctx.coq_eval_cases("up_oracle_" + name, HDR, terms, "oracle", shard=25)
    bad_agree = ctx.coq_eval_cases("up_agree_" + name, HDR, terms, "agree", shard=25)
    # findings: classify in python, cross-check the class with the Coq predicate
    known_idx = [i for i in bad_oracle if rows[i]["fault"] in COMMIT]
    real_bad = [i for i in bad_oracle if i not in known_idx]
    if known_idx:
        not_cw = ctx.coq_eval_cases("up_class_" + name, HDR, [terms[i] for i in known_idx], "commit_window", shard=25)
        for j in not_cw:
            real_bad.append(known_idx[j])
            ctx.note("class disagreement: python says commit-window, Coq predicate says no: %s" % describe(rows[known_idx[j]]))
        for i in known_idx[:1]:
            ctx.fail_or_known("commit-window", describe(rows[i]), {"kind": "failing-input", "engine": "upgrade", "case": rows[i]})
    ctx.obligation("correspondence:upgrade/" + name, "correspondence", not bad_agree,
                   "%d connections, %d disagree with the model's prediction" % (len(rows), len(bad_agree)))
    ctx.obligation("oracle:upgrade/" + name, "oracle", not real_bad,
                   "%d connections, %d fail (%d more in the known commit-window class)" % (len(rows), len(real_bad), len(known_idx)))
    for i in sorted(set(real_bad))[:3]:
        ctx.violation("transport upgrade is visible to the application: " + describe(rows[i]),
                      {"kind": "failing-input", "engine": "upgrade", "args": [str(a) for a in args], "case": rows[i]})
    only_agree = [i for i in bad_agree if i not in bad_oracle]
    if only_agree and not real_bad:
        i = only_agree[0]
        ctx.violation("live upgrade outcome differs from what the model Eio/Upgrade.v predicts for this fault "
                      "(theorems C07_* are about the model): " + describe(rows[i]),
                      {"kind": "correspondence-broken", "suite": "upgrade/" + name, "theorems": THEOREMS, "case": rows[i]},
                      no_input=True)


ACT = {"s": "ASend", "g": "AGet", "d": "ADial", "p": "APing", "u": "AUpg", "m": "AWsMsg", "o": "APost",
       "h": "AGetHold", "r": "ARelease"}


def gen_schedules(maxlen):
    """every action string up to maxlen with: one dial, probe/upgrade only after the dial, one upgrade,
    websocket messages only after the upgrade"""
    res = []

    def rec(pref, dialed, upg):
        if pref:
            res.append(pref)
        if len(pref) == maxlen:
            return
        for a in "sgdpumo":
            if a == "d" and dialed:
                continue
            if a in "pu" and not dialed:
                continue
            if a == "u" and upg:
                continue
            if a == "m" and not upg:
                continue
            rec(pref + a, dialed or a == "d", upg or a == "u")
    rec("", False, False)
    return res


def zl(xs):
    return "(@nil Z)" if not xs else "[" + "; ".join("%d" % x for x in xs) + "]%Z"


def forced_term(r):
    obs = glist(gpair("(Some %s)" % zl(o["poll"]) if o["hasp"] else "None", zl(o["ws"]), nl(o["srecv"]),
                      gbool(o["tr"] == "websocket")) for o in r["obs"])
    return gpair(glist(ACT[a] for a in r["sched"]), obs)


def hold_schedules(rnd, n):
    """a GET is held at pollQueue's yield point (after its empty first get(), before its wait) while messages
    are queued and the transports are swapped, then released: the poll that was routed to the old transport
    before the swap reads the old queue after it"""
    res = {"hsdpur", "hsdur", "hssdpurg", "hdpsur", "hdspusrm", "hsdpusr", "hdpur", "hsr", "hdpsr", "hsdpsurs"}
    while len(res) < n:
        pre = "".join(rnd.choice("sso") for _ in range(rnd.randint(0, 3)))
        mid = "".join(rnd.choice("sspo") for _ in range(rnd.randint(0, 3)))
        post = "".join(rnd.choice("ssmg") for _ in range(rnd.randint(0, 3)))
        res.add("h" + pre + "d" + mid + "u" + rnd.choice(["", "s", "ss", "m"]) + "r" + post)
    return sorted(res)


def forced_suite(ctx, vh, hold=False):
    import os
    import random
    name = "forcedhold" if hold else "forced"
    par = 1 if hold else 32
    allsched = [s for s in gen_schedules(6 if ctx.quick else 7) if "d" in s]
    rnd = random.Random(ctx.seed)
    core = [s for s in allsched if "u" in s and "s" in s]
    pick = rnd.sample(core, min(len(core), 260 if ctx.quick else 2500)) + rnd.sample(allsched, min(len(allsched), 60 if ctx.quick else 500))
    # longer random schedules around the swap
    for _ in range(40 if ctx.quick else 400):
        pre = "".join(rnd.choice("ssgo") for _ in range(rnd.randint(1, 4)))
        mid = "".join(rnd.choice("sgop") for _ in range(rnd.randint(0, 3)))
        post = "".join(rnd.choice("ssmgo") for _ in range(rnd.randint(1, 4)))
        pick.append(pre + "d" + mid + "p" + rnd.choice(["", "s", "g", "sg", "o"]) + "u" + post)
    pick = sorted(set(pick))
    if hold:
        pick = hold_schedules(rnd, 24 if ctx.quick else 150)

    # what the model expects to come out at every step: the rig waits (bounded) for that much, so a slow
    # machine does not change the interleaving; what is then recorded is compared in full
    import re
    vals = ctx.coq_eval_values("up_fexpect_" + name, HDR, ["fexpect %s" % glist(ACT[a] for a in s) for s in pick], shard=120)
    expect = {}
    for s_, v in zip(pick, vals):
        nums = [int(x) for x in re.findall(r"\d+", v)]
        expect[s_] = ";".join(",".join(str(x) for x in nums[i:i + 4]) for i in range(0, len(nums), 4))

    def run_rig(scheds, settle, tag):
        path = os.path.join(ctx.work, "sched-%s-%s.txt" % (name, tag))
        with open(path, "w") as f:
            f.write("\n".join("%s %s" % (s_, expect[s_]) for s_ in scheds) + "\n")
        return ctx.vh_jsonl(vh, "upgrade", ["-mode", "forced", "-sched", path, "-settle", settle, "-par", par], timeout=900)

    rows = run_rig(pick, 12, "a")
    if rows is None:
        return
    env = [r for r in rows if r["env"]]
    rows = [r for r in rows if not r["env"]]
    ctx.indeterminate += len(env)
    if len(env) * 5 > len(pick):
        ctx.violation("forced-schedule rig: %d of %d schedules failed for environmental reasons %s" % (len(env), len(pick), [r["env"] for r in env[:3]]),
                      {"kind": "correspondence-broken", "suite": "upgrade/" + name, "theorems": THEOREMS}, no_input=True)
        return
    terms = [forced_term(r) for r in rows]
    bad_agree = ctx.coq_eval_cases("up_fagree_" + name, HDR, terms, "agree_forced", shard=60)
    bad_oracle = ctx.coq_eval_cases("up_foracle_" + name, HDR, terms, "oracle_forced", shard=60)
    # a step that had not settled (loaded machine) shows up as a disagreement: re-run those schedules twice
    # with much longer quiet times; only an observation that reproduces identically counts
    suspects = sorted(set(bad_agree) | set(bad_oracle))
    confirmed_agree, confirmed_oracle = [], []
    if suspects:
        again1 = {r["sched"]: r for r in (run_rig([rows[i]["sched"] for i in suspects], 100, "b") or []) if not r["env"]}
        again2 = {r["sched"]: r for r in (run_rig([rows[i]["sched"] for i in suspects], 300, "c") or []) if not r["env"]}
        stable = [again1[s] for s in again1 if s in again2 and again1[s]["obs"] == again2[s]["obs"]]
        ctx.indeterminate += len(suspects) - len(stable)
        if stable:
            t2 = [forced_term(r) for r in stable]
            confirmed_agree = [stable[i] for i in ctx.coq_eval_cases("up_fagree2_" + name, HDR, t2, "agree_forced", shard=60)]
            confirmed_oracle = [stable[i] for i in ctx.coq_eval_cases("up_foracle2_" + name, HDR, t2, "oracle_forced", shard=60)]
    for r in rows:
        ctx.count(1, nontrivial_key=("fs", name, r["sched"]) if ("u" in r["sched"] and "s" in r["sched"]) else None,
                  dist="upgrade:" + name + ":" + ("swap-with-traffic" if ("u" in r["sched"] and "s" in r["sched"]) else "other"))
    if rows:
        ctx.sample({"suite": "upgrade/" + name, "case": rows[len(rows) // 3]})
    ctx.obligation("correspondence:upgrade/" + name, "correspondence", not confirmed_agree,
                   "%d raw-peer schedules, %d disagree with the model step by step (%d unsettled first runs re-run)" % (
                       len(rows), len(confirmed_agree), len(suspects)))
    ctx.obligation("oracle:upgrade/" + name, "oracle", not confirmed_oracle, "%d schedules, %d fail" % (len(rows), len(confirmed_oracle)))
    for r in confirmed_oracle[:3]:
        ctx.violation("server output across the swap duplicates, invents or loses a message: schedule %s (s=server send, g=GET poll, d=dial ws, "
                      "p=probe ping, u=UPGRADE, m=ws message, o=POST, h=GET held before its wait, r=release it) observations %s" % (r["sched"], r["obs"]),
                      {"kind": "failing-input", "engine": "upgrade", "mode": "forced", "case": r})
    if confirmed_agree and not confirmed_oracle:
        r = confirmed_agree[0]
        ctx.violation("the server no longer does, step by step, what the model Eio/Upgrade.v does on raw-peer schedule %s: %s" % (r["sched"], r["obs"]),
                      {"kind": "correspondence-broken", "suite": "upgrade/" + name, "theorems": THEOREMS, "case": r}, no_input=True)


def run(ctx):
    ctx.rule = ("live eio server <-> eio client connections upgrading polling->websocket under continuous numbered text+binary "
                "traffic both ways with bursts at the swap; non-trivial = both sides had messages sent before AND after the swap "
                "(distinct by message counts, counts at the swap and the client's batch pattern); fault rows: refuse/stall/cut "
                "at each probe step (distinct by fault and counts)")
    ctx.trusted = ["Coq 8.16.1 kernel + vm_compute", "hand-written model Eio/Upgrade.v tied by kernel-evaluated correspondence on "
                   "live histories (outcome agreement per fault class + forced raw-peer schedules)",
                   "harness cmd/vh upgrade (rig, fault proxy, raw peer)", "net/http, nhooyr websocket, TCP: reliable FIFO per connection"]
    ctx.assumptions = ["links are reliable FIFO per transport until cut", "pollQueue wake-up is not lost and the poll time-out does "
                       "not fire during the window (C19)", "the timer-vs-UPGRADE boundary race is covered in the model only"]
    ctx.proofs(modules=["Eio/UpgradeCheck"])
    vh = ctx.go_build()
    if vh is None:
        return
    n_live = 130 if ctx.quick else 900
    live_suite(ctx, vh, "live", ["-mode", "live", "-n", n_live, "-par", 24, "-seed", ctx.seed], min_upgrades=100)
    forced_suite(ctx, vh)
    forced_suite(ctx, vh, hold=True)
    live_suite(ctx, vh, "fault", ["-mode", "fault", "-n", 2 if ctx.quick else 8, "-par", 40, "-seed", ctx.seed + 1], min_upgrades=0)
