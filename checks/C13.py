"""C13 - size limits enforced on every transport; traffic within them accepted; batcher exact."""
import re

from lib.vlib import gZ, gN, gbool, glist, gpair


def batch_case_term(row):
    pk = glist(gpair(gbool(b == 1), gN(l)) for b, l in row["pk"])
    ids = glist(glist(gN(i if i >= 0 else 999999) for i in call) for call in row["ids"])
    return gpair(gZ(row["max"]), gbool(row["tr"] == "polling"), pk, ids)


def batcher_suite(ctx, vh):
    hdr = "From SioV Require Import Eio.Batcher Eio.BatcherCheck.\n"
    suites = [("exhaustive", ["-mode", "exhaustive", "-maxlen", "3" if ctx.quick else "5"]),
              ("random", ["-mode", "random", "-seed", ctx.seed, "-n", 1500 if ctx.quick else 40000])]
    for name, args in suites:
        rows = ctx.vh_jsonl(vh, "batch", args)
        if rows is None:
            return
        terms = [batch_case_term(r) for r in rows]
        for r in rows:
            multi = len(r["ids"]) > 1
            ctx.count(1, nontrivial_key=("b", r["max"], r["tr"], tuple(map(tuple, r["pk"]))) if multi else None,
                      dist="batch:%s:%s" % (name, "split" if multi else "single"))
        ctx.sample({"suite": "batch/" + name, "case": rows[len(rows) // 2]})
        # step 3 of the protocol first: the property oracle on the implementation's observations
        bad_oracle = ctx.coq_eval_cases("batch_oracle_" + name, hdr, terms, "oracle", shard=4000)
        bad_agree = ctx.coq_eval_cases("batch_agree_" + name, hdr, terms, "agree", shard=4000)
        ctx.obligation("correspondence:batcher/" + name, "correspondence", not bad_agree,
                       "%d cases, %d disagree" % (len(rows), len(bad_agree)))
        ctx.obligation("oracle:batcher/" + name, "oracle", not bad_oracle,
                       "%d cases, %d fail" % (len(rows), len(bad_oracle)))
        for i in bad_oracle[:3]:
            ctx.violation("client batcher: Send calls %s for packets %s with maxPayload %d violate the property "
                          "(dropped/duplicated/reordered packet, empty batch, or multi-packet batch over the limit)"
                          % (rows[i]["ids"], rows[i]["pk"], rows[i]["max"]),
                          {"kind": "failing-input", "engine": "batch", "case": rows[i]})
        if bad_agree and not bad_oracle:
            i = bad_agree[0]
            ctx.violation("client batcher no longer computes what the model Eio/Batcher.v computes "
                          "(theorems C13_batches_* are about the model); first differing case %s" % rows[i],
                          {"kind": "correspondence-broken", "suite": "batcher/" + name,
                           "theorems": ["C13_batches_concat", "C13_multi_batch_within_limit", "C13_batches_greedy"],
                           "case": rows[i]}, no_input=True)


LIM_HDR = "From SioV Require Import Eio.Limits Eio.LimitsCheck.\n"
LIM_TR = {"post-cl": 0, "post-chunked": 1, "ws": 2, "poll": 3, "wt": 4}
LIM_THEOREMS = ["C13_server_never_buffers_beyond", "C13_over_limit_rejected_and_closed",
                "C13_within_limit_accepted", "C13_disabled_accepts_all", "C13_announced_is_limit"]
# finding classes: the same decidable classes as Eio/LimitsCheck.v:finding_class
LIM_CLASS = {0: None, 1: "ws-client-read-limit", 2: "ws-server-disabled-keeps-library-default",
             3: "post-undeclared-size-unbounded", 4: "ws-server-limit-value", 5: "webtransport-server-limit"}


def lim_case_term(r):
    obs = gpair(gZ(r["status"]), gZ(r["delivered"]), gbool(r["closed"]), gbool(r["alive"]), gZ(r["read"]))
    return gpair(gZ(r["max"]), gbool(r["dis"]), gZ(r["ann"]), gN(0 if r["dir"] == "c2s" else 1),
                 gN(LIM_TR[r["tr"]]), gZ(r["size"]), obs)


def lim_class(r):
    if r["tr"] == "ws":
        if r["dir"] == "s2c":
            return 1
        return 2 if r["dis"] else 4
    if r["dir"] == "c2s" and r["tr"] == "post-chunked":
        return 3
    if r["dir"] == "c2s" and r["tr"] == "wt":
        return 5
    return 0


def lim_limit(r):
    if r["dis"] or r["max"] < 0:
        return None
    return r["max"] or 1000000


def lim_describe(r):
    lim = lim_limit(r)
    return ("%s %s (%s peer), %d bytes, MaxBufferSize=%d%s (limit %s, announced maxPayload %d): status %d, "
            "delivered %d, closed %s, follow-up delivered %s, body bytes read %d"
            % ({"c2s": "client->server", "s2c": "server->client"}[r["dir"]], r["tr"], r["peer"], r["size"], r["max"],
               " DisableMaxBufferSize" if r["dis"] else "", lim if lim is not None else "none", r["ann"], r["status"],
               r["delivered"], r["closed"], r["alive"], r["read"]))


def limits_rows(ctx, vh, tier):
    rows = ctx.vh_jsonl(vh, "limits", ["-tier", tier, "-seed", ctx.seed], timeout=600)
    if rows is None:
        return None, 0
    good = [r for r in rows if not r.get("err")]
    return good, len(rows) - len(good)


def limits_suite(ctx, vh):
    rows, env_failed = limits_rows(ctx, vh, "quick" if ctx.quick else "thorough")
    if rows is None:
        return
    ctx.indeterminate += env_failed
    total = len(rows) + env_failed
    if env_failed * 10 > total or not rows:
        ctx.violation("limits rig: %d of %d live cases could not be observed (dial/handshake failures)" % (env_failed, total),
                      {"kind": "correspondence-broken", "suite": "limits/live"}, no_input=True)
        if not rows:
            return
    terms = [lim_case_term(r) for r in rows]
    for r in rows:
        lim = lim_limit(r)
        edges = [32768] + ([lim] if lim else [])
        near = any(abs(r["size"] - e) <= 1 for e in edges) or r["delivered"] != r["size"]
        ctx.count(1, nontrivial_key=("l", r["max"], r["dis"], r["dir"], r["tr"], r["peer"], r["size"]) if near else None,
                  dist="limits:%s:%s:%s" % (r["dir"], r["tr"], "delivered" if r["delivered"] == r["size"] else "rejected"))
    for r in (rows[0], rows[len(rows) // 2], rows[-1]):
        ctx.sample({"suite": "limits/live", "case": r})
    bad_oracle = ctx.coq_eval_cases("limits_oracle", LIM_HDR, terms, "oracle")
    bad_agree = ctx.coq_eval_cases("limits_agree", LIM_HDR, terms, "agree")
    ctx.obligation("correspondence:limits/live", "correspondence", not bad_agree,
                   "%d live cases (%d not observed), %d disagree" % (len(rows), env_failed, len(bad_agree)))
    ctx.obligation("oracle:limits/live", "oracle", not bad_oracle,
                   "%d live cases, %d fail" % (len(rows), len(bad_oracle)))
    if bad_oracle:
        # the classes computed here and in Coq must be the same function
        vals = ctx.coq_eval_values("limits_class", LIM_HDR, ["finding_class %s" % terms[i] for i in bad_oracle[:40]])
        for i, v in zip(bad_oracle[:40], vals):
            m = re.match(r"(\d+)%N", v.strip())
            if not m or int(m.group(1)) != lim_class(rows[i]):
                ctx.violation("finding class computed by the check (%s) and by Eio/LimitsCheck.v (%s) differ on %s"
                              % (lim_class(rows[i]), v, rows[i]), {"kind": "correspondence-broken",
                              "suite": "limits/finding-class", "case": rows[i]}, no_input=True)
        seen = set()
        for i in bad_oracle:
            r = rows[i]
            key = LIM_CLASS[lim_class(r)]
            k2 = (key, r["max"], r["dis"], r["dir"], r["tr"])
            if k2 in seen:
                continue
            seen.add(k2)
            lim = lim_limit(r)
            if (lim is not None and r["ann"] != lim) or (lim is None and r["ann"] > 0):
                why = "the handshake does not announce the limit the server enforces"
            elif r["dir"] == "c2s" and lim is not None and r["size"] > lim:
                why = "an inbound message over MaxBufferSize was accepted or buffered, or the connection was not closed"
            elif r["dir"] == "c2s" and lim is not None and r["read"] > lim + 1:
                why = "the server read more than MaxBufferSize from a request body"
            else:
                why = "a message within the announced limit was not delivered or the connection did not survive it"
            ctx.fail_or_known(key, "size limit: %s: %s" % (why, lim_describe(r)),
                              {"kind": "failing-input", "engine": "limits", "case": r,
                               "how": "vh limits: real eio server with this configuration; send one message of `size` "
                                      "wire bytes over `tr` in direction `dir`, then a 3-byte follow-up"})
    if bad_agree and not bad_oracle:
        # widen: the thorough plan (more configurations, every size over the upgrade path)
        wide_fail = []
        if ctx.quick:
            wrows, _ = limits_rows(ctx, vh, "thorough")
            if wrows:
                wterms = [lim_case_term(r) for r in wrows]
                wide_fail = ctx.coq_eval_cases("limits_oracle_wide", LIM_HDR, wterms, "oracle")
                for i in wide_fail[:3]:
                    ctx.fail_or_known(LIM_CLASS[lim_class(wrows[i])], "size limit (widened search): " + lim_describe(wrows[i]),
                                      {"kind": "failing-input", "engine": "limits", "case": wrows[i]})
        if not wide_fail:
            r = rows[bad_agree[0]]
            ctx.violation("limit handling no longer decides as the model Eio/Limits.v does (theorems %s are about the model); "
                          "first differing case: %s" % (", ".join(LIM_THEOREMS), lim_describe(r)),
                          {"kind": "correspondence-broken", "suite": "limits/live", "theorems": LIM_THEOREMS,
                           "case": r, "differing": len(bad_agree)}, no_input=True)


def run(ctx):
    ctx.rule = ("limits: live rig, sizes {limit-1, limit, limit+1, 32767, 32768, 32769, 65536, 1e6+1 when unlimited} x "
                "{POST+Content-Length, chunked POST (also JSONP, endless), websocket (text, binary, fragmented), polling GET, webtransport} x MaxBufferSize {100, default 1e6, "
                "disabled, 40000; thorough: -1, 32768, 7} x both directions x {raw peer, real client, real client after upgrade}; "
                "non-trivial = size within 1 of a limit in play (configured or the library's 32768) or not delivered "
                "(distinct (config, direction, transport, peer, size)).  "
                "batcher: every vector of <=3 (quick) / <=5 (thorough) packets over 8 (binary,len) shapes x maxPayload 1..20 "
                "plus seeded random vectors; non-trivial = the batcher split the vector (distinct (max,vector))")
    ctx.trusted = ["Coq 8.16.1 kernel + vm_compute", "hand-written model Eio/Batcher.v tied by kernel-evaluated correspondence",
                   "harness cmd/vh batch + hook engine.io/client_socket_verif.go",
                   "hand-written model Eio/Limits.v (decisions + the two library limit readers as relations) tied by the live rig cmd/vh limits",
                   "net/http and nhooyr.io/websocket behave as their limit readers are modelled (validated on every live case)"]
    ctx.assumptions = ["sizes are wire bytes (POST body, WebSocket message); a negative MaxBufferSize means no limit",
                       "the webtransport framer itself (length forms, limited reader) is C11's; here only its limit decision is modelled and observed live"]
    ctx.proofs(modules=["Eio/BatcherCheck", "Eio/LimitsCheck"])
    vh = ctx.go_build()
    if vh is None:
        return
    batcher_suite(ctx, vh)
    limits_suite(ctx, vh)
