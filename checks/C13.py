"""C13 - size limits enforced on every transport; traffic within them accepted; batcher exact."""
from lib.vlib import gZ, gN, gbool, glist, gpair


def batch_case_term(row):
    pk = glist(gpair(gbool(b == 1), gN(l)) for b, l in row["pk"])
    ids = glist(glist(gN(i if i >= 0 else 999999) for i in call) for call in row["ids"])
    return gpair(gZ(row["max"]), gbool(row["tr"] == "polling"), pk, ids)


def batcher_suite(ctx, vh):
    hdr = "From SioV Require Import Eio.Batcher Eio.BatcherCheck.\n"
    suites = [("exhaustive", ["-mode", "exhaustive", "-maxlen", "3" if ctx.quick else "5"]),
              ("random", ["-mode", "random", "-seed", ctx.seed, "-n", 1500 if ctx.quick else 40000])]
    for name, args in suites:
        rows = ctx.vh_jsonl(vh, "batch", args)
        if rows is None:
            return
        terms = [batch_case_term(r) for r in rows]
        for r in rows:
            multi = len(r["ids"]) > 1
            ctx.count(1, nontrivial_key=("b", r["max"], r["tr"], tuple(map(tuple, r["pk"]))) if multi else None,
                      dist="batch:%s:%s" % (name, "split" if multi else "single"))
        ctx.sample({"suite": "batch/" + name, "case": rows[len(rows) // 2]})
        # step 3 of the protocol first: the property oracle on the implementation's observations
        bad_oracle = ctx.coq_eval_cases("batch_oracle_" + name, hdr, terms, "oracle", shard=4000)
        bad_agree = ctx.coq_eval_cases("batch_agree_" + name, hdr, terms, "agree", shard=4000)
        ctx.obligation("correspondence:batcher/" + name, "correspondence", not bad_agree,
                       "%d cases, %d disagree" % (len(rows), len(bad_agree)))
        ctx.obligation("oracle:batcher/" + name, "oracle", not bad_oracle,
                       "%d cases, %d fail" % (len(rows), len(bad_oracle)))
        for i in bad_oracle[:3]:
            ctx.violation("client batcher: Send calls %s for packets %s with maxPayload %d violate the property "
                          "(dropped/duplicated/reordered packet, empty batch, or multi-packet batch over the limit)"
                          % (rows[i]["ids"], rows[i]["pk"], rows[i]["max"]),
                          {"kind": "failing-input", "engine": "batch", "case": rows[i]})
        if bad_agree and not bad_oracle:
            i = bad_agree[0]
            ctx.violation("client batcher no longer computes what the model Eio/Batcher.v computes "
                          "(theorems C13_batches_* are about the model); first differing case %s" % rows[i],
                          {"kind": "correspondence-broken", "suite": "batcher/" + name,
                           "theorems": ["C13_batches_concat", "C13_multi_batch_within_limit", "C13_batches_greedy"],
                           "case": rows[i]}, no_input=True)


def run(ctx):
    ctx.rule = ("batcher: every vector of <=3 (quick) / <=5 (thorough) packets over 8 (binary,len) shapes x maxPayload 1..20 "
                "plus seeded random vectors; non-trivial = the batcher split the vector (distinct (max,vector))")
    ctx.trusted = ["Coq 8.16.1 kernel + vm_compute", "hand-written model Eio/Batcher.v tied by kernel-evaluated correspondence",
                   "harness cmd/vh batch + hook engine.io/client_socket_verif.go"]
    ctx.proofs(modules=["Eio/BatcherCheck"])
    vh = ctx.go_build()
    if vh is None:
        return
    batcher_suite(ctx, vh)
