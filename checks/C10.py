"""C10 - no input from a peer can crash or wedge the Socket.IO decoder or the process."""
import json
import os
import time

from lib.vlib import gZ, gN, gnat, gbool, glist, gbytes, gopt, gpair

HDR = "From SioV Require Import Base.GoSem Sio.Header Sio.Decoder Sio.DecoderDispatch Sio.DecoderCheck.\n"
OC = {"panic": "OPanic", "err": "OErr", "more": "OMore", "fin": "OFin", "ok": "OFin"}


def gshape(s):
    k = s["k"]
    if k == "o":
        return "SOther"
    if k == "b":
        st = gbool(not s.get("ns"))
        return "(SBin %s None)" % st if s.get("e") else "(SBin %s (Some %s))" % (st, gZ(s.get("n", 0)))
    if k == "p":
        return "(SPhMap %s %s)" % (gZ(s.get("n", 0)), gshape(s["f"]))
    if k == "M":
        return "(SMap %s %s)" % (gbool(s.get("ci", False)), glist(gshape(x) for x in (s.get("l") or [])))
    return "(SSeq %s)" % glist(gshape(x) for x in (s.get("l") or []))


def case_term(r):
    names = glist(gpair(gbytes(c["in"]), gopt(glist(gbytes(o) for o in c["out"])) if c["ok"] else "None")
                  for c in r["names"])
    h = r["hdr"]
    hdr = "None" if h is None else gopt(gpair(
        gN(h["t"]), gbytes(h["nsp"]), gopt(None if h["id"] is None else gN(int(h["id"]))), gZ(h["att"]),
        gbytes(h["name"])))
    u = r["um"]
    um = "None" if u is None else gopt(gpair(
        gbool(u["single"]), gbytes(u["payload"]), gnat(u["k"]),
        gopt(glist(gshape(s) for s in u["shapes"])) if u["ok"] else "None"))
    dec = "None" if r["dec"] == "" else gopt(OC[r["dec"]])
    return "(mkCase %s %s %s %s %s %s %s %s %s)" % (
        glist(gbytes(f) for f in r["frames"]), gZ(r["maxatt"]), gnat(r["nt"]), names,
        glist(OC[o] for o in r["outs"]), hdr, um, dec, glist(gbytes(b) for b in r["bins"]))


def row_key(r):
    """what makes a case non-trivial: the header was accepted (decode reached), or a pending packet"""
    if r["hdr"] is None and r["outs"][-1:] != ["more"]:
        return None
    return ("d", tuple(map(tuple, r["frames"])), r["maxatt"], r["fam"])


def finding_class(r):
    """decidable class of a failing input (keys of known_findings.txt)"""
    fr = bytes(r["frames"][0]) if r["frames"] else b""
    if "panic" in r["outs"]:
        return "add-panic"
    if r["dec"] == "panic":
        return "decode-panic"
    if r["hdr"] is not None and r["hdr"]["att"] < 0:
        return "negative-attachment-count"
    if r["outs"][-1:] == ["more"]:
        return "decoder-wedged"
    return None


def describe(r):
    fr = [bytes(f).decode("latin-1") for f in r["frames"]]
    return "frames %r, handler family %s, maxAttachments %d: Add outcomes %s, decode %s%s" % (
        fr, r["fam"], r["maxatt"], r["outs"], r["dec"] or "-", (" (%s)" % r["msg"]) if r.get("msg") else "")


def decoder_suite(ctx, vh, name, args, shard):
    rows = ctx.vh_jsonl(vh, "siodecode", args)
    if rows is None:
        return
    # volume mode: only suspicious rows are listed; the rest is counted
    for r in [r for r in rows if r.get("suite") == "scan-summary"]:
        ctx.count(r["n"] - (len(rows) - 1), dist="%s:clean (no panic, finished with the announced count)" % name)
        ctx.note("%s: %d decodes over strings of length <= %d, %d finished packets, %d pending judged by the oracle"
                 % (name, r["n"], r["maxlen"], r["finished"], r["pending"]))
    rows = [r for r in rows if r.get("suite") != "scan-summary"]
    # the property oracle needs no model: run it on every row; the model comparison on every row too
    terms = [case_term(r) for r in rows]
    for r in rows:
        last = (r["outs"] or ["none"])[-1]
        ctx.count(1, nontrivial_key=row_key(r), dist="%s:%s/%s" % (name, last, r["dec"] or "-"))
    for r in rows:
        if r["bins"]:
            ctx.sample({"suite": "siodecode/" + name, "frames": [bytes(f).decode("latin-1") for f in r["frames"]],
                        "fam": r["fam"], "outs": r["outs"], "dec": r["dec"], "bins": r["bins"]}, limit=3)
            break
    # rows of different handler families often are the same model question (e.g. the JSON library
    # refused the payload for each of them): identical terms are evaluated once
    first = {}
    for i, t in enumerate(terms):
        first.setdefault(t, i)
    uniq = sorted(first.values())
    uterms = [terms[i] for i in uniq]
    # one kernel pass for both questions; only the failing cases are evaluated again to tell which
    bad_any = [uniq[j] for j in ctx.coq_eval_cases("c10_both_" + name, HDR, uterms,
                                                    "(fun c => oracle c && agree c)", shard=shard)]
    bad_oracle, bad_agree = [], []
    if bad_any:
        sub = [terms[i] for i in bad_any]
        bad_oracle = [bad_any[j] for j in ctx.coq_eval_cases("c10_oracle_" + name, HDR, sub, "oracle", shard=shard)]
        bad_agree = [bad_any[j] for j in ctx.coq_eval_cases("c10_agree_" + name, HDR, sub, "agree", shard=shard)]
    ctx.obligation("correspondence:siodecode/" + name, "correspondence", not bad_agree,
                   "%d cases (%d distinct model questions), %d disagree" % (len(rows), len(uniq), len(bad_agree)))
    ctx.obligation("oracle:siodecode/" + name, "oracle", not bad_oracle,
                   "%d cases, %d fail" % (len(rows), len(bad_oracle)))
    seen = set()
    for i in bad_oracle:
        r = rows[i]
        key = finding_class(r)
        if (key, r["fam"]) in seen or len(seen) >= 6:
            continue
        seen.add((key, r["fam"]))
        ctx.fail_or_known(key, "Socket.IO decoder: " + describe(r) + " - a peer's frames made the decoder panic, "
                          "finish a packet with the wrong number of attachments, or hand out data that is not an attachment",
                          {"kind": "failing-input", "engine": "siodecode", "class": key, "case": r})
    if bad_agree and not bad_oracle:
        r = rows[bad_agree[0]]
        ctx.violation("Socket.IO decoder no longer computes what the model Sio/Header.v + Sio/Decoder.v computes "
                      "(the C10 theorems are about the model); first differing case: " + describe(r),
                      {"kind": "correspondence-broken", "suite": "siodecode/" + name,
                       "theorems": ["C10_parse_header_no_panic", "C10_add_no_panic", "C10_decode_no_panic",
                                    "C10_attachments_exact"],
                       "case": r, "n_disagree": len(bad_agree)}, no_input=True)


def live_term(r):
    return "(mkLive %s %s %s %s %s %s %s)" % (
        case_term(r["dec"]), gbytes(r["fam"].encode()), gbool(r["handler"]), gbool(r["errh"]),
        gbool(r["closed"]), gbool(r["healthy"]), gbool(r["later"]))


def live_run(ctx, vh, classes=None, par=1):
    """-> (rows by class index, crashed class (index, name, log) or None, total classes)"""
    args = ["siodecode", "-mode", "live", "-par", str(par),
            "-out", os.path.join(ctx.work, "live-%s.jsonl" % (classes or "all").replace(",", "_")[:60])]
    if classes is not None:
        args += ["-classes", classes]
    rc, text = ctx.vh(vh, args, timeout=600)
    rows, started, done, total, all_started = {}, None, set(), None, {}
    for line in text.splitlines():
        if line.startswith("LIVE-ROW "):
            r = json.loads(line[9:])
            rows[r["index"]] = r
        elif line.startswith("LIVE-CLASSES "):
            total = int(line.split()[1])
        elif line.startswith("LIVE-START "):
            parts = line.split()
            started = (int(parts[1]), parts[2])
            all_started[int(parts[1])] = parts[2]
        elif line.startswith("LIVE-DONE "):
            done.add(int(line.split()[1]))
    crashed = None
    if rc != 0:
        open_ = [i for i in all_started if i not in done]
        if open_:
            crashed = (open_[-1], all_started[open_[-1]], text[-1500:])
        else:
            raise RuntimeError("live rig failed (rc=%d): %s" % (rc, text[-1500:]))
    return rows, crashed, total


def live_suite(ctx, vh):
    rows, crashes = {}, []
    # all classes, six at a time; if the process dies, the classes that did not finish are run again one
    # process per class so that the crash is attributed to the class that causes it
    got, crashed, total = live_run(ctx, vh, None, par=4)
    rows.update(got)
    if crashed is not None and total is not None:
        for i in range(total):
            if i in rows:
                continue
            got, c1, _ = live_run(ctx, vh, str(i))
            rows.update(got)
            if c1 is not None:
                crashes.append(c1)
    for idx, cname, tail in crashes:
        ctx.count(1, nontrivial_key=("live", cname), dist="live:process-crash")
        ctx.fail_or_known("process-crash", "live: frames of class %r sent by a raw peer terminated the server process "
                          "(decoding runs on a goroutine without recover): %s" % (cname, tail[-300:].replace("\n", " | ")),
                          {"kind": "failing-input", "engine": "siodecode -mode live -classes %d" % idx, "class": cname,
                           "log_tail": tail})
    order = sorted(rows)
    hdr = HDR
    def judge(tag, idxs):
        """-> (positions in idxs failing the oracle, positions failing the correspondence); one kernel pass when all is well"""
        terms = [live_term(rows[i]) for i in idxs]
        both = ctx.coq_eval_cases("c10_live_both_" + tag, hdr, terms, "(fun c => live_oracle c && live_agree c)", shard=7)
        if not both:
            return set(), set()
        sub = [terms[j] for j in both]
        bo = {both[j] for j in ctx.coq_eval_cases("c10_live_oracle_" + tag, hdr, sub, "live_oracle", shard=100)}
        ba = {both[j] for j in ctx.coq_eval_cases("c10_live_agree_" + tag, hdr, sub, "live_agree", shard=100)}
        return bo, ba

    bad_o, bad_a = judge("all", order)
    # environmental noise (a slow connect under load) must not raise an alarm: a class that fails is run again
    # alone, twice; only a failure that reproduces every time counts
    for attempt in range(2):
        redo = sorted({order[j] for j in (bad_o | bad_a)})
        if not redo:
            break
        got, crashed, _ = live_run(ctx, vh, ",".join(map(str, redo)))
        if crashed is not None:
            break
        for i in redo:
            if i in got:
                rows[i] = got[i]
        bo, ba = judge("r%d" % attempt, redo)
        ctx.indeterminate += len(redo) - len(bo | ba)
        bad_o = {order.index(redo[j]) for j in bo}
        bad_a = {order.index(redo[j]) for j in ba}
    for i in order:
        r = rows[i]
        react = "+".join(k for k in ("handler", "errh", "closed") if r[k]) or "nothing"
        ctx.count(1, nontrivial_key=("live", r["class"]), dist="live:" + react)
    if order:
        r = rows[order[len(order) // 2]]
        ctx.sample({"suite": "siodecode/live", "class": r["class"], "frames": [bytes(f).decode("latin-1") for f in r["frames"]],
                    "handler": r["handler"], "errh": r["errh"], "closed": r["closed"], "healthy": r["healthy"], "later": r["later"]})
    ctx.obligation("correspondence:siodecode/live", "correspondence", not bad_a and not crashes,
                   "%d classes, %d disagree with the dispatch model, %d crashed the process" % (len(order), len(bad_a), len(crashes)))
    ctx.obligation("oracle:siodecode/live", "oracle", not bad_o and not crashes,
                   "%d classes, %d fail" % (len(order), len(bad_o)))
    for j in sorted(bad_o):
        r = rows[order[j]]
        ctx.fail_or_known(None, "live: after a raw peer sent %r (class %s) the server reacted with handler=%s errorHandler=%s closed=%s; "
                          "healthy connection usable=%s, later connection usable=%s - a rejected frame must be reported and must not "
                          "reach the handler, and other connections must keep working"
                          % ([bytes(f).decode("latin-1") for f in r["frames"]], r["class"], r["handler"], r["errh"], r["closed"],
                             r["healthy"], r["later"]),
                          {"kind": "failing-input", "engine": "siodecode -mode live -classes %d" % r["index"], "case": r})
    if bad_a and not bad_o and not crashes:
        r = rows[order[sorted(bad_a)[0]]]
        ctx.violation("live: the server's reaction to class %s (handler=%s errorHandler=%s closed=%s) is not what the dispatch model "
                      "Sio/DecoderDispatch.v computes (C10_error_is_reported is about the model)"
                      % (r["class"], r["handler"], r["errh"], r["closed"]),
                      {"kind": "correspondence-broken", "suite": "siodecode/live",
                       "theorems": ["C10_error_is_reported", "C10_decode_error_goes_to_error_handlers"], "case": r}, no_input=True)


def run(ctx):
    ctx.rule = ("siodecode: fixed corpus (pre-fix crashers, boundary counts/ids/placeholders) x 9 handler families; every string of "
                "length <=3 (quick) / <=4 (thorough) over 14 protocol-significant bytes through Parser.Add, pending packets completed "
                "with arbitrary frames, finished packets decoded against every family (model compared on every row); volume scan of every string "
                "<=4 (quick) / <=6 (thorough) x 9 families in Go, suspicious rows (panic, pending, wrong frame count) judged in Coq; "
                "seeded grammar-aware mutations of valid "
                "packets; types: generated handler parameter types (maps/slices/structs/pointers nested to depth 3 over any, Binary, string, "
                "int, map[string]any: all 105 of depth <=2, 60 seeded (quick) / all 320 (thorough) of depth 3) x JSON documents with a "
                "placeholder-shaped object at every nesting level, in and out of range; live: 29 malformed/valid classes sent by a raw peer to a real server next to a healthy connection; "
                "non-trivial = header accepted or packet pending (distinct (frames, maxAttachments, family)), each live class")
    ctx.trusted = ["Coq 8.16.1 kernel + vm_compute",
                   "hand-written models Sio/Header.v, Sio/Decoder.v tied by kernel-evaluated correspondence",
                   "harness cmd/vh siodecode (recording JSON wrapper, shape extraction by reflection)",
                   "encoding/json, strconv, reflect: never panic and return (universally quantified in the theorems; "
                   "their recorded answers are replayed into the model)"]
    ctx.assumptions = ["library calls (json.Unmarshal, strconv.ParseUint, reflect) return normally",
                       "the reflective walk of reconstructValue is modelled through shapes extracted by the harness"]
    ctx.proofs(modules=["Sio/DecoderCheck"])
    vh = ctx.go_build()
    if vh is None:
        return
    only = [x for x in os.environ.get("VERIF_C10_ONLY", "").split(",") if x]   # development aid: subset of suites
    t0 = time.time()

    def timed(name, f, *a):
        if only and name not in only:
            return
        t = time.time()
        f(*a)
        ctx.note("suite %s: %.1fs" % (name, time.time() - t))

    timed("corpus", decoder_suite, ctx, vh, "corpus", ["-mode", "corpus"], 400)
    timed("types", decoder_suite, ctx, vh, "types",
          ["-mode", "types", "-depth", "3", "-seed", ctx.seed, "-n", 60 if ctx.quick else 0], 70)
    timed("live", live_suite, ctx, vh)
    timed("exhaustive", decoder_suite, ctx, vh, "exhaustive", ["-mode", "exhaustive", "-maxlen", "3" if ctx.quick else "4", "-workers", "16"], 600)
    timed("scan", decoder_suite, ctx, vh, "scan", ["-mode", "scan", "-maxlen", "4" if ctx.quick else "6", "-workers", "16"], 600)
    timed("mutate", decoder_suite, ctx, vh, "mutate", ["-mode", "mutate", "-seed", ctx.seed, "-n", 700 if ctx.quick else 30000], 250)
