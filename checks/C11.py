"""C11 - Engine.IO framing round-trips and matches protocol v4 in every transport's form."""
import concurrent.futures as cf
import os
import re

from lib.vlib import gZ, gN, gbool, glist, gbytes, gpair

HDR = "From SioV Require Import Eio.Payload Eio.WTFrame Eio.CodecCheck.\nLocal Open Scope N_scope.\n"
THEOREMS = {
    "pkt": ["C11_packet_roundtrip_text", "C11_packet_roundtrip_binary", "C11_packet_roundtrip_b64", "C11_encoded_len_exact"],
    "dec": ["C11_decode_no_panic"],
    "pay": ["C11_payload_roundtrip", "C11_payload_len_exact", "C11_empty_payload_is_error"],
    "paydec": ["C11_decode_payload_no_panic"],
    "b64": ["C11_b64_roundtrip"],
    "wt": ["C11_wt_roundtrip", "C11_wt_alloc_bounded", "C11_wt_limit_enforced"],
    "wtlen": ["C11_wt_prefix_forms", "C11_wt_roundtrip"],
    "wtdec": ["C11_wt_no_panic", "C11_wt_alloc_bounded"],
}


def g_dspec(d):
    if d.get("pat"):
        return "(DPat %s)" % gN(d["len"])
    if d.get("gen"):
        return "(DGen %s %s)" % (gN(d["seed"]), gN(d["len"]))
    return "(DLit %s)" % gbytes(d.get("lit") or [])


def g_wobs(w):
    if w.get("samp"):
        # sampled positions + the last 24 bytes, ascending, as (distance from the previous one, byte)
        n = w["len"]
        pos = dict(zip(w.get("idx") or [], w.get("val") or []))
        suf = w.get("suf") or []
        for k, v in enumerate(suf):
            pos[n - len(suf) + k] = v
        out, prev = [], 0
        for i in sorted(pos):
            out.append(gpair(gN(i - prev), gN(pos[i])))
            prev = i
        return "(WSamp %s %s []%%N %s)" % (gN(n), gbytes(w.get("pre") or []), glist(out))
    if w.get("sum"):
        return "(WSum %s %s %s)" % (gN(w["len"]), gbytes(w.get("pre") or []), gN(w["adler"]))
    return "(WLit %s)" % gbytes(w.get("lit") or [])


def g_pobs(o):
    if o["class"] == "ok":
        return "(POk %s %s %s)" % (gN(o["t"]), gbool(o["b"]), g_wobs(o["d"]))
    return "PErr" if o["class"] == "err" else "PPanic"


def g_cls(c):
    return gN({"ok": 0, "err": 1, "panic": 2}[c])


def g_nlist(xs):
    return gbytes(xs)


def g_rd(limited, lim):
    return "(Some %s)" % gZ(lim) if limited else "None"


def g_wtread(rd):
    return gpair(g_pobs(rd["dec"]), gN(rd["rest"]), g_nlist(rd["reqs"]), gN(rd["given"]), gN(rd["alloc"]))


def t_pkt(r):
    return gpair(gN(r["t"]), gbool(r["b"]), g_dspec(r["d"]), gbool(r["sb"]), g_wobs(r["wire"]), gZ(r["elen"]),
                 gbool(r["bf"]), g_pobs(r["dec"]))


def t_dec(r):
    return gpair(gbytes(r["in"]), gbool(r["bf"]), g_pobs(r["dec"]))


def t_pay(r):
    ps = glist(gpair(gN(p["t"]), gbool(p["b"]), g_dspec(p["d"])) for p in r["ps"])
    return gpair(ps, g_wobs(r["wire"]), gZ(r["elen"]), g_cls(r["class"]), glist(g_pobs(o) for o in r["out"]))


def t_paydec(r):
    return gpair(gbytes(r["in"]), g_cls(r["class"]), glist(g_pobs(o) for o in r["out"]))


def t_b64(r):
    return gpair(gbytes(r["in"]), gbytes(r["enc"]), g_cls(r["class"]), gbytes(r["dec"]), gN(r["dl"]), gN(r["el"]))


def t_wt(r):
    return gpair(gN(r["t"]), gbool(r["b"]), g_dspec(r["d"]), gbytes(r["trail"]), g_nlist(r["sizes"]),
                 g_rd(r["limited"], r["lim"]), g_wobs(r["wire"]), g_wtread(r["rd"]))


def t_wtlen(r):
    return gpair(gN(r["n"]), gbool(r["b"]), gbytes(r["hdr"]), gN(r["wlen"]), g_cls(r["class"]), gbool(r["same"]),
                 gN(r["rest"]), g_nlist(r["reqs"]), gN(r["alloc"]), gbool(r["next"]), gbool(r["rej"]))


def t_wtdec(r):
    return gpair(gbytes(r["in"]), g_nlist(r["sizes"]), g_rd(r["limited"], r["lim"]), g_wtread(r["rd"]))


def form_of(n):
    if n < 126:
        return "1B"
    if n < 65536:
        return "3B"
    k, b = 0, 65536
    while 2 * b <= n:
        k, b = k + 1, 2 * b
    return "9B:grow%d%s" % (k, "+" if n > b + b // 2 else "")   # regime of the chunked reader


# per suite: term builder, non-trivial key (or None), distribution bucket, description of a failing case
def k_pkt(r):
    big = r["d"]["len"] > 0
    return (("p", r["t"], r["b"], r["sb"], r["d"]["len"], r["wire"].get("adler"), tuple(r["wire"].get("lit") or ())[:40]) if big else None,
            "pkt:%s:%s" % ("bin" if r["b"] else "text", "raw" if r["sb"] or not r["b"] else "b64"))


def k_dec(r):
    return (("d", tuple(r["in"]), r["bf"]) if len(r["in"]) > 1 else None, "dec:" + r["dec"]["class"])


def k_pay(r):
    return (("y", r["wire"].get("adler"), tuple(r["wire"].get("lit") or ())[:60], len(r["ps"])) if len(r["ps"]) > 1 else None,
            "pay:%d" % min(len(r["ps"]), 8))


def k_paydec(r):
    return (("yd", tuple(r["in"])) if 30 in r["in"] else None, "paydec:" + r["class"])


def k_b64(r):
    return (("b", tuple(r["in"])) if len(r["in"]) > 1 else None, "b64:" + r["class"])


def k_wt(r):
    n = r["wire"]["len"]
    return (("w", n, r["b"], tuple(r["sizes"])[:6], r["limited"], r["lim"]), "wt:%s:%s" % (form_of(r["d"]["len"] + (0 if r["b"] else 1)), r["rd"]["dec"]["class"]))


def k_wtlen(r):
    return (("l", r["n"], r["b"]), "wtlen:" + form_of(r["n"]))


def k_wtdec(r):
    return (("wd", tuple(r["in"]), tuple(r["sizes"])[:6], r["limited"], r["lim"]) if len(r["in"]) > 1 else None,
            "wtdec:" + r["rd"]["dec"]["class"])


SUITES = {
    "pkt": (t_pkt, k_pkt, "packet Encode/EncodedLen/Decode"),
    "dec": (t_dec, k_dec, "Decode of arbitrary bytes"),
    "pay": (t_pay, k_pay, "EncodePayloads/EncodedPayloadsLen/DecodePayloads"),
    "paydec": (t_paydec, k_paydec, "DecodePayloads of arbitrary bytes"),
    "b64": (t_b64, k_b64, "encoding/base64 (StdEncoding) as used by the parser"),
    "wt": (t_wt, k_wt, "WebTransport send/nextPacket"),
    "wtlen": (t_wtlen, k_wtlen, "WebTransport frame of every length"),
    "wtdec": (t_wtdec, k_wtdec, "WebTransport nextPacket on arbitrary bytes"),
}


GO = ("(fix go (i : nat) l := match l with [] => [] | c :: l' => "
      "if %s c then go (S i) l' else i :: go (S i) l' end) O cases_")


def eval_shard(ctx, name, k, terms, idxs, f_oracle, f_agree):
    """One coqc evaluates both the oracle and the agreement function on every case of the shard
    (vm_compute in the kernel) and prints the indexes where each is false."""
    body = HDR + "\nDefinition cases_ := [\n  " + ";\n  ".join(terms[i] for i in idxs) + "\n].\n"
    body += "Definition bad_o_ := Eval vm_compute in %s.\nPrint bad_o_.\n" % (GO % f_oracle)
    body += "Definition bad_a_ := Eval vm_compute in %s.\nPrint bad_a_.\n" % (GO % f_agree)
    rc, out = ctx.coq_run("%s_%03d" % (name, k), body, timeout=900)
    if rc != 0:
        raise RuntimeError("coqc failed on %s shard %d:\n%s" % (name, k, out[-3000:]))
    res = []
    for v in ("bad_o_", "bad_a_"):
        m = re.search(v + r"\s*=\s*(\[.*?\])\s*:\s*list nat", out, re.S)
        if not m:
            raise RuntimeError("cannot parse coqc output for %s shard %d:\n%s" % (name, k, out[-2000:]))
        res.append([idxs[int(x)] for x in re.findall(r"\d+", m.group(1))])
    return res


def short(r):
    s = repr(r)
    return s if len(s) < 900 else s[:900] + "...(truncated, full case in the replay file)"


def collect(ctx, vh, jobs, name, args, shard=400, label=None):
    """Run the harness for one suite and queue its cases for evaluation."""
    build, key, what = SUITES[name]
    label = label or name
    rows = ctx.vh_jsonl(vh, "eiocodec", ["-mode", name, "-seed", ctx.seed] + args)
    if rows is None:
        return
    if not rows:
        ctx.violation("harness produced no case for suite %s" % label,
                      {"kind": "correspondence-broken", "suite": label}, no_input=True)
        return
    for r in rows:
        k, d = key(r)
        ctx.count(1, nontrivial_key=k, dist=d)
    ctx.sample({"suite": label, "case": rows[len(rows) // 2]}, limit=8)
    # every term carries its type: a shard whose lists are all empty would otherwise not elaborate
    terms = ["(%s : %s_case)" % (build(r), name) for r in rows]
    jobs.append({"name": name, "label": label, "rows": rows, "terms": terms, "shard": shard})


def evaluate(ctx, jobs):
    """Evaluate every queued shard (all suites share one pool), then report suite by suite."""
    tasks = []
    for j in jobs:
        n = len(j["terms"])
        j["bad_o"], j["bad_a"] = [], []
        for k, i in enumerate(range(0, n, j["shard"])):
            tasks.append((j, k, list(range(i, min(i + j["shard"], n)))))
    # heavy shards (large frames) first
    tasks.sort(key=lambda t: -sum(len(t[0]["terms"][i]) for i in t[2]) - (10 ** 6 if t[0]["name"] == "wt" else 0))

    times = []

    def work(t):
        import time
        j, k, idxs = t
        t0 = time.time()
        try:
            return j, eval_shard(ctx, "c11_" + j["label"].replace("-", "_"), k, j["terms"], idxs,
                             "oracle_" + j["name"], "agree_" + j["name"])
        finally:
            times.append((round(time.time() - t0, 1), "%s/%d" % (j["label"], k)))

    with cf.ThreadPoolExecutor(max_workers=int(os.environ.get("VERIF_JOBS", "8"))) as ex:
        for j, (o, a) in ex.map(work, tasks):
            j["bad_o"].extend(o)
            j["bad_a"].extend(a)
    ctx.note("%d shards; slowest: %s" % (len(tasks), sorted(times, reverse=True)[:8]))
    for j in jobs:
        name, label, rows = j["name"], j["label"], j["rows"]
        what = SUITES[name][2]
        bad_oracle, bad_agree = sorted(j["bad_o"]), sorted(j["bad_a"])
        ctx.obligation("correspondence:%s" % label, "correspondence", not bad_agree,
                       "%d cases, %d disagree" % (len(rows), len(bad_agree)))
        ctx.obligation("oracle:%s" % label, "oracle", not bad_oracle, "%d cases, %d fail" % (len(rows), len(bad_oracle)))
        for i in bad_oracle[:3]:
            ctx.fail_or_known(None, "%s: the property fails on the implementation's own output (round trip / protocol "
                              "form / advertised length / no panic / allocation within the limit): %s" % (what, short(rows[i])),
                              {"kind": "failing-input", "engine": "eiocodec", "mode": name, "case": rows[i]})
        if bad_agree and not bad_oracle:
            i = bad_agree[0]
            ctx.violation("%s no longer computes what the Coq model computes (theorems %s are about the model); "
                          "first differing case: %s" % (what, ", ".join(THEOREMS[name]), short(rows[i])),
                          {"kind": "correspondence-broken", "suite": label, "theorems": THEOREMS[name], "case": rows[i]},
                          no_input=True)


def run(ctx):
    q = ctx.quick
    ctx.rule = ("packets: 7 types x text/binary x supportsBinary x data menu (empty, 1 byte, all 256 byte values, 0x1e-heavy, random) "
                "+ seeded random; payloads of 1..8 packets; arbitrary-byte decode streams (all 1-byte frames, 'b'+exhaustive "
                "strings over a 6-letter alphabet, base64-like mutations); base64 vs encoding/base64; WebTransport: boundary "
                "table of encoded lengths x text/binary x limits x chunkings, every length 0..70000 (thorough; quick: stride), "
                "arbitrary byte streams incl. truncated headers and huge declared lengths. non-trivial = non-empty data / "
                ">1 packet / contains a separator / distinct (length, chunking, limit); distinct keys are counted")
    ctx.trusted = ["Coq 8.16.1 kernel + vm_compute",
                   "hand-written models Eio/{Base64,Codec,Payload,WTFrame}.v tied by kernel-evaluated correspondence",
                   "harness cmd/vh/eiocodec.go + hook engine.io/transport/webtransport/packet_verif.go",
                   "encoding/base64, io.ReadFull (modelled, compared on every run), runtime.MemStats for the allocation observation"]
    ctx.assumptions = ["a byte stream delivers its bytes in order in arbitrary chunks (io.Reader contract)",
                       "int is 64 bits (math.MaxInt = 2^63-1)"]
    ctx.proofs(modules=["Eio/CodecCheck"])
    vh = ctx.go_build()
    if vh is None:
        return
    import time
    jobs = []
    t0 = time.time()
    collect(ctx, vh, jobs, "b64", ["-n", 150 if q else 6000], shard=350 if q else 1000)
    collect(ctx, vh, jobs, "pkt", ["-n", 60 if q else 3000] + ([] if q else ["-thorough"]), shard=40 if q else 100)
    collect(ctx, vh, jobs, "dec", ["-n", 300 if q else 12000, "-ex", 3 if q else 5], shard=600 if q else 2500)
    collect(ctx, vh, jobs, "pay", ["-n", 60 if q else 3000], shard=31 if q else 400)
    collect(ctx, vh, jobs, "paydec", ["-n", 150 if q else 6000], shard=200 if q else 1000)
    collect(ctx, vh, jobs, "wt", ["-n", 60 if q else 1500] + ([] if q else ["-thorough"]), shard=5 if q else 40)
    collect(ctx, vh, jobs, "wtdec", ["-n", 200 if q else 8000], shard=260 if q else 1200)
    if q:
        # every length around the form boundaries + a stride over the rest
        collect(ctx, vh, jobs, "wtlen", ["-lo", 0, "-hi", 300, "-stride", 1], shard=300, label="wtlen-low")
        collect(ctx, vh, jobs, "wtlen", ["-lo", 65436, "-hi", 65636, "-stride", 1], shard=140, label="wtlen-boundary")
        collect(ctx, vh, jobs, "wtlen", ["-lo", 301, "-hi", 70000, "-stride", 263], shard=300, label="wtlen-stride")
        # large frames: both sides of every size at which the chunked reader changes regime
        collect(ctx, vh, jobs, "wtlen", ["-growth", "-hi", 1100000], shard=7, label="wtlen-growth")
    else:
        collect(ctx, vh, jobs, "wtlen", ["-lo", 0, "-hi", 70000, "-stride", 1], shard=5000, label="wtlen-all")
        collect(ctx, vh, jobs, "wtlen", ["-growth", "-thorough", "-hi", 4300000], shard=8, label="wtlen-growth")
        collect(ctx, vh, jobs, "wtlen", ["-lo", 70001, "-hi", 2200000, "-stride", 8191], shard=8, label="wtlen-sweep")
    t1 = time.time()
    evaluate(ctx, jobs)
    ctx.note("harness %.1fs, kernel evaluation of %d cases in %.1fs" % (t1 - t0, sum(len(j["rows"]) for j in jobs), time.time() - t1))
