"""C12 - middlewares gate admission and events: nothing passes that a middleware rejected."""
import concurrent.futures as cf

from lib.vlib import gZ, gN, gbool, glist, gpair, gstring_bytes

HDR = "From SioV Require Import Base.GoSem Sio.Middleware Sio.MiddlewareCheck.\n"
ADM_THEOREMS = ["C12_connected_only_after_all_accept", "C12_first_rejection_stops",
                "C12_connect_error_carries_rejection", "C12_rejected_leaves_nothing"]
EV_THEOREMS = ["C12_event_mw_sees_name_and_args", "C12_rejected_event_not_delivered",
               "C12_accepted_event_delivered", "C12_event_first_rejection_stops"]
SHARD = 80
ENV_RESP = ("timeout", "dialfail")      # symptoms that can be environmental: the suite is repeated once


def eval_both(ctx, name, terms, oracle_fn, agree_fn, both_fn):
    """One kernel pass evaluating oracle && agree on every case; only the cases that fail it are
    evaluated again, separately, to tell an oracle failure from a correspondence failure."""
    bad = ctx.coq_eval_cases(name + "_both", HDR, terms, both_fn, shard=SHARD)
    if not bad:
        return [], []
    sub = [terms[i] for i in bad]
    bo = ctx.coq_eval_cases(name + "_oracle", HDR, sub, oracle_fn, shard=SHARD)
    ba = ctx.coq_eval_cases(name + "_agree", HDR, sub, agree_fn, shard=SHARD)
    return [bad[i] for i in bo], [bad[i] for i in ba]


# ------------------------------------------------------------------ admission
def room_code(r):
    if r == "own":
        return 0
    if r == "shared":
        return 1
    if r.startswith("r") and r[1:].isdigit():
        return int(r[1:]) + 2
    if r.startswith("slow") and r[4:].isdigit():
        return int(r[4:]) + 101
    if r.startswith("late") and r[4:].isdigit():
        return int(r[4:]) + 201
    if r == "sess":
        return 51
    return 999999


def gview(v):
    return "(mkv %s %s %s %s %s %s %s %s)" % (
        gbool(v["listed"]), gbool(v["fetch"]), gbool(v["connected"]), gbool(v["has_rooms"]),
        glist(gN(room_code(r)) for r in v["rooms"]), gbool(v["reach_all"]), gbool(v["reach_own"]),
        glist(gN(room_code(r)) for r in v["reach_via"]))


def restored(r):
    """The adapter really restored a session for this CONNECT: recovery enabled and the auth named
    a session (pid + offset) the rig had registered with the adapter."""
    return bool(r.get("rec")) and r.get("a") == 2


def adm_term(r):
    chain = glist(gpair(gN(j), gN(v)) for j, v in zip(r["j"], r["v"]))
    calls = glist(gpair(gN(c["mw"]), gview(c)) for c in r["calls"])
    hviews = glist(gview(h) for h in r["handler"])
    resp = {"connect": 0, "connect_error": 1}.get(r["resp"], 2)
    kind = {"text": 1, "data": 2}.get(r["msg_kind"], 0)
    if resp == 1 and r["msg_mw"] >= 0 and r["msg_code"] >= 0:
        msg = (kind, r["msg_mw"], r["msg_code"])
    elif resp == 1:
        msg = (kind, 999999, 999999)      # a message the rig cannot attribute
    else:
        msg = (0, 0, 0)
    return "(mkacase %s %s %s %s %s %s %s %s %s %s %s %s %s %s %s %s %s)" % (
        chain, calls, hviews, gN(resp), gN(msg[0]), gN(msg[1]), gN(msg[2]), gview(r["post"]), gview(r["final"]),
        gbool(r["resp_sid"]), gbool(r["probe"]), gN(r["trap"]), gN(r["anyh"]), gN(r["final_evt"]), gbool(r["h_waited"]),
        gbool(restored(r)), gbool(bool(r.get("usemw"))))


def adm_describe(r):
    """Plain words for a failing admission observation (message only; the verdict is the oracle's)."""
    rej = next((i for i, v in enumerate(r["v"]) if v != 0), None)
    what = []
    idx = [c["mw"] for c in r["calls"]]
    want = list(range(len(r["v"]))) if rej is None else list(range(rej + 1))
    skip = restored(r) and not r.get("usemw")
    if skip:
        rej, want = None, []
    elif r.get("rec") and r.get("a") and r["resp"] == "connect" and idx != want:
        what.append("recovery was only REQUESTED (auth kind %d: the adapter restores nothing) and the socket was connected "
                    "without the namespace middlewares" % r["a"])
    if idx != want:
        what.append("middlewares called %s, expected %s" % (idx, want))
    if rej is not None:
        if r["resp"] != "connect_error":
            what.append("client got %r instead of CONNECT_ERROR" % r["resp"])
        elif (r["msg_mw"], r["msg_code"]) != (rej, r["v"][rej]):
            what.append("CONNECT_ERROR does not carry the rejection of middleware %d" % rej)
        for name in ("post", "final"):
            v = r[name]
            left = [k for k in ("listed", "fetch", "connected", "has_rooms", "reach_all", "reach_own") if v[k]]
            if left or v["rooms"] or v["reach_via"]:
                what.append("after the rejection (%s) the server still shows %s rooms=%s" % (name, left, v["rooms"]))
        if r["handler"] or r["anyh"]:
            what.append("connection handlers ran for a rejected socket")
    else:
        if r["resp"] != "connect":
            what.append("all middlewares accepted but the client got %r" % r["resp"])
        if len(r["handler"]) != 1:
            what.append("connection handler ran %d times" % len(r["handler"]))
    for c in r["calls"]:
        if c["listed"] or c["connected"] or c["reach_all"] or c["reach_own"] or "own" in c["rooms"]:
            what.append("middleware %d saw the socket already admitted" % c["mw"])
    if r["trap"]:
        what.append("the chain of another namespace ran")
    return "; ".join(what) or "observation violates the admission property"


def rec_words(r):
    if not r.get("rec"):
        return ""
    return " (recovery enabled, UseMiddlewares %s, CONNECT auth: %s)" % (
        "on" if r.get("usemw") else "off",
        {0: "no pid", 1: "a pid/offset the adapter cannot restore", 2: "pid+offset of a session the adapter restores"}[r.get("a", 0)])


def adm_suite(ctx, vh, name, args, goclient=False):
    def once():
        rows = ctx.vh_jsonl(vh, "middleware", args, timeout=900)
        if rows is None:
            return None, None
        stray = [r for r in rows if r.get("suite") == "stray"]
        return [r for r in rows if r.get("suite") != "stray"], stray

    rows, stray = once()
    if rows is None:
        return
    envish = [r for r in rows if r["resp"] in ENV_RESP or r.get("slow")]
    if envish:
        ctx.note("%s: %d cases ended in %s or ran on a stalled machine; suite repeated once"
                 % (name, len(envish), sorted({r["resp"] for r in envish})))
        ctx.indeterminate += len(envish)
        rows, stray = once()
        if rows is None:
            return
    # attempts that could not be made because an earlier CONNECT on the same connection was accepted
    # although it had to be refused (that one is reported): not observations
    notrun = [r for r in rows if r["resp"] == "notrun"]
    if notrun:
        ctx.note("%s: %d planned attempts were not made (an earlier CONNECT on their connection was accepted unexpectedly)" % (name, len(notrun)))
        rows = [r for r in rows if r["resp"] != "notrun"]
    # a held Join that the watchdog (not the script) ended: the schedule was not the forced one
    wd = [r for r in rows if r.get("watchdog")]
    if wd:
        ctx.indeterminate += len(wd)
        ctx.note("%s: %d cases in which a held Join was ended by the watchdog are not compared" % (name, len(wd)))
        rows = [r for r in rows if not r.get("watchdog")]
    terms = [adm_term(r) for r in rows]
    for r in rows:
        key = (r["nsp"], tuple(r["v"]), tuple(r["j"]), r["conc"] > 1, r.get("rec"), r.get("usemw"), r.get("a")) if r["k"] > 0 else None
        kind = "accept" if all(v == 0 for v in r["v"]) else "reject"
        ctx.count(1, nontrivial_key=key, dist="%s:k%d:%s" % (name, r["k"], kind))
    rj = [r for r in rows if r["resp"] == "connect_error" and any(r["j"])]
    if rj:
        ctx.sample({"suite": name, "case": {k: rj[0][k] for k in ("nsp", "k", "v", "j", "calls", "resp", "msg_kind", "msg_mw", "post")}})
    bad_oracle, bad_agree = eval_both(ctx, "adm_" + name.replace("-", "_"), terms, "oracle", "agree", "oracle_and_agree")
    if bad_agree and not bad_oracle:
        # only the correspondence differs (the property holds on the observation): the suite is run
        # again before anything is reported; a difference that does not come back for the same
        # case (namespace, verdicts, joins) was a schedule the rig did not force - counted, not reported
        first = {(rows[i]["nsp"], tuple(rows[i]["v"]), tuple(rows[i]["j"]), rows[i].get("a")) for i in bad_agree}
        rows2, stray2 = once()
        if rows2 is not None:
            rows2 = [r for r in rows2 if not r.get("watchdog")]
            bo2, ba2 = eval_both(ctx, "adm_" + name.replace("-", "_") + "_again", [adm_term(r) for r in rows2],
                                 "oracle", "agree", "oracle_and_agree")
            again = {(rows2[i]["nsp"], tuple(rows2[i]["v"]), tuple(rows2[i]["j"]), rows2[i].get("a")) for i in ba2}
            if bo2 or (first & again):
                rows, stray, bad_oracle, bad_agree = rows2, stray2, bo2, ba2
            else:
                ctx.indeterminate += len(bad_agree)
                ctx.note("%s: %d cases differed from the model's prediction once and not when the suite was repeated: %s"
                         % (name, len(bad_agree), sorted(first)[:3]))
                bad_agree = []
    ctx.obligation("correspondence:admission/" + name, "correspondence", not bad_agree,
                   "%d live admissions, %d differ from the model's prediction" % (len(rows), len(bad_agree)))
    ctx.obligation("oracle:admission/" + name, "oracle", not bad_oracle and not stray,
                   "%d live admissions, %d violate the property, %d unattributed events" % (len(rows), len(bad_oracle), len(stray)))
    for s in stray[:3]:
        ctx.violation("admission rig: %s" % s["what"], {"kind": "failing-input", "engine": "middleware", "args": args, "stray": s})
    for i in bad_oracle[:3]:
        r = rows[i]
        ctx.fail_or_known(None, "namespace %s%s, chain verdicts %s (0 accept, 1 error, 2 string, 3 data), joins %s (1-3 Join calls, 4 `go Join` held in progress by the adapter, 5 `go Join` started after the answer): %s"
                          % (r["nsp"], rec_words(r), r["v"], r["j"], adm_describe(r)),
                          {"kind": "failing-input", "engine": "middleware", "args": args, "case": r})
    if bad_agree and not bad_oracle:
        r = rows[bad_agree[0]]
        ctx.violation("admission path no longer behaves like the model Sio/Middleware.v (the admission theorems are "
                      "about the model); first differing case: nsp %s verdicts %s joins %s" % (r["nsp"], r["v"], r["j"]),
                      {"kind": "correspondence-broken", "suite": "admission/" + name, "theorems": ADM_THEOREMS, "case": r},
                      no_input=True)


# ------------------------------------------------------------------ event middlewares
def gval(a):
    if a.startswith("s:"):
        return "(VStr %s)" % gstring_bytes(a[2:])
    if a.startswith("i:"):
        return "(VInt %s)" % gZ(int(a[2:]))
    return "(VStr [1000000]%N)"          # something that is neither (a func placeholder, a float, ...)


def ev_handlers(sig):
    if sig == "dup":
        return [(0, False), (1, False)]
    return [(0, sig.startswith("ack"))]


def ev_expected_ack(r):
    return {"ackS": "s:" + r["arg_s"] + "!", "ackN": "i:%d" % (r["arg_n"] + 1), "ack0": "s:ok"}.get(r["sig"])


def ev_term(r):
    hs = glist(gpair(gN(i), gbool(a)) for i, a in ev_handlers(r["sig"]))
    chain = glist(gbool(c == 0) for c in r["chain"])
    sent = glist(gval(a) for a in r["sent"])
    omw = glist(gpair(gN(m["idx"]), gstring_bytes(m["name"]), glist(gval(a) for a in m["args"])) for m in r["mw"])
    oh = glist(gpair(gN(h["idx"]), glist(gval(a) for a in h["args"])) for h in r["h"])
    ack_ok = len(r["ack"]) == 1 and r["ack"][0] == ev_expected_ack(r)
    done = r["done"] == "ok" and r["ack_done"] in ("ok", "n/a")
    return "(mkecase %s %s %s %s %s %s %s %s %s %s %s %s)" % (
        hs, chain, gbool(r["with_ack"]), gstring_bytes(r["sig"]), sent, gbool(r["sig"] != "badtype"),
        omw, oh, gN(len(r["errs"])), gN(len(r["ack"])), gbool(ack_ok), gbool(done))


def ev_describe(r):
    what = []
    for m in r["mw"]:
        if m["name"] != r["sig"] or m["args"] != r["sent"]:
            what.append("event middleware %d was called with (%r, %s) for event %r with arguments %s"
                        % (m["idx"], m["name"], m["args"], r["sig"], r["sent"]))
            break
    rejecting = any(c == 1 for c in r["chain"])
    if rejecting and r["h"]:
        what.append("a rejected event reached the handler")
    if rejecting and r["ack"]:
        what.append("a rejected event was acknowledged")
    if not rejecting and r["sig"] != "badtype" and len(r["h"]) != len(ev_handlers(r["sig"])):
        what.append("an event every middleware accepts (or with no middleware) was not delivered: handler calls %s, errors %s"
                    % (r["h"], r["errs"][:2]))
    if r["done"] != "ok":
        what.append("neither handler nor error callback within the wait (%s)" % r["done"])
    return "; ".join(what) or "observation violates the event middleware property"


def ev_suite(ctx, vh, args):
    def once():
        return ctx.vh_jsonl(vh, "middleware", args, timeout=900)

    rows = once()
    if rows is None:
        return
    envish = [r for r in rows if r["done"] in ("timeout", "noconnect", "lost") or r["ack_done"] == "timeout"]
    if envish:
        ctx.note("events: %d cases ended in a timeout / lost connection; suite repeated once" % len(envish))
        ctx.indeterminate += len(envish)
        rows = once()
        if rows is None:
            return
    retried = sum(r["retries"] for r in rows)
    if retried:
        ctx.note("events: %d connections were closed by the server before anything was observed and were repeated" % retried)
    terms = [ev_term(r) for r in rows]
    for r in rows:
        key = (r["nsp"], r["sig"], tuple(r["chain"]), r["with_ack"]) if r["chain"] else None
        ctx.count(1, nontrivial_key=key, dist="events:%s:%s" % (r["sig"], "reject" if 1 in r["chain"] else "accept"))
    ctx.sample({"suite": "events", "case": next((r for r in rows if r["sig"] == "num" and r["chain"]), rows[0])})
    bad_oracle, bad_agree = eval_both(ctx, "ev", terms, "eoracle", "eagree", "eoracle_and_eagree")
    ctx.obligation("correspondence:events", "correspondence", not bad_agree,
                   "%d live events, %d differ from the model's prediction" % (len(rows), len(bad_agree)))
    ctx.obligation("oracle:events", "oracle", not bad_oracle,
                   "%d live events, %d violate the property" % (len(rows), len(bad_oracle)))
    for i in bad_oracle[:3]:
        r = rows[i]
        ctx.fail_or_known(None, "event %r (client emitted %s%s), event middleware chain %s (0 accept, 1 reject): %s"
                          % (r["sig"], r["sent"], " + ack" if r["with_ack"] else "", r["chain"], ev_describe(r)),
                          {"kind": "failing-input", "engine": "middleware", "args": args, "case": r})
    if bad_agree and not bad_oracle:
        r = rows[bad_agree[0]]
        ctx.violation("event path no longer behaves like the model Sio/Middleware.v; first differing case: event %r chain %s"
                      % (r["sig"], r["chain"]),
                      {"kind": "correspondence-broken", "suite": "events", "theorems": EV_THEOREMS, "case": r}, no_input=True)


# ------------------------------------------------------------------ forced window
def win_term(r):
    ca = glist(gpair(gN(j), gN(v)) for j, v in zip(r["ja"], r["va"]))
    cb = glist(gpair(gN(j), gN(v)) for j, v in zip(r["jb"], r["vb"]))
    rc = {"connect": 0, "connect_error": 1}
    return "(mkwcase %s %s %s %s %s %s %s %s %s %s %s %s %s %s)" % (
        ca, cb, gN(r["g"]), gN(rc.get(r["resp_a"], 2)), gN(rc.get(r["resp_b"], 2)),
        glist(gN(x) for x in r["recv_a"]), glist(gN(x) for x in r["recv_b"]),
        gview(r["mid_a"]), gview(r["mid_b"]), gview(r["end_a"]), gview(r["end_b"]),
        glist(gN(x) for x in r["calls_a"]), glist(gN(x) for x in r["calls_b"]), gbool(r["parked"]))


def win_suite(ctx, vh, args):
    def once():
        return ctx.vh_jsonl(vh, "middleware", args, timeout=900)

    rows = once()
    if rows is None:
        return
    envish = [r for r in rows if r.get("note") or r["resp_a"] in ENV_RESP or r["resp_b"] in ENV_RESP or not r["parked"]]
    if envish:
        ctx.note("window: %d cases ended in a dial failure / timeout; suite repeated once" % len(envish))
        ctx.indeterminate += len(envish)
        rows = once()
        if rows is None:
            return
    rows = [r for r in rows if not r.get("note")]
    terms = [win_term(r) for r in rows]
    for r in rows:
        ctx.count(1, nontrivial_key=("win", r["nsp"], r["g"], tuple(r["va"]), tuple(r["vb"])), dist="window:k%d:g%d" % (r["k"], r["g"]))
    ctx.sample({"suite": "window", "case": {k: rows[0][k] for k in ("nsp", "k", "g", "va", "vb", "resp_a", "resp_b", "recv_a", "recv_b", "mid_a")}})
    bad_oracle, bad_agree = eval_both(ctx, "win", terms, "woracle", "wagree", "woracle_and_wagree")
    ctx.obligation("correspondence:admission/window", "correspondence", not bad_agree,
                   "%d forced windows, %d differ from the model run under the same schedule" % (len(rows), len(bad_agree)))
    ctx.obligation("oracle:admission/window", "oracle", not bad_oracle,
                   "%d forced windows, %d violate the property" % (len(rows), len(bad_oracle)))
    for i in bad_oracle[:3]:
        r = rows[i]
        ctx.fail_or_known(None, "namespace %s: socket A parked in middleware %d of chain %s while B (chain %s) connects and broadcasts "
                          "tick1/tick2/tick3 are sent before B / after B / after A: A got %s and ticks %s, B got %s and ticks %s; "
                          "view of A while parked: %s" % (r["nsp"], r["g"], r["va"], r["vb"], r["resp_a"], r["recv_a"], r["resp_b"],
                                                          r["recv_b"], {k: v for k, v in r["mid_a"].items() if v}),
                          {"kind": "failing-input", "engine": "middleware", "args": args, "case": r})
    if bad_agree and not bad_oracle:
        r = rows[bad_agree[0]]
        ctx.violation("two interleaved admissions no longer behave like the model Sio/Middleware.v under the same schedule; "
                      "first differing case: nsp %s gate %d chains %s / %s" % (r["nsp"], r["g"], r["va"], r["vb"]),
                      {"kind": "correspondence-broken", "suite": "admission/window", "theorems": ADM_THEOREMS, "case": r}, no_input=True)


def run(ctx):
    q = ctx.quick
    ctx.rule = ("admission: every accept/reject vector (accept, error, string, structured data) for chains of 0..%d namespace "
                "middlewares x 2 join patterns (none, random; 3 in the sequential run) x {/, /chat}, 8 concurrent raw-protocol sessions and again (shorter chains) one at a time, "
                "several rejected CONNECTs then an accepted one per Engine.IO connection; plus a sample through the Go client; "
                "recovery: connection state recovery on (UseMiddlewares off / on) and off x CONNECT auth {no pid, a pid/offset the adapter cannot restore, "
                "pid+offset of a session the adapter restores} x every verdict vector for chains <=2/3; "
                "asynchronous Joins: every verdict vector for chains <=%d with middlewares that start `go socket.Join(..)` - held in progress by a "
                "blocking adapter across the rest of the chain and the clean-up, or started after the answer (3 patterns); "
                "forced windows: socket A parked in middleware g (every g, every chain of <=%d reaching g) while B is admitted/refused and "
                "broadcasts are sent. "
                "events: 10 handler signatures x every accept/reject chain of 0..%d event middlewares x with/without ack. "
                "non-trivial = at least one middleware ran (distinct (namespace, verdicts, joins, concurrent?) / (signature, chain, ack))"
                % ((3, 2, 2, 2) if q else (5, 3, 3, 3)))
    ctx.trusted = ["Coq 8.16.1 kernel + vm_compute",
                   "hand-written model Sio/Middleware.v tied to the working tree by live rigs whose histories are compared with the "
                   "model's prediction by kernel evaluation (sampled / exhaustive for small chains, not proved)",
                   "harness cmd/vh middleware*.go (real server on 127.0.0.1:0, raw peer on the repo's Engine.IO client, repo's Go client)",
                   "one namespace per model instance; Go scheduler, net/http, websocket library"]
    ctx.assumptions = ["middlewares only join named rooms (not a room named like a socket id), synchronously or on goroutines of their own, and return",
                       "socket ids are unique (crypto/rand base64 ids)"]
    ctx.proofs(modules=["Sio/MiddlewareCheck"])
    vh = ctx.go_build()
    if vh is None:
        return
    k = 3 if q else 5
    suites = [
        lambda: adm_suite(ctx, vh, "raw-conc8", ["-mode", "adm", "-maxlen", k, "-conc", 8, "-seed", ctx.seed, "-joinvariants", 2]),
        lambda: adm_suite(ctx, vh, "raw-seq", ["-mode", "adm", "-maxlen", 2 if q else 3, "-conc", 1, "-seed", ctx.seed + 1]),
        lambda: adm_suite(ctx, vh, "raw-async", ["-mode", "adm", "-maxlen", 2 if q else 3, "-conc", 16, "-seed", ctx.seed + 5,
                                                 "-jvfrom", 3, "-joinvariants", 3]),
        lambda: adm_suite(ctx, vh, "raw-recovery", ["-mode", "adm", "-maxlen", 2 if q else 3, "-conc", 8, "-seed", ctx.seed + 6,
                                                    "-jvfrom", 1, "-joinvariants", 1, "-authkinds", 3, "-recovery=true", "-usemw=false"]),
        lambda: adm_suite(ctx, vh, "raw-recovery-usemw", ["-mode", "adm", "-maxlen", 2 if q else 3, "-conc", 8, "-seed", ctx.seed + 7,
                                                          "-jvfrom", 1, "-joinvariants", 1, "-authkinds", 3, "-recovery=true", "-usemw=true"]),
        lambda: adm_suite(ctx, vh, "raw-norecovery-pid", ["-mode", "adm", "-maxlen", 2, "-conc", 8, "-seed", ctx.seed + 8,
                                                          "-jvfrom", 1, "-joinvariants", 1, "-authkinds", 3]),
        lambda: adm_suite(ctx, vh, "goclient", ["-mode", "admgo", "-maxlen", k, "-n", 12 if q else 64, "-seed", ctx.seed + 2]),
        lambda: win_suite(ctx, vh, ["-mode", "win", "-maxlen", 2 if q else 3, "-seed", ctx.seed + 4]),
        lambda: ev_suite(ctx, vh, ["-mode", "ev", "-maxlen", 2 if q else 3, "-seed", ctx.seed + 3]),
    ]
    # the suites are independent (own servers on port 0, own case files): run them side by side,
    # the wall time is then that of the largest one; a failure of the machinery in any of them is raised
    with cf.ThreadPoolExecutor(max_workers=len(suites)) as ex:
        futs = [ex.submit(f) for f in suites]
        for f in futs:
            f.result()
