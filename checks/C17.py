"""C17 - invalid Engine.IO requests get the protocol's error and create no session; accepted
handshakes get a fresh sid; a closed server admits nothing and closes everything."""
import json
import os

from lib.vlib import gN, gbool, glist, gbytes, gopt, gpair, gstring_bytes

HDR = "From SioV Require Import Base.GoSem Eio.Handshake Eio.HandshakeRace Eio.HandshakeCheck.\n"
METHODS = {"GET", "POST", "PUT", "DELETE", "OPTIONS", "CONNECT"}
KEY_HTTP3 = "http3-skips-version-and-method-checks"
BODY = {"empty": 0, "err": 1, "open": 2, "ok": 3, "payload": 4, "other": 5}
THEOREMS = ["C17_invalid_is_error_and_pure", "C17_single_defect_exact_code", "C17_only_a_handshake_changes_the_store",
            "C17_valid_handshake_fresh", "C17_closed_admits_none", "C17_close_closes_all", "C17_close_then_nothing"]


def g_tk(name):
    return "Polling" if name == "polling" else "Websocket"


class Table:
    """Strings, stores and states repeat from row to row: each distinct one is defined once per
    generated file and rows refer to it by name (keeps the generated files small)."""

    def __init__(self):
        self.names = {}
        self.defs = []

    def _ref(self, kind, key, typ, mk):
        k = (kind, key)
        if k not in self.names:
            name = "%s_%d" % (kind, len(self.names))
            self.names[k] = name
            self.defs.append("Definition %s : %s := %s." % (name, typ, mk()))
        return self.names[k]

    def s(self, text):
        return self._ref("s", text, "bytes", lambda: gstring_bytes(text))

    def store(self, store):
        key = tuple((a, b) for a, b in store)
        return self._ref("st", key, "store", lambda: glist(gpair(self.s(a), g_tk(b)) for a, b in store))

    def state(self, st):
        key = (st["closed"], tuple((a, b) for a, b in st["store"]), st["seq"])
        return self._ref("x", key, "sstate", lambda: "mkState %s %s %s" % (gbool(st["closed"]), self.store(st["store"]), gN(st["seq"])))

    def sidlist(self, l):
        return self._ref("k", tuple(l), "list bytes", lambda: glist(self.s(x) for x in l))

    def header(self):
        return HDR + "\n".join(self.defs) + "\n"


def g_req(tbl, rq):
    m = rq["method"] if rq["method"] in METHODS else "OTHER"
    return "(mkReq P%d %s %s %s %s %s %s)" % (rq.get("proto") or 1, m, tbl.s(rq["eio"]), tbl.s(rq["tr"]), tbl.s(rq["sid"]),
                                          gbool(rq["wsup"]), gbool(not rq["deny"]))


def matrix_term(tbl, r):
    seq = r["pre"]["seq"]
    rnd = glist(gpair(gN((seq + i) % 2 ** 32), gbytes(b)) for i, b in enumerate(r["rnd"]))
    rs = r["resp"]
    obs = gpair(gN(rs["status"]), gopt(gN(rs["code"]) if rs["code"] >= 0 else None), tbl.s(rs["sid"]), gN(BODY[rs["body"]]))
    return "(%s : mcase)" % gpair(tbl.state(r["pre"]), g_req(tbl, r["req"]), rnd, obs, tbl.state(r["post"]),
                                   tbl.sidlist(r.get("closedsids") or []))


def eval_multi(ctx, name, header, terms, fns, shard=800):
    """Kernel evaluation of several boolean functions over the same cases (the cases are parsed
    once per shard).  Returns {fn: sorted indexes where it is false}."""
    import concurrent.futures as cf
    import re
    res = {f: [] for f in fns}
    if not terms:
        return res
    shards = [list(range(i, min(i + shard, len(terms)))) for i in range(0, len(terms), shard)]

    def run_shard(k):
        idxs = shards[k]
        body = header + "\nDefinition cases_ := [\n  " + ";\n  ".join(terms[i] for i in idxs) + "\n].\n"
        for j, f in enumerate(fns):
            body += ("Definition bad_%d := Eval vm_compute in (fix go (i : nat) l := match l with [] => [] | c :: l' => "
                     "if %s c then go (S i) l' else i :: go (S i) l' end) O cases_.\nPrint bad_%d.\n" % (j, f, j))
        rc, out = ctx.coq_run("%s_%03d" % (name, k), body)
        if rc != 0:
            raise RuntimeError("coqc failed on %s shard %d:\n%s" % (name, k, out[-3000:]))
        r = {}
        for j, f in enumerate(fns):
            m = re.search(r"bad_%d\s*=\s*(\[.*?\])\s*:\s*list nat" % j, out, re.S)
            if not m:
                raise RuntimeError("cannot parse coqc output for %s shard %d:\n%s" % (name, k, out[-2000:]))
            r[f] = [idxs[int(x)] for x in re.findall(r"\d+", m.group(1))]
        return r

    with cf.ThreadPoolExecutor(max_workers=int(os.environ.get("VERIF_JOBS", "8"))) as ex:
        for r in ex.map(run_shard, range(len(shards))):
            for f in fns:
                res[f].extend(r[f])
    return {f: sorted(v) for f, v in res.items()}


def req_class(r):
    """bucket for the distribution / the non-trivial rule"""
    q = r["req"]
    return (r["phase"], q.get("proto"), q.get("direct"), q["method"], q["eio"], q["tr"], q["sidkind"], q["b64"], q["j"], q["wsup"], q["deny"])


def describe(r):
    q = r["req"]
    how = "HTTP/%d%s " % (q.get("proto") or 1, " (handler called with a request saying so)" if q.get("direct") else "")
    return (how + "%s ?EIO=%r&transport=%r&sid=%r(%s)%s%s%s%s on a %s server with %d live sessions -> HTTP %d, code %s, "
            "OPEN sid %r; sessions %d -> %d" % (
                q["method"], q["eio"], q["tr"], q["sid"], q["sidkind"], "&b64" if q["b64"] else "",
                "&j" if q["j"] else "", " [websocket upgrade]" if q["wsup"] else "", " [Authenticator refuses]" if q["deny"] else "",
                "closed" if r["pre"]["closed"] else "running", len(r["pre"]["store"]), r["resp"]["status"],
                r["resp"]["code"] if r["resp"]["code"] >= 0 else "none", r["resp"]["sid"],
                len(r["pre"]["store"]), len(r["post"]["store"]))
            + ((" [no HTTP answer: %s]" % r["err"][:120]) if r.get("err") else ""))


def finding_key(r):
    """decidable classes of failing inputs (none is listed as known: both were repaired)"""
    q = r["req"]
    if (q.get("proto") or 1) == 3:
        return KEY_HTTP3
    live = q["sidkind"] in ("live", "livews")
    if live and q["method"] not in ("GET", "POST") and r["resp"]["status"] == 200:
        return "live-sid-other-method"
    return None


def matrix_suite(ctx, vh):
    args = ["-mode", "matrix", "-seed", ctx.seed] + ([] if ctx.quick else ["-thorough"])
    rows = ctx.vh_jsonl(vh, "eiohttp", args)
    if rows is None:
        return
    close_rows = [r for r in rows if r.get("phase") == "close"]
    cs_rows = [r for r in rows if r.get("phase") == "closed-sessions"]
    rows = [r for r in rows if r.get("phase") not in ("close", "closed-sessions")]
    # sessions closed by every cause must have left the store (the requests that carry their sids are judged below)
    for r in cs_rows:
        bad = r.get("not_gone") or []
        ctx.count(len(r["sids"]), nontrivial_key=None, dist="closed-sessions")
        for cause in sorted(set(r["causes"])):
            ctx.count(0, nontrivial_key=("closed-by", cause))
        ctx.obligation("oracle:closed-sessions-leave-the-store", "oracle", not bad,
                       "%d sessions closed by %s; still in the store: %s" % (len(r["sids"]), sorted(set(r["causes"])), bad))
        for b in bad[:2]:
            ctx.violation("a session closed by cause %r (sid %s) is still in the server's store 2 s later: its sid keeps "
                          "being served as a live session" % (b["cause"], b["sid"]),
                          {"kind": "failing-input", "engine": "eiohttp -mode matrix (phase closed-sessions)", "case": b})
    if not cs_rows:
        ctx.violation("matrix run has no closed-sessions phase", {"kind": "correspondence-broken", "suite": "request-matrix"}, no_input=True)
    tbl = Table()
    terms = [matrix_term(tbl, r) for r in rows]
    hdr = tbl.header()
    for r in rows:
        invalid = r["resp"]["status"] in (400, 503)
        ctx.count(1, nontrivial_key=req_class(r) if invalid else None,
                  dist="matrix:%s:%d%s" % (r["phase"], r["resp"]["status"],
                                           (":code%d" % r["resp"]["code"]) if r["resp"]["code"] >= 0 else ""))
    ctx.sample({"suite": "matrix", "case": rows[len(rows) // 3]})
    ctx.sample({"suite": "matrix", "case": next((r for r in rows if r["phase"] == "overlap" and len(r["rnd"]) > 1), rows[0])})
    bad = eval_multi(ctx, "mx", hdr, terms, ["oracle", "agree"])
    bad_oracle, bad_agree = bad["oracle"], bad["agree"]
    bad_known = [i for i in bad_oracle if finding_key(rows[i]) == KEY_HTTP3 and ctx.known(KEY_HTTP3, "")]
    bad_unknown = [i for i in bad_oracle if i not in set(bad_known)]
    ctx.obligation("oracle:request-matrix", "oracle", not bad_unknown, "%d requests, %d fail (+ %d in the known class %s)" % (
        len(rows), len(bad_unknown), len(bad_known), KEY_HTTP3))
    ctx.extra["known_class_rows"] = {KEY_HTTP3: len(bad_known)}
    ctx.obligation("correspondence:request-matrix", "correspondence", not bad_agree,
                   "%d requests, %d disagree with Eio/Handshake.v serve" % (len(rows), len(bad_agree)))
    # the finding class exists twice (here and as HandshakeCheck.finding_http3 = negated side condition of the
    # _partial theorem): the failing rows are pushed through the Coq predicate, a disagreement is reported
    if bad_oracle:
        sub = [terms[i] for i in bad_oracle]
        notkey = set(eval_multi(ctx, "mx_key", hdr, sub, ["finding_http3"])["finding_http3"])
        drift = [bad_oracle[j] for j in range(len(sub)) if (j not in notkey) != (finding_key(rows[bad_oracle[j]]) == KEY_HTTP3)]
        ctx.obligation("finding-class-agrees:" + KEY_HTTP3, "audit", not drift, "%d failing rows classified" % len(sub))
        if drift:
            ctx.violation("finding class %s: harness and Coq predicates disagree on %s" % (KEY_HTTP3, describe(rows[drift[0]])),
                          {"kind": "correspondence-broken", "suite": "finding-class", "case": rows[drift[0]]}, no_input=True)
    seen = set()
    for i in sorted(bad_unknown, key=lambda i: (finding_key(rows[i]) == KEY_HTTP3, rows[i]["req"]["eio"] != "4" and rows[i]["req"]["method"] not in ("GET", "POST"), i)):
        r = rows[i]
        k = (finding_key(r), r["req"]["method"], r["req"]["sidkind"], r["resp"]["status"], r["resp"]["code"])
        if k in seen or len(seen) >= 4:
            continue
        seen.add(k)
        ctx.fail_or_known(finding_key(r), "Engine.IO request handling violates the property: " + describe(r),
                          {"kind": "failing-input", "engine": "eiohttp -mode matrix", "case": r})
    if bad_agree and not bad_unknown:
        r = rows[bad_agree[0]]
        ctx.violation("the server no longer decides requests as the model Eio/Handshake.v does (theorems %s are about "
                      "the model); first differing request: %s" % (", ".join(THEOREMS), describe(r)),
                      {"kind": "correspondence-broken", "suite": "request-matrix", "theorems": THEOREMS, "case": r},
                      no_input=True)
    # Server.Close on a populated store
    for k, r in enumerate(close_rows):
        tblc = Table()
        term = "(%s : ccase)" % gpair(tblc.state(r["pre"]), tblc.state(r["post"]), gN(r["onclose"]))
        badc = eval_multi(ctx, "close_%d" % k, tblc.header(), [term], ["oracle_close", "agree_close"])
        ok_o, ok_a = not badc["oracle_close"], not badc["agree_close"]
        ctx.count(1, nontrivial_key=("close", len(r["pre"]["store"])), dist="close")
        ctx.obligation("oracle:close", "oracle", ok_o, "%d live sessions before Close, %d after, %d OnClose callbacks" % (
            len(r["pre"]["store"]), len(r["post"]["store"]), r["onclose"]))
        ctx.obligation("correspondence:close", "correspondence", ok_a)
        if not ok_o:
            ctx.violation("Server.Close left sessions behind or did not close each exactly once: %d live before, "
                          "%d in the store after, %d OnClose callbacks" % (len(r["pre"]["store"]), len(r["post"]["store"]), r["onclose"]),
                          {"kind": "failing-input", "engine": "eiohttp -mode matrix (phase close)", "case": r})
        elif not ok_a:
            ctx.violation("Server.Close no longer behaves as the model's close", {"kind": "correspondence-broken",
                          "suite": "close", "theorems": ["C17_close_closes_all"], "case": r}, no_input=True)
    if not close_rows:
        ctx.violation("matrix run has no Close phase", {"kind": "correspondence-broken", "suite": "close"}, no_input=True)


def ids_suite(ctx, vh):
    n = 100000 if ctx.quick else 1000000
    runs = [("seeded", n, ctx.seed % 2 ** 32), ("zero", n // 20, 2 ** 24 - n // 40), ("repeat", n // 20, 2 ** 32 - n // 40)]
    def one(run):
        rmode, cnt, start = run
        rows = ctx.vh_jsonl(vh, "eiohttp", ["-mode", "ids", "-seed", ctx.seed, "-n", cnt, "-rand", rmode, "-start", start])
        if rows is None:
            return None
        summary = rows[-1]
        rows = rows[:-1]
        ctx.count(len(rows), nontrivial_key=None, dist="ids:" + rmode)
        ctx.extra.setdefault("ids", {})[rmode] = {"n": len(rows), "start_seq": start, "distinct": summary["distinct"]}
        # (a) all ids pairwise distinct (hash set in the harness; the kernel-checked reason is (b):
        #     HandshakeProofs.ids_rows_distinct turns (b) for rows i = 0..n-1 < 2^24 into NoDup)
        distinct = (summary["dups"] == 0 and summary["distinct"] == len(rows) and len(rows) <= 2 ** 24
                    and len(set(r["id"] for r in rows)) == len(rows))
        ctx.obligation("oracle:ids-distinct/" + rmode, "oracle", distinct,
                       "%d consecutive ids from sequence number %d, random source %s: %d distinct" % (
                           len(rows), start, rmode, summary["distinct"]))
        if not distinct:
            seen = {}
            dup = None
            for r in rows:
                if r["id"] in seen:
                    dup = (seen[r["id"]], r)
                    break
                seen[r["id"]] = r
            ctx.violation("the id generator returned the same id twice within %d consecutive ids: %s" % (len(rows), dup),
                          {"kind": "failing-input", "engine": "eiohttp -mode ids -rand %s -start %d -n %d" % (rmode, start, cnt),
                           "case": dup})
        # (b) each id is generate_id(seq, random bytes) and carries 24 bits of the sequence number
        # kernel evaluation on a sample: the first ids of the run (consecutive), the ids around the point where
        # the counter crosses 2^24 / 2^32 (index n/2 in the zero / repeat runs), and a regular sub-sample
        nk = len(rows)
        head, win, stride = (400, 100, max(1, nk // 300)) if ctx.quick else (6000, 1500, max(1, nk // 6000))
        keep = sorted(set(range(min(head, nk))) | set(range(max(0, nk // 2 - win), min(nk, nk // 2 + win)))
                      | set(range(0, nk, stride)) | {nk - 1})
        sample = [rows[i] for i in keep]
        terms = [gpair(gN(start), gN(i), gN(r["seq"]), gN(int.from_bytes(bytes(r["rnd"][:12]), "big")),
                       gN(int.from_bytes(r["id"].encode(), "big"))) for i, r in zip(keep, sample)]
        for r in sample[:: max(1, len(sample) // 2000)]:
            ctx.count(0, nontrivial_key=("id", rmode, r["seq"]))
        badi = eval_multi(ctx, "ids_" + rmode, HDR, terms, ["oracle_idN", "agree_idN"], shard=300)
        bad_o, bad_a = badi["oracle_idN"], badi["agree_idN"]
        ctx.obligation("oracle:ids-carry-seq/" + rmode, "oracle", not bad_o, "%d ids, %d fail" % (len(sample), len(bad_o)))
        ctx.obligation("correspondence:ids/" + rmode, "correspondence", not bad_a,
                       "%d ids compared with generate_id, %d differ" % (len(sample), len(bad_a)))
        if bad_o:
            r = sample[bad_o[0]]
            ctx.violation("generated id %r (sequence number %d, the %d-th of a run started at %d) does not carry the low 24 bits "
                          "of a consecutive sequence number in its last 4 characters (uniqueness among 2^24 consecutive ids "
                          "rests on this)" % (r["id"], r["seq"], keep[bad_o[0]], start),
                          {"kind": "failing-input", "engine": "eiohttp -mode ids", "case": r})
        elif bad_a:
            r = sample[bad_a[0]]
            ctx.violation("GenerateBase64ID no longer computes the model's generate_id; first differing case %s" % r,
                          {"kind": "correspondence-broken", "suite": "ids/" + rmode,
                           "theorems": ["C17_ids_distinct_by_seq", "C17_consecutive_ids_distinct", "C17_ids_rows_distinct"], "case": r}, no_input=True)
        return rows[0]

    import concurrent.futures as cf
    with cf.ThreadPoolExecutor(max_workers=3) as ex:      # the three runs are independent
        firsts = list(ex.map(one, runs))
    if firsts and firsts[0]:
        ctx.sample({"suite": "ids", "case": firsts[0]})


def race_suite(ctx, vh):
    rows = ctx.vh_jsonl(vh, "eiohttp", ["-mode", "race", "-seed", ctx.seed, "-n", 60 if ctx.quick else 600])
    if rows is None:
        return
    terms = []
    usable = []
    for r in rows:
        if any(st == 101 and not sid for st, sid in zip(r["status"], r["sids"])):
            ctx.indeterminate += 1      # websocket accepted but the OPEN packet was not read (connection cut by Close)
            continue
        usable.append(r)
    rows = usable
    for r in rows:
        forced = r["kind"] != "free"
        terms.append("(%s : rcase)" % gpair(gbool(forced), gN(r["live"]), glist(gN(s) for s in r["status"]), gN(len(r["post"]["store"])),
                           gN(r["onsocket"]), gN(r["onclose"]), gN(r["after"])))
        admitted = sum(1 for s in r["status"] if s != 503)
        ctx.count(1, nontrivial_key=(r["kind"], r["tr"], r["live"], r["racers"], admitted) if admitted else None,
                  dist="race:%s:%s" % (r["kind"], "admitted-then-closed" if admitted else "all-refused"))
    ctx.sample({"suite": "race", "case": rows[0]})
    badr = eval_multi(ctx, "race", HDR, terms, ["oracle_race", "agree_race"], shard=2000)
    bad_o, bad_a = badr["oracle_race"], badr["agree_race"]
    ctx.obligation("oracle:close-race", "oracle", not bad_o, "%d races (%d forced through Authenticator/NewSocketCallback), %d fail" % (
        len(rows), sum(1 for r in rows if r["kind"] != "free"), len(bad_o)))
    ctx.obligation("correspondence:close-race-forced", "correspondence", not bad_a, "%d disagree" % len(bad_a))
    for i in bad_o[:3]:
        r = rows[i]
        how = {"auth": "the Authenticator calls srv.Close()", "onsocket": "the NewSocketCallback calls srv.Close()",
               "free": "srv.Close() runs concurrently"}[r["kind"]]
        ctx.violation("handshake racing Server.Close: %d %s handshake(s) while %s, %d sessions live before: answers %s, "
                      "%d session(s) left in the store of the closed server, %d NewSocketCallback vs %d OnClose callbacks, "
                      "a later handshake gets %d" % (r["racers"], r["tr"], how, r["live"], r["status"], len(r["post"]["store"]),
                                                    r["onsocket"], r["onclose"], r["after"]),
                      {"kind": "failing-input", "engine": "eiohttp -mode race", "case": r})
    if bad_a and not bad_o:
        ctx.violation("the forced Close race no longer ends as the model Eio/HandshakeRace.v says",
                      {"kind": "correspondence-broken", "suite": "close-race-forced",
                       "theorems": ["C17_close_race_closes_all", "C17_close_race_refuses_late"], "case": rows[bad_a[0]]}, no_input=True)


def run(ctx):
    ctx.rule = ("matrix: every request of method{GET,POST,PUT,DELETE,OPTIONS} x EIO{absent,3,4,5,junk} x transport{absent,polling,"
                "websocket,junk} x sid{absent,unknown,live,closed} x b64 x j, plus webtransport/live-websocket-session/denied-"
                "authenticator/Atoi-corner/real-websocket-dial columns and forced id overlaps, on a running and on a closed server; "
                "non-trivial = the request was refused (400/503), distinct (phase,method,EIO,transport,sid kind,flags); ids: "
                "consecutive ids under three random sources; races: non-trivial = at least one handshake was admitted while Close ran")
    ctx.trusted = ["Coq 8.16.1 kernel + vm_compute", "hand-written models Eio/Handshake.v, Eio/HandshakeRace.v tied by "
                   "kernel-evaluated correspondence on live HTTP observations",
                   "harness cmd/vh eiohttp (httptest server, nhooyr websocket client, crypto/rand.Reader replaced by a recorder) "
                   "+ hook engine.io/server_verif.go (store view, id sequence access)"]
    ctx.assumptions = ["HTTP/1.x requests only (the WebTransport CONNECT path is not modelled)",
                       "net/http query parsing, nhooyr websocket.Accept (426 without upgrade headers), crypto/rand fills the slice",
                       "race model: one store.mu critical section is one step; NewSocketCallback/Authenticator touch the server "
                       "only through Close"]
    ctx.proofs(modules=["Eio/HandshakeCheck"])
    vh = ctx.go_build()
    if vh is None:
        return
    import time
    import concurrent.futures as cf

    def timed(name, suite):
        t0 = time.time()
        suite(ctx, vh)
        ctx.note("suite %s: %.1f s" % (name, time.time() - t0))

    def rest():
        timed("race", race_suite)
        timed("ids", ids_suite)

    # the live-HTTP matrix and the (race, ids) suites use separate servers and separate files: run side by side
    with cf.ThreadPoolExecutor(max_workers=2) as ex:
        futs = [ex.submit(timed, "matrix", matrix_suite), ex.submit(rest)]
        for f in futs:
            f.result()
