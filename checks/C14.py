"""C14 - Heartbeats detect a dead peer within the configured bound, never kill a live one.

Live rig (harness engine `heartbeat`): real eio server + real eio client (or a raw websocket peer)
through a TCP proxy that silently black-holes / delays directions from a chosen moment.  The recorded
timestamps are turned into candidate runs of the timed model Eio/Heartbeat.v and validated by the
model itself in the kernel (`agree_s`, `agree_c`); the property bounds are evaluated directly on the
observations (`oracle`).  All time comparisons go through a per-scenario tolerance derived from the
scheduling slack measured while the scenario ran; a scenario that only passes with a much larger
tolerance is counted as indeterminate, never as a failure.
"""
from lib.vlib import gZ, gN, gbool, glist, gpair, gopt

HDR = "From SioV Require Import Eio.Heartbeat Eio.HeartbeatCheck.\n"
REASON = {"ping timeout": 0, "transport close": 1, "transport error": 2, "forced close": 3}
S_WAKE, S_PONG, S_TAKE, S_TIMEOUT = 0, 1, 2, 3
C_PING, C_REARM, C_TIMEOUT = 0, 1, 2
EXT = {1: 4, 2: 5, 3: 6}
DRAIN = True   # the server loop discards a stale pong before it pings (model of the code as it is now)

THEOREMS = ["C14_server_detects", "C14_server_detects_silent_peer", "C14_client_detects",
            "C14_server_never_kills_live", "C14_client_never_kills_live", "C14_live_never_killed"]


def tolerances(row, widen=1):
    """(tol, lam): tol is the slack D given to the model (scheduling slack + timestamp uncertainty),
    lam the allowance for link latency between a server-side send and its observation on the client.
    Both derive from the slack measured while the scenario ran.  widen > 1 gives the tolerance of
    the 'indeterminate' band; it is capped at a quarter of a heartbeat period so that an error of a
    whole period (3 D = 0.75 period) can never hide in it."""
    slack = row.get("slack", 0)
    lam = 30 + slack
    tol = 40 + slack + lam
    if widen > 1:
        cap = max(tol, min(row["I"], row["T"]) // 4)
        tol_w = min(tol * widen, cap)
        lam = lam * tol_w // tol
        tol = tol_w
    return tol, lam


def close_of(c):
    if c is None:
        return None
    return (c["t"], REASON.get(c["reason"], 3))


def server_certificate(row, tol, lam, use_pings=True):
    """Candidate run of the server loop explaining the observations."""
    I, T = row["I"], row["T"]
    start = row["open_srv"] - lam
    pongs = sorted(row["srv_pongs"])
    pings = sorted(row["cli_pings"]) if use_pings else []
    cl = close_of(row["srv_close"])
    evs = []
    t = start
    mb = False

    def ext_before(time):
        return cl is not None and cl[1] != 0 and cl[0] <= time

    while True:
        lo, hi = t + I, t + I + tol
        # an observed ping is the wake of this round if it can be (else the wake is unobserved)
        s = lo
        if pings and pings[0] - lam <= hi + lam:
            p = pings.pop(0)
            s = min(p, max(lo, p - lam))
        elif cl is not None and cl[1] == 0 and not pongs:
            # unobserved last ping: place it where the observed timeout says the timer was armed
            s = max(lo, min(hi, cl[0] - T))
        if cl is not None and cl[0] < s:
            # closed while sleeping (only another path can do that; a timeout here is a disagreement
            # that the model will reject)
            while pongs and pongs[0] <= cl[0]:
                evs.append((pongs.pop(0), S_PONG))
            evs.append((cl[0], S_TIMEOUT if cl[1] == 0 else EXT[cl[1]]))
            break
        if s > row["end"]:
            break
        while pongs and pongs[0] < s:
            evs.append((pongs.pop(0), S_PONG))      # deposited during the sleep: stale
        evs.append((s, S_WAKE))
        # await
        d = pongs[0] if pongs else None
        in_time = d is not None and d < s + T + tol and (cl is None or d <= cl[0])
        if in_time and not ext_before(d):
            pongs.pop(0)
            evs.append((d, S_PONG))
            q = max(s, d)
            evs.append((q, S_TAKE))
            t = q
            continue
        if cl is not None:
            evs.append((cl[0], S_TIMEOUT if cl[1] == 0 else EXT[cl[1]]))
        break
    evs = [(t_, k) for (t_, k) in evs if t_ <= row["end"]]
    return start, evs, cl


def client_certificate(row, tol, lam):
    start = row["open_cli"] - lam
    cl = close_of(row["cli_close"])
    evs = []
    for p in sorted(row["cli_pings"]):
        if cl is not None and p > cl[0]:
            break
        evs.append((p, C_PING))
        evs.append((p, C_REARM))
    if cl is not None:
        evs.append((cl[0], C_TIMEOUT if cl[1] == 0 else EXT[cl[1]]))
    return start, evs, cl


def gclose(cl):
    return "(@None (Z * N))" if cl is None else "(Some %s)" % gpair(gZ(cl[0]), gN(cl[1]))


def composite_certificate(row, tol, lam):
    """A live history as a run of the composed system: per round SWake, DeliverPing, CRearm,
    DeliverPong, STake.  Returns None when the history has no complete round or the measured link
    bounds do not satisfy lDown + lUp + 2D < T (the theorem's hypothesis)."""
    I, T = row["I"], row["T"]
    pings, pongs = sorted(row["cli_pings"]), sorted(row["srv_pongs"])
    n = min(len(pings), len(pongs))
    if n < 2:
        return None
    ld = lam
    lu = max(d - p for p, d in zip(pings[:n], pongs[:n])) + 5
    if lu < 0 or ld + lu + 2 * tol >= T:
        return None
    start = min(row["open_srv"], row["open_cli"]) - lam
    evs, t = [], start
    for k in range(n):
        p, d = pings[k], pongs[k]
        s = min(p, max(t + I, p - lam))
        q = max(s, d)
        evs += [(s, 0), (p, 10), (p, 12), (d, 11), (q, 2)]
        t = q
    t_end = min(row["end"], t + I)          # the tail after the last complete round is covered by agree_s/agree_c
    return "(%s : xcase)" % gpair(gZ(I), gZ(T), gZ(tol), gZ(ld), gZ(lu), gZ(start),
                                  glist(gpair(gZ(a), gN(b)) for a, b in evs), gZ(t_end))


def swap_certificate(row, tol, lam, swap=True):
    """History of a live raw peer whose polling->websocket upgrade completes at row['cut'] as a run of
    the composed system with a transport-swap step: per round SWake, [XSwap], XDeliver, CRearm,
    XDeliverPong, STake; a ping written before the swap and seen after it waited in the polling
    queue and was carried over.  lDown/lUp are the largest delays seen in this history; None when
    they do not satisfy lDown + lUp + 2D < T (the theorem's hypothesis)."""
    I, T = row["I"], row["T"]
    pings, pongs = sorted(row["cli_pings"]), sorted(row["srv_pongs"])
    n = min(len(pings), len(pongs))
    cl = close_of(row["srv_close"])
    if cl is not None and cl[1] != 0:
        return None
    start = min(row["open_srv"], row["open_cli"]) - lam
    u = row["cut"]
    evs, t, swapped, ld, lu = [], start, not swap, lam, 0
    if row["when"] == "swap-nopoll":
        evs.append((max(start, row["open_cli"]), 15))       # the NOOP the probe forces into the polling queue
        t_last = evs[-1][0]
    else:
        t_last = start
    for k in range(n):
        p, d = pings[k], pongs[k]
        lo, hi = t + I, t + I + tol
        s = min(p, max(lo, min(hi, p - lam)))
        if not swapped and u < s:
            evs.append((max(u, t_last), 14))
            swapped = True
        evs.append((s, 0))
        if not swapped and u <= p:
            evs.append((max(u, s), 14))
            swapped = True
        q = max(s, d)
        evs += [(p, 10), (p, 12), (d, 11), (q, 2)]
        ld, lu = max(ld, p - s), max(lu, d - p)
        t = t_last = q
    t_end = min(row["end"], t + I)
    if cl is not None:
        # the server gave up on a ping: place its wake where the timeout says the timer was armed
        lo, hi = t + I, t + I + tol
        s = max(lo, min(hi, cl[0] - T))
        if not swapped and u < s:
            evs.append((max(u, t_last), 14))
            swapped = True
        evs.append((s, 0))
        if not swapped:
            evs.append((max(u, s), 14))
            swapped = True
        evs.append((cl[0], 3))
        t_end = cl[0]
    if not swapped and u <= t_end:
        evs.append((max(u, t_last), 14))
    ld, lu = ld + 5, lu + 5
    if ld + lu + 2 * tol >= T:
        return None
    return "(%s : xcase)" % gpair(gZ(I), gZ(T), gZ(tol), gZ(ld), gZ(lu), gZ(start),
                                  glist(gpair(gZ(a), gN(b)) for a, b in evs), gZ(t_end))


def hcase_term(row, tol, start, evs, cl):
    return "(%s : hcase)" % gpair(gZ(row["I"]), gZ(row["T"]), gZ(tol), gbool(DRAIN), gZ(start),
                                  glist(gpair(gZ(t), gN(k)) for t, k in evs), gZ(row["end"]),
                                  gclose(cl))


def ocase_term(kind, row, tol, t0, cl):
    return "(%s : ocase)" % gpair(gN(kind), gZ(row["I"]), gZ(row["T"]), gZ(tol), gZ(t0),
                                  gclose(cl), gZ(row["end"]))


def build_terms(row, widen):
    """All kernel-evaluated cases of one scenario: list of (tag, fn, term)."""
    tol, lam = tolerances(row, widen)
    out = []
    raw = row["peer"] in ("raw", "rawup")
    rawup = row["peer"] == "rawup"
    upfail = row["when"].startswith("upfail-")   # long-polling paused while the probe runs: one ping may be fetched late
    jitter = row["fault"] == "jitter"
    # --- correspondence
    start, evs, cl = server_certificate(row, tol, lam, use_pings=not jitter and not rawup and not upfail)
    out.append(("agree:server", "agree_s", hcase_term(row, tol, start, evs, cl)))
    if not raw:
        start, evs, cl = client_certificate(row, tol, lam)
        out.append(("agree:client", "agree_c", hcase_term(row, tol, start, evs, cl)))
    # --- oracles
    if rawup:
        x = swap_certificate(row, tol, lam)
        if x is not None:
            out.append(("agree:composed", "agree_x", x))
        out.append(("oracle:live-server", "oracle", ocase_term(2, row, tol, 0, close_of(row["srv_close"]))))
    elif row["fault"] == "none":
        x = swap_certificate(row, tol, lam, swap=False) if upfail else composite_certificate(row, tol, lam)
        if x is not None:
            out.append(("agree:composed", "agree_x", x))
        out.append(("oracle:live-server", "oracle", ocase_term(2, row, tol, 0, close_of(row["srv_close"]))))
        # client: not closed AND pings keep flowing (the latest one is recent when the observation ends)
        last = max([row["open_cli"]] + row["cli_pings"])
        out.append(("oracle:live-client", "oracle", ocase_term(5, row, tol, last, close_of(row["cli_close"]))))
    elif jitter:
        out.append(("oracle:live-client", "oracle", ocase_term(2, row, tol, 0, close_of(row["cli_close"]))))
    else:
        strict = row["fault"] == "both"   # nothing but the heartbeat can close: the reason must be ping timeout
        t0s = max([row["open_srv"]] + row["srv_pongs"])
        out.append(("oracle:dead-server", "oracle", ocase_term(3 if strict else 0, row, tol, t0s, close_of(row["srv_close"]))))
        if not raw:
            t0c = max([row["open_cli"]] + row["cli_pings"])
            out.append(("oracle:dead-client", "oracle", ocase_term(4 if strict else 1, row, tol, t0c, close_of(row["cli_close"]))))
    return out


def evaluate(ctx, name, rows, widen):
    """Returns {row index: set of failing tags}."""
    items = []
    for i, r in enumerate(rows):
        for tag, fn, term in build_terms(r, widen):
            items.append((i, tag, fn, term))
    bad = {}
    for fn in ("agree_s", "agree_c", "agree_x", "oracle"):
        sel = [x for x in items if x[2] == fn]
        idx = ctx.coq_eval_cases("%s_%s_w%d" % (name, fn, widen), HDR, [x[3] for x in sel], fn, shard=200)
        for j in idx:
            bad.setdefault(sel[j][0], set()).add(sel[j][1])
    return bad


def finding_key(row, tags):
    """Decidable class of a failing scenario (known_findings.txt keys)."""
    if row["fault"] == "jitter" and tags <= {"oracle:live-client"}:
        # every ping was answered within 0.8 T + tolerance at the server, yet the client's watchdog fired
        return "client-watchdog-latency-jitter"
    return None


def live_hypothesis_ok(row, tol):
    """'every ping answered within < T - D': checked on the observation of a live scenario."""
    pings, pongs = row["cli_pings"], row["srv_pongs"]
    if abs(len(pings) - len(pongs)) > 1:
        return False
    for p, d in zip(pings, pongs):
        if not (d - p < row["T"] - tol):
            return False
    return True


def classify(ctx, name, rows):
    """Kernel-evaluates every case of `rows`; returns ({row index: failing tags} after the 3x
    widening, [row indexes that pass only with the 3x tolerance])."""
    bad = evaluate(ctx, name, rows, 1)
    still, straddling = {}, []
    if bad:
        order = sorted(bad)
        bad3 = evaluate(ctx, name + "_wide", [rows[i] for i in order], 3)
        for j, i in enumerate(order):
            if j in bad3:
                still[i] = bad[i]
            else:
                straddling.append(i)
    return still, straddling


def run_suite(ctx, vh, name, args):
    import time
    t0 = time.time()
    rows = ctx.vh_jsonl(vh, "heartbeat", args, timeout=1500)
    if rows is None:
        return
    ctx.note("live scenarios ran in %.0f s" % (time.time() - t0))
    # Scenarios whose measured slack is too large to resolve an error of one heartbeat period (machine
    # under load) are run again, up to twice; the run with the smallest slack is the one checked.
    for attempt in range(2):
        noisy = [r["name"] for r in rows if not r.get("env") and not r["err"] and 3 * tolerances(r)[0] >= min(r["I"], r["T"])]
        if not noisy:
            break
        again = ctx.vh_jsonl(vh, "heartbeat", args + ["-names", ",".join(noisy), "-attempt", 10 + attempt], timeout=1500) or []
        better = {a["name"]: a for a in again if not a.get("env") and not a["err"]}
        rows = [better[r["name"]] if r["name"] in better and better[r["name"]]["slack"] < r["slack"] else r for r in rows]
    usable, skipped, lowres = [], 0, 0
    for r in rows:
        tol, _ = tolerances(r)
        if r.get("env") or (r["err"] and "never reached" in r["err"]):
            skipped += 1
            ctx.indeterminate += 1
            ctx.note("scenario %s not set up (%s): indeterminate" % (r["name"], r["err"]))
            continue
        if r["fault"] == "none" and not live_hypothesis_ok(r, tol):
            skipped += 1
            ctx.indeterminate += 1
            ctx.note("scenario %s: a pong took longer than T - D under load: hypothesis of the live theorem not met" % r["name"])
            continue
        if 3 * tol >= min(r["I"], r["T"]):
            lowres += 1      # still checked (a larger tolerance only weakens the check), but an error of one period would pass
        usable.append(r)
    if lowres:
        ctx.note("%d scenarios ran with a measured slack so large (machine under load) that only deviations of more "
                 "than a heartbeat period are detected in them" % lowres)
    for r in usable:
        dead = r["fault"] not in ("none",)
        ctx.count(1, nontrivial_key=(r["name"],) if dead or len(r["cli_pings"]) >= 4 else None,
                  dist="%s:%s:%s" % (name, r["tr"], r["fault"]))
    for r in usable[:2]:
        ctx.sample({"suite": "heartbeat/" + name, "scenario": r["name"], "cli_pings": r["cli_pings"][:4],
                    "srv_pongs": r["srv_pongs"][:4], "cut": r["cut"], "srv_close": r["srv_close"],
                    "cli_close": r["cli_close"], "slack_ms": r["slack"]})
    still, straddling = classify(ctx, name, usable)
    for i in straddling:
        ctx.indeterminate += 1
        ctx.note("scenario %s passes only with a 3x tolerance: indeterminate" % usable[i]["name"])
    # A failure (other than one of a known class) must reproduce: the failing scenarios are run again,
    # twice, and one is reported only if it fails every time (a scheduling hiccup does not
    # reproduce, a defect does).
    confirmed, pending = {}, {}
    for i, tags in sorted(still.items()):
        r = usable[i]
        otags = {x for x in tags if x.startswith("oracle")}
        if otags and finding_key(r, otags) and not (tags - otags):
            confirmed[i] = (r, tags)
        else:
            pending[i] = (r, tags)
    for attempt in range(2):
        if not pending:
            break
        names = ",".join(usable[i]["name"] for i in sorted(pending))
        again = ctx.vh_jsonl(vh, "heartbeat", args + ["-names", names, "-attempt", attempt + 1], timeout=900)
        byname = {a["name"]: a for a in (again or []) if not a.get("env") and not a["err"]}
        order = [i for i in sorted(pending) if usable[i]["name"] in byname]
        st2, _ = classify(ctx, "%s_retry%d" % (name, attempt), [byname[usable[i]["name"]] for i in order])
        nxt = {}
        for j, i in enumerate(order):
            if j in st2:
                nxt[i] = (byname[usable[i]["name"]], pending[i][1] | st2[j])
        for i in pending:
            if i not in order:
                nxt[i] = pending[i]      # the re-run could not be set up: no evidence against the failure
        for i in pending:
            if i not in nxt:
                ctx.indeterminate += 1
                ctx.note("scenario %s failed (%s) but not when run again: indeterminate"
                         % (usable[i]["name"], sorted(pending[i][1])))
        pending = nxt
    confirmed.update(pending)
    n_agree_bad = sum(1 for _, t in confirmed.values() if any(x.startswith("agree") for x in t))
    n_oracle_bad = n_oracle_unknown = 0
    for i, (r, tags) in sorted(confirmed.items()):
        otags = {x for x in tags if x.startswith("oracle")}
        if not otags:
            continue
        n_oracle_bad += 1
        key = finding_key(r, otags)
        what = ("heartbeat scenario %s: %s fails: server close %s, client close %s, last pong at server %s, "
                "last ping at client %s, fault engaged at %s ms (I=%d T=%d, tolerance %d ms)"
                % (r["name"], sorted(otags), r["srv_close"], r["cli_close"],
                   (r["srv_pongs"] or [None])[-1], (r["cli_pings"] or [None])[-1], r["cut"],
                   r["I"], r["T"], tolerances(r)[0]))
        before = len(ctx.violations)
        ctx.fail_or_known(key, what, {"kind": "failing-input", "engine": "heartbeat",
                                      "replay_cmd": "vh heartbeat -tier %s -seed %s -only '%s' -exact" % (ctx.tier, ctx.seed, r["name"]),
                                      "case": r})
        if len(ctx.violations) > before:
            n_oracle_unknown += 1
    ctx.obligation("correspondence:heartbeat/" + name, "correspondence", n_agree_bad == 0,
                   "%d scenarios (%d skipped as indeterminate), %d histories not explained by the model"
                   % (len(usable), skipped, n_agree_bad))
    ctx.obligation("oracle:heartbeat/" + name, "oracle", n_oracle_unknown == 0,
                   "%d scenarios, %d outside the property bound (%d of a known class)"
                   % (len(usable), n_oracle_bad, n_oracle_bad - n_oracle_unknown))
    if n_agree_bad and n_oracle_unknown == 0:
        i = sorted(i for i, (_, t) in confirmed.items() if any(x.startswith("agree") for x in t))[0]
        r, tags = confirmed[i]
        ctx.violation("heartbeat history of scenario %s is not a run of the model Eio/Heartbeat.v (%s): the code no "
                      "longer behaves like the automata the C14 theorems are about" % (r["name"], sorted(tags)),
                      {"kind": "correspondence-broken", "suite": "heartbeat/" + name, "theorems": THEOREMS,
                       "case": r}, no_input=True)


def run(ctx):
    ctx.rule = ("live scenarios: transport {polling, websocket, polling->websocket upgrade} x fault {both, c2s, s2c "
                "black-holed at a moment relative to a ping / an upgrade step; none; extra pong; latency jitter} x "
                "I,T in {1 s} (quick) / {1,2,3 s} (thorough); non-trivial = a fault scenario, or a live one with >= 4 "
                "heartbeat rounds (distinct scenario names)")
    ctx.trusted = ["Coq 8.16.1 kernel + vm_compute", "hand-written timed model Eio/Heartbeat.v tied by kernel-validated "
                   "run certificates built from recorded timestamps", "harness cmd/vh heartbeat (black-holing TCP proxy, "
                   "public eio API only)", "Go runtime timers / scheduler: slack measured per scenario, not proved",
                   "TCP / net/http / nhooyr websocket behaviour under black-holing: assumed"]
    ctx.assumptions = ["scheduling slack D is measured: D = 2 x (largest overshoot of a 5 ms sleep probe while the scenario ran) + 70 ms",
                       "timestamps taken in OnPacket/OnClose callbacks stand for the model's deposit / close events"]
    import time
    t0 = time.time()
    ctx.proofs(modules=["Eio/HeartbeatCheck"])
    t1 = time.time()
    vh = ctx.go_build()
    t2 = time.time()
    if vh is None:
        return
    ctx.note("stage timings: proofs %.0f s, harness build %.0f s (both include waiting for the shared build locks)" % (t1 - t0, t2 - t1))
    run_suite(ctx, vh, ctx.tier, ["-tier", ctx.tier, "-seed", ctx.seed])
