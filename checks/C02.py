"""C02 - per-emitter order is preserved and binary frames are never interleaved.

wire level   : live rig, real Socket.IO endpoint -> raw Engine.IO peer (repo's eio package) + the repo's
               parser as reference decoder; oracle_wire / agree_wire of Sio/PipelineCheck.v are
               evaluated by the Coq kernel on every recorded history.
handler level: live sio<->sio rig; oracle_entries / entry_class / agree_entries on the entry order.
"""
import json
import os

from lib.vlib import gN, gnat, gbool, glist, gbytes, gpair

HDR = "From SioV Require Import Base.Conc Sio.Pipeline Sio.PipelineCheck Sio.PipelineConn Sio.PipelineConnCheck.\n"
KEY = "handler-entry-order:dispatch-goroutines"
KEYW = "connect-window-order:emit-between-connected-and-flush"
THEOREMS = ["C02_upgrade_wire_order", "C02_upgrade_reassembly", "C02_wire_order", "C02_wire_complete", "C02_reassembly", "C02_reassembly_complete",
            "C02_dispatch_exactly_once", "C02_handler_entry_order_partial"]


# ------------------------------------------------------------------ Gallina terms
def model_transport(row):
    name = row.get("trname") or row["transport"]
    if name == "websocket":
        return "WS"
    return "PollClient" if row["dir"] == "c2s" else "PollServer"


def g_packet(p):
    return "(mkSP %s %s)" % (gbytes(p["hdr"]), glist(gbytes(a) for a in p["atts"]))


def g_epkt(w):
    if w["t"] == 4:
        return "(Msg (mkFrame %s %s))" % (gbool(w["b"]), gbytes(w["d"] or []))
    return "(Ctl %s)" % gN(w["t"])


def cnat(n):
    return gnat(min(max(n, 0), 4000))


def wire_term(row):
    """the history on real bytes (small histories only: Coq elaborates ~10^4 numerals per second)"""
    progs = glist(glist(g_packet(p) for p in l) for l in row["progs"])
    wire = glist(g_epkt(w) for w in row["wire"])
    fin = glist(gpair(cnat(f["e"]), cnat(f["s"]), glist(gbytes(a) for a in f["atts"])) for f in row["finished"])
    return "((%s, %s, %s, %s, %s) : wcase)" % (model_transport(row), gbool(row["complete"]), progs, wire, fin)


def wire_term_interned(row):
    """the same history with every frame replaced by the index of its byte string in the table of
    the distinct byte strings of this history (equal ids iff equal bytes)"""
    table = {}

    def fid(bs):
        return gN(table.setdefault(bytes(bs), len(table)))

    progs = glist(glist("(mkSP %s %s)" % (fid(p["hdr"]), glist(fid(a) for a in p["atts"])) for p in l)
                  for l in row["progs"])
    wire = glist(("(Msg (mkFrame %s %s))" % (gbool(w["b"]), fid(w["d"] or []))) if w["t"] == 4 else "(Ctl %s)" % gN(w["t"])
                 for w in row["wire"])
    fin = glist(gpair(cnat(f["e"]), cnat(f["s"]), glist(fid(a) for a in f["atts"])) for f in row["finished"])
    core = "(%s, %s, %s, %s, %s)" % (model_transport(row), gbool(row["complete"]), progs, wire, fin)
    if row["mode"] == "connrace":
        k = sum(p for p in row["pre"] if p > 0)
        return "((%s, %s) : iccase)" % (core, cnat(k))
    return "(%s : icase)" % core


def entries_term(row):
    bursts = glist(gnat(b) for b in row["bursts"])
    ents = glist(gpair(cnat(e), cnat(s)) for e, s in row["entries"])
    return "((%s, %s) : hcase)" % (bursts, ents)


def slim(row, keep_wire=True):
    """replay payload: scenario parameters + (bounded) observation"""
    r = {k: row.get(k) for k in ("mode", "dir", "transport", "trname", "n", "seed", "bursts", "attcounts", "pre", "window",
                                 "complete", "parseerr", "enverr", "class", "inversions")}
    if row["mode"] == "handler":
        r["entries"] = row.get("entries", [])[:4000]
    elif keep_wire:
        r["wire_frames_as_text"] = [("ctl:%d" % w["t"]) if w["t"] != 4 else
                                    (("bin:" + bytes(w["d"][:5]).hex()) if w["b"] else bytes(w["d"]).decode("latin1")[:80])
                                    for w in row.get("wire", [])][:3000]
        r["finished"] = [(f["e"], f["s"], len(f["atts"]), f.get("err")) for f in row.get("finished", [])][:3000]
    return r


def split_env(ctx, rows, suite):
    good = [r for r in rows if not r.get("enverr")]
    bad = [r for r in rows if r.get("enverr")]
    for r in bad:
        ctx.indeterminate += 1
    if bad:
        ctx.note("%s: %d scenario(s) could not be set up after 3 attempts (%s)" % (suite, len(bad), bad[0]["enverr"]))
    if len(bad) * 2 > len(rows) or not good:
        ctx.violation("C02 %s rig cannot be set up (%d of %d scenarios failed: %s)" % (suite, len(bad), len(rows), bad[0]["enverr"]),
                      {"kind": "correspondence-broken", "suite": suite, "rows": [slim(r, False) for r in bad[:3]]}, no_input=True)
    return good


# ------------------------------------------------------------------ wire level
def wire_suite(ctx, vh, name, args):
    rows = ctx.vh_jsonl(vh, "order", ["-mode", "wire"] + args, timeout=600)
    if rows is None:
        return
    rows = split_env(ctx, rows, "wire/" + name)
    if not rows:
        return
    terms = [wire_term_interned(r) for r in rows]
    nctl = 0
    for r in rows:
        msgs = [w for w in r["wire"] if w["t"] == 4]
        ctl = len(r["wire"]) - len(msgs)
        nctl += ctl
        contended = r["n"] > 1 and any(k > 0 for ks in r["attcounts"] for k in ks)
        ctx.count(len(msgs), nontrivial_key=("w", r["dir"], r["transport"], r["n"], r["seed"]) if contended else None,
                  dist="wire:%s:%s:%s" % (r["dir"], r["transport"], "n=%d" % r["n"]))
    ctx.sample({"suite": "wire/" + name, "case": slim(rows[len(rows) // 2])}, limit=4)
    # one kernel evaluation of (oracle && agree) per history; the two are told apart only on failure
    bad = ctx.coq_eval_cases("wire_ok_" + name, HDR, terms, "ok_wire_i", shard=12)
    bad_oracle, bad_agree = [], []
    if bad:
        bt = [terms[i] for i in bad]
        bad_oracle = [bad[k] for k in ctx.coq_eval_cases("wire_oracle_" + name, HDR, bt, "oracle_wire_i", shard=12)]
        bad_agree = [bad[k] for k in ctx.coq_eval_cases("wire_agree_" + name, HDR, bt, "agree_wire_i", shard=12)]
    # the smallest histories once more on their real bytes (the model's parser reads the
    # attachment count from the header bytes: declared_bytes)
    small = sorted(range(len(rows)), key=lambda i: sum(len(w["d"] or []) for w in rows[i]["wire"]))[:3]
    small = [i for i in small if sum(len(w["d"] or []) for w in rows[i]["wire"]) < 6000]
    if small:
        bterms = [wire_term(rows[i]) for i in small]
        bbad = ctx.coq_eval_cases("wire_bytes_ok_" + name, HDR, bterms, "ok_wire", shard=3)
        if bbad:
            bt = [bterms[k] for k in bbad]
            bad_oracle += [small[bbad[k]] for k in ctx.coq_eval_cases("wire_bytes_oracle_" + name, HDR, bt, "oracle_wire", shard=3)
                           if small[bbad[k]] not in bad_oracle]
            bad_agree += [small[bbad[k]] for k in ctx.coq_eval_cases("wire_bytes_agree_" + name, HDR, bt, "agree_wire", shard=3)
                          if small[bbad[k]] not in bad_agree]
        ctx.note("wire/%s: %d histories also evaluated on their real bytes" % (name, len(small)))
    # a frame the reference decoder rejected, or a packet it could not decode, is a failure by itself
    for i, r in enumerate(rows):
        if (r.get("parseerr") or any(f.get("err") for f in r["finished"])) and i not in bad_oracle:
            bad_oracle.append(i)
    bad_oracle.sort()
    ctx.obligation("oracle:wire/" + name, "oracle", not bad_oracle,
                   "%d histories (%d frames, %d control packets interleaved), %d fail" %
                   (len(rows), sum(len(r["wire"]) for r in rows), nctl, len(bad_oracle)))
    ctx.obligation("correspondence:wire/" + name, "correspondence", not bad_agree,
                   "%d histories explained by a run of the model, %d not" % (len(rows) - len(bad_agree), len(bad_agree)))
    for i in bad_oracle[:3]:
        r = rows[i]
        what = ("wire level (%s, %s, %d emitters): the MESSAGE frames seen by a raw Engine.IO peer are NOT an "
                "interleaving at packet granularity of the per-emitter sequences, or the reference decoder did not "
                "finish exactly those packets in that order with their own attachments%s"
                % (r["dir"], r.get("trname") or r["transport"], r["n"],
                   "" if r["complete"] else " (events missing after 30 s)"))
        ctx.fail_or_known(None, what, {"kind": "failing-input", "engine": "order", "mode": "wire",
                                       "args": args, "case": slim(r)})
    if bad_agree and not bad_oracle:
        r = rows[bad_agree[0]]
        ctx.violation("wire history (%s, %s) is not a behaviour of the model Sio/Pipeline.v (e.g. a control packet inside "
                      "a polling batch, or a changed framing); theorems C02_* are about that model"
                      % (r["dir"], r.get("trname") or r["transport"]),
                      {"kind": "correspondence-broken", "suite": "wire/" + name, "theorems": THEOREMS,
                       "case": slim(r)}, no_input=True)


# ------------------------------------------------------------------ connect race (second producer path)
def conn_suite(ctx, vh, name, args):
    """client -> raw server; packets parked before the CONNECT reply are flushed while other goroutines
    (and, in the window family, the same goroutine) emit directly"""
    rows = ctx.vh_jsonl(vh, "order", ["-mode", "connrace"] + args, timeout=600)
    if rows is None:
        return
    rows = split_env(ctx, rows, "connrace/" + name)
    if not rows:
        return
    terms = [wire_term_interned(r) for r in rows]
    for r in rows:
        nmsg = sum(1 for w in r["wire"] if w["t"] == 4)
        racing = any(p < 0 for p in r["pre"]) and any(p > 0 for p in r["pre"])
        ctx.count(nmsg, nontrivial_key=("c", r["transport"], r["n"], r["seed"], bool(r.get("window"))) if racing or r.get("window") else None,
                  dist="connrace:%s:%s" % (r["transport"], "window" if r.get("window") else "race"))
    ctx.sample({"suite": "connrace/" + name, "case": slim(rows[0])}, limit=5)
    verdicts = ctx.coq_eval_values("conn_verdict_" + name, HDR, ["conn_verdict_i %s" % t for t in terms], shard=4)
    cls, agrees = [], []
    for v in verdicts:
        a, b = v.strip("() ").split(",")
        cls.append(int(a.split("%")[0].strip("() ")))
        agrees.append(b.strip("() ") == "true")
    for i, r in enumerate(rows):
        if (r.get("parseerr") or any(f.get("err") for f in r["finished"])) and cls[i] != 2:
            cls[i] = 2
    ctx.obligation("oracle:connrace/" + name, "oracle", all(c != 2 for c in cls),
                   "%d histories (%d frames): %d hold in full, %d with only the per-emitter order broken across the connect "
                   "instant (finding %s), %d with interleaved / lost / duplicated frames"
                   % (len(rows), sum(len(r["wire"]) for r in rows), cls.count(0), cls.count(1), KEYW, cls.count(2)))
    for i, c in enumerate(cls):
        r = rows[i]
        if c == 1:
            ctx.fail_or_known(KEYW, "connect race (%s, %d emitters%s): frames contiguous and every event exactly once, but a goroutine's "
                              "events emitted after `Connected` overtook its own parked events" %
                              (r.get("trname") or r["transport"], r["n"], ", window family" if r.get("window") else ""),
                              {"kind": "failing-input", "engine": "order", "mode": "connrace", "args": args, "case": slim(r)})
        elif c == 2:
            ctx.fail_or_known(None, "connect race (%s, %d emitters, parked before the CONNECT reply: %s): the MESSAGE frames seen by the raw "
                              "Engine.IO peer are not the frames of whole packets each exactly once (a frame of another packet between a "
                              "header and its attachments, a lost or duplicated packet), or the reference decoder did not reassemble them%s"
                              % (r.get("trname") or r["transport"], r["n"], r["pre"], "" if r["complete"] else " (events missing after 20 s)"),
                              {"kind": "failing-input", "engine": "order", "mode": "connrace", "args": args, "case": slim(r)})
    bad_agree = [i for i, c in enumerate(cls) if c != 2 and not agrees[i]]
    # a natural (non-window) race whose shape the schedule guesser does not cover is not a mismatch of the model
    hard = [i for i in bad_agree if cls[i] == 1 and not rows[i].get("window")]
    for i in hard:
        ctx.indeterminate += 1
    bad_agree = [i for i in bad_agree if i not in hard]
    ctx.obligation("correspondence:connrace/" + name, "correspondence", not bad_agree,
                   "%d histories reproduced by a strict run of Sio/PipelineConn.v (park, connect, window emits, one flush, drain), %d not"
                   % (sum(1 for c in cls if c != 2) - len(bad_agree) - len(hard), len(bad_agree)))
    if bad_agree and all(c != 2 for c in cls):
        ctx.violation("connect-race history is not a behaviour of the model Sio/PipelineConn.v",
                      {"kind": "correspondence-broken", "suite": "connrace/" + name,
                       "theorems": ["C02_conn_contiguity", "C02_conn_reassembly", "C02_conn_exactly_once"],
                       "case": slim(rows[bad_agree[0]])}, no_input=True)


# ------------------------------------------------------------------ receiver, two concurrent deliverers
def recv_suite(ctx, vh, name, args):
    """the real client Manager fed by two goroutines through VerifDeliver: payloads of whole packets
    against single-frame calls (or against payloads); every event must reach its handler once, intact"""
    rows = ctx.vh_jsonl(vh, "order", ["-mode", "recv"] + args, timeout=300)
    if rows is None:
        return
    rows = split_env(ctx, rows, "recv/" + name)
    if not rows:
        return
    terms = [entries_term(r) for r in rows]
    for r in rows:
        ctx.count(len(r["entries"]), nontrivial_key=("r", r["seed"]), dist="recv:two-deliverers")
    bad = ctx.coq_eval_cases("recv_once_" + name, HDR, terms, "entries_exactly_once", shard=4)
    bad = sorted(set(bad) | {i for i, r in enumerate(rows) if r["inversions"] or r.get("parseerr") or not r["complete"]})
    ctx.obligation("oracle:recv/" + name, "oracle", not bad,
                   "%d runs, %d handler entries; every event entered exactly once with its own arguments: %d runs fail"
                   % (len(rows), sum(len(r["entries"]) for r in rows), len(bad)))
    for i in bad[:3]:
        r = rows[i]
        ctx.fail_or_known(None, "receiver fed by two concurrent deliverers (payloads of whole packets vs %s): %d of %d events reached a "
                          "handler, %d with wrong arguments, manager error: %s - a frame of one deliverer got between a header and its "
                          "attachments of the other" % ("payloads" if all(k > 0 for k in r["attcounts"][1]) else "single-frame calls",
                                                        len(r["entries"]), sum(r["bursts"]), r["inversions"], r.get("parseerr")),
                          {"kind": "failing-input", "engine": "order", "mode": "recv", "args": args, "case": slim(r)})
    good = [i for i in range(len(rows)) if i not in bad]
    bad_agree = ctx.coq_eval_cases("recv_agree_" + name, HDR, [terms[i] for i in good], "agree_entries", shard=4)
    ctx.obligation("correspondence:recv/" + name, "correspondence", not bad_agree,
                   "%d entry orders reproduced by the model's dispatch step, %d not" % (len(good) - len(bad_agree), len(bad_agree)))
    if bad_agree and not bad:
        ctx.violation("receiver history is not a behaviour of the model",
                      {"kind": "correspondence-broken", "suite": "recv/" + name, "theorems": ["C02_recv_whole_calls"],
                       "case": slim(rows[good[bad_agree[0]]])}, no_input=True)


# ------------------------------------------------------------------ handler level
def handler_suite(ctx, vh, name, args):
    rows = ctx.vh_jsonl(vh, "order", ["-mode", "handler"] + args, timeout=600)
    if rows is None:
        return
    rows = split_env(ctx, rows, "handler/" + name)
    if not rows:
        return
    terms = [entries_term(r) for r in rows]
    for r in rows:
        ctx.count(len(r["entries"]), nontrivial_key=("h", r["dir"], r["transport"], r["n"], r["seed"]) if r["n"] > 1 else None,
                  dist="handler:%s:%s" % (r["dir"], r["transport"]))
    verdicts = ctx.coq_eval_values("entry_verdict_" + name, HDR, ["entry_verdict %s" % t for t in terms], shard=9)
    cls, agrees = [], []
    for v in verdicts:
        a, b = v.strip("() ").split(",")
        cls.append(int(a.split("%")[0].strip("() ")))
        agrees.append(b.strip("() ") == "true")
    gocls = {"ok": 0, KEY: 1, "lost-or-duplicated": 2}
    drift = [i for i, r in enumerate(rows) if gocls.get(r.get("class"), -1) != cls[i]]
    ctx.obligation("classifier-agreement:handler/" + name, "correspondence", not drift,
                   "finding-class predicate: Coq entry_class vs harness classification on %d histories, %d differ"
                   % (len(rows), len(drift)))
    if drift:
        ctx.violation("finding-class predicate of C02 differs between the harness and Sio/PipelineCheck.v:entry_class",
                      {"kind": "correspondence-broken", "suite": "handler/" + name, "case": slim(rows[drift[0]])},
                      no_input=True)
    fails = [i for i, c in enumerate(cls) if c != 0]
    ctx.obligation("oracle:handler/" + name, "oracle", all(c != 2 for c in cls),
                   "%d histories; per-emitter order at handler entry broken in %d (finding %s), %d with lost/duplicated events"
                   % (len(rows), sum(1 for c in cls if c == 1), KEY, sum(1 for c in cls if c == 2)))
    for i in fails:
        r = rows[i]
        if cls[i] == 1:
            ctx.fail_or_known(KEY, "handler entry (%s, %s, %d emitters): %d adjacent per-emitter inversions among %d events, "
                              "every event entered exactly once" % (r["dir"], r["transport"], r["n"], r["inversions"], len(r["entries"])),
                              {"kind": "failing-input", "engine": "order", "mode": "handler", "args": args, "case": slim(r)})
        else:
            ctx.fail_or_known(None, "handler entry (%s, %s, %d emitters): events lost or duplicated (%d entries for %d events)"
                              % (r["dir"], r["transport"], r["n"], len(r["entries"]), sum(r["bursts"])),
                              {"kind": "failing-input", "engine": "order", "mode": "handler", "args": args, "case": slim(r)})
    ok_rows = [i for i, c in enumerate(cls) if c != 2]
    bad_agree = [k for k, i in enumerate(ok_rows) if not agrees[i]]
    ctx.obligation("correspondence:handler/" + name, "correspondence", not bad_agree,
                   "%d entry orders reproduced by a Dispatch schedule of the model, %d not" % (len(ok_rows) - len(bad_agree), len(bad_agree)))
    if bad_agree:
        ctx.violation("handler entry order is not a behaviour of the model's dispatch step",
                      {"kind": "correspondence-broken", "suite": "handler/" + name, "theorems": ["C02_dispatch_exactly_once"],
                       "case": slim(rows[ok_rows[bad_agree[0]]])}, no_input=True)
    ctx.extra["handler_histories_with_inversions"] = ctx.extra.get("handler_histories_with_inversions", 0) + sum(1 for c in cls if c == 1)


def run(ctx):
    ctx.rule = ("wire: every MESSAGE frame recorded by the raw peer is one evaluation; a history is non-trivial when >= 2 goroutines "
                "emitted concurrently and binary events were among them (distinct (direction, transport, emitters, seed)); "
                "handler: every handler entry is one evaluation, non-trivial with >= 2 emitters")
    ctx.trusted = ["Coq 8.16.1 kernel + vm_compute",
                   "hand-written model Sio/Pipeline.v tied by kernel-evaluated history acceptance (agree_wire / agree_entries)",
                   "harness cmd/vh order (raw Engine.IO peer from the repo's eio package, repo's parser as reference decoder and reference encoder)",
                   "nhooyr.io/websocket: one writer at a time, messages delivered in order; net/http: a POST is answered after OnPacket returned"]
    ctx.assumptions = ["links are reliable FIFO (TCP); Go scheduler is fair enough for 30 s completion",
                       "Encode yields header :: attachments with the header announcing len(attachments) (C09)"]
    ctx.proofs(modules=["Sio/PipelineCheck", "Sio/PipelineInst", "Sio/PipelineConnCheck"])
    vh = ctx.go_build()
    if vh is None:
        return
    seed = ctx.seed
    rp = getattr(ctx, "replay_file", None)
    if rp:
        # --replay: run the recorded scenario set again (same seed and flags) in the recorded mode
        rep = json.load(open(rp)).get("replay", {})
        if rep.get("engine") == "order" and rep.get("args"):
            if rep.get("mode") == "handler":
                handler_suite(ctx, vh, "replay", [str(a) for a in rep["args"]])
            elif rep.get("mode") == "recv":
                recv_suite(ctx, vh, "replay", [str(a) for a in rep["args"]])
            elif rep.get("mode") == "connrace":
                conn_suite(ctx, vh, "replay", [str(a) for a in rep["args"]])
            else:
                wire_suite(ctx, vh, "replay", [str(a) for a in rep["args"]])
            return
        ctx.note("replay file names no scenario (kind=%s); running the whole tier" % rep.get("kind"))
    import time as _t
    t0 = [_t.time()]

    def lap(what):
        ctx.note("timing: %s %.1f s" % (what, _t.time() - t0[0]))
        t0[0] = _t.time()
    lap("proofs+build")
    if ctx.quick:
        wire_suite(ctx, vh, "burst", ["-seed", seed, "-n", 36, "-burst", 16, "-par", 6])
        lap("wire/burst")
        wire_suite(ctx, vh, "paced", ["-seed", seed + 1, "-n", 6, "-emitters", 4, "-burst", 30, "-pace", 40000, "-par", 6])
        lap("wire/paced")
        # emitters already running while the transport is upgraded (server -> raw client): the packets
        # parked in the polling transport are handed over to the websocket while the emitters go on
        wire_suite(ctx, vh, "upgrading", ["-seed", seed + 6, "-n", 6, "-dirs", "s2c", "-transports", "upgrading",
                                          "-emitters", 8, "-burst", 150, "-pace", 100, "-par", 3])
        lap("wire/upgrading")
        handler_suite(ctx, vh, "burst", ["-seed", seed + 2, "-n", 18, "-burst", 60, "-par", 6])
        lap("handler")
        conn_suite(ctx, vh, "race", ["-seed", seed + 3, "-n", 12, "-emitters", 8, "-burst", 100, "-par", 3])
        lap("connrace/race")
        conn_suite(ctx, vh, "window", ["-seed", seed + 4, "-n", 4, "-emitters", 2, "-burst", 12, "-window", "-par", 4])
        lap("connrace/window")
        recv_suite(ctx, vh, "two", ["-seed", seed + 5, "-n", 6, "-par", 3])
        lap("recv")
    else:
        wire_suite(ctx, vh, "burst", ["-seed", seed, "-n", 144, "-burst", 40, "-par", 6])
        wire_suite(ctx, vh, "paced", ["-seed", seed + 1, "-n", 12, "-emitters", 8, "-burst", 60, "-pace", 40000, "-par", 6])
        wire_suite(ctx, vh, "upgrading", ["-seed", seed + 6, "-n", 24, "-dirs", "s2c", "-transports", "upgrading",
                                          "-emitters", 8, "-burst", 150, "-pace", 100, "-par", 3])
        handler_suite(ctx, vh, "burst", ["-seed", seed + 2, "-n", 72, "-burst", 150, "-par", 6])
        conn_suite(ctx, vh, "race", ["-seed", seed + 3, "-n", 48, "-emitters", 8, "-burst", 100, "-par", 3])
        conn_suite(ctx, vh, "window", ["-seed", seed + 4, "-n", 12, "-emitters", 3, "-burst", 20, "-window", "-par", 4])
        recv_suite(ctx, vh, "two", ["-seed", seed + 5, "-n", 40, "-par", 4])
