"""C09 - Socket.IO encoding round-trips, matches the v5 format, leaves its input intact."""
import json
import re
from lib.vlib import gZ, gN, gnat, gbool, glist, gopt, gpair

HDR = "From Coq Require Import String.\nFrom SioV Require Import Base.GoSem Sio.Json Sio.Header Sio.Binary Sio.Codec Sio.CodecCheck.\n"


class Unsupported(Exception):
    pass


def gbytes(bs):
    """byte string literal: hex string decoded by CodecCheck.hx (fast to parse)"""
    return '(hx "%s"%%string)' % "".join("%02x" % b for b in bs)


def g_gv(t):
    k = t[0]
    if k == "n":
        return "VNil"
    if k == "b":
        return "(VBool %s)" % gbool(t[1])
    if k == "i":
        return "(VInt %s)" % gZ(int(t[1]))
    if k == "s":
        return "(VStr %s)" % gbytes(t[1])
    if k == "B":
        return "(VBin %s)" % gbytes(t[1])
    if k == "a":
        return "(VAny %s)" % g_gv(t[1])
    if k == "p":
        return "(VPtr %s)" % g_gv(t[1])
    if k == "l":
        return "(VSlice %s)" % glist(g_gv(x) for x in t[1])
    if k == "S":
        return "(VStruct %s)" % glist(gpair(gbytes(f[0]), g_gv(f[1])) for f in t[1])
    if k == "m":
        return "(VMap %s)" % glist(gpair(gbytes(f[0]), g_gv(f[1])) for f in t[1])
    raise Unsupported(k)


def g_jb(t):
    k = t[0]
    if k == "n":
        return "BNull"
    if k == "b":
        return "(BBool %s)" % gbool(t[1])
    if k == "i":
        return "(BInt %s)" % gZ(int(t[1]))
    if k == "s":
        return "(BStr %s)" % gbytes(t[1])
    if k == "B":
        return "(BBin %s)" % gbytes(t[1])
    if k == "l":
        return "(BArr %s)" % glist(g_jb(x) for x in t[1])
    if k == "o":
        return "(BObj %s)" % glist(gpair(gbytes(f[0]), g_jb(f[1])) for f in t[1])
    raise Unsupported(k)


def g_ty(t):
    if isinstance(t, str):
        m = {"any": "TAny", "bool": "TBool", "int": "TInt", "str": "TStr", "bin": "TBin", "map": "TMapAny"}
        if t not in m:
            raise Unsupported(t)
        return m[t]
    if t[0] == "ptr":
        return "(TPtr %s)" % g_ty(t[1])
    if t[0] == "slice":
        return "(TSlice %s)" % g_ty(t[1])
    if t[0] == "struct":
        return "(TStruct %s)" % glist(gpair(gbytes(f[0]), g_ty(f[1])) for f in t[1])
    raise Unsupported(str(t))


def g_hdr(h):
    return "(mkHeader %s %s %s %s)" % (gN(h["t"]), gbytes(h["nsp"]), gopt(gN(int(h["id"])) if h["id"] != "" else None),
                                      gZ(h["att"]))


def g_frames(fs):
    return glist(gbytes(f) for f in (fs or []))


def case_term(r, typed):
    """typed=False: the typed decode is outside the modelled type fragment; it is compared through
    the all-any handler types instead."""
    tys = glist(g_ty(t) for t in r["tys"]) if typed else glist("TAny" for _ in r["tys"])
    skip_any = False
    anyd = None
    if r["anyok"]:
        try:
            anyd = glist(g_jb(x) for x in r["anyd"])
        except Unsupported:
            skip_any = True
    if typed:
        typed_vals = glist(g_jb(x) for x in r["typed"]) if r["typedok"] else None
    else:
        typed_vals = anyd
        if skip_any:
            raise Unsupported("float")
    return ("(mkCase %s %s %s %s %s %s %s %s %s %s %s %s %s %s %s %s)" % (
        g_hdr(r["h"]), gopt(g_gv(r["v"]) if r["v"] is not None else None), tys,
        gN(r["out"]), g_frames(r["frames"]), g_hdr(r["hafter"]),
        gopt(g_gv(r["vafter"]) if r["vafter"] is not None else None),
        gN(r["out2"]), g_frames(r["frames2"]), gN(r["out3"]), g_frames(r["frames3"]),
        glist(gnat(i) if 0 <= i < 4000 else gnat(4999) for i in (r["fin"] or [])),
        gopt(gpair(g_hdr(r["dh"]), gbytes(r["dname"] or [])) if r["dh"] else None),
        gopt(typed_vals), gopt(anyd), gbool(skip_any)))


def leaf_classes(t, out):
    """Boundary classes of the leaves of a value tree (measured input distribution)."""
    k = t[0]
    if k == "B":
        n = len(t[1])
        out.append("bin:%s" % ("0" if n == 0 else "1" if n == 1 else "2-15" if n < 16 else "16+"))
    elif k == "s":
        n = len(t[1])
        out.append("str:%s" % ("0" if n == 0 else "1-7" if n < 8 else "8+"))
    elif k == "i":
        z = int(t[1])
        out.append("int:%s" % ("0" if z == 0 else "neg-big" if z <= -(2 ** 53 - 1) else "neg" if z < 0
                               else "big" if z >= 2 ** 53 - 1 else "pos"))
    elif k == "n":
        out.append("nil")
    elif k == "b":
        out.append("bool")
    elif k in ("a", "p"):
        leaf_classes(t[1], out)
    elif k == "l":
        out.append("list:%s" % ("empty" if not t[1] else "nonempty"))
        for x in t[1]:
            leaf_classes(x, out)
    elif k in ("S", "m"):
        out.append("%s:%s" % ("struct" if k == "S" else "map", "empty" if not t[1] else "nonempty"))
        for f in t[1]:
            leaf_classes(f[1], out)


def case_classes(r):
    out = []
    if r["v"] is not None:
        leaf_classes(r["v"], out)
    nsp = bytes(r["h"]["nsp"])
    out.append("nsp:%s" % ("empty" if nsp == b"" else "root" if nsp == b"/" else "other"))
    out.append("id:%s" % ("none" if r["h"]["id"] == "" else "0" if r["h"]["id"] == "0" else
                          "max" if r["h"]["id"] == str(2 ** 64 - 1) else "other"))
    if r["h"]["t"] == 2 and r["v"] is not None:
        try:
            name = r["v"][1][1][0][1][1]
            out.append("name:%s" % ("empty" if len(name) == 0 else "nonempty"))
        except (IndexError, TypeError):
            pass
    if r["frames"] and len(r["frames"]) > 1:
        out.append("att-frame:%s" % ("empty" if any(len(f) == 0 for f in r["frames"][1:]) else "nonempty"))
    return out


# classes every run has to exercise (a dimension that is constant in practice hides bugs at its boundary)
REQUIRED = ["bin:0", "bin:1", "bin:16+", "str:0", "int:0", "int:neg", "int:big", "int:neg-big", "nil", "list:empty",
            "map:empty", "nsp:empty", "nsp:root", "nsp:other", "id:none", "id:0", "id:max", "name:empty",
            "att-frame:empty"]


# ---- Python twin of the Coq class predicate CodecCheck.deep_wrapped (hb / nobin / wokp of Sio/RoundtripProofs.v)
def py_hb(u, t):
    k = t[0]
    if k in ("a", "p"):
        return u > 0 and py_hb(u - 1, t[1])
    if k == "B":
        return True
    if k == "l":
        return any(py_hb(2, x) for x in t[1])
    if k in ("S", "m"):
        return any(py_hb(2, f[1]) for f in t[1])
    return False


def py_nobin(t):
    k = t[0]
    if k == "B":
        return False
    if k in ("a", "p"):
        return py_nobin(t[1])
    if k == "l":
        return all(py_nobin(x) for x in t[1])
    if k in ("S", "m"):
        return all(py_nobin(f[1]) for f in t[1])
    return True


def py_wokp(pre, u, t):
    k = t[0]
    if k in ("a", "p"):
        if pre:
            return py_wokp(False, 2, t[1])
        return py_wokp(False, u - 1, t[1]) if u > 0 else py_nobin(t[1])
    if k == "l":
        return all(py_wokp(False, 2, x) for x in t[1])
    if k in ("S", "m"):
        return all(py_wokp(True, 2, f[1]) for f in t[1])
    return True


def py_deep_wrapped(r):
    v = r["v"]
    return v is not None and not (py_wokp(False, 2, v) and (py_hb(2, v) or py_nobin(v)))


DEEP_KEY = "binary-behind-deep-wrappers"

MASK = {1: "encode-refused", 2: "wire-not-v5", 4: "roundtrip-header", 8: "any-handler-binary", 16: "any-handler-binary",
        32: "value-changed", 64: "header-rewritten", 128: "reencode-differs"}
WHAT = {
    1: "Encode refused (or panicked on) a value built from the allowed kinds",
    2: "the frames are not the ones the v5 protocol prescribes for the packet",
    4: "decoding the frames does not finish exactly at the last frame with the packet's type / namespace / id / event name",
    8: "decoding into the mirror types does not give the arguments back (attachments in place, byte-identical)",
    16: "decoding into `any` parameters does not give the arguments back",
    32: "Encode changed the value it was given",
    64: "Encode rewrote the header it was given (Type / Attachments)",
    128: "encoding the same value again does not yield the same frames",
}


def codec_suite(ctx, vh, name, args):
    rows = ctx.vh_jsonl(vh, "siocodec", args)
    if rows is None:
        return
    terms, kept = [], []
    skipped = 0
    for r in rows:
        try:
            try:
                t = case_term(r, r["tysok"])
            except Unsupported:
                t = case_term(r, False)
            terms.append(t)
            kept.append(r)
        except Unsupported:
            skipped += 1
    for r in kept:
        for cl in case_classes(r):
            ctx.dist["leaf:" + cl] = ctx.dist.get("leaf:" + cl, 0) + 1
        nb = len(r["frames"] or []) - 1
        key = (r["h"]["t"], tuple(r["h"]["nsp"]), r["h"]["id"], repr(r["v"])) if (nb > 0 or r["dname"]) else None
        ctx.count(1, nontrivial_key=key,
                  dist="codec:%s:%s" % (name, "refused" if r["out"] else ("binary%d" % min(nb, 4) if nb > 0 else "plain")))
    if kept:
        ctx.sample({"suite": "codec/" + name, "case": {k: kept[len(kept) // 2][k] for k in ("label", "h", "frames", "fin", "dh", "err")}})
    ctx.extra.setdefault("skipped_outside_model", 0)
    ctx.extra["skipped_outside_model"] += skipped
    # the property on the implementation's observations first
    masks = ctx.coq_eval_values("codec_" + name.replace("-", "_"), HDR,
                                ["(let c := %s in (oracle_mask c, known_mask c, (if agree c then 1 else 0), known_class c)%%N)" % t for t in terms],
                                shard=25)
    bad_agree = []
    n_fail, n_known = 0, 0
    for i, (r, m) in enumerate(zip(kept, masks)):
        nums = [int(x) for x in re.findall(r"\d+", m)]
        om, km = nums[0], nums[1]
        if nums[2] != 1:
            bad_agree.append(i)
        deep = nums[3] == 1
        if deep != py_deep_wrapped(r):
            ctx.violation("the finding class %s is decided differently by the check (Python: %s) and by the Coq predicate "
                          "CodecCheck.deep_wrapped (%s) on packet %s" % (DEEP_KEY, py_deep_wrapped(r), deep, r["label"]),
                          {"kind": "correspondence-broken", "suite": "class-predicates", "case": r}, no_input=True)
        if deep:
            ctx.dist["class:" + DEEP_KEY] = ctx.dist.get("class:" + DEEP_KEY, 0) + 1
        if om == 0:
            continue
        for bit, key in MASK.items():
            if not om & bit:
                continue
            what = "%s; %spacket %s: header %s, value %s -> frames %s%s" % (
                WHAT[bit], ("while other goroutines were encoding their own values on the SAME parser (vh siocodec "
                            + " ".join(str(a) for a in args) + "): ") if name == "shared-parser" else "",
                r["label"], r["h"], str(r["v"])[:300], [bytes(f) for f in (r["frames"] or [])][:4],
                (" [" + r["err"] + "]") if r["err"] else "")
            replay = {"kind": "failing-input", "engine": "siocodec", "class": key, "suite": name,
                      "args": [str(a) for a in args], "case": r}
            if km & bit:
                n_known += 1
                ctx.fail_or_known(DEEP_KEY if (deep and bit in (2, 4, 8, 16)) else key, what, replay)
            else:
                n_fail += 1
                ctx.violation(what, replay)
    ctx.obligation("correspondence:codec/" + name, "correspondence", not bad_agree,
                   "%d cases (%d outside the modelled kinds skipped), %d disagree" % (len(kept), skipped, len(bad_agree)))
    ctx.obligation("oracle:codec/" + name, "oracle", n_fail == 0,
                   "%d cases, %d fail, %d in known finding classes" % (len(kept), n_fail, n_known))
    if bad_agree and n_fail == 0:
        i = bad_agree[0]
        ctx.violation("the Socket.IO parser no longer computes what the model Sio/Codec.v + Sio/Binary.v computes "
                      "(frames, caller's header/value after Encode, second/third Encode, Add, decode); first differing "
                      "case %s header %s value %s frames %s" % (kept[i]["label"], kept[i]["h"], str(kept[i]["v"])[:300],
                                                               [bytes(f) for f in (kept[i]["frames"] or [])][:4]),
                      {"kind": "correspondence-broken", "suite": "codec/" + name,
                       "theorems": ["C09_decode_encode", "C09_wire_is_v5", "C09_encode_leaves_value"],
                       "case": kept[i]}, no_input=True)


def race_suite(ctx):
    """The shared-parser run once more under the race detector: Encode calls that overlap on one
    parser must not touch common memory (a reported race inside parser/json is a violation)."""
    vhr = ctx.go_build(race=True)
    if vhr is None:
        return
    args = ["siocodec", "-mode", "conc", "-g", 4, "-seed", int(ctx.seed) + 7, "-n", 8 if ctx.quick else 200,
            "-out", ctx.work + "/race.jsonl"]
    rc, out = ctx.vh(vhr, args, env={"GORACE": "halt_on_error=0 exitcode=66"})
    races = out.count("WARNING: DATA RACE")
    in_parser = "socket.io-go/parser/" in out
    ctx.count(32 if ctx.quick else 800, dist="codec:race-detector")
    ok = races == 0 and rc == 0
    ctx.obligation("oracle:codec/shared-parser-race-detector", "oracle", ok,
                   "4 goroutines encoding on one parser under -race: %d race reports, rc=%d" % (races, rc))
    if races:
        where = "inside parser/json" if in_parser else "outside the parser packages (harness?)"
        ctx.violation("data race between Encode calls that share one parser (%s): Encode is not stateless; "
                      "replay: vh(-race) siocodec -mode conc -g 4 -seed %d -n 8" % (where, int(ctx.seed) + 7),
                      {"kind": "failing-input", "engine": "siocodec", "class": "encode-shares-state",
                       "args": [str(a) for a in args], "report": out[:3000]})
    elif rc != 0:
        ctx.violation("race-detector run of the shared-parser suite failed (rc=%d)" % rc,
                      {"kind": "correspondence-broken", "suite": "codec/shared-parser-race", "log": out[-2000:]},
                      no_input=True)


def json_suite(ctx, vh):
    rows = ctx.vh_jsonl(vh, "siocodec", ["-mode", "json", "-seed", ctx.seed, "-n", 100 if ctx.quick else 10000])
    if rows is None:
        return
    pterms, pexp, uterms, uexp = [], [], [], []
    for r in rows:
        ctx.count(1, nontrivial_key=("j", tuple(r["text"])) if len(r["text"]) > 6 else None, dist="json")
        if r["v"] is not None and '"B"' not in json.dumps(r["v"]):  # Binary cells: codec suites
            try:
                pterms.append("(match to_jv jparse %s with Ok j => bytes_eqb (jprint j) %s | _ => false end)" % (
                    g_gv(r["v"]), gbytes(r["out"])))
            except Unsupported:
                pass
        if r["parseok"] and r["float"]:
            continue  # numbers outside the integer fragment
        if re.search(rb"\\u[dD][89a-fA-F]", bytes(r["text"])):
            continue  # surrogate escapes are outside the modelled fragment
        exp = gopt("(%s)" % g_jb(r["parsed"])) if r["parseok"] else "None"
        uterms.append("(opt_eqb jb_eqb (option_map plain (jparse %s)) %s)" % (gbytes(r["text"]), exp))
    badp = ctx.coq_eval_cases("json_print", HDR, pterms, "(fun b : bool => b)", shard=150)
    badu = ctx.coq_eval_cases("json_parse", HDR, uterms, "(fun b : bool => b)", shard=150)
    ctx.obligation("correspondence:json/marshal", "correspondence", not badp,
                   "jprint = json.Marshal on %d trees, %d differ" % (len(pterms), len(badp)))
    ctx.obligation("correspondence:json/unmarshal", "correspondence", not badu,
                   "jparse = json.Unmarshal on %d texts, %d differ" % (len(uterms), len(badu)))
    for kind, bad in (("jprint/json.Marshal", badp), ("jparse/json.Unmarshal", badu)):
        if bad:
            ctx.violation("the JSON model no longer agrees with encoding/json (%s), first at index %d" % (kind, bad[0]),
                          {"kind": "correspondence-broken", "suite": "json", "theorems": ["C09_json_roundtrip"],
                           "index": bad[0]}, no_input=True)


def run(ctx):
    ctx.rule = ("generated packets: 7 types x 15 namespaces x ack ids over the uint64 range x event names with every escape "
                "class x argument trees (depth<=4) over 4 struct types, maps, slices, pointers, any, Binary at every "
                "addressability class; non-trivial = packet with an event name or attachments (distinct header+value)")
    ctx.trusted = ["Coq 8.16.1 kernel + vm_compute",
                   "hand-written models Sio/Json.v Sio/Binary.v Sio/Codec.v (+ Sio/Header.v of C10) tied by kernel-evaluated correspondence",
                   "harness cmd/vh siocodec (value <-> tree conversion by reflection, map visiting order recovered from the attachment order)",
                   "encoding/json, reflect (modelled, validated by the json suite and the codec suite)"]
    ctx.assumptions = ["values are trees (no pointer shared between two places)", "strings are valid UTF-8",
                       "numbers are integers (floats are outside the proved domain)"]
    ctx.proofs(modules=["Sio/CodecCheck"])
    vh = ctx.go_build()
    if vh is None:
        return
    codec_suite(ctx, vh, "fixed", ["-mode", "fixed"])
    # Encode as the library uses it: several goroutines, each with its own values, on ONE parser
    # (C09_concurrent_encode: any interleaving = the calls run alone, so every row is an ordinary case)
    codec_suite(ctx, vh, "shared-parser", ["-mode", "conc", "-g", 4, "-seed", ctx.seed, "-n", 12 if ctx.quick else 400])
    race_suite(ctx)
    codec_suite(ctx, vh, "generated", ["-mode", "codec", "-seed", ctx.seed, "-n", 45 if ctx.quick else 6000])
    codec_suite(ctx, vh, "refused", ["-mode", "codec", "-hard", "-seed", int(ctx.seed) + 1, "-n", 20 if ctx.quick else 1500])
    json_suite(ctx, vh)
    missing = [c for c in REQUIRED if not ctx.dist.get("leaf:" + c)]
    ctx.obligation("coverage:boundary-classes", "coverage", not missing,
                   "leaf / header boundary classes exercised: %s; missing: %s" % (
                       {c: ctx.dist.get("leaf:" + c, 0) for c in REQUIRED}, missing))
    if missing:
        ctx.violation("the generators did not exercise the boundary classes %s (input distribution too narrow: "
                      "the check cannot vouch for the property there)" % missing,
                      {"kind": "correspondence-broken", "suite": "coverage", "missing": missing}, no_input=True)
