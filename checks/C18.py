"""C18 - Handlers: On fires every time, Once at most once, Off removes just what it names.

All harness runs happen first; then ONE batch of kernel evaluations (a handful of coqc processes in
parallel) compares every observation with the model (correspondence) and with the specification
(oracle), and classifies oracle failures by finding class inside Coq."""
import json
import re

from lib.vlib import gN as _gN, gbool, glist, gpair, gnat


def gN(n):
    """small numbers by name (HandlerStoreCheck.n0..n9): parsing numerals dominates the cost of literals"""
    return "n%d" % n if 0 <= n <= 9 else _gN(n)


HDR = "From SioV Require Import Base.GoSem Sio.HandlerStore Sio.HandlerStoreCheck.\n"
THEOREMS = ["C18_refines_spec", "C18_event_refines_spec", "C18_once_at_most_once", "C18_off_exact", "C18_offall",
            "C18_lifecycle_characterised", "C18_event_fval_refines_spec_partial"]

OBJ_FAMILIES = {
    "nsp": ["Connection"],
    "srv": ["NewNamespace", "AnyConnection"],
    "ssock": ["Error", "Disconnecting", "Disconnect"],
    "csock": ["Connect", "ConnectError", "Disconnect"],
    "mgr": ["Open", "Ping", "Error", "Close", "Reconnect", "ReconnectAttempt", "ReconnectError", "ReconnectFailed"],
}
API_TARGETS = ["api:%s:%s" % (o, f) for o, fs in OBJ_FAMILIES.items() for f in fs]
EAPI_TARGETS = ["eapi:nsp", "eapi:ssock", "eapi:csock"]

LIN_TARGETS = ["ls", "es", "api:mgr:Ping", "api:csock:Connect", "api:nsp:Connection", "eapi:nsp"]
KEY_LIFECYCLE = "off-by-func-identity:lifecycle"
KEY_CLOSURES = "closures-share-code-pointer"


def kind_of(target):
    if target == "ls":
        return "ls"
    if target == "es" or target.startswith("eapi"):
        return "es"
    return "api"


# kind -> model fn, spec fn, class fn over op lists, finding key
ENUM_FUNCS = {
    "ls": ("ls_model", "ls_spec", "no_class", None),
    "es": ("es_model", "es_spec", "es_class", KEY_CLOSURES),
    "api": ("api_model", "api_spec", "api_class", KEY_LIFECYCLE),
}
# case kind -> agree, oracle, class over cases, finding key
CASE_FUNCS = {
    "ls": ("ls_agree", "ls_oracle", "(fun _ => false)", None),
    "es": ("es_agree", "es_oracle", "es_case_class", KEY_CLOSURES),
    "es-api": ("es_agree_nolens", "es_oracle_nolens", "es_class_nolens", KEY_CLOSURES),
    "api": ("api_agree", "api_oracle", "api_case_class", KEY_LIFECYCLE),
}


def fval(menu, h):
    return gpair(gN(menu[h][0]), gN(menu[h][1]))


def op_term(kind, op, menu):
    k = op[0]
    if kind == "ls":
        if k in ("on", "once", "onsub", "offsub"):
            return "(%s %s)" % ({"on": "On", "once": "Once", "onsub": "OnSub", "offsub": "OffSub"}[k], gN(op[1]))
        if k == "off":
            return "(Off %s)" % glist(gN(h) for h in op[1])
        return {"offsubs": "OffSubs", "offall": "OffAll", "fire": "Fire"}[k]
    if kind == "es":
        if k in ("on", "once"):
            return "(%s %s %s)" % ("EOn" if k == "on" else "EOnce", gN(op[1]), fval(menu, op[2]))
        if k == "off":
            # h < 0 is a literal nil argument: the registry drops zero Values first (they name nothing)
            return "(EOff %s %s)" % (gN(op[1]), glist(fval(menu, h) for h in op[2] if h >= 0))
        if k == "fire":
            return "(EFire %s)" % gN(op[1])
        return "EOffAll"
    if k in ("on", "once"):
        return "(%s %s)" % ("AOn" if k == "on" else "AOnce", gN(op[1]))
    if k == "off":
        return "(AOff %s)" % glist(gN(h) for h in op[1])
    return {"offall": "AOffAll", "fire": "AFire"}[k]


def py_class(kind, ops, menu):
    """The finding class of a call sequence, computed on the harness side (cross-checked with Coq)."""
    if kind == "api":
        return any(o[0] == "off" and len(o[1]) > 0 for o in ops)
    if kind == "es":
        hs = set()
        for o in ops:
            if o[0] in ("on", "once"):
                hs.add(tuple(menu[o[2]]))
            elif o[0] == "off":
                hs.update(tuple(menu[h]) for h in o[2] if h >= 0)
        return any(a[0] == b[0] and a[1] != b[1] for a in hs for b in hs)
    return False


def decode(numeral):
    """octal observation string -> list of occurrences (handler digits-1) / panic marker, for reports"""
    outs, cur = [], []
    for ch in numeral[1:]:
        if ch == "0":
            outs.append(cur)
            cur = []
        elif ch == "7":
            outs.append("PANIC-or-other-registry-disturbed")
        else:
            cur.append(int(ch) - 1)
    return outs


M61 = (1 << 61) - 1


def _red(x):
    y = (x & M61) + (x >> 61)
    return y - M61 if y >= M61 else y


def hstep(h, x):
    return _red(_red(h * 1000003 + x + 1))


def hseq(h, octal):
    """digest step for one observation string (mirror of HandlerStoreCheck.hseq)"""
    for ch in octal[1:]:
        h = hstep(h, ord(ch) - 48)
    return hstep(h, 9)


def seq_of(alpha, prefix, depth, idx, suffix):
    digs = []
    for _ in range(depth):
        digs.append(idx % len(alpha))
        idx //= len(alpha)
    return [alpha[i] for i in prefix] + [alpha[i] for i in reversed(digs)] + list(suffix)


class Batch:
    """Terms to evaluate in one sharded coqc round, each with the function that consumes its value."""

    def __init__(self):
        self.items = []  # (cost, term, callback)

    def add(self, cost, term, cb):
        self.items.append((cost, term, cb))

    def run(self, ctx, name, jobs=8):
        if not self.items:
            return
        # balance the shards by cost; coq_eval_values shards consecutive chunks of equal count,
        # so fill `jobs` buckets greedily and pad them to the same length
        order = sorted(range(len(self.items)), key=lambda i: -self.items[i][0])
        per = (len(order) + jobs - 1) // jobs
        buckets = [[] for _ in range(jobs)]
        loads = [0] * jobs
        for i in order:
            k = min((b for b in range(jobs) if len(buckets[b]) < per), key=lambda b: loads[b])
            buckets[k].append(i)
            loads[k] += self.items[i][0]
        terms, owners = [], []
        for b in buckets:
            for i in b:
                terms.append(self.items[i][1])
                owners.append(i)
            for _ in range(per - len(b)):
                terms.append("0%N")
                owners.append(None)
        vals = ctx.coq_eval_values(name, HDR, terms, shard=per)
        for v, i in zip(vals, owners):
            if i is not None:
                self.items[i][2](v)


class State:
    def __init__(self):
        self.pending = []
        self.suites = {}
        self.refine = Batch()  # exact comparisons of the rows whose digests differ

    def suite(self, name, detail):
        return self.suites.setdefault(name, {"total": 0, "agree_bad": 0, "oracle_bad": 0, "unknown": 0,
                                             "detail": detail, "first_agree": None})


def report_oracle_failure(ctx, st, su, kind, tgt, ops, observed, in_class, menu, anomaly=None, panic=False,
                          class_ops=None, extra=None):
    if in_class != py_class(kind, class_ops if class_ops is not None else ops, menu):
        ctx.violation("finding-class predicate of the harness and of Coq disagree on %s" % ops,
                      {"kind": "correspondence-broken", "suite": "class-predicate", "case": ops}, no_input=True)
    what = "%s: call sequence %s: occurrences ran %s%s, which is not what the property requires" % (
        tgt, ops, observed, (" (" + anomaly + ")") if anomaly else "")
    replay = {"kind": "failing-input", "engine": "handlers", "target": tgt.split(" ")[0], "ops": ops, "observed": observed}
    if extra:
        replay.update(extra)
    key = ENUM_FUNCS[kind][3]
    if in_class and key and not anomaly and not panic and ctx.known(key, what):
        return
    su["unknown"] += 1
    st.pending.append((len(ops), what, replay))  # the shortest failing sequences are reported at the end


def enum_suite(ctx, vh, batch, st, name, targets, alphabet, plen, depth):
    """Exhaustive: every call sequence of plen+depth ops over the alphabet (+ closing occurrences)."""
    su = st.suite("enum/" + name, "%d targets, every sequence of %d ops over the %s alphabet"
                  % (len(targets), plen + depth, alphabet))
    rows = ctx.vh_jsonl(vh, "handlers", ["-mode", "enum", "-target", ",".join(targets), "-alphabet", alphabet,
                                         "-plen", plen, "-depth", depth])
    if rows is None:
        return
    hdr = None
    nrow = 0
    for row in rows:
        if "hdr" in row:
            hdr = row
            continue
        nrow += 1
        tgt, kind, menu = hdr["target"], kind_of(hdr["target"]), hdr["menu"]
        nseq = len(row["obs"])
        su["total"] += nseq
        for i, s in enumerate(row["obs"]):
            nontriv = any(c in "123456" for c in s[1:])
            ctx.count(1, nontrivial_key=(tgt, alphabet, tuple(row["prefix"]), depth, i) if nontriv else None,
                      dist="enum:%s:%s" % (name, "runs-handlers" if nontriv else "empty"))
        if nrow == 2:
            ctx.sample({"suite": "enum/" + name, "target": tgt,
                        "ops": seq_of(hdr["alpha"], row["prefix"], depth, nseq // 3, hdr["suffix"]),
                        "observed": decode(row["obs"][nseq // 3])})
        alpha = glist(op_term(kind, o, menu) for o in hdr["alpha"])
        pre = glist(op_term(kind, hdr["alpha"][i], menu) for i in row["prefix"])
        suf = glist(op_term(kind, o, menu) for o in hdr["suffix"])
        fm, fs, cls, key = ENUM_FUNCS[kind]
        # harness-side digests: all observations / observations outside the finding class
        h_all, h_out, n_in = 7, 7, 0
        for i, o in enumerate(row["obs"]):
            h_all = hseq(h_all, o)
            if py_class(kind, seq_of(hdr["alpha"], row["prefix"], depth, i, hdr["suffix"]), menu):
                n_in += 1
            else:
                h_out = hseq(h_out, o)
        term = "enum_digest %s %s %s %s %s %s %s" % (fm, fs, cls, alpha, pre, suf, gnat(depth))

        def exact(row=row, fm=fm, fs=fs, cls=cls, alpha=alpha, pre=pre, suf=suf):
            return "enum_check %s %s %s %s %s %s %s %s" % (fm, fs, cls, alpha, pre, suf, gnat(depth),
                                                           glist(gN(int(x, 8)) for x in row["obs"]))

        def consume_exact(v, hdr=hdr, row=row, tgt=tgt, kind=kind, menu=menu, nseq=nseq):
            nums = [int(x) for x in re.findall(r"\d+", v)]
            parts = []
            p = 0
            for _ in range(3):
                total, k = nums[p], nums[p + 1]
                parts.append((total, nums[p + 2:p + 2 + k]))
                p += 2 + k
            (n_model, model_idx), (n_in_bad, in_idx), (n_out, out_idx) = parts
            anomalies = {a["idx"]: a["what"] for a in row.get("anomalies", [])}
            su["oracle_bad"] += n_out
            for in_class, idxs in ((True, in_idx[:3]), (False, out_idx[:3])):
                for i in idxs:
                    if i >= nseq:
                        ctx.violation("C18 %s: observation count does not match the enumeration" % tgt,
                                      {"kind": "correspondence-broken", "suite": "enum/" + name}, no_input=True)
                        continue
                    ops = seq_of(hdr["alpha"], row["prefix"], depth, i, hdr["suffix"])
                    report_oracle_failure(ctx, st, su, kind, tgt, ops, decode(row["obs"][i]), in_class, menu,
                                          anomaly=anomalies.get(i), panic="7" in row["obs"][i])
            if n_out > 3:
                su["unknown"] += n_out - 3
            if n_model:
                su["agree_bad"] += n_model
                if su["first_agree"] is None:
                    i = model_idx[0]
                    ops = seq_of(hdr["alpha"], row["prefix"], depth, i, hdr["suffix"]) if i < nseq else None
                    su["first_agree"] = {"target": tgt, "ops": ops,
                                         "observed": decode(row["obs"][i]) if i < nseq else None}
            if not n_model and not n_out and not any(i >= nseq for i in in_idx + out_idx):
                # digests differed but the exact comparison finds nothing: the two sides classify differently
                ctx.violation("C18 %s: digest mismatch not reproduced by the exact comparison (finding-class predicates "
                              "of harness and Coq differ?)" % tgt,
                              {"kind": "correspondence-broken", "suite": "enum/" + name, "target": tgt}, no_input=True)

        def consume(v, hdr=hdr, row=row, tgt=tgt, kind=kind, menu=menu, nseq=nseq, h_all=h_all, h_out=h_out,
                    n_in=n_in, exact=exact, consume_exact=consume_exact, key=key):
            nums = [int(x) for x in re.findall(r"\d+", v)]
            if len(nums) != 5:
                raise RuntimeError("cannot parse digest row: %s" % v[:200])
            d_model, d_spec, c_in, c_fail, first = nums
            if c_fail:
                # specification differs from the model inside the finding class (model = implementation below)
                su["oracle_bad"] += c_fail
                ops = seq_of(hdr["alpha"], row["prefix"], depth, first - 1, hdr["suffix"])
                report_oracle_failure(ctx, st, su, kind, tgt, ops, decode(row["obs"][first - 1]), True, menu,
                                      panic="7" in row["obs"][first - 1])
            if d_model != h_all or d_spec != h_out or c_in != n_in:
                st.refine.add(nseq, exact(), consume_exact)

        batch.add(nseq * (plen + depth + len(hdr["suffix"])), term, consume)


def case_term(kind, row):
    menu = row["menu"]
    k = "es" if kind == "es-api" else kind
    ops = glist(op_term(k, o, menu) for o in row["ops"])
    outs = glist(glist(gN(x) for x in o) for o in row["outs"])
    if kind == "ls":
        l = row["lens"] or [0, 0, 0]
        return gpair(ops, outs, gbool(row["panic"]), gpair(gN(l[0]), gN(l[1]), gN(l[2])))
    if kind == "es":
        l = row["lens"] or [0, 0]
        return gpair(ops, outs, gbool(row["panic"]), gpair(gN(l[0]), gN(l[1])))
    return gpair(ops, outs, gbool(row["panic"]))


def random_suite(ctx, vh, batch, st, name, targets, n, maxlen, replay=None):
    su = st.suite("random/" + name, "seeded random call sequences up to %d ops" % maxlen)
    if replay is not None:  # one explicit call sequence from a replay file
        args = ["-mode", "replay", "-target", replay["target"], "-ops", json.dumps(replay["ops"])]
    else:
        args = ["-mode", "random", "-target", ",".join(targets), "-seed", ctx.seed, "-n", n, "-maxlen", maxlen]
    rows = ctx.vh_jsonl(vh, "handlers", args)
    if rows is None:
        return
    by_kind = {}
    for r in rows:
        kind = kind_of(r["target"])
        if kind == "es" and r["lens"] is None:
            kind = "es-api"  # public object: the sizes of the maps are not observable
        by_kind.setdefault(kind, []).append(r)
        nontriv = any(len(o) > 0 for o in r["outs"])
        lo = len(r["ops"]) // 10 * 10
        ctx.count(1, nontrivial_key=(r["target"], repr(r["ops"])) if nontriv else None,
                  dist="random:%s:len%02d-%02d" % (name, lo, lo + 9))
    su["total"] += len(rows)
    for kind, rs in by_kind.items():
        agree_fn, oracle_fn, class_fn, _ = CASE_FUNCS[kind]
        ctx.sample({"suite": "random/" + name, "case": {x: rs[len(rs) // 2][x] for x in ("target", "ops", "outs")}})
        for c0 in range(0, len(rs), 60):
            chunk = rs[c0:c0 + 60]
            term = "flat_map (fun c => [%s c; %s c; %s c]) %s" % (
                agree_fn, oracle_fn, class_fn, glist(case_term(kind, r) for r in chunk))

            def consume(v, chunk=chunk, kind=kind):
                bs = [x == "true" for x in re.findall(r"true|false", v)]
                if len(bs) != 3 * len(chunk):
                    raise RuntimeError("cannot parse random-suite result: %s" % v[:300])
                k = "es" if kind == "es-api" else kind
                for j, r in enumerate(chunk):
                    agree, oracle, cls = bs[3 * j:3 * j + 3]
                    if not oracle:
                        su["oracle_bad"] += 1
                        report_oracle_failure(ctx, st, su, k, r["target"], r["ops"], r["outs"], cls, r["menu"],
                                              anomaly=("a call panicked: " + r["panicmsg"]) if r["panicmsg"] else
                                              ("another registry of the object was disturbed" if r["panic"] else None),
                                              panic=r["panic"])
                    if not agree:
                        su["agree_bad"] += 1
                        if su["first_agree"] is None:
                            su["first_agree"] = {x: r[x] for x in ("target", "ops", "outs", "lens")}

            batch.add(sum(len(r["ops"]) for r in chunk) * 8, term, consume)


RE_FUNCS = {  # kind -> agree, oracle, class, finding key
    "ls": ("re_ls_agree", "re_ls_oracle", "(fun _ => false)", None),
    "es": ("re_es_agree", "re_es_oracle", "re_es_class", KEY_CLOSURES),
    "api": ("re_api_agree", "re_api_oracle", "re_api_class", KEY_LIFECYCLE),
}


def step_term(kind, st, menu):
    if st[0] == "op":
        return "(OOp %s)" % op_term(kind, st[1], menu)
    if st[0] == "begin":
        return "(OBegin %s)" % op_term(kind, st[2], menu)
    if st[0] == "next":
        return "(ONext %s %s)" % (gN(st[1]), gN(st[2]))
    return "(OEnd %s)" % gN(st[1])


def flat_ops(ops):
    """all ops of a re-entrant call tree (for the harness-side finding-class predicate)"""
    res = []
    for o in ops:
        if o[0] == "fire" and o and isinstance(o[-1], list):
            res.append(o[:-1])
            for pos in o[-1]:
                res += flat_ops(pos or [])
        else:
            res.append(o)
    return res


def reent_suite(ctx, vh, batch, st, name, targets, n, replay=None):
    """Occurrences in progress: registry calls (and nested occurrences) made by the handlers of an
    occurrence, or by another goroutine while a handler waits, at every loop position."""
    su = st.suite("reentrant/" + name, "calls made while an occurrence is being dispatched: one call at one loop "
                  "position x registration prefixes (by the handler itself and by another goroutine) + random call trees")
    if replay is not None:
        args = ["-mode", "replay", "-target", replay["target"], "-ops", json.dumps(replay["ops"]),
                "-reent", 1 if replay.get("conc") else 0]
    else:
        args = ["-mode", "reent", "-target", ",".join(targets), "-seed", ctx.seed, "-n", n]
    rows = ctx.vh_jsonl(vh, "handlers", args)
    if rows is None:
        return
    by_kind = {}
    for r in rows:
        by_kind.setdefault(kind_of(r["target"]), []).append(r)
        inside = sum(1 for i, s_ in enumerate(r["steps"]) if s_[0] in ("op", "begin") and
                     any(x[0] == "begin" for x in r["steps"][:i]) and
                     sum(1 for x in r["steps"][:i] if x[0] == "begin") > sum(1 for x in r["steps"][:i] if x[0] == "end"))
        ctx.count(1, nontrivial_key=(r["target"], r["conc"], repr(r["ops"])) if inside else None,
                  dist="reentrant:%s:%s" % (name, "conc" if r["conc"] else "self"))
    su["total"] += len(rows)
    for kind, rs in by_kind.items():
        agree_fn, oracle_fn, class_fn, key = RE_FUNCS[kind]
        ctx.sample({"suite": "reentrant/" + name, "case": {x: rs[len(rs) // 3][x] for x in ("target", "conc", "ops", "steps")}})
        for c0 in range(0, len(rs), 40):
            chunk = rs[c0:c0 + 40]
            term = "flat_map (fun c => [%s c; %s c; %s c]) %s" % (
                agree_fn, oracle_fn, class_fn,
                glist(gpair(glist(step_term(kind, s_, r["menu"]) for s_ in r["steps"]), gbool(r["panic"])) for r in chunk))

            def consume(v, chunk=chunk, kind=kind):
                bs = [x == "true" for x in re.findall(r"true|false", v)]
                if len(bs) != 3 * len(chunk):
                    raise RuntimeError("cannot parse reentrant-suite result: %s" % v[:300])
                for j, r in enumerate(chunk):
                    agree, oracle, cls = bs[3 * j:3 * j + 3]
                    if not oracle:
                        su["oracle_bad"] += 1
                        runs = {}
                        for s_ in r["steps"]:
                            if s_[0] == "next":
                                runs.setdefault(s_[1], []).append(s_[2])
                        report_oracle_failure(ctx, st, su, kind, r["target"] + (" (calls made by another goroutine)" if r["conc"] else ""),
                                              r["ops"], "per occurrence %s" % sorted(runs.items()), cls, r["menu"],
                                              anomaly=("a call panicked: " + r["panicmsg"]) if r["panicmsg"] else
                                              ("another registry of the object was disturbed" if r["panic"] else None),
                                              panic=r["panic"], class_ops=flat_ops(r["ops"]),
                                              extra={"mode": "reent", "conc": r["conc"], "steps": r["steps"]})
                    if not agree:
                        su["agree_bad"] += 1
                        if su["first_agree"] is None:
                            su["first_agree"] = {x: r[x] for x in ("target", "conc", "ops", "steps")}

            batch.add(sum(len(r["steps"]) for r in chunk) * 10, term, consume)


# ---------------------------------------------------------------- linearizability of the registry calls
def lin_model_step(kind, state, op):
    """The atomic model of one call on a python state (dict name -> [on list, once list]); returns the
    output of an occurrence or None.  Mirrors step/estep/astep for the calls the lin suite makes:
    named handlers of a lifecycle family (kind api) are never registered ones."""
    name = op[0]
    e = op[1] if kind == "es" and name != "offall" else 0
    on, once = state.setdefault(e, [[], []])
    if name == "on":
        on.append(op[2] if kind == "es" else op[1])
    elif name == "once":
        once.append(op[2] if kind == "es" else op[1])
    elif name == "offall":
        for k in state:
            state[k] = [[], []]
    elif name == "off":
        hs = op[2] if kind == "es" else op[1]
        k = op[3] if kind == "es" else op[2]
        if len(hs) + k == 0:
            state[e] = [[], []]
        elif kind != "api":
            state[e] = [[h for h in on if h not in hs], [h for h in once if h not in hs]]
    elif name == "fire":
        out = on + once
        state[e] = [list(on), []]
        return out
    return None


def linearize(kind, calls):
    """Depth-first search for an order of `calls` that respects real time and explains every
    observed occurrence under the atomic model.  Returns the order (list of indexes) or None."""
    n = len(calls)
    order, seen = [], set()

    def freeze(state):
        return tuple(sorted((k, tuple(v[0]), tuple(v[1])) for k, v in state.items()))

    def rec(placed, state):
        if len(order) == n:
            return True
        key = (placed, freeze(state))
        if key in seen:
            return False
        seen.add(key)
        min_res = min(calls[i]["res"] for i in range(n) if not placed >> i & 1)
        for i in range(n):
            if placed >> i & 1 or calls[i]["inv"] > min_res:
                continue  # some unplaced call returned before this one was invoked
            st2 = {k: [list(v[0]), list(v[1])] for k, v in state.items()}
            out = lin_model_step(kind, st2, calls[i]["op"])
            if calls[i]["out"] is not None and out != calls[i]["out"]:
                continue
            order.append(i)
            if rec(placed | 1 << i, st2):
                return True
            order.pop()
        return False

    return order if rec(0, {}) else None


def lin_op_term(kind, op, menu):
    """model op of a call of the lin suite: not-registered handlers named by an Off are one fresh id"""
    if op[0] == "off":
        if kind == "es":
            hs = [fval(menu, h) for h in op[2]] + ([gpair(gN(77), gN(0))] if op[3] else [])
            return "(EOff %s %s)" % (gN(op[1]), glist(hs))
        hs = [gN(h) for h in op[1]] + ([gN(77)] if op[2] else [])
        return "(%s %s)" % ("AOff" if kind == "api" else "Off", glist(hs))
    return op_term(kind, op, menu)


def lin_suite(ctx, vh, batch, st, targets, rounds, absent=100000):
    """Atomicity of every registry call: concurrent histories must have a linearization."""
    su = st.suite("linearizable", "concurrent histories: 3 goroutines, a long Off (naming %d unregistered handlers) "
                  "with On/Once/Off/OffAll/occurrences of other goroutines falling inside it; a real-time-respecting "
                  "order explained by the atomic model must exist" % absent)
    rows = ctx.vh_jsonl(vh, "handlers", ["-mode", "lin", "-target", ",".join(targets), "-seed", ctx.seed,
                                         "-n", rounds, "-absent", absent])
    if rows is None:
        return
    su["total"] += len(rows)
    by_kind = {}
    for r in rows:
        kind = kind_of(r["target"])
        calls = r["calls"]
        longs = [c for c in calls if c["op"][0] == "off" and c["op"][-1] == absent and c["g"] > 0]
        inside = sum(1 for c in calls if c["g"] > 0 and any(l is not c and l["inv"] < c["inv"] < l["res"] for l in longs))
        ctx.count(1, nontrivial_key=(r["target"], repr(calls)) if inside else None,
                  dist="lin:%s:%d-calls-inside-a-long-off" % (kind, min(inside, 3)))
        order = None if r["panicmsg"] else linearize(kind, calls)
        if order is None:
            su["oracle_bad"] += 1
            su["unknown"] += 1
            pre = [c["op"] for c in calls if c["g"] == 0 and c["op"][0] != "fire"]
            conc = [(c["g"], c["op"], c["inv"], c["res"], c["out"]) for c in calls if c["g"] > 0 or c["op"][0] == "fire"]
            what = ("%s: concurrent history has no linearization (a registry call is not atomic%s): after the "
                    "sequential registrations %s, calls (goroutine, op [.., number of unregistered handlers named], "
                    "invoked, returned, occurrence ran) %s: no order respecting real time makes the atomic model "
                    "return these occurrences" % (
                        r["target"], ("; a call panicked: " + r["panicmsg"]) if r["panicmsg"] else "",
                        "".join(("+" if o[0] == "on" else "1") + str(o[-1]) for o in pre) + " (+h = On h, 1h = Once h)",
                        conc))
            st.pending.append((len(calls), what, {"kind": "failing-input", "engine": "handlers", "mode": "lin",
                                                  "target": r["target"], "ops": [c["op"] for c in calls],
                                                  "history": calls}))
            continue
        by_kind.setdefault("es-api" if kind == "es" and r["lens"] is None else kind, []).append((r, order))
    for kind, items in by_kind.items():
        ctx.sample({"suite": "linearizable", "case": {"target": items[0][0]["target"],
                                                      "calls": items[0][0]["calls"], "linearization": items[0][1]}})
        agree_fn, oracle_fn = {"ls": ("ls_agree", "ls_oracle"), "es": ("es_agree", "es_oracle"),
                               "es-api": ("es_agree_nolens", "es_oracle_nolens"),
                               "api": ("api_agree", "api_oracle")}[kind]
        mkind = "es" if kind == "es-api" else kind
        for c0 in range(0, len(items), 40):
            chunk = items[c0:c0 + 40]
            terms = []
            for r, order in chunk:
                calls = [r["calls"][i] for i in order]
                ops = glist(lin_op_term(mkind, c["op"], r["menu"]) for c in calls)
                outs = glist(glist(gN(x) for x in c["out"]) for c in calls if c["out"] is not None)
                stamps = glist(gpair(gN(c["inv"]), gN(c["res"])) for c in calls)
                if kind == "ls":
                    l = r["lens"]
                    case = gpair(ops, outs, "false", gpair(gN(l[0]), gN(l[1]), gN(l[2])))
                elif kind == "es":
                    case = gpair(ops, outs, "false", gpair(gN(r["lens"][0]), gN(r["lens"][1])))
                else:
                    case = gpair(ops, outs, "false")
                terms.append("(lin_order_ok %s && %s %s, %s %s)" % (stamps, agree_fn, case, oracle_fn, case))
            term = glist(terms)

            def consume(v, chunk=chunk):
                bs = [x == "true" for x in re.findall(r"true|false", v)]
                if len(bs) != 2 * len(chunk):
                    raise RuntimeError("cannot parse lin-suite result: %s" % v[:300])
                for j, (r, order) in enumerate(chunk):
                    if not bs[2 * j]:
                        su["agree_bad"] += 1
                        if su["first_agree"] is None:
                            su["first_agree"] = {"target": r["target"], "calls": r["calls"], "linearization": order,
                                                 "note": "the order found by the search is rejected by the Coq model"}
                    if not bs[2 * j + 1]:
                        su["oracle_bad"] += 1
                        su["unknown"] += 1
                        st.pending.append((len(r["calls"]), "%s: linearized history %s fails the specification" % (
                            r["target"], [r["calls"][i]["op"] for i in order]),
                            {"kind": "failing-input", "engine": "handlers", "mode": "lin", "target": r["target"],
                             "ops": [c["op"] for c in r["calls"]], "history": r["calls"]}))

            batch.add(sum(len(r["calls"]) for r, _ in chunk) * 10, term, consume)


def race_suite(ctx, vh, batch, st, handlers, goroutines, repeats):
    rows = []
    for rep in range(repeats):
        for tgt in ("ls", "es", "api:csock:Connect", "eapi:nsp"):
            r = ctx.vh_jsonl(vh, "handlers", ["-mode", "race", "-target", tgt, "-n", handlers,
                                              "-goroutines", goroutines, "-seed", ctx.seed + rep])
            if r is None:
                return
            rows += r
    terms = []
    for i, r in enumerate(rows):
        terms.append(gpair(glist(gpair(gN(c), gN(n)) for c, n in r["once_hist"]),
                           glist([gpair(gN(r["on_runs"]), gN(r["occurrences"])), gpair(gN(r["panics"]), gN(0))])))
        ctx.count(r["handlers"], nontrivial_key=("race", r["target"], i), dist="race:%s" % r["target"])
    ctx.sample({"suite": "race", "case": rows[0]})

    def consume(v):
        bs = [x == "true" for x in re.findall(r"true|false", v)]
        bad = [i for i, b in enumerate(bs) if not b]
        ctx.obligation("oracle:once-race", "oracle", not bad and len(bs) == len(rows),
                       "%d runs: %d goroutines producing occurrences against %d concurrent Once registrations each; "
                       "%d runs with a Once handler run twice or an On handler missed"
                       % (len(rows), goroutines, handlers, len(bad)))
        if len(bs) != len(rows):
            raise RuntimeError("cannot parse race result: %s" % v[:300])
        for i in bad[:3]:
            r = rows[i]
            ctx.violation("%s: with %d goroutines producing occurrences, Once handlers ran (count, handlers) = %s, "
                          "the On handler ran %d times in %d occurrences, %d occurrences panicked (%s)"
                          % (r["target"], r["goroutines"], r["once_hist"], r["on_runs"], r["occurrences"],
                             r["panics"], r["panicmsg"]),
                          {"kind": "failing-input", "engine": "handlers", "mode": "race", "case": r})

    batch.add(1, "map race_oracle %s" % glist(terms), consume)


def finish_suites(ctx, st):
    seen = set()
    for _, what, replay in sorted(st.pending, key=lambda x: (x[0], x[1])):
        k = (replay["target"], repr(replay["ops"]))
        if k in seen:
            continue
        seen.add(k)
        if len(seen) > 5:
            break
        ctx.violation(what, replay)
    for name, su in st.suites.items():
        ctx.obligation("correspondence:" + name, "correspondence", su["agree_bad"] == 0,
                       "%d call sequences (%s), %d differ from the model" % (su["total"], su["detail"], su["agree_bad"]))
        ctx.obligation("oracle:" + name, "oracle", su["unknown"] == 0,
                       "%d call sequences, %d fail the specification, %d of them outside the known finding classes"
                       % (su["total"], su["oracle_bad"], su["unknown"]))
        if su["agree_bad"] and su["unknown"] == 0:
            c = su["first_agree"]
            ctx.violation("%s no longer computes what the model Sio/HandlerStore.v computes (%d call sequences of suite "
                          "%s differ, none of them fails the specification outside a known finding class); first: %s"
                          % (c.get("target"), su["agree_bad"], name, c),
                          {"kind": "correspondence-broken", "suite": name, "theorems": THEOREMS, "case": c},
                          no_input=True)


def run(ctx):
    ctx.rule = ("enumerated: every call sequence of 4 (quick) / 5 (thorough) ops over fixed alphabets (12 ops on 3 handlers "
                "for handlerStore, 9 with sub-events, 15 ops on 2 events x 2 handlers and 10 with closures of one literal "
                "for eventHandlerStore), 3 (quick) / 4 (thorough) ops for each of the 17 public lifecycle families and the 3 "
                "public event APIs, each followed by closing occurrences; seeded random sequences up to 30 ops; concurrent "
                "once race (counted per Once handler). Non-trivial = at least one handler was run by some occurrence "
                "(distinct (target, sequence)).")
    ctx.trusted = ["Coq 8.16.1 kernel + vm_compute",
                   "hand-written model Sio/HandlerStore.v tied by kernel-evaluated correspondence (exhaustive-bounded + random)",
                   "harness cmd/vh handlers + hook store_verif.go (one occurrence = getAll, as the dispatch code does)",
                   "each registry method is one atomic step: its body runs under the registry mutex (read off store.go)",
                   "reflect.Value.Pointer() of a func is its code pointer; Go pointer equality"]
    ctx.assumptions = ["handler identity of the lifecycle layer is the address of a parameter copy (read off *_events.go, "
                       "validated by the api suites)", "sync.Mutex gives mutual exclusion"]
    ctx.proofs(modules=["Sio/HandlerStoreCheck"])
    vh = ctx.go_build()
    if vh is None:
        return
    q = ctx.quick
    batch, st = Batch(), State()
    rf = getattr(ctx, "replay_file", None)
    if rf:  # bin/check C18 --replay <file>: re-run the recorded call sequence on the working tree
        rp = json.load(open(rf))["replay"]
        if rp.get("mode") == "race":
            race_suite(ctx, vh, batch, st, 10000, 16, 3)
        elif rp.get("mode") == "lin":
            lin_suite(ctx, vh, batch, st, [rp["target"]], 200)
        elif rp.get("mode") == "reent":
            reent_suite(ctx, vh, batch, st, "replay", None, 0, replay=rp)
        else:
            random_suite(ctx, vh, batch, st, "replay", None, 1, 30, replay=rp)
        batch.run(ctx, "c18", jobs=1)
        finish_suites(ctx, st)
        return
    enum_suite(ctx, vh, batch, st, "store-core", ["ls"], "core", 1, 3 if q else 4)
    enum_suite(ctx, vh, batch, st, "store-subs", ["ls"], "subs", 1, 3 if q else 4)
    enum_suite(ctx, vh, batch, st, "events-core", ["es"], "core", 1, 2 if q else 3)
    enum_suite(ctx, vh, batch, st, "events-closures", ["es"], "closures", 1, 3 if q else 4)
    enum_suite(ctx, vh, batch, st, "api-lifecycle", API_TARGETS, "core", 0 if q else 1, 3)
    enum_suite(ctx, vh, batch, st, "api-events", EAPI_TARGETS, "core", 1, 2 if q else 3)
    enum_suite(ctx, vh, batch, st, "api-events-closures", EAPI_TARGETS, "closures", 0 if q else 1, 3)
    random_suite(ctx, vh, batch, st, "stores", ["ls", "es"], 200 if q else 3000, 30)
    random_suite(ctx, vh, batch, st, "api", API_TARGETS + EAPI_TARGETS, 15 if q else 300, 30)
    reent_suite(ctx, vh, batch, st, "stores", ["ls", "es"], 150 if q else 2000)
    reent_suite(ctx, vh, batch, st, "api", API_TARGETS + EAPI_TARGETS, 5 if q else 100)
    lin_suite(ctx, vh, batch, st, LIN_TARGETS, 20 if q else 250)
    race_suite(ctx, vh, batch, st, 10000, 16, 1 if q else 5)
    batch.run(ctx, "c18", jobs=8 if q else 14)
    st.refine.run(ctx, "c18_exact", jobs=8)
    finish_suites(ctx, st)
