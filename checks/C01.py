"""C01 - every event emitted on a connected socket reaches the peer exactly once, intact."""
from collections import Counter

from lib.vlib import gN, gbool, glist, gpair

# The model mirrors the code as it stands (Sio/EndToEnd.v cfg.client_strips_offset): the client's
# callEvent no longer drops a trailing string value (fix 6310e57).  The same constant is given to
# the harness (its own prediction) and to the Coq case, and `agree` checks they coincide.
CODE_STRIPS = False

HDR = "From SioV Require Import Base.GoSem Sio.EndToEnd Sio.EndToEndCheck.\n"


def conn_n(c):
    return gN(c if c >= 0 else 999)


def name_n(n):
    return gN(n if n >= 0 else 999)


def case_term(row):
    """Gallina literal of one recorded history.  Digests are interned per history (equal digest
    strings <-> equal small numbers), which keeps the literals short; equality is all the kernel
    functions use."""
    scn = row["scn"]
    ids = {}

    def gd(d):
        return gN(ids.setdefault(d, len(ids) + 1))

    flags = gpair(gbool(scn["recovery"]), gbool(scn["dir"] == "s2c"), gbool(CODE_STRIPS),
                  gbool(row.get("ws_att_in_flight", False)))
    nrows = []
    for i in scn["names"]:
        for r in regs_of(row, i):
            if r != 2:
                # alternative parameter types never end in a string kind (they are `any`)
                nrows.append(gpair(gN(i + 100 * r), gbool(row["trailing"][i] and r == 0), gbool(True)))
    names = glist(nrows)
    ems = []
    oregs = set()
    for e in row["emitted"]:
        for r in regs_of(row, e["n"]):
            if r == 2:       # Once registration: handled by once_ok
                oregs.add((e["c"], e["n"]))
            else:            # every On registration (primary / alternative parameter types) must be handed the event
                ems.append(gpair(gpair(conn_n(e["c"]), gN(e["n"] + 100 * r), gd(e["d"])), gbool(e["ok"])))
    for n in row["scn"]["names"]:
        if 2 in regs_of(row, n):
            for c in range(row["scn"]["clients"]):
                oregs.add((c, n))
    em = glist(ems)
    de = glist(gpair(conn_n(d["c"]), name_n(d["n"]), gd(d["d"])) for d in row["delivered"] if not 200 <= d["n"] < 300)
    ode = glist(gpair(conn_n(d["c"]), gN(d["n"] - 200), gd(d["d"])) for d in row["delivered"] if 200 <= d["n"] < 300)
    once = gpair(glist(gpair(conn_n(c), gN(n)) for c, n in sorted(oregs)), ode)
    probe = gpair(gN(row.get("probe_set", 0)), gN(row.get("probe_zero", 0)))
    # the type annotation makes elaboration of the long literal ~3x faster
    return "(%s : ccase)" % gpair(flags, names, em, de, probe, once)


def size_bucket(e):
    m = max(e["text"], e["att"])
    for lim, name in ((64, "<=64B"), (2048, "<=2KiB"), (32766, "<32KiB"), (32770, "32KiB+-1"), (65534, "<64KiB"),
                      (65538, "64KiB+-1"), (1 << 62, ">64KiB")):
        if m <= lim:
            return name


def regs_of(row, n):
    return row.get("regs", {}).get(str(n), [0])


def expected_delivered(row):
    """(expected, delivered) multisets of (connection, registration-tagged name index, digest); a Once
    registration (200+) expects exactly one of the events of its (connection, name): for the diagnosis
    the delivered Once entries that are legitimate are taken as expected."""
    E = Counter()
    once_need = {}
    for e in row["emitted"]:
        for r in regs_of(row, e["n"]):
            if r == 2:
                once_need.setdefault((e["c"], e["n"]), set()).add(e["d"])
            else:
                E[(e["c"], e["n"] + 100 * r, e["d"])] += 1
    D = Counter((d["c"], d["n"], d["d"]) for d in row["delivered"])
    for (c, n), ds in once_need.items():
        got = [k for k in D if k[0] == c and k[1] == n + 200]
        ok = [k for k in got if k[2] in ds]
        if len(got) == 1 and len(ok) == 1 and D[ok[0]] == 1:
            E[ok[0]] += 1
        else:
            E[(c, n + 200, "one-of-%d" % len(ds))] += 1
    return E, D


def describe(row, limit=6):
    """what failed in a history: per (name, kind) counts of lost / extra deliveries"""
    E, D = expected_delivered(row)
    names = row["names"]

    def nm(i):
        if 0 <= i < len(names):
            return names[i]["name"]
        if 0 <= i - 100 < len(names):
            return names[i - 100]["name"] + " (handler with other parameter types)"
        if 0 <= i - 200 < len(names):
            return names[i - 200]["name"] + " (Once handler)"
        return "decoy/foreign"
    lost = Counter(nm(k[1]) for k in (E - D).elements())
    extra = Counter(nm(k[1]) for k in (D - E).elements())
    return "lost %s, duplicated/foreign/altered %s, errors %s" % (dict(lost), dict(extra), row["errors"][:limit])


def run(ctx):
    ctx.rule = ("live sio<->sio scenarios: transports {polling, websocket, polling->websocket upgrade (settled and mid-upgrade)} "
                "x recovery {off,on} x direction {s2c,c2s} x 1..3 clients x 1..8 concurrent emitters; per name 1..3 handler "
                "registrations (On with the primary parameter types, On with OTHER parameter types - jsonparser.Binary / any / "
                "map / other structs -, Once), each registration's received arguments digest-compared; 17 event names "
                "(unicode, quotes, backslashes, trailing backslash, empty, a wire-lookalike) with typed handler signatures "
                "(numbers, strings, structs, maps, nested sio.Binary leaves, 0..4+ attachments), frame sizes "
                "{tiny, ~1 KiB, 32 KiB+-1, 64 KiB+-1, 100-300 KiB (thorough: up to 900 KB)}; one evaluation = one emitted "
                "event whose deliveries are counted and digest-compared; non-trivial = event with a binary attachment, a "
                "frame >= 1 KiB, or emitted concurrently with >= 2 emitters (distinct (scenario, conn, emitter, seq)); plus the "
                "held-transfer family: one long-polling GET response / POST kept back by an http.RoundTripper across the "
                "upgrade while the other transport streams (two transports feeding one parser), with a JSON library that is "
                "slow at reading event names so that windows between the Adds of one delivery are wide; and the connect-window "
                "family: server events emitted from a namespace middleware (parked by the client), at the top of OnConnection "
                "and by several goroutines while the first parked event's client handler BLOCKS (channel), plus client->server "
                "events emitted by that handler")
    ctx.trusted = ["Coq 8.16.1 kernel + vm_compute",
                   "hand-written composition model Sio/EndToEnd.v; component hypotheses are the theorems of C09/C10/C11/C13/C02/C18 "
                   "(discharged for the concrete codec of Sio/EndToEndInst.v), link reliability assumed",
                   "harness cmd/vh e2e (generator, canonical-tree digests computed independently from emitted and received "
                   "values, recorder), Go reflection, net/http, nhooyr websocket, TCP loopback"]
    ctx.assumptions = ["links (TCP/HTTP/websocket library) are reliable FIFO per connection",
                       "64-bit digests of canonical argument trees stand for the trees (deep comparison is done by digest)",
                       "handler entry order is not part of C01 (per-packet dispatch goroutines; C02)"]
    ok = ctx.proofs(modules=["Sio/EndToEndCheck"])
    vh = ctx.go_build()
    if vh is None:
        return
    args = ["-seed", ctx.seed, "-tier", ctx.tier, "-par", 8 if ctx.quick else 10]
    if CODE_STRIPS:
        args.append("-strips")
    rows = ctx.vh_jsonl(vh, "e2e", args, timeout=1500)
    if rows is None:
        return
    rows.sort(key=lambda r: r["scn"]["id"])
    usable = []
    for r in rows:
        if r["setup"]:
            # the rig did not come up three times in a row (ports, overload): environmental, no history
            ctx.indeterminate += 1
            ctx.note("scenario %d: rig set-up failed 3x: %s" % (r["scn"]["id"], r["setup"]))
            continue
        usable.append(r)
    if len(usable) * 4 < len(rows) * 3:
        ctx.violation("live rig could not be set up for %d of %d scenarios" % (len(rows) - len(usable), len(rows)),
                      {"kind": "correspondence-broken", "suite": "e2e-live", "notes": ctx.notes[-5:]}, no_input=True)
    for r in usable:
        scn = r["scn"]
        for e in r["emitted"]:
            nt = e["natt"] > 0 or e["text"] >= 1024 or scn["emitters"] >= 2
            ctx.count(1, nontrivial_key=("e", scn["id"], scn["seed"], e["c"], e["e"], e["s"]) if nt else None,
                      dist="%s/%s/%s/%s" % (scn["transport"] + ("-mid" if scn["mid"] else ""),
                                            "rec" if scn["recovery"] else "norec", scn["dir"], size_bucket(e)))
    for r in usable[:3]:
        ctx.sample({"suite": "e2e-live", "scenario": r["scn"], "emitted": len(r["emitted"]), "delivered": len(r["delivered"]),
                    "first_event": r["emitted"][0] if r["emitted"] else None, "errors": r["errors"][:3]})
    ctx.extra["scenarios"] = len(usable)
    ctx.extra["clients_emitters"] = sorted({(r["scn"]["clients"], r["scn"]["emitters"]) for r in usable})

    terms = [case_term(r) for r in usable]
    # oracle and agree in one kernel evaluation; evaluated separately only when something fails
    bad_both = ctx.coq_eval_cases("e2e_both", HDR, terms, "both", shard=4)
    bad_oracle, bad_agree = [], []
    if bad_both:
        sub = [terms[i] for i in bad_both]
        bad_oracle = [bad_both[j] for j in ctx.coq_eval_cases("e2e_oracle", HDR, sub, "oracle", shard=4)]
        bad_agree = [bad_both[j] for j in ctx.coq_eval_cases("e2e_agree", HDR, sub, "agree", shard=4)]
        if not bad_oracle and not bad_agree:
            raise RuntimeError("kernel evaluation inconsistent: both=false but oracle and agree hold")
    ctx.obligation("correspondence:e2e-live", "correspondence", not bad_agree,
                   "%d histories, %d not as the model predicts" % (len(usable), len(bad_agree)))
    ctx.obligation("oracle:e2e-live", "oracle", not bad_oracle,
                   "%d histories (%d events), %d violate exactly-once-intact" % (
                       len(usable), sum(len(r["emitted"]) for r in usable), len(bad_oracle)))
    for i in bad_oracle:
        r = usable[i]
        scn = r["scn"]
        # finding classes (decidable on the scenario + failing events); None = not a known class
        E, D = expected_delivered(r)
        lost_names = {k[1] % 100 for k in (E - D).elements()}
        extra = sum((D - E).values())
        key = None
        if extra == 0 and lost_names and scn["recovery"] and scn["dir"] == "s2c" and all(r["trailing"][n] for n in lost_names):
            key = "recovery-on:trailing-string-arg"
        what = ("scenario %d (%s%s%s, recovery %s, %s, %d client(s), %d emitter(s), size %s): %s" % (
            scn["id"], scn["transport"], " mid-upgrade" if scn["mid"] else "",
            (" held " + scn["held"]) if scn.get("held") else "", "on" if scn["recovery"] else "off",
            scn["dir"], scn["clients"], scn["emitters"], scn["size"], describe(r)))
        ctx.fail_or_known(key, what, {"kind": "failing-input", "engine": "e2e",
                                      "replay_cmd": "vh e2e -seed %s -tier %s -only %d" % (ctx.seed, ctx.tier, scn["id"]),
                                      "scenario": scn, "what": describe(r, 20),
                                      "disconnects": r["disc"], "complete": r["complete"]})
    if bad_agree and not bad_oracle:
        r = usable[bad_agree[0]]
        ctx.violation("recorded history of scenario %d is not what the model Sio/EndToEnd.v predicts although the property "
                      "oracle holds on it (theorems C01_* are about the model): %s" % (r["scn"]["id"], describe(r)),
                      {"kind": "correspondence-broken", "suite": "e2e-live",
                       "theorems": ["C01_exactly_once_intact", "C01_recovery_on_partial"], "scenario": r["scn"]},
                      no_input=True)
    return ok
