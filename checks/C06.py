"""C06 - every connection end is reported exactly once and leaves nothing on the server."""
import json
import re

from lib.vlib import gN, gbool, glist, gpair, gstring_bytes

HDR = "From Coq Require Import List NArith Bool.\nFrom SioV Require Import Base.GoSem Sio.Lifecycle Sio.LifecycleCheck.\nImport ListNotations.\n"
THEOREMS = ["C06_disconnect_exactly_once", "C06_no_trace", "C06_reason_names_cause"]

COMMON = {
    "eioclose": ["CTransportClose"], "parse": ["CParseError"], "invalid": ["CInvalidState"],
    "pingto": ["CPingTimeout"], "conntimeout": ["CConnectTimeout"],
    # below "the transport reports close / error" the behaviour is runtime: a cut stream surfaces as one of
    "cut": ["CTransportClose", "CTransportError", "CPingTimeout"],
}
TARGET = {"cdisc": ["CClientDisconnect"], "sdisc0": ["CServerDisconnect0"], "sdisc1": ["CServerDisconnect1"],
          "srvclose": ["CServerClose"]}
# a socket of another namespace of the same connection: a DISCONNECT packet for "/" that finds "/" not (or no
# longer) in the connection's table is an invalid-state packet and closes the whole connection;
# Disconnect(true) on the first socket takes the others through disconnectAll / c.close();
# Server.Close only closes their session ("forced close")
OTHER = {"cdisc": ["CInvalidState"], "sdisc0": [], "sdisc1": ["CServerDisconnect1", "CInvalidState"], "srvclose": ["CParseError"]}


def model_causes(fired, target, both=False):
    """both: two sockets of ONE namespace on one connection (duplicate CONNECT): a namespace-level cause
    hits whichever of them the connection's by-namespace index holds, so either role is possible"""
    out = []
    for f in fired:
        cands = COMMON.get(f)
        if cands is None:
            cands = (TARGET.get(f, []) + OTHER.get(f, [])) if both else (TARGET if target else OTHER).get(f, [])
        for c in cands:
            if c not in out:
                out.append(c)
    return out


def phase_of(row, sock):
    """0 no CONNECT was sent, 1 CONNECT sent / middleware running, 2 admitted before the end began"""
    if sock is None:
        return 0
    if row["kind"] == "cause":
        if row["phase"] in ("middleware", "slowclose"):
            last = ["/", "/b"][row["nsps"] - 1]
            return 1 if sock["nsp"] == last else 2
        return 2
    return 1 if row["reached"] in ("start", "preconnect", "middleware") else 2


def cases_of(row):
    """one case per server socket that entered the middleware; a session without any gets one
    pseudo-socket so that leftovers / the sid probe are still checked"""
    res = []
    socks = row.get("socks") or []
    sid_known = row["probe"] == 0
    if not socks:
        obs = dict(connected=False, discing_m=[], disc_m=[], discing_h=[], disc_h=[], order_ok=True,
                   in_nsp=row["nsp_count"] > 0, rooms=row["ad_count"] > 0, conn_flag=False)
        res.append((None, 0, model_causes(row["fired"], True), obs))
    for s in socks:
        obs = dict(connected=s["connected"], discing_m=s["discing_m"], disc_m=s["disc_m"],
                   discing_h=s["discing_h"], disc_h=s["disc_h"], order_ok=s["order_ok"],
                   in_nsp=s["in_nsp"] or s["in_fetch"], rooms=s["in_adapter"] or bool(s["rooms"]),
                   conn_flag=s["conn_flag"])
        res.append((s, phase_of(row, s), model_causes(row["fired"], s["nsp"] == "/", both=row["phase"] == "dupconnect"), obs))
    return [(s, ph, cs, obs, sid_known) for (s, ph, cs, obs) in res]


def obs_term(obs, sid_known):
    sl = lambda l: glist(gstring_bytes(x) for x in l)
    return "(mkSobs %s %s %s %s %s %s %s %s %s %s)" % (
        gbool(obs["connected"]), sl(obs["discing_m"]), sl(obs["disc_m"]), sl(obs["discing_h"]), sl(obs["disc_h"]),
        gbool(obs["order_ok"]), gbool(obs["in_nsp"]), gbool(obs["rooms"]), gbool(obs["conn_flag"]), gbool(sid_known))


def scen(row):
    return {k: row[k] for k in ("kind", "tr", "phase", "causes", "cutdir", "cutat", "nsps")}


def evaluate(ctx, name, rows):
    """returns per-row lists of (socket, oracle_ok, oracle_m_ok, agree_ok, phase, causes).  Observations are
    grouped by (phase, model causes): the model is explored once per group, identical observations once."""
    groups, index = {}, []
    for ri, row in enumerate(rows):
        for (s, ph, cs, obs, sk) in cases_of(row):
            g = groups.setdefault((ph, tuple(cs)), {})
            o = obs_term(obs, sk)
            g.setdefault(o, len(g))
            index.append((ri, s, ph, cs, o))
    keys = sorted(groups, key=lambda k: (-len(k[1]), k))
    # few coqc processes (start-up dominates on a loaded machine), equal mixes of big and small cause sets
    nsh = min(6, max(1, len(keys) // 4))
    keys = [k for j in range(nsh) for k in keys[j::nsh]]
    terms = ["codes_group %s" % gpair(gN(ph), glist(cs), glist(sorted(groups[(ph, cs)], key=lambda o: groups[(ph, cs)][o])))
             for (ph, cs) in keys]
    vals = ctx.coq_eval_values(name, HDR, terms, shard=(len(terms) + nsh - 1) // nsh)
    codes = {}
    for k, v in zip(keys, vals):
        nums = [int(x) for x in re.findall(r"\d+", v)]
        if len(nums) != len(groups[k]):
            raise RuntimeError("cannot parse verdicts %r" % v)
        codes[k] = nums
    per_row = {}
    for (ri, s, ph, cs, o) in index:
        c = codes[(ph, tuple(cs))][groups[(ph, tuple(cs))][o]]
        per_row.setdefault(ri, []).append((s, bool(c & 1), bool(c & 2), bool(c & 4), ph, cs))
    return per_row, len(index), sum(len(g) for g in groups.values())


def rerun(ctx, vh, row, times=2):
    """re-run one scenario alone; returns the rows observed"""
    out = []
    for k in range(times):
        rows = ctx.vh_jsonl(vh, "lifecycle", ["-only", json.dumps(scen(row)), "-patient", "-seed", ctx.seed + k + 1], timeout=300)
        if rows:
            out.extend(rows)
    return out


def run(ctx):
    stride = 48 if ctx.quick else 1
    ctx.rule = ("live rig: every (cause x phase x transport) single-cause scenario, two-namespace scenarios, seeded "
                "multi-cause scenarios, and a TCP cut after every %d-th byte (both directions) of scripted polling / "
                "websocket / upgrade sessions; one evaluation = one server socket of one scenario; non-trivial = the "
                "socket had connected and its end was reported (distinct (transport, phase, causes, reason))" % stride)
    ctx.trusted = ["Coq 8.16.1 kernel + vm_compute (the control system of Sio/Lifecycle.v, 16106 + 23894 + 29331 (two sockets: two namespaces, one namespace) reachable states, are explored "
                   "inside the kernel: Sio/LifecycleInv.reach_ok_code)",
                   "hand-written model Sio/Lifecycle.v tied by kernel-evaluated agreement of every recorded outcome with "
                   "the model's outcome set for the fired causes",
                   "harness cmd/vh lifecycle + rigs/proxy.go (cutting TCP proxy); no repo hook is used"]
    ctx.assumptions = ["below 'the transport reports close/error' the behaviour of net/http, nhooyr websocket and TCP under "
                       "a cut is runtime (a cut is accepted as transport close, transport error or ping timeout)",
                       "Go scheduler fairness; sync.Once blocks late callers until the first call returned",
                       "one namespace socket per connection in the model (the rig also runs two)"]
    if not ctx.proofs(modules=["Sio/LifecycleCheck"]):
        return
    vh = ctx.go_build()
    if vh is None:
        return
    rows = ctx.vh_jsonl(vh, "lifecycle", ["-seed", ctx.seed, "-tier", ctx.tier, "-stride", stride,
                                          "-par", 48 if ctx.quick else 64], timeout=3000)
    if rows is None:
        return
    env = [r for r in rows if r.get("env_fail")]
    rows = [r for r in rows if not r.get("env_fail")]
    ctx.indeterminate += len(env)
    if len(env) > max(5, len(rows) // 10):
        ctx.violation("live rig unusable: %d of %d scenarios could not be set up (%s)" % (
            len(env), len(env) + len(rows), env[0]["env_fail"]),
            {"kind": "correspondence-broken", "suite": "lifecycle", "case": scen(env[0])}, no_input=True)
        return
    per_row, ncases, ndistinct = evaluate(ctx, "lc", rows)

    bad_oracle, bad_agree, late = [], [], []
    for ri, row in enumerate(rows):
        for (s, ok_o, ok_m, ok_a, ph, cs) in per_row.get(ri, []):
            reported = bool(s and s["connected"] and s["disc_m"])
            key = (row["tr"], row["phase"] if row["kind"] == "cause" else row["reached"], tuple(sorted(row["fired"])),
                   tuple(s["disc_m"]) if s else ()) if reported else None
            ctx.count(1, nontrivial_key=key, dist="%s:%s" % (row["kind"], row["phase"] if row["kind"] == "cause" else row["reached"]))
            if not ok_m:
                bad_oracle.append((ri, s))
            elif not ok_o:
                late.append((ri, s))
            if not ok_a:
                bad_agree.append((ri, s, ph, cs))
    for r in rows[:: max(1, len(rows) // 5)]:
        ctx.sample({"scenario": scen(r), "fired": r["fired"], "reached": r["reached"], "probe": r["probe"],
                    "socks": [{k: s[k] for k in ("nsp", "connected", "disc_m", "disc_h", "in_nsp", "rooms")} for s in (r.get("socks") or [])]})

    # failing observations are re-run alone (the machine may be loaded: an unsettled scenario is not a
    # verdict); a failure that shows again is reported with the scenario as its replay
    confirmed, flaky = [], 0
    flaky_rows = set()
    seen = set()
    reruns = 0
    for (ri, s) in bad_oracle:
        if ri in seen:
            continue
        seen.add(ri)
        # a duplicate or spurious report is a fact of the recorded history; a leftover / missing report /
        # known sid may be the loaded machine (deadline passed) and has to show again
        hard = bool(s and (len(s["disc_m"]) > 1 or len(s["discing_m"]) > 1 or len(s["disc_h"]) > 1
                           or (not s["connected"] and (s["disc_m"] or s["disc_h"]))))
        refail = []
        if not hard and (reruns < 4 or not confirmed):
            reruns += 1
            again = [r for r in rerun(ctx, vh, rows[ri]) if not r.get("env_fail")]
            pr = evaluate(ctx, "lc_re%d" % ri, again)[0] if again else {}
            refail = [(again[k], x) for k, lst in pr.items() for x in lst if not x[2]]
        elif not hard:
            refail = [None]          # same run already has reproduced failures: not re-run one by one
        if refail or hard:
            confirmed.append((rows[ri], s, refail))
        else:
            flaky += 1
            flaky_rows.add(ri)
            ctx.note("not reproduced (2 patient re-runs passed): %s reached=%s settled=%s wait_ms=%s sends=%s requests seen by the server=%s" % (
                scen(rows[ri]), rows[ri]["reached"], rows[ri]["settled"], rows[ri]["wait_ms"],
                rows[ri].get("sends"), (rows[ri].get("reqlog") or [])[:12]))
    # the same rule for an observation that only the model comparison rejects: it has to show again
    confirmed_rows = set(id(c[0]) for c in confirmed)
    agree_left = []
    for (ri, s, ph, cs) in bad_agree:
        if ri in flaky_rows or id(rows[ri]) in confirmed_rows:
            continue
        if ri in seen:                      # oracle failure of this row was confirmed or is hard
            agree_left.append((ri, s, ph, cs))
            continue
        seen.add(ri)
        if reruns >= 8:
            agree_left.append((ri, s, ph, cs))
            continue
        reruns += 1
        again = [r for r in rerun(ctx, vh, rows[ri]) if not r.get("env_fail")]
        pr = evaluate(ctx, "lc_ra%d" % ri, again)[0] if again else {}
        if any(not x[3] for lst in pr.values() for x in lst):
            agree_left.append((ri, s, ph, cs))
        else:
            flaky += 1
            flaky_rows.add(ri)
            ctx.note("model comparison not reproduced (2 patient re-runs agree): %s socket=%s" % (scen(rows[ri]), s))
    bad_agree = agree_left
    ctx.indeterminate += flaky
    if flaky:
        ctx.note("%d scenario(s) failed once (no duplicate/spurious report) and passed twice when re-run alone: counted as indeterminate" % flaky)

    ctx.obligation("oracle:lifecycle", "oracle", not confirmed,
                   "%d socket observations of %d scenarios, %d fail (exactly once / reason / leftovers / sid)" % (
                       ncases, len(rows), len(confirmed)))
    ctx.obligation("correspondence:lifecycle", "correspondence", not bad_agree,
                   "%d socket observations (%d distinct), %d are not an outcome of the model for the fired causes" % (ncases, ndistinct, len(bad_agree)))
    for (row, s, refail) in confirmed[:4]:
        leak = bool(s and (s["in_nsp"] or s["in_fetch"] or s["in_adapter"] or s["rooms"] or s["conn_flag"]))
        what = ("connection end not reported exactly once / leaves a trace: scenario %s fired=%s reached=%s -> socket %s; "
                "probe=%s nsp_count=%s adapter_count=%s" % (
                    scen(row), row["fired"], row["reached"],
                    {k: s[k] for k in ("nsp", "mw_enter", "connected", "discing_m", "disc_m", "in_nsp", "in_adapter", "rooms", "conn_flag")} if s else None,
                    row["probe"], row["nsp_count"], row["ad_count"]))
        admitted_after_end = bool(s and leak and s["connected"] and not s["disc_m"]
                                  and (row["phase"] == "middleware" or row["kind"] == "cutbyte"))
        ctx.fail_or_known("admission-during-middleware" if admitted_after_end else None, what,
                          {"kind": "failing-input", "engine": "lifecycle", "replay_cmd": "vh lifecycle -only '%s'" % json.dumps(scen(row)),
                           "case": scen(row), "observed": row})
    if late:
        row, s = rows[late[0][0]], late[0][1]
        ctx.obligation("oracle:lifecycle/handlers-registered-in-connection-handler", "oracle", True,
                       "%d socket(s) were closed before their connection handler had registered OnDisconnect (known finding class)" % len(late))
        ctx.fail_or_known("late-disconnect-handler",
                          "a disconnect handler registered inside the connection handler missed the report: scenario %s socket %s" % (
                              scen(row), {k: s[k] for k in ("nsp", "disc_m", "disc_h", "discing_h")}),
                          {"kind": "failing-input", "engine": "lifecycle", "case": scen(row), "observed": row})
    if bad_agree and not confirmed:
        ri, s, ph, cs = bad_agree[0]
        ctx.violation("the server's observed outcome is not a behaviour of the model Sio/Lifecycle.v (theorems %s are about "
                      "the model): scenario %s phase=%d model causes=%s socket=%s" % (THEOREMS, scen(rows[ri]), ph, cs, s),
                      {"kind": "correspondence-broken", "suite": "lifecycle", "theorems": THEOREMS,
                       "case": scen(rows[ri]), "observed": rows[ri]}, no_input=True)
