"""C08 - state recovery replays exactly the missed packets, or falls back cleanly."""
import json
import os
import time

from lib.vlib import gZ, gN, gbool, glist, gopt

HDR = "From SioV Require Import Base.GoSem Adapter.Session Adapter.SessionCheck.\n"
KINDS = {0: "KEvent", 1: "KEventAck", 2: "KOther"}
THEOREMS = ["C08_restore_exact", "C08_no_gap", "C08_fallback_unknown_session", "C08_fallback_expired_session",
            "C08_fallback_unknown_offset", "C08_recovers_in_window", "C08_same_sid_rooms", "C08_many_sessions"]


def nl(xs):
    return glist(gN(x) for x in (xs or []))


def case_term(row):
    """sessCase (harness/cmd/vh/session.go) -> SessionCheck.scase literal.  Offset ids (yeast strings)
    are numbered 1.. in order of first appearance; offsets nobody was given get numbers from 900001."""
    ids = {}

    def idn(s):
        if s not in ids:
            ids[s] = len(ids) + 1
        return ids[s]

    unknown = [900000]

    def offn(s):
        if s in ids:
            return ids[s]
        unknown[0] += 1
        return unknown[0]

    ops = []
    for o in row["ops"]:
        if o["op"] == "T":
            continue
        t = gZ(2 * o["at"])
        if o["op"] == "B" and o.get("logged"):
            idn(o["id"])
        # (an id first seen in a log outside a broadcast would be an implementation invention: numbered too)
        log = nl([idn(s) for s in o["log"]])
        pids = nl(o["pids"])
        if o["op"] == "B":
            lid = idn(o["id"]) if o.get("logged") else 0
            wid = o.get("witid")
            ops.append("CB %s %s %s %s %s %s %s %s %s %s %s" % (
                t, KINDS[o.get("kind", 0)], nl(o.get("rooms")), nl(o.get("except")),
                gbool(o.get("logged", False)), gN(lid), gN(o.get("wit", 0)),
                gopt(gN(offn(wid))) if wid else "None", gN(o.get("witn", 0)), log, pids))
        elif o["op"] == "P":
            ops.append("CP %s %s %s %s %s %s" % (t, gN(o["sid"]), gN(o["pid"]), nl(o.get("rooms")), log, pids))
        elif o["op"] == "C":
            ops.append("CC %s %s %s" % (t, log, pids))
        elif o["op"] == "R":
            ok = o.get("ok", False)
            ops.append("CR %s %s %s %s %s %s %s %s %s %s" % (
                t, gN(o["pid"]), gN(offn(o["offid"])), gbool(ok),
                gN(max(o.get("rsid", 0), 0)), gN(max(o.get("rpid", 0), 0)), nl(o.get("rrooms")),
                nl([offn(s) for s in o["missed"] or []]), log, pids))
    return "mkS %s %s %s" % (gZ(row["w"]), nl(row.get("witrooms")), glist(ops))


def nontrivial_key(row):
    """Non-trivial = a restore succeeded with at least one missed packet after a clean-up pass or a
    time step, or a restore fell back although the session was known (expiry / collected offset)."""
    sawp = set()
    key = None
    disturbed = False
    for o in row["ops"]:
        if o["op"] in ("C", "T"):
            disturbed = True
        if o["op"] == "P":
            sawp.add(o["pid"])
        if o["op"] == "R":
            if o.get("ok") and o["missed"] and disturbed:
                key = True
            if not o.get("ok") and o["pid"] in sawp and o.get("off", 0) >= 0:
                key = True
    if not key:
        return None
    return tuple((o["op"], tuple(o.get("rooms") or ()), tuple(o.get("except") or ()), o.get("pid"), o.get("off"),
                  o.get("dt"), o.get("kind")) for o in row["ops"]) + (row["w"],)


def classify(row):
    """Finding class of a failing adapter history (decidable on the recorded history)."""
    return None


def history_suite(ctx, vh, name, args, shard=250):
    t0 = time.time()
    rows = ctx.vh_jsonl(vh, "session", args)
    ctx.note("suite %s: harness %.1fs" % (name, time.time() - t0))
    if rows is None:
        return
    late = [r for r in rows if r.get("late")]
    rows = [r for r in rows if not r.get("late")]
    ctx.indeterminate += len(late)
    terms = [case_term(r) for r in rows]
    for r in rows:
        ctx.count(1, nontrivial_key=nontrivial_key(r), dist="session:%s:%dops" % (name, 5 * (len(r["ops"]) // 5)))
    if rows:
        ctx.sample({"suite": "session/" + name, "case": rows[len(rows) // 2]}, limit=5)
    # one pass for the common case; the two functions separately only on the cases that fail it
    bad_both = ctx.coq_eval_cases("sess_both_" + name, HDR, terms, "both", shard=shard)
    sub = [terms[i] for i in bad_both]
    bad_oracle = [bad_both[j] for j in ctx.coq_eval_cases("sess_oracle_" + name, HDR, sub, "oracle", shard=shard)]
    bad_agree = [bad_both[j] for j in ctx.coq_eval_cases("sess_agree_" + name, HDR, sub, "agree", shard=shard)]
    if bad_both and not bad_oracle and not bad_agree:
        raise RuntimeError("both fails but neither agree nor oracle does")
    ctx.obligation("correspondence:session/" + name, "correspondence", not bad_agree,
                   "%d histories (%d late/indeterminate dropped), %d disagree" % (len(rows), len(late), len(bad_agree)))
    ctx.obligation("oracle:session/" + name, "oracle", not bad_oracle,
                   "%d histories, %d fail" % (len(rows), len(bad_oracle)))
    # shortest failing history first
    def rank(i):  # histories whose restores all report success first (a gap rather than a needless fallback)
        rs = [o for o in rows[i]["ops"] if o["op"] == "R"]
        return (0 if rs and all(o.get("ok") for o in rs) else 1, len(rows[i]["ops"]))
    for i in sorted(bad_oracle, key=rank)[:3]:
        ctx.fail_or_known(classify(rows[i]),
                          "session-aware adapter: history %s violates the recovery property (a restore reported "
                          "success with missing/extra/reordered packets or wrong sid/rooms, or fell back without "
                          "a reason, or an event was not given an offset)" % compact(rows[i]),
                          {"kind": "failing-input", "engine": "session", "suite": name, "case": rows[i]})
    if bad_agree and not bad_oracle:
        i = min(bad_agree, key=lambda i: len(rows[i]["ops"]))
        ctx.violation("session-aware adapter no longer computes what the model Adapter/Session.v computes "
                      "(theorems C08_* are about the model); first differing history %s" % compact(rows[i]),
                      {"kind": "correspondence-broken", "suite": "session/" + name, "theorems": THEOREMS,
                       "case": rows[i]}, no_input=True)


def compact(row):
    out = []
    for o in row["ops"]:
        if o["op"] == "B":
            out.append("B(to=%s,except=%s%s)->%s" % (o.get("rooms") or [], o.get("except") or [],
                                                     ",kind=%d" % o["kind"] if o.get("kind") else "", o.get("id", "-")))
        elif o["op"] == "P":
            out.append("P(pid=%d,sid=%d,rooms=%s)" % (o["pid"], o["sid"], o.get("rooms") or []))
        elif o["op"] == "C":
            out.append("Clean->log=%s" % o["log"])
        elif o["op"] == "T":
            out.append("T+%d" % o["dt"])
        else:
            out.append("R(pid=%d,off=%s)->%s" % (o["pid"], o["offid"],
                                                 ("ok missed=%s" % o["missed"]) if o.get("ok") else "no"))
    return "[w=%s/2 ticks] " % row["w"] + " ; ".join(out)


# ------------------------------------------------------------------ live end-to-end
def live_term(c):
    """c08LiveCase (harness/cmd/vh/session_live.go) -> SessionCheck.lcase literal, or None when the run
    was disturbed by the environment (timeouts) and says nothing."""
    if c.get("problems"):
        return None
    frames2 = c.get("frames2") or []
    has_marker = any(f["kind"] == "event" and f["tag"] == 0 for f in frames2)
    bins = {e["tag"]: bool(e.get("bin")) for e in c["emits"]}
    wf = True
    codes = []
    for f in frames2:
        if f["kind"] == "connect":
            codes.append(0)
        elif f["kind"] == "event" and f["tag"] == 0:
            break
        elif f["kind"] == "event" and f["tag"] > 0:
            codes.append(f["tag"])
            if not f.get("whole") or bool(f.get("bin")) != bins.get(f["tag"], False) or not f.get("off"):
                wf = False
            if f.get("bin") and f.get("att", 0) != 1:
                wf = False
        else:
            wf = False
    if not has_marker and wf:
        return None   # the stream just stopped (load): indeterminate
    if codes.count(0) != 1 or c.get("srv_sid2") != c.get("Sid2"):
        wf = False
    own = 100

    def opts(e):
        if e.get("direct"):
            return "(mkOpts [100%N] [])"
        return "(mkOpts %s %s)" % (nl(e.get("to")), nl(e.get("except")))

    h = []
    for e in c["emits"]:
        if e["phase"] == 0:
            h.append("ev 0%%Z (OBroadcast KEvent %s %s)" % (gN(e["tag"]), opts(e)))
    if c.get("persisted"):
        h.append("ev 0%%Z (OPersist (mkSess %s 1%%N %s))" % (gN(own), nl(sorted(c.get("joined") or []) + [own])))
    h += ["ev 0%Z OClean"] * c.get("clean0", 0)
    for e in c["emits"]:
        if e["phase"] == 1:
            h.append("ev 0%%Z (OBroadcast KEvent %s %s)" % (gN(e["tag"]), opts(e)))
            h += ["ev 0%Z OClean"] * e.get("clean", 0)
    same_sid = c.get("Sid2") == c.get("Sid1")
    sid = own if same_sid else 200
    pid2 = 1 if c.get("Pid2") == c.get("Pid1") else 2
    rooms = []
    for r in c.get("srv_rooms2") or []:
        if r == c.get("srv_sid2"):
            rooms.append(sid)
        elif r.startswith("r") and r[1:].isdigit():
            rooms.append(int(r[1:]))
        else:
            rooms.append(999)
    off = c["offtag"] if c.get("offtag") else 900001
    return "mkL %s %s %s 1%%N %s %s %s %s %s %s %s" % (
        gZ(c["window_ms"]), glist(h), gZ(c["elapsed_ms"]), gN(off),
        gbool(c.get("srv_recovered", False)), gN(sid), gN(pid2), nl(rooms), nl(codes), gbool(wf))


def live_suite(ctx, vh, name, args):
    t0 = time.time()
    rows = ctx.vh_jsonl(vh, "session", ["-mode", "live"] + args, timeout=600)
    ctx.note("suite %s: harness %.1fs" % (name, time.time() - t0))
    if rows is None:
        return
    keep, terms = [], []
    for r in rows:
        t = live_term(r)
        if t is None:
            ctx.indeterminate += 1
        else:
            keep.append(r)
            terms.append(t)
    for r in keep:
        replay = [f["tag"] for f in (r.get("frames2") or []) if f["kind"] == "event" and f["tag"] > 0]
        key = None
        if (r.get("srv_recovered") and replay) or (not r.get("srv_recovered") and r.get("offtag")):
            key = ("live", r["transport"], tuple(r.get("joined") or ()), r["offmode"], r["expire"], r["clean0"],
                   tuple((e["tag"], tuple(e.get("to") or ()), tuple(e.get("except") or ()), e.get("direct"),
                          e.get("bin"), e["phase"], e.get("clean")) for e in r["emits"]))
        ctx.count(1, nontrivial_key=key, dist="%s:%s:%s" % (name, r["transport"],
                                                           "recovered" if r.get("srv_recovered") else "fresh"))
    if keep:
        ctx.sample({"suite": "session/" + name, "case": keep[len(keep) // 2]}, limit=6)
    bad_both = ctx.coq_eval_cases("live_both_" + name.replace("-", "_"), HDR, terms, "both_live", shard=100)
    sub = [terms[i] for i in bad_both]
    bad_oracle = [bad_both[j] for j in ctx.coq_eval_cases("live_oracle_" + name.replace("-", "_"), HDR, sub, "oracle_live", shard=100)]
    bad_agree = [bad_both[j] for j in ctx.coq_eval_cases("live_agree_" + name.replace("-", "_"), HDR, sub, "agree_live", shard=100)]
    enough = len(keep) >= max(3, len(rows) // 3)
    ctx.obligation("correspondence:session/" + name, "correspondence", not bad_agree and enough,
                   "%d live histories (%d indeterminate), %d disagree" % (len(keep), len(rows) - len(keep), len(bad_agree)))
    ctx.obligation("oracle:session/" + name, "oracle", not bad_oracle and enough,
                   "%d live histories, %d fail" % (len(keep), len(bad_oracle)))
    if not enough:
        ctx.violation("live recovery rig: only %d of %d runs completed (timeouts) - the end-to-end tie could not be "
                      "established" % (len(keep), len(rows)),
                      {"kind": "correspondence-broken", "suite": "session/" + name,
                       "problems": [r.get("problems") for r in rows][:10]}, no_input=True)
    for i in bad_oracle[:3]:
        r = keep[i]
        ctx.fail_or_known(None,
                          "live: server with connection state recovery, client (%s) reconnecting with pid+offset of event "
                          "%s after emits %s (clean-up passes: %d after the drop, %s): server says recovered=%s sid-same=%s "
                          "rooms=%s, client got %s - violates the recovery property" % (
                              r["transport"], r["offtag"],
                              [(e["tag"], e.get("to"), e.get("except"), "direct" if e.get("direct") else "",
                                "bin" if e.get("bin") else "", "ph%d" % e["phase"]) for e in r["emits"]],
                              r["clean0"], [e.get("clean", 0) for e in r["emits"]], r.get("srv_recovered"),
                              r.get("Sid1") == r.get("Sid2"), r.get("srv_rooms2"),
                              [(f["kind"], f["tag"], f.get("att"), f.get("got"), f.get("raw")) for f in r.get("frames2") or []]),
                          {"kind": "failing-input", "engine": "session -mode live", "suite": name, "case": r})
    if bad_agree and not bad_oracle:
        i = bad_agree[0]
        ctx.violation("server socket layer no longer does what the model (Adapter/Session.v connect) does on a "
                      "reconnection; first differing live history: %s" % json.dumps(keep[i])[:600],
                      {"kind": "correspondence-broken", "suite": "session/" + name, "theorems": THEOREMS,
                       "case": keep[i]}, no_input=True)


# ------------------------------------------------------------------ one broadcast in flight vs one reconnection
CHDR = "From SioV Require Import Base.GoSem Adapter.Session Adapter.SessionCheck Adapter.SessionConc Adapter.SessionConcCheck.\n"


def conc_addressed(c):
    rooms = (c.get("sessrooms") or []) + [109]
    to, ex = c.get("to") or [], c.get("except") or []
    return ((not to) or any(r in to for r in rooms)) and not any(r in ex for r in rooms)


def conc_term(c):
    """c08ConcCase -> SessionConcCheck.ccase: the schedule is rebuilt from the implementation's event order
    (the log append of the code as modelled precedes the encoding of the payload)."""
    sched, begun, joined, joined_at_begin, visited = [], False, False, False, False
    addressed = conc_addressed(c)

    def begin():
        nonlocal begun, joined_at_begin
        if not begun:
            sched.append("SBegin")
            begun, joined_at_begin = True, joined

    for e in c["events"]:
        if e == "enc":
            sched.append("SAppend")
        elif e == "del:s9":
            begin()
            sched.append("SVisit")
            visited = True
        elif e.startswith("del:"):
            begin()
        elif e.startswith("restore:"):
            sched.append("SRestore")
        elif e == "join":
            sched.append("SJoin")
            joined = True
        elif e == "visible":
            if begun and joined_at_begin and addressed and not visited and "del:s9" not in c["events"]:
                sched.append("SVisit")   # visited before it became visible: sockets.Get failed, nothing delivered
                visited = True
            sched.append("SVisible")
        elif e == "env":
            if c["env"] == "C":
                sched.append("SEnv OClean")
            elif c["env"] == "PR":
                sched.append("SEnv (OPersist (mkSess 8%N 8%N [108%N]))")
                sched.append("SEnv (ORestore 8%%N %s)" % gN(c["offidx"] or 900001))
            elif c["env"] == "B":
                sched.append("SEnv (OBroadcast KEvent 777%N (mkOpts [99%N] []))")
        elif e == "ret":
            begin()
            if joined_at_begin and addressed and not visited:
                sched.append("SVisit")   # visited without a delivery (socket not yet visible)
                visited = True
            sched.append("SEnd")
    h = ["ev 0%%Z (OBroadcast KEvent %s (mkOpts [] []))" % gN(i + 1) for i in range(c["pre"])]
    h.append("ev 0%%Z (OPersist (mkSess 9%%N 9%%N %s))" % nl((c.get("sessrooms") or []) + [109]))
    return "mkCC 3600000%%Z 9%%N %s 500%%N %s %s %s %s %s %s %s %s %s" % (
        gN(c["offidx"] or 900001), nl(c.get("to")), nl(c.get("except")), glist(h), glist(sched),
        gbool(c["restore_ok"]), gN(c["missed_p"]), nl(c.get("missed_pre")), gN(c["live_p"]), gbool(c["logged"]))


def conc_key(c):
    """Finding class of a failing case, decided on the event order (mirrors key_in_flight / key_not_atomic)."""
    ev = c["events"]
    ri = next((i for i, e in enumerate(ev) if e.startswith("restore:true")), None)
    if ri is None:
        return None
    inlog = ev[ri].endswith(":1")
    total = c["missed_p"] + c["live_p"]
    vi = ev.index("visible") if "visible" in ev else len(ev)
    between = any(e == "enc" or e == "ret" or e.startswith("del:") for e in ev[ri + 1:vi])
    if total == 0 and conc_addressed(c) and between and not inlog:
        return "reconnect-not-atomic"
    before_ret = "ret" in ev[ri:]
    if inlog and before_ret and c["live_p"] >= 1 and (total == 2 or not conc_addressed(c)):
        return "reconnect-during-broadcast"
    return None


def conc_suite(ctx, vh, n):
    t0 = time.time()
    rows = ctx.vh_jsonl(vh, "session", ["-mode", "conc", "-seed", ctx.seed, "-n", n])
    ctx.note("suite conc: harness %.1fs" % (time.time() - t0))
    if rows is None:
        return
    terms = [conc_term(r) for r in rows]
    for r in rows:
        ev = r["events"]
        inside = any(e.startswith("restore") for e in ev) and "ret" in ev and \
            ev.index(next(e for e in ev if e.startswith("restore"))) < ev.index("ret") and "enc" in ev[:ev.index(next(e for e in ev if e.startswith("restore")))]
        key = None
        if inside:
            key = ("conc", tuple(tuple(x or ()) for x in r["others"]), tuple(r.get("sessrooms") or ()), tuple(r.get("to") or ()),
                   tuple(r.get("except") or ()), r["pos_restore"], r["pos_join"], r["pos_visible"], r["env"], r["env_pos"])
        ctx.count(1, nontrivial_key=key, dist="conc:%s" % ("inside-broadcast" if inside else "outside"))
    ctx.sample({"suite": "session/conc", "case": rows[len(rows) // 3]}, limit=7)
    bad_both = ctx.coq_eval_cases("conc_both", CHDR, terms, "both_conc", shard=200)
    sub = [terms[i] for i in bad_both]
    bad_oracle = [bad_both[j] for j in ctx.coq_eval_cases("conc_oracle", CHDR, sub, "oracle_conc", shard=200)]
    bad_agree = [bad_both[j] for j in ctx.coq_eval_cases("conc_agree", CHDR, sub, "agree_conc", shard=200)]
    # known classes: the Go-side classification and the Coq predicates must say the same thing
    keyed = {i: conc_key(rows[i]) for i in bad_oracle}
    for key, fn in (("reconnect-not-atomic", "key_not_atomic"), ("reconnect-during-broadcast", "key_in_flight")):
        idx = [i for i in bad_oracle if keyed[i] == key]
        wrong = ctx.coq_eval_cases("conc_" + fn, CHDR, [terms[i] for i in idx], fn, shard=200)
        for j in wrong:
            keyed[idx[j]] = None   # the two classifiers disagree: not excused
    unknown = [i for i in bad_oracle if keyed[i] is None]
    ctx.obligation("correspondence:session/conc", "correspondence", not bad_agree,
                   "%d placements of a reconnection around/inside a broadcast, %d disagree" % (len(rows), len(bad_agree)))
    ctx.obligation("oracle:session/conc", "oracle", not unknown,
                   "%d placements, %d fail (%d in known classes)" % (len(rows), len(bad_oracle), len(bad_oracle) - len(unknown)))
    seen = set()
    for i in bad_oracle:
        if keyed[i] and keyed[i] not in seen:
            seen.add(keyed[i])
            ctx.fail_or_known(keyed[i], conc_text(rows[i]), {"kind": "failing-input", "engine": "session -mode conc",
                                                              "case": rows[i]})
    for i in sorted(unknown, key=lambda i: len(rows[i]["events"]))[:3]:
        ctx.violation(conc_text(rows[i]), {"kind": "failing-input", "engine": "session -mode conc", "case": rows[i]})
    if bad_agree and not unknown:
        i = bad_agree[0]
        ctx.violation("session-aware adapter no longer interleaves a broadcast and a reconnection the way the model "
                      "Adapter/SessionConc.v does; first differing placement: %s" % conc_text(rows[i]),
                      {"kind": "correspondence-broken", "suite": "session/conc",
                       "theorems": ["C08_concurrent_no_gap", "C08_concurrent_exactly_once_partial"], "case": rows[i]},
                      no_input=True)


def conc_text(r):
    return ("broadcast to=%s except=%s with connected sockets in rooms %s; session rooms %s (offset = packet %s of %d "
            "logged before); reconnection steps at positions restore=%d join=%d visible=%d (-2 before the call, -1 while "
            "the payload is encoded, i = inside the i-th delivery callback)%s; events %s -> restore ok=%s, P replayed x%d, "
            "delivered live x%d (addressed=%s): the packet must reach a recovered session exactly once" % (
                r.get("to") or [], r.get("except") or [], r["others"], r.get("sessrooms") or [], r["offidx"], r["pre"],
                r["pos_restore"], r["pos_join"], r["pos_visible"],
                (", env %s at %d" % (r["env"], r["env_pos"])) if r["env"] else "", r["events"], r["restore_ok"],
                r["missed_p"], r["live_p"], conc_addressed(r)))


# ------------------------------------------------------------------ the offset-id generator (Adapter/Yeast.v)
YHDR = "From Coq Require Import List NArith.\nFrom SioV Require Import Adapter.Yeast Adapter.YeastCheck.\nImport ListNotations.\n"


def yeast_suite(ctx, vh, n_enc, n_calls, bursts):
    """Encode/Decode on boundary + random values below 2^53, and bursts of Yeast() calls laid across a change
    of the Unix second: the model must return the same strings; oracle = ids pairwise distinct."""
    t0 = time.time()
    enc = ctx.vh_jsonl(vh, "yeast", ["-mode", "enc", "-seed", ctx.seed, "-n", n_enc])
    runs = ctx.vh_jsonl(vh, "yeast", ["-mode", "run", "-n", n_calls, "-bursts", bursts])
    ctx.note("suite yeast: harness %.1fs" % (time.time() - t0))
    if enc is None or runs is None:
        return
    eterms = ["mkYE %s %s %s %s" % (gN(r["n"]), nl(r["s"]), gN(max(r["dec"], 0)), gbool(r["err"] or r["dec"] < 0))
              for r in enc]
    rterms = ["mkYR %s %s" % (nl(r["ts"]), glist(nl(i) for i in r["ids"])) for r in runs]
    for r in enc:
        ctx.count(1, nontrivial_key=("yenc", r["n"]) if r["n"] >= 64 else None, dist="yeast:enc:%ddigits" % len(r["s"]))
    for r in runs:
        ctx.count(1, nontrivial_key=("yrun", tuple(r["ts"][:1]), len(r["ts"])) if r["resets"] else None,
                  dist="yeast:run:%d-clock-changes" % r["resets"])
    if runs:
        ctx.sample({"suite": "yeast/run", "calls": len(runs[0]["ts"]), "clock_changes": runs[0]["resets"],
                    "first_ids": ["".join(map(chr, i)) for i in runs[0]["ids"][:3]]}, limit=2)
    bad_enc = ctx.coq_eval_cases("yeast_enc", YHDR, eterms, "agree_enc", shard=300)
    bad_run = ctx.coq_eval_cases("yeast_run", YHDR, rterms, "agree_run", shard=4)
    bad_orc = ctx.coq_eval_cases("yeast_oracle", YHDR, rterms, "oracle_run", shard=4)
    crossed = sum(1 for r in runs if r["resets"])
    ctx.obligation("correspondence:yeast/enc", "correspondence", not bad_enc,
                   "%d values below 2^53 (Encode, Decode of the result), %d disagree" % (len(enc), len(bad_enc)))
    ctx.obligation("correspondence:yeast/run", "correspondence", not bad_run and crossed > 0,
                   "%d bursts of %d Yeast() calls, %d across a change of the second, %d disagree" % (
                       len(runs), n_calls, crossed, len(bad_run)))
    ctx.obligation("oracle:yeast/run", "oracle", not bad_orc, "%d bursts, %d with a repeated id" % (len(runs), len(bad_orc)))
    for i in bad_orc[:1]:
        ids = ["".join(map(chr, x)) for x in runs[i]["ids"]]
        dup = sorted(set(x for x in ids if ids.count(x) > 1))[:3]
        ctx.violation("offset-id generator handed out the same id twice under a non-decreasing clock: %s "
                      "(a later packet carries an earlier packet's offset: a restore from it replays the wrong suffix)" % dup,
                      {"kind": "failing-input", "engine": "yeast -mode run", "case": runs[i]})
    if (bad_enc or bad_run or not crossed) and not bad_orc:
        what = ("Encode(%d) -> %r" % (enc[bad_enc[0]]["n"], "".join(map(chr, enc[bad_enc[0]]["s"])))) if bad_enc else (
            "burst %d" % bad_run[0] if bad_run else "no burst crossed a change of the second")
        ctx.violation("the offset-id generator no longer computes what the model Adapter/Yeast.v computes (%s); "
                      "theorem C08_offset_ids_distinct is about the model" % what,
                      {"kind": "correspondence-broken", "suite": "yeast", "theorems": ["C08_offset_ids_distinct"],
                       "case": enc[bad_enc[0]] if bad_enc else (runs[bad_run[0]] if bad_run else None)}, no_input=True)


# ------------------------------------------------------------------ clean-up passes / broadcasts inside the restore's filter loop
RHDR = "From SioV Require Import Base.GoSem Adapter.Session Adapter.SessionCheck Adapter.SessionSlice Adapter.SessionSliceCheck.\n"


def race_term(c):
    n0 = c["nold"] + 1 + len(c["missed"])
    l0 = ["pk %s 0%%Z 1%%N" % gN(i + 1) for i in range(c["nold"])]
    l0.append("pk %s 4%%Z 1%%N" % gN(c["nold"] + 1))
    l0 += ["pk %s 4%%Z %s" % (gN(c["nold"] + 2 + j), gN(r)) for j, r in enumerate(c["missed"])]
    acts, nxt = [], n0
    for x in c["actions"]:
        if x == "C":
            acts.append("TClean 5%Z")
        else:
            nxt += 1
            acts.append("TBroadcast (pk %s 5%%Z 1%%N)" % gN(nxt))
    return "mkRace %s 3%%Z [1%%N] %s %s %s %s %s %s %s %s %s" % (
        gbool(c["inside"]), gN(c["nold"] + 1), glist(l0), gnat_(c["fire_at"]), glist(acts),
        gnat_(len(c["missed"]) - c["fire_at"]), gbool(c["ok"]), gbool(c["panicked"]),
        nl([x if x > 0 else 999999 for x in c["replay"]]), nl(c["log_after"]))


def gnat_(n):
    return "%d%%nat" % n


def race_text(r):
    return ("log: %d packet(s) older than the window, the offset packet, then packets to rooms %s (session room 1); "
            "RestoreSession with %s fired from the %d-th Contains call of its filter loop (C = clean-up pass that trims, "
            "B = broadcast): ok=%s panic=%s replayed packets %s (numbered in emission order, offset = %d), disturbance "
            "completed inside the restore: %s; the replay must be every packet after the offset, in order, as of one "
            "instant" % (r["nold"], r["missed"], r["actions"], r["fire_at"], r["ok"], r["panicked"], r["replay"],
                         r["nold"] + 1, r["inside"]))


def race_suite(ctx, vh, n):
    t0 = time.time()
    rows = ctx.vh_jsonl(vh, "session", ["-mode", "race", "-seed", ctx.seed, "-n", n, "-tick", 50, "-par", 16])
    ctx.note("suite race: harness %.1fs" % (time.time() - t0))
    if rows is None:
        return
    late = [r for r in rows if r.get("late")]
    rows = [r for r in rows if not r.get("late")]
    ctx.indeterminate += len(late)
    terms = [race_term(r) for r in rows]
    for r in rows:
        trims = "C" in r["actions"] and r["nold"] > 0
        ctx.count(1, nontrivial_key=("race", r["nold"], tuple(r["missed"]), r["fire_at"], r["actions"]) if trims else None,
                  dist="race:%s" % ("trimming" if trims else "other"))
    if rows:
        ctx.sample({"suite": "session/race", "case": rows[len(rows) // 2]}, limit=8)
    bad_both = ctx.coq_eval_cases("race_both", RHDR, terms, "both_race", shard=200)
    sub = [terms[i] for i in bad_both]
    bad_oracle = [bad_both[j] for j in ctx.coq_eval_cases("race_oracle", RHDR, sub, "oracle_race", shard=200)]
    bad_agree = [bad_both[j] for j in ctx.coq_eval_cases("race_agree", RHDR, sub, "agree_race", shard=200)]
    enough = len(rows) >= max(10, (len(rows) + len(late)) // 2)
    ctx.obligation("correspondence:session/race", "correspondence", not bad_agree and enough,
                   "%d restores disturbed from inside the filter loop (%d late dropped), %d disagree" % (
                       len(rows), len(late), len(bad_agree)))
    ctx.obligation("oracle:session/race", "oracle", not bad_oracle and enough, "%d cases, %d fail" % (len(rows), len(bad_oracle)))
    if not enough:
        ctx.violation("race rig: only %d of %d runs were on time" % (len(rows), len(rows) + len(late)),
                      {"kind": "correspondence-broken", "suite": "session/race"}, no_input=True)
    for i in sorted(bad_oracle, key=lambda i: (rows[i]["panicked"], len(rows[i]["missed"])))[:3]:
        ctx.violation(race_text(rows[i]), {"kind": "failing-input", "engine": "session -mode race", "case": rows[i]})
    if bad_agree and not bad_oracle:
        i = bad_agree[0]
        ctx.violation("RestoreSession no longer behaves like the model Adapter/SessionSlice.v (Locked / Copy) when "
                      "disturbed from inside its filter loop: %s" % race_text(rows[i]),
                      {"kind": "correspondence-broken", "suite": "session/race",
                       "theorems": ["C08_restore_consistent_snapshot"], "case": rows[i]}, no_input=True)


def run(ctx):
    ctx.rule = ("histories of Broadcast(to/except, event / event-with-ack / ack) / PersistSession / clean-up pass / "
                "RestoreSession / time steps on the real session-aware adapter; non-trivial = a restore succeeded with "
                ">=1 missed packet after a clean-up pass or time step, or fell back for a known session "
                "(distinct histories)")
    ctx.trusted = ["Coq 8.16.1 kernel + vm_compute",
                   "hand-written model Adapter/Session.v tied by kernel-evaluated correspondence",
                   "harness cmd/vh session + hooks adapter/adapter_session_aware_verif.go, yield point session-cleaner",
                   "wall clock read by the adapter: compared through abstract ticks with a half-tick safety margin"]
    ctx.assumptions = ["yeast offset ids handed out along a history are pairwise distinct: proved for the generator's "
                       "model (C08_offset_ids_distinct, tied by suite yeast) under the next assumption, and checked on "
                       "every history",
                       "time.Now() is non-decreasing (necessary: C08_offset_ids_backwards_clock_refuted)"]
    t0 = time.time()
    ctx.proofs(modules=["Adapter/SessionCheck", "Adapter/SessionConcCheck", "Adapter/SessionSliceCheck", "Adapter/YeastCheck"])
    ctx.note("proofs+audit %.1fs" % (time.time() - t0))
    t0 = time.time()
    vh = ctx.go_build()
    ctx.note("go build %.1fs" % (time.time() - t0))
    if vh is None:
        return
    q = ctx.quick
    # development aid: VERIF_C08_SUITES=live,boundary runs a subset of the suites (never set by bin/check users)
    only = [x for x in os.environ.get("VERIF_C08_SUITES", "").split(",") if x]

    def want(name):
        return not only or name in only
    if only:
        ctx.note("restricted to suites %s" % only)
    if want("yeast"):
        yeast_suite(ctx, vh, 300 if q else 6000, 400 if q else 3000, 2 if q else 4)
    if want("exhaustive"):
        history_suite(ctx, vh, "exhaustive", ["-mode", "exhaustive", "-len", 4 if q else 5])
    if want("random"):
        history_suite(ctx, vh, "random", ["-mode", "random", "-seed", ctx.seed, "-n", 800 if q else 12000])
    if want("boundary"):
        history_suite(ctx, vh, "boundary", ["-mode", "boundary", "-tick", 20, "-par", 16])
    if want("live"):
        live_suite(ctx, vh, "live", ["-seed", ctx.seed, "-n", 24 if q else 240, "-par", 6])
    if want("live-binary"):
        live_suite(ctx, vh, "live-binary", ["-seed", ctx.seed + 1, "-n", 16 if q else 160, "-par", 6, "-bin"])
    if want("conc"):
        conc_suite(ctx, vh, 150 if q else 3000)
    if want("race"):
        race_suite(ctx, vh, 40 if q else 600)
    if want("timed"):
        history_suite(ctx, vh, "timed", ["-mode", "timed", "-seed", ctx.seed, "-n", 150 if q else 1500, "-tick", 20,
                                         "-par", 16])
