"""C16 - the public API is safe under arbitrary concurrent use: no deadlock, no mutex left held
(proved for rank-respecting lock use; tied to the code by regenerated lock facts + site-level
tracing), no data race (only explored, by the race detector)."""
import concurrent.futures as cf
import glob
import json
import os
import re
import shutil
import time

from lib import vlib
from lib.vlib import gN, gbool, glist, gpair

TOOL = os.path.join(vlib.VERIF, "tools", "lockclass")
THEOREMS = ["C16_rank_respecting_no_deadlock", "C16_no_reachable_deadlock", "C16_no_lock_leak",
            "C16_user_code_outside_locks", "C16_checked_graph_no_deadlock"]


# ------------------------------------------------------------------ static facts (translator)
def run_lockclass(ctx):
    """Build tools/lockclass (own module, offline) and run it on the working tree."""
    env = dict(vlib.GOENV)
    env["CGO_ENABLED"] = "0"
    binp = os.path.join(vlib.WORK, "lockclass.bin")
    with vlib._Flock(os.path.join(vlib.WORK, "lockclass.lock")):
        rc, log = vlib.sh(["go", "build", "-o", binp, "."], cwd=TOOL, env=env, timeout=600)
    if rc != 0:
        raise RuntimeError("tools/lockclass does not build:\n" + log[-2000:])
    outp = os.path.join(ctx.work, "lockfacts.json")
    rc, log = vlib.sh([binp, "-repo", ctx.repo, "-json", outp], env=env, timeout=600)
    if rc != 0:
        return None, log
    return json.load(open(outp)), log


def user_category(u):
    """category of a call-user site of the static table"""
    k, fn = u["kind"], u["func"]
    if "iddleware" in k or "iddleware" in fn:
        return "UMiddleware"
    if k == "reflect.Value.Call":
        return "UHandler"            # event and acknowledgement handlers (handler.go)
    if k.startswith("func-type sio."):
        return "UHandler"            # lifecycle handlers of the root package
    if "Creator" in k:
        return "UConfig"
    return "UInternal"               # engine.io / transport / parser callbacks wired by the library itself


def find_cycle(nodes, edges):
    """returns a list of edges forming a cycle, or None"""
    g = {}
    for a, b in edges:
        g.setdefault(a, []).append(b)
    color = {}
    stack = []

    def dfs(v):
        color[v] = 1
        stack.append(v)
        for w in g.get(v, []):
            if color.get(w, 0) == 0:
                r = dfs(w)
                if r:
                    return r
            elif color[w] == 1:
                i = stack.index(w)
                cyc = stack[i:] + [w]
                return list(zip(cyc, cyc[1:]))
        stack.pop()
        color[v] = 2
        return None

    import sys
    sys.setrecursionlimit(10000)
    for v in nodes:
        if color.get(v, 0) == 0:
            r = dfs(v)
            if r:
                return r
    return None


def rank_certificate(nodes, edges):
    """longest-path layering; edges that close a cycle are ignored (Coq then rejects them)"""
    g = {}
    for a, b in edges:
        if a != b:
            g.setdefault(a, set()).add(b)
    rank = {}
    state = {}

    def depth(v):
        if v in rank:
            return rank[v]
        if state.get(v) == 1:
            return 0                 # back edge
        state[v] = 1
        d = 0
        for w in g.get(v, ()):       # rank(v) < rank(w): compute from sinks upwards
            d = max(d, depth(w) + 1)
        state[v] = 2
        rank[v] = d
        return d

    for v in nodes:
        depth(v)
    top = max(rank.values()) if rank else 0
    return {v: top - rank[v] for v in nodes}   # sources low, sinks high


def rel_site(ctx, s):
    """/abs/repo/file.go:12 -> file.go:12"""
    for root in (os.path.realpath(ctx.repo), ctx.repo, "/repo"):
        if s.startswith(root.rstrip("/") + "/"):
            return s[len(root.rstrip("/")) + 1:]
    return s


# ------------------------------------------------------------------ dynamic runs
def run_traced(ctx, vh, n, seed, extra=(), budget="25s"):
    env = {"GOTRACEBACK": "all"}
    return ctx.vh_jsonl(vh, "concurrent", ["-seed", seed, "-n", n, "-budget", budget] + list(extra), timeout=1500, env=env)


def run_race(ctx, vh, n, seed, budget):
    logbase = os.path.join(ctx.work, "race-log")
    for f in glob.glob(logbase + "*"):
        os.remove(f)
    outp = os.path.join(ctx.work, "race.jsonl")
    env = {"GORACE": "halt_on_error=0 log_path=%s history_size=3" % logbase, "CGO_ENABLED": "1"}
    rc, log = ctx.vh(vh, ["concurrent", "-seed", seed, "-n", n, "-out", outp, "-budget", budget, "-optimeout", "40s"],
                     timeout=900, env=env)
    rows = []
    if os.path.exists(outp):
        for line in open(outp):
            line = line.strip()
            if line:
                try:
                    rows.append(json.loads(line))
                except ValueError:
                    pass
    text = ""
    for f in sorted(glob.glob(logbase + "*")):
        text += open(f, errors="replace").read()
    return rc, log, rows, text


def parse_races(ctx, text):
    """-> (repo_races, harness_races).  An access is attributed to the first frame outside the Go
    distribution: the repository / a library it uses, or the harness itself (the harness' own
    bookkeeping is not the property).  A race counts for the property when neither access is the
    harness'."""
    repo_races, other = [], []
    root = os.path.realpath(ctx.repo).rstrip("/") + "/"
    for blk in re.split(r"(?m)^={18}\n", text):
        if "WARNING: DATA RACE" not in blk:
            continue
        acc = []
        for sec in re.split(r"(?m)^(?=(?:Read|Write|Previous read|Previous write|Atomic read|Atomic write|Previous atomic read|Previous atomic write) at )", blk):
            if not re.match(r"(Read|Write|Previous|Atomic)", sec) or " at 0x" not in sec.split("\n")[0]:
                continue
            sec = re.split(r"(?m)^Goroutine \d+ \(", sec)[0]
            who = None
            for fm in re.finditer(r"\n\s+(/\S+\.go):(\d+)", sec):
                p = fm.group(1)
                if p.startswith("/usr/lib/go") or "/go/src/" in p or p.startswith("/usr/local/go"):
                    continue
                if p.startswith(root):
                    who = ("repo", "%s:%s" % (p[len(root):], fm.group(2)))
                elif "/harness/" in p:
                    who = ("harness", "%s:%s" % (os.path.basename(p), fm.group(2)))
                else:
                    who = ("lib", "%s:%s" % (p.split("/pkg/mod/")[-1], fm.group(2)))
                break
            acc.append(who or ("?", "?"))
        if not acc:
            continue
        sites = sorted(set(a[1] for a in acc))
        rec = {"key": "race:" + "|".join(sites), "sites": sites, "report": blk[:7000]}
        if any(a[0] == "repo" for a in acc) and not any(a[0] == "harness" for a in acc):
            repo_races.append(rec)
        else:
            other.append(rec)
    return repo_races, other


# ------------------------------------------------------------------ the check
def snapshot_repo(ctx):
    """The static facts, the traced build and the race build must see the same source lines, while
    other people commit to the repository during a run: everything works on one snapshot of the
    working tree taken at the start (constant path, so the Go build cache keeps hitting)."""
    import hashlib
    src = os.path.realpath(ctx.repo)
    dst = os.path.join(vlib.WORK, "C16-repo-" + hashlib.sha1(src.encode()).hexdigest()[:8])
    with vlib._Flock(dst + ".lock"):
        rc, log = vlib.sh(["rsync", "-a", "--delete", "--exclude", ".git", src + "/", dst + "/"], timeout=300)
        if rc != 0:
            shutil.rmtree(dst, ignore_errors=True)
            shutil.copytree(src, dst, ignore=shutil.ignore_patterns(".git"))
    return dst


def run(ctx):
    orig_repo = ctx.repo
    try:
        ctx.repo = snapshot_repo(ctx)
        _run(ctx)
    finally:
        ctx.repo = orig_repo


def _run(ctx):
    ctx.rule = ("seeded random concurrent programs (2..16 goroutines x 8..17 public-API operations, plus operations issued "
                "from event/ack/lifecycle/middleware handlers; GOMAXPROCS in {1,2,4,16}; yields between operations and at "
                "every 7th lock request) against a real server + 1..3 clients; non-trivial = a distinct nested acquisition "
                "(held site -> requested site) or a distinct goroutine trace with a nested acquisition or a handler entry")
    ctx.trusted = ["Coq 8.16.1 kernel + vm_compute",
                   "tools/lockclass (go/packages + go/ssa + VTA call graph; flow-sensitive may-hold analysis, summaries across calls)",
                   "instrumented copy of go-deadlock v0.3.1 (harness/third_party/go-deadlock), substituted through the repo's own sio_deadlock tag",
                   "harness cmd/vh concurrent (program generator, watchdog)", "Go race detector (exploration only)"]
    ctx.assumptions = ["sync.Mutex / RWMutex / Once grant a free lock (grants_free); Go scheduler weakly fair",
                       "absence of data races on fields accessed without a mutex is NOT proved, only explored under -race",
                       "lock classes are per field: rank discipline is checked per class, mutual exclusion is per instance"]
    ok = ctx.proofs(modules=["Sio/LockOrderCheck"])

    # ---- 1. translator: lock facts regenerated from the working tree
    t0 = time.time()
    facts, log = run_lockclass(ctx)
    if facts is None:
        ctx.obligation("translator:lockclass", "correspondence", False, log[-800:])
        ctx.violation("tools/lockclass cannot load the working tree", {"kind": "correspondence-broken",
                      "suite": "lockclass", "log": log[-3000:]}, no_input=True)
        return
    t_static = time.time() - t0
    classes = list(facts["classes"])
    site_class = {"%s:%d" % (s["file"], s["line"]): s["class"] for s in facts["sites"]}
    site_mode = {"%s:%d" % (s["file"], s["line"]): s["mode"] for s in facts["sites"]}
    static_edges = {(e["from"], e["to"]): e for e in facts["edges"] or []}
    ctx.obligation("translator:lockclass", "correspondence", not facts.get("unknown"),
                   "%d classes, %d lock sites, %d may-hold edges, %d call-user sites in %.1fs; unresolved: %s"
                   % (len(classes), len(facts["sites"]), len(static_edges), len(facts["usercalls"] or []), t_static,
                      facts.get("unknown")))
    if facts.get("unknown"):
        ctx.violation("lock operations whose mutex the translator cannot attribute to a class: %s" % facts["unknown"][:5],
                      {"kind": "correspondence-broken", "suite": "lockclass", "unknown": facts["unknown"]}, no_input=True)

    # ---- 2. builds (traced + race) and runs, in parallel with nothing else to do
    vh_t = ctx.go_build(tags="verif,sio_deadlock")
    if vh_t is None:
        return
    have_gcc = shutil.which("gcc") is not None
    vh_r = None
    if have_gcc:
        for attempt in range(2):   # the -race build of the standard library occasionally fails under load: one retry
            nv, no = len(ctx.violations), len(ctx.obligations)
            vh_r = ctx.go_build(tags="verif", race=True)
            if vh_r is not None or attempt == 1:
                break
            del ctx.violations[nv:]
            del ctx.obligations[no:]
    n_traced = 1000 if ctx.quick else 20000
    n_race = 1000 if ctx.quick else 20000
    race_budget = "25s" if ctx.quick else "300s"
    with cf.ThreadPoolExecutor(max_workers=3) as ex:
        f_tr = ex.submit(run_traced, ctx, vh_t, n_traced, ctx.seed, (), race_budget)
        f_mw = ex.submit(run_traced, ctx, vh_t, 1, ctx.seed + 1, ["-mwreentry", "-optimeout", "4s"])
        f_rc = ex.submit(run_race, ctx, vh_r, n_race, ctx.seed + 2, race_budget) if vh_r else None
        rows = f_tr.result()
        mwrows = f_mw.result()
        race = f_rc.result() if f_rc else None
    if rows is None:
        return
    scen = [r for r in rows if r.get("k") == "scenario"]
    tr = [r for r in rows if r.get("k") == "trace"]
    if not tr or not tr[0].get("traced"):
        ctx.obligation("tracing-active", "correspondence", False, "no lock operation reached the tracer")
        ctx.violation("the library's mutexes are not the instrumented ones (internal/sync no longer maps to go-deadlock "
                      "under the sio_deadlock tag?)", {"kind": "correspondence-broken", "suite": "tracing"}, no_input=True)
        return
    tr = tr[0]
    t = tr["trace"]

    # ---- 3. map observed sites to classes
    obs_sites = {rel_site(ctx, s): n for s, n in (t["sites"] or {}).items()}
    unknown_sites = sorted(s for s in obs_sites if s not in site_class)
    ctx.obligation("correspondence:lock-sites", "correspondence", not unknown_sites,
                   "%d of %d static lock sites exercised; observed sites missing from the static table: %s"
                   % (len(obs_sites) - len(unknown_sites), len(site_class), unknown_sites[:5]))
    if unknown_sites:
        ctx.violation("lock sites observed at run time that the translator did not find: %s" % unknown_sites[:6],
                      {"kind": "correspondence-broken", "suite": "lock-sites", "sites": unknown_sites,
                       "theorems": ["C16_checked_graph_no_deadlock"]}, no_input=True)
    cls_of_site = lambda s: site_class.get(rel_site(ctx, s), "?unknown-site:" + rel_site(ctx, s))
    for c in sorted(set(cls_of_site(s) for s in (t["sites"] or {}))):
        if c not in classes:
            classes.append(c)
    obs_edges = {}
    for a, b, n in t["edges"] or []:
        ca, cb = cls_of_site(a), cls_of_site(b)
        e = obs_edges.setdefault((ca, cb), {"n": 0, "sites": []})
        e["n"] += n
        if len(e["sites"]) < 3:
            e["sites"].append([rel_site(ctx, a), rel_site(ctx, b)])
        ctx.count(1, nontrivial_key=("edge", rel_site(ctx, a), rel_site(ctx, b)), dist="nested-acquisition-sites")

    # ---- 4. rank certificate over static + observed edges; LockFacts.v re-proved
    all_edges = set(static_edges) | set(obs_edges)
    cyc = find_cycle(classes, sorted(all_edges))
    rank = rank_certificate(classes, sorted(all_edges))
    cid = {c: i for i, c in enumerate(classes)}
    ucs = []
    for u in facts["usercalls"] or []:
        ucs.append((user_category(u), u))
    lf = ["(* generated by checks/C16.py from tools/lockclass output - do not edit *)",
          "From Coq Require Import List NArith Bool.", "Import ListNotations.",
          "From SioV Require Import Sio.LockOrder Sio.LockOrderProofs Sio.LockOrderCheck.", "Local Open Scope N_scope.",
          "(* classes:"] + ["   %d %s rank %d" % (i, c.replace("(*", "(ptr ").replace("*)", "* )"), rank[c]) for i, c in enumerate(classes)] + ["*)"]
    lf.append("Definition the_facts : facts := mkFacts %s\n  %s\n  %s\n  %s\n  %s." % (
        gN(len(classes)),
        glist(gN(rank[c]) for c in classes),
        glist(gpair(gN(cid[a]), gN(cid[b])) for a, b in sorted(static_edges)),
        glist(gpair(cat, glist(gN(cid[h]) for h in u["held"] or [])) for cat, u in ucs),
        glist(gpair(gbool(True), glist(gN(cid[c]) for c in l["classes"] if c in cid)) for l in facts["leaks"] or [])))
    lf.append("Definition observed : list (N * N) := %s." % glist(gpair(gN(cid[a]), gN(cid[b])) for a, b in sorted(obs_edges)))
    lf.append("Definition r_ranked := Eval vm_compute in check_ranked the_facts.")
    lf.append("Definition r_obs := Eval vm_compute in edges_ranked (f_rank the_facts) observed.")
    lf.append("Definition r_user := Eval vm_compute in check_user_outside the_facts.")
    lf.append("Definition r_user_strict := Eval vm_compute in check_user_outside_strict the_facts.")
    lf.append("Definition r_leak := Eval vm_compute in check_no_leak the_facts.")
    lf.append("Print r_ranked. Print r_obs. Print r_user. Print r_user_strict. Print r_leak.")
    rc, out = ctx.coq_run("LockFacts", "\n".join(lf) + "\n")
    if rc != 0:
        raise RuntimeError("LockFacts.v does not compile:\n" + out[-2000:])
    vals = dict(re.findall(r"(r_\w+) = (true|false)", out))
    # the combined theorem, only stated when the obligation holds
    if vals.get("r_ranked") == "true":
        thm = ["From Work Require Import LockFacts.",
               "From Coq Require Import List NArith Bool.",
               "From SioV Require Import Sio.LockOrder Sio.LockOrderProofs Sio.LockOrderCheck.",
               "Lemma facts_ranked : check_ranked the_facts = true. Proof. vm_compute. reflexivity. Qed.",
               "Theorem repo_lock_graph_deadlock_free : forall grant, grants_free ilock ilock_eqb grant ->",
               "  forall s0, (forall t, In t s0 -> held t = nil /\\ conforms (f_edges the_facts) nil (prog t) = true) ->",
               "  forall s, reachable ilock ilock_eqb grant s0 s ->",
               "  all_done ilock s = true \\/ exists s', step ilock ilock_eqb grant s s'.",
               "Proof. intros. eapply graph_no_deadlock; eauto. exact facts_ranked. Qed.",
               "Print Assumptions repo_lock_graph_deadlock_free."]
        rc2, out2 = ctx.coq_run("LockFactsThm", "\n".join(thm) + "\n")
        closed = rc2 == 0 and "Closed under the global context" in out2
        ctx.obligation("generated:repo_lock_graph_deadlock_free", "theorem", closed, out2[-300:] if not closed else
                       "check_ranked the_facts = true re-proved by vm_compute and combined with C16_checked_graph_no_deadlock")
        if not closed:
            ctx.violation("generated theorem repo_lock_graph_deadlock_free does not check", {"kind": "proof-broken",
                          "log": out2[-2000:]}, no_input=True)
    ranked_ok = vals.get("r_ranked") == "true"
    ctx.obligation("oracle:static-graph-ranked", "oracle", ranked_ok,
                   "check_ranked over %d regenerated edges / %d classes = %s" % (len(static_edges), len(classes), vals.get("r_ranked")))
    ctx.obligation("oracle:observed-edges-ranked", "oracle", vals.get("r_obs") == "true",
                   "%d distinct observed class edges (%d site pairs) respect the rank table: %s"
                   % (len(obs_edges), len(t["edges"] or []), vals.get("r_obs")))
    if cyc:
        desc = []
        for a, b in cyc:
            if (a, b) in static_edges:
                e = static_edges[(a, b)]
                desc.append({"held": a, "requested": b, "source": "static", "where": "%s:%d in %s" % (e["file"], e["line"], e["func"]),
                             "via": e["via"], "held_since": e["from_pos"], "requested_at": e["to_site"]})
            else:
                desc.append({"held": a, "requested": b, "source": "observed", "sites": obs_edges[(a, b)]["sites"]})
        key = "lock-order-cycle:" + "|".join(sorted(set(a for a, _ in cyc)))
        ctx.fail_or_known(key, "lock-order cycle (potential deadlock): " + " ; ".join(
            "%s held while requesting %s" % (d["held"], d["requested"]) for d in desc),
            {"kind": "failing-input", "engine": "lockclass+concurrent", "cycle": desc,
             "replay": "two goroutines, each executing one of the listed code paths on the same objects"})
    elif not ranked_ok or vals.get("r_obs") != "true":
        ctx.violation("rank check failed without a cycle being found (certificate / table mismatch)",
                      {"kind": "correspondence-broken", "suite": "rank-certificate", "values": vals,
                       "theorems": ["C16_checked_graph_no_deadlock"]}, no_input=True)

    # observed edges must have been predicted by the static may-hold graph
    missing = sorted(e for e in obs_edges if e not in static_edges)
    ctx.obligation("correspondence:observed-edges-in-static-graph", "correspondence", not missing,
                   "%d observed class edges, %d not predicted by tools/lockclass: %s" % (len(obs_edges), len(missing), missing[:4]))
    if missing:
        ctx.violation("nested acquisitions observed at run time that the static may-hold graph does not contain "
                      "(translator unsound here; the ranks were still checked on them): %s"
                      % [(a, b, obs_edges[(a, b)]["sites"][:1]) for a, b in missing[:4]],
                      {"kind": "correspondence-broken", "suite": "observed-edges-in-static-graph",
                       "theorems": ["C16_checked_graph_no_deadlock"],
                       "case": [{"held": a, "requested": b, "sites": obs_edges[(a, b)]["sites"]} for a, b in missing]}, no_input=True)

    # ---- 5. call-user table (static) and handler entries (dynamic)
    bad_static = [(cat, u) for cat, u in ucs if cat in ("UHandler", "UMiddleware") and u["held"]]
    ctx.obligation("oracle:static-user-code-outside-locks", "oracle", not [1 for cat, u in bad_static if cat == "UHandler"],
                   "check_user_outside = %s, strict (middlewares too) = %s over %d call-user sites (%d handler, %d middleware)"
                   % (vals.get("r_user"), vals.get("r_user_strict"), len(ucs),
                      sum(1 for c, _ in ucs if c == "UHandler"), sum(1 for c, _ in ucs if c == "UMiddleware")))
    for cat, u in bad_static:
        key = "user-code-under-lock:%s:%s" % ("handler" if cat == "UHandler" else "middleware", "+".join(u["held"]))
        ctx.fail_or_known(key, "user %s invoked at %s:%d (%s) while %s may be held: %s" % (
            "handler" if cat == "UHandler" else "middleware", u["file"], u["line"], u["func"], u["held"], u["how"]),
            {"kind": "failing-input", "engine": "lockclass", "site": "%s:%d" % (u["file"], u["line"]), "held": u["held"], "how": u["how"],
             "replay": "a handler registered for that call site which needs any of the held mutexes (e.g. registers a "
                       "handler/middleware on the same object) blocks forever"})
    if (vals.get("r_user") == "true") != (not [1 for cat, u in bad_static if cat == "UHandler"]):
        ctx.violation("Coq check_user_outside and the driver disagree", {"kind": "correspondence-broken", "suite": "user-table"}, no_input=True)
    leaks = facts["leaks"] or []
    ctx.obligation("oracle:static-no-lock-leak", "oracle", not leaks and vals.get("r_leak") == "true",
                   "check_no_leak = %s; functions that may return holding a lock they took: %s" % (vals.get("r_leak"), [l["func"] for l in leaks][:5]))
    for l in leaks[:3]:
        ctx.fail_or_known("lock-leak:" + l["func"], "%s may return with %s still held (a path without Unlock)" % (l["func"], l["classes"]),
                          {"kind": "failing-input", "engine": "lockclass", "function": l["func"], "classes": l["classes"],
                           "replay": "any call of the function taking that path leaves the mutex locked; the next Lock blocks forever"})
    dyn_bad = {}
    for v in t["user_bad"] or []:
        held = sorted(set(cls_of_site(s) for s in v["held"]))
        cat = "middleware" if v["tag"].startswith("mw:") else "handler"
        dyn_bad.setdefault((cat, tuple(held)), v)
    entries = sum((t["user"] or {}).values())
    ctx.obligation("oracle:handler-entries-hold-nothing", "oracle", not [1 for (c, _) in dyn_bad if c == "handler"],
                   "%d handler entries (%d kinds); with locks held: %s" % (entries, len(t["user"] or {}), sorted(dyn_bad)))
    for (cat, held), v in dyn_bad.items():
        key = "user-code-under-lock:%s:%s" % (cat, "+".join(held))
        ctx.fail_or_known(key, "%s %s entered while the calling goroutine holds %s" % (cat, v["tag"], list(held)),
                          {"kind": "failing-input", "engine": "concurrent", "seed": ctx.seed, "tag": v["tag"],
                           "held_sites": [rel_site(ctx, s) for s in v["held"]]})
    for tag, n in (t["user"] or {}).items():
        ctx.count(n, dist="handler-entry:" + tag.split(":")[0])

    # ---- 6. goroutine traces are threads of the model (kernel evaluation)
    traces = t["traces"] or []
    inst_cls = {}
    terms = []
    for trc in traces:
        ops = []
        for kind, site, inst in trc:
            if kind == "C":
                ops.append("(3, 0, 0)")
                continue
            c = cid.get(cls_of_site(site), 0)
            k = {"L": 0, "R": 1, "O": 1, "U": 2}[kind]
            ops.append("(%d, %d, %d)" % (k, c, inst))
        terms.append("(dec_trace %s)" % glist(ops))
        nested = any(k in "LRO" for k, _, _ in trc) and len(trc) > 2
        ctx.count(1, nontrivial_key=("trace", tuple((k, rel_site(ctx, s)) for k, s, _ in trc)) if nested else None,
                  dist="goroutine-trace")
    hdr = ("From Coq Require Import List NArith.\nImport ListNotations.\n"
           "From Work Require Import LockFacts.\nFrom SioV Require Import Sio.LockOrder Sio.LockOrderCheck.\n"
           "Local Open Scope N_scope.\n"
           "Definition oracle_ (t : trace) := trace_oracle (f_rank the_facts) t.\n"
           "Definition oracle_mw_ (t : trace) := ranked ilock ilock_eqb (irank (f_rank the_facts)) [] t.\n"
           "Definition agree_ (t : trace) := trace_agree (f_edges the_facts) t.\n")
    bad_o = ctx.coq_eval_cases("trace_oracle", hdr, terms, "oracle_", shard=100)
    bad_r = ctx.coq_eval_cases("trace_ranked", hdr, terms, "oracle_mw_", shard=100)
    bad_a = ctx.coq_eval_cases("trace_agree", hdr, terms, "agree_", shard=100)
    # traces failing only because a (known) middleware entry happened under its RLock are not rank failures
    bad_o_real = [i for i in bad_o if i in bad_r or not _only_known_user(ctx, traces[i], cls_of_site)]
    ctx.obligation("oracle:goroutine-traces", "oracle", not bad_o_real,
                   "%d sampled goroutine traces (of %d goroutines that took locks): rank-respecting, nothing held at the end, "
                   "user code entered with nothing held; failing: %d (rank/leak: %d)" % (len(traces), t["ntraces"], len(bad_o_real), len(bad_r)))
    ctx.obligation("correspondence:goroutine-traces-conform-to-static-graph", "correspondence", not bad_a,
                   "%d traces, %d with a nested acquisition outside the regenerated graph" % (len(traces), len(bad_a)))
    for i in bad_r[:2]:
        ctx.violation("a goroutine's lock trace violates the rank discipline or ends with a lock held: %s"
                      % [(k, rel_site(ctx, s), n) for k, s, n in traces[i]][:30],
                      {"kind": "failing-input", "engine": "concurrent", "seed": ctx.seed,
                       "trace": [(k, rel_site(ctx, s), cls_of_site(s) if k != "C" else "", n) for k, s, n in traces[i]]})
    if bad_a and not missing:
        ctx.violation("goroutine traces do not conform to the static graph although every observed edge is in it",
                      {"kind": "correspondence-broken", "suite": "goroutine-traces", "case": traces[bad_a[0]][:50]}, no_input=True)

    # ---- 7. watchdog, leaks, the original detector
    hangs = [(s["id"], h) for s in scen for h in (s.get("hangs") or [])]
    held_end = [(s["id"], h) for s in scen for h in (s.get("held_at_end") or [])]
    panics = [(s["id"], p) for s in scen for p in (s.get("panics") or [])]
    nops = sum(s.get("ops", 0) for s in scen)
    for s in scen:
        ctx.count(s.get("ops", 0), dist="ops:gomaxprocs=%d" % s["procs"])
        for k, n in (s.get("kinds") or {}).items():
            ctx.dist["op:" + k] = ctx.dist.get("op:" + k, 0) + n
    setup_err = [s for s in scen if s.get("err")]
    ctx.indeterminate += len(setup_err)
    ctx.obligation("oracle:every-operation-returns", "oracle", not hangs,
                   "%d scenarios, %d operations (%d issued from handlers), %d goroutines max; operations that never returned: %d; "
                   "scenarios with incomplete setup (counted indeterminate): %d"
                   % (len(scen), nops, sum(s.get("handler_ops", 0) for s in scen), max([s["goroutines"] for s in scen] or [0]),
                      len(hangs), len(setup_err)))
    for sid, h in hangs[:3]:
        s = [x for x in scen if x["id"] == sid][0]
        ctx.fail_or_known("hang:" + h["op"], "operation %s issued from %s never returned (%.0f s)" % (h["op"], h["where"], h["seconds"]),
                          {"kind": "failing-input", "engine": "concurrent", "seed": ctx.seed, "scenario": {k: s[k] for k in s if k != "stacks"},
                           "hang": h, "goroutines": (s.get("stacks") or "")[:20000],
                           "replay": "bin/check C16 with VERIF_SEED=%d (scenario %d)" % (ctx.seed, sid)})
    leak_real = [(sid, h) for sid, h in held_end]
    ctx.obligation("oracle:no-mutex-left-held", "oracle", not leak_real,
                   "locks still held after shutdown and quiescence: %s" % [(sid, rel_site(ctx, h["site"])) for sid, h in leak_real[:5]])
    for sid, h in leak_real[:3]:
        site = rel_site(ctx, h["site"])
        ctx.fail_or_known("mutex-left-held:" + cls_of_site(h["site"]),
                          "mutex %s locked at %s is still held after every operation returned and everything was closed"
                          % (cls_of_site(h["site"]), site),
                          {"kind": "failing-input", "engine": "concurrent", "seed": ctx.seed, "scenario": sid, "site": site,
                           "panics": [p for i, p in panics if i == sid][:5]})
    nrep = tr.get("reports", 0)
    real_rep = nrep and re.search(r"Recursive locking|Inconsistent locking", tr.get("report_text", ""))
    ctx.obligation("oracle:go-deadlock-detector", "oracle", not real_rep,
                   "reports of the original go-deadlock detector (recursive / inconsistent instance order): %d" % nrep)
    if real_rep:
        ctx.violation("go-deadlock reports a potential deadlock", {"kind": "failing-input", "engine": "concurrent",
                      "seed": ctx.seed, "report": tr.get("report_text", "")[:20000]})
    elif nrep:
        ctx.note("go-deadlock long-wait reports (diagnostic only): %d" % nrep)
    if panics:
        kinds = sorted(set("%s: %s" % (p["op"], p["msg"][:80]) for _, p in panics))
        ctx.note("operations that panicked (recovered by the harness; not this property unless a mutex stays held): %s" % kinds[:6])
    if t.get("cross_unlock"):
        ctx.note("locks released by another goroutine than the locker: %s" % {rel_site(ctx, k): v for k, v in t["cross_unlock"].items()})

    # ---- 8. known-finding probe: a namespace middleware registering a middleware
    if mwrows is not None:
        ms = [r for r in mwrows if r.get("k") == "scenario"]
        mh = [h for s in ms for h in (s.get("hangs") or []) if "Use(from middleware)" in h["op"]]
        ctx.obligation("probe:middleware-reentry", "oracle", True,
                       "Namespace.Use called from inside a namespace middleware: %s" % ("never returns" if mh else "returns"))
        if mh:
            ctx.fail_or_known("user-code-under-lock:middleware:sio.Namespace.middlewareFuncsMu",
                              "Namespace.Use called from inside a namespace middleware never returns (middlewares run under "
                              "middlewareFuncsMu.RLock)", {"kind": "failing-input", "engine": "concurrent", "args": "-mwreentry",
                                                           "hang": mh[0]})

    # ---- 9. race detector (exploration, not proof)
    if race is None:
        ctx.obligation("race-detector", "oracle", False, "gcc not available: -race build impossible")
        ctx.violation("race detector run impossible (no C compiler for CGO)", {"kind": "correspondence-broken", "suite": "race"}, no_input=True)
        return
    rrc, rlog, rrows, rtext = race
    rscen = [r for r in rrows if r.get("k") == "scenario"]
    races, harness_races = parse_races(ctx, rtext)
    if harness_races:
        ctx.note("race reports whose racing access is in the harness itself (not the property): %s"
                 % sorted(set(r["key"] for r in harness_races))[:5])
    nraw = rtext.count("WARNING: DATA RACE")
    if not rscen:
        ctx.obligation("race-detector", "oracle", False, rlog[-600:])
        ctx.violation("race-detector run produced no scenario (rc=%d)" % rrc, {"kind": "correspondence-broken", "suite": "race",
                      "log": rlog[-3000:]}, no_input=True)
        return
    rops = sum(s.get("ops", 0) for s in rscen)
    ctx.count(rops, dist="ops:race-build")
    uniq = {}
    for r in races:
        uniq.setdefault(r["key"], r)
    ctx.obligation("oracle:race-detector", "oracle", not uniq,
                   "%d scenarios / %d operations under -race: %d reports, %d with both accesses in the repository or its libraries, %d distinct site sets"
                   % (len(rscen), rops, nraw, len(races), len(uniq)))
    rh = [(s["id"], h) for s in rscen for h in (s.get("hangs") or [])]
    for sid, h in rh[:2]:
        ctx.fail_or_known("hang:" + h["op"], "operation %s issued from %s never returned under -race" % (h["op"], h["where"]),
                          {"kind": "failing-input", "engine": "concurrent(race build)", "seed": ctx.seed + 2, "hang": h})
    for key, r in list(uniq.items())[:8]:
        ctx.fail_or_known(key, "data race between %s" % " and ".join(r["sites"]),
                          {"kind": "failing-input", "engine": "concurrent (race build)", "seed": ctx.seed + 2, "report": r["report"]})
    ctx.sample({"suite": "concurrent", "scenario": {k: v for k, v in scen[0].items() if k not in ("stacks",)}} if scen else {})
    ctx.sample({"suite": "observed-edges", "first": [[a, b, e["n"]] for (a, b), e in sorted(obs_edges.items())[:8]]})
    ctx.extra["lock_classes"] = len(classes)
    ctx.extra["static_edges"] = len(static_edges)
    ctx.extra["observed_class_edges"] = len(obs_edges)
    ctx.extra["rank_table"] = {c: rank[c] for c in classes}


def _only_known_user(ctx, trace, cls_of_site):
    """the trace enters user code with locks held only at middleware entries"""
    held = 0
    for k, s, _ in trace:
        if k in "LRO":
            held += 1
        elif k == "U":
            held -= 1
        elif k == "C" and held > 0 and not s.startswith("mw:"):
            return False
    return True
