"""C03 - acks fire at most once, exactly once with a timeout, and carry the right reply."""
import concurrent.futures as cf
import json

from lib.vlib import gN, gnat, gbool, glist, gpair, gopt

HDR = "From SioV Require Import Base.GoSem Sio.Ack Sio.AckQueue Sio.AckCheck.\nImport ListNotations.\n"
THEOREMS = ["C03_at_most_once", "C03_no_invocation_while_reply_callback_runs", "C03_exactly_once_with_timeout", "C03_reply_matches_event",
            "C03_one_reply_per_event", "C03_purge_exact", "C03_no_mutex_left_held"]
KIND = {"T": 0, "K": 1, "N": 2}


def g_outcome(iv):
    if iv.get("other"):
        return None
    return "OTimeout" if iv["to"] else "(OReply [%s])" % gN(iv["code"])


def g_outcomes(invs):
    items = [g_outcome(iv) for iv in invs]
    if any(i is None for i in items):
        return None
    return glist(items)


def g_args_list(codes):
    return glist("[%s]" % gN(c) for c in codes)


# ------------------------------------------------------------------ purge suite
def purge_term(row):
    n = len(row["layout"])
    layout = glist(gpair(gnat(KIND[p["k"]]), gnat(p["n"])) for p in row["layout"])
    mutex_ok = (row["buf_ok"] and row["probe_ret"] and row["connected"] and not row["emit_blocked"]
                and row["pending"] != [-1])
    buf = glist(gpair(gopt(None if t < 0 else gnat(t)), gpair(gnat(max(pk, 0)), gnat(max(ix, 0))))
                for t, pk, ix in row["buf"])
    fix = lambda pk: n if pk == 99 else (4000 if pk < 0 else pk)  # probe -> the next packet number
    wire = glist(gpair(gnat(fix(pk)), gnat(max(ix, 0))) for pk, ix in row["wire"])
    before = [g_outcomes(x) for x in row["inv_before"]]
    after = [g_outcomes(x) for x in row["inv_after"]]
    if any(x is None for x in before + after):
        before = after = ["[OTimeout; OTimeout]"] * n  # an error other than the timeout reached a callback
    pend = glist(gnat(max(i, 0)) for i in row["pending"]) if row["pending"] != [-1] else "[]"
    return "(mkPcase %s %s %s %s %s %s %s)" % (layout, gbool(mutex_ok), buf, glist(before), wire, glist(after), pend)


def purge_what(row):
    bits = []
    if not row["buf_ok"] or row["emit_blocked"] or not row["probe_ret"] or not row["connected"]:
        bits.append("sendBufferMu left locked (buffer inspectable=%s, later Emit returned=%s, Connect completed=%s)"
                    % (row["buf_ok"], row["probe_ret"], row["connected"]))
    for p, ib in zip(row["layout"], row["inv_after"]):
        if p["k"] == "T" and len(ib) != 1:
            bits.append("timeout callback ran %d times" % len(ib))
    bits.append("buffer after timeouts %s, frames sent after Connect %s" % (row["buf"], row["wire"]))
    return "; ".join(bits)


def purge_suite(ctx, vh):
    args = ["-mode", "purge", "-seed", ctx.seed, "-tier", ctx.tier, "-n", 500 if ctx.quick else 0]
    rows = ctx.vh_jsonl(vh, "acks", args, timeout=600)
    if rows is None:
        return
    rows = [r for r in rows if not r.get("err")] or rows

    def evaluate(rows, tag):
        terms = [purge_term(r) for r in rows]
        if not ctx.coq_eval_cases("purge_both" + tag, HDR, terms, "pboth", shard=700):
            return [], []
        return (ctx.coq_eval_cases("purge_oracle" + tag, HDR, terms, "poracle", shard=700),
                ctx.coq_eval_cases("purge_agree" + tag, HDR, terms, "pagree", shard=700))

    bad_o, bad_a = evaluate(rows, "")
    suspects = sorted(set(bad_o) | set(bad_a))
    if suspects:
        # a late timer on a loaded machine looks like a missing callback: run the suspects again, one at
        # a time and with long patience; a real defect reproduces
        only = json.dumps([rows[i]["layout"] for i in suspects[:40]])
        again = ctx.vh_jsonl(vh, "acks", ["-mode", "purge", "-only", only, "-workers", 2, "-patience", 4000], timeout=900)
        if again is not None and len(again) == len(suspects[:40]):
            o2, a2 = evaluate(again, "_retry")
            for j, i in enumerate(suspects[:40]):
                rows[i] = again[j]
            ctx.note("purge: %d suspect layouts re-run with long patience, %d still fail" % (len(suspects[:40]), len(set(o2) | set(a2))))
            bad_o = sorted(set(suspects[j] for j in o2) | set(i for i in bad_o if i not in suspects[:40]))
            bad_a = sorted(set(suspects[j] for j in a2) | set(i for i in bad_a if i not in suspects[:40]))
    for r in rows:
        nt = sum(1 for p in r["layout"] if p["k"] == "T")
        multi = any(p["k"] == "T" and p["n"] >= 1 for p in r["layout"])
        ctx.count(1, nontrivial_key=("purge", json.dumps(r["layout"])) if multi else None,
                  dist="purge:%dT:%s" % (nt, "multi-frame" if multi else "single-frame"))
    ctx.sample({"suite": "purge", "case": {k: rows[len(rows) // 2][k] for k in ("layout", "buf", "wire", "inv_after")}})
    ctx.obligation("correspondence:purge", "correspondence", not bad_a, "%d layouts, %d disagree" % (len(rows), len(bad_a)))
    ctx.obligation("oracle:purge", "oracle", not bad_o, "%d layouts, %d fail" % (len(rows), len(bad_o)))
    for i in bad_o[:3]:
        ctx.violation("client ack timeout with frames buffered offline, layout %s (T = ack with 30 ms timeout, K = ack with long "
                      "timeout, N = no ack; n = attachments): %s" % (json.dumps(rows[i]["layout"]), purge_what(rows[i])),
                      {"kind": "failing-input", "engine": "acks", "mode": "purge", "layout": rows[i]["layout"],
                       "observed": rows[i],
                       "replay_cmd": "vh acks -mode purge -only '%s'" % json.dumps([rows[i]["layout"]])})
    if bad_a and not bad_o:
        i = bad_a[0]
        ctx.violation("client timeout/purge path no longer behaves as the model Sio/Ack.v (first differing layout %s: %s)"
                      % (json.dumps(rows[i]["layout"]), purge_what(rows[i])),
                      {"kind": "correspondence-broken", "suite": "purge", "theorems": THEOREMS, "case": rows[i]}, no_input=True)


# ------------------------------------------------------------------ live suites
def classify_race(spec, row):
    """0: reply side, far from the boundary; 1: timer side, far (or no reply can come); 2: either."""
    T, d = spec["timeout"], spec["delay"]
    if spec.get("order") in ("reply-first", "reply-held"):
        return 0
    if spec.get("order") in ("timer-first", "timer-held"):
        return 1
    if spec.get("order"):
        return 2
    if spec["conn"] == "cut":
        return 2
    if d < 0:
        return 1
    if spec["conn"] == "notyet":
        if T == 0:
            return 0
        if spec["after"] <= T // 4:
            return 0
        if spec["after"] >= 2 * T:
            return 1
        return 2
    if T == 0:
        return 0
    if d <= T // 4:
        return 0
    if d >= 2 * T:
        return 1
    return 2


def live_term(client, timeout, natt, conn, compliant, early, late, cls, invs, pending, usable, hold=False):
    obs = g_outcomes(invs)
    if obs is None:
        obs = "[OTimeout; OTimeout]"
    return "(mkLcase %s %s %s %s %s %s %s %s %s %s %s %s)" % (
        gbool(client), gbool(timeout), gnat(natt), gnat(conn), gbool(compliant), g_args_list(early),
        g_args_list(late), gnat(cls), obs, gbool(hold), gbool(pending), gbool(usable))


def race_cases(rows):
    """-> list of (term, description-dict, strict)"""
    out = []
    for r in rows:
        s = r["spec"]
        if r.get("err"):
            continue
        cls = classify_race(s, r)
        client = s["dir"] == "c2s"
        conn = {"connected": 0, "notyet": 1, "cut": 2}[s["conn"]]
        calls = s["calls"] if s["delay"] >= 0 else 0
        early = [r["code"] + c for c in range(calls)]
        # id of the emit under test: the others were emitted first
        my_id = s["many"]
        pending = my_id in r["pending"] or r["pending"] == [-1]
        hold = bool(s.get("hold")) or s.get("order", "").endswith("-held")
        out.append((live_term(client, s["timeout"] > 0, s["natt"], conn, True, early, [], cls, r["invs"], pending, r["usable"], hold),
                    {"spec": s, "invs": r["invs"], "peer_calls": r["peer_calls"], "pending": r["pending"], "usable": r["usable"]},
                    cls, r))
        for k, (invs, code) in enumerate(zip(r["others"], r["other_exp"])):
            out.append((live_term(client, False, 0, 0, True, [code], [], 0, invs, k in r["pending"], True),
                        {"spec": s, "other": k, "invs": invs}, 0, None))
    return out


def raw_cases(rows):
    out = []
    for r in rows:
        s = r["spec"]
        if r.get("err"):
            continue
        n_early = s["dups"] - s["late"]
        early = [r["code"] + d for d in range(n_early)]
        late = [r["code"] + d for d in range(n_early, s["dups"])]
        cls = 0 if early else 1
        pending = 0 in r["pending"] or r["pending"] == [-1]
        out.append((live_term(s["side"] == "client", s["timeout"] > 0, s["natt"], 0, False, early, late, cls,
                              r["invs"], pending, r["usable"], bool(s.get("hold"))),
                    {"spec": s, "invs": r["invs"], "pending": r["pending"], "usable": r["usable"]}, cls, r))
    return out


def live_what(d):
    s = d["spec"]
    invs = [("timeout" if i["to"] else ("error " + i["other"]) if i.get("other") else "reply(%d)" % i["code"]) for i in d["invs"]]
    return "emit %s: callback invocations %s (expected exactly one when a timeout is set, at most one otherwise, " \
           "reply = what the peer passed); pending=%s usable=%s" % (json.dumps(s), invs, d.get("pending"), d.get("usable"))


def live_suite(ctx, vh, name, mode, mk_cases):
    args = ["-mode", mode, "-seed", ctx.seed, "-tier", ctx.tier]
    rows = ctx.vh_jsonl(vh, "acks", args, timeout=900)
    if rows is None:
        return
    errs = [r for r in rows if r.get("err")]
    if errs:
        ctx.note("%s: %d scenarios could not be set up (%s), not counted" % (name, len(errs), errs[0]["err"]))
        ctx.indeterminate += len(errs)
    if len(errs) > len(rows) // 3:
        ctx.violation("live rig %s: %d of %d scenarios could not be set up (%s)" % (name, len(errs), len(rows), errs[0]["err"]),
                      {"kind": "correspondence-broken", "suite": name, "errors": [e["err"] for e in errs[:5]]}, no_input=True)
        return
    cases = mk_cases(rows)
    terms = [c[0] for c in cases]
    bad_o = bad_a = []
    if ctx.coq_eval_cases(name + "_both", HDR, terms, "lboth", shard=700):
        bad_o = ctx.coq_eval_cases(name + "_oracle", HDR, terms, "loracle", shard=700)
        bad_a = ctx.coq_eval_cases(name + "_agree", HDR, terms, "lagree", shard=700)
    suspects = [i for i in sorted(set(bad_o) | set(bad_a)) if cases[i][3] is not None]
    if suspects:
        # expectations far from the boundary rest on timing; a stalled machine can move a scenario across
        # it.  Re-run the suspects alone (twice); only a failure that reproduces every time counts.
        still = set(suspects)
        for attempt in range(2):
            if not still:
                break
            idx = sorted(still)[:24]
            only = json.dumps([cases[i][3]["spec"] for i in idx])
            again = ctx.vh_jsonl(vh, "acks", ["-mode", mode, "-only", only, "-workers", 1, "-patience", 4000,
                                              "-seed", ctx.seed + attempt], timeout=900)
            if again is None:
                break
            c2 = mk_cases(again)
            main = [c for c in c2 if c[3] is not None]
            if len(main) != len(idx):
                break
            t2 = [c[0] for c in main]
            o2 = set(ctx.coq_eval_cases("%s_oracle_retry%d" % (name, attempt), HDR, t2, "loracle"))
            a2 = set(ctx.coq_eval_cases("%s_agree_retry%d" % (name, attempt), HDR, t2, "lagree"))
            for j, i in enumerate(idx):
                if j not in o2 and j not in a2:
                    still.discard(i)
                else:
                    cases[i] = main[j]
        ctx.note("%s: %d suspect scenarios re-run alone, %d reproduce" % (name, len(suspects), len(still)))
        ctx.indeterminate += len(suspects) - len(still)
        bad_o = [i for i in bad_o if i in still or cases[i][3] is None]
        bad_a = [i for i in bad_a if i in still or cases[i][3] is None]
    for term, d, cls, r in cases:
        s = d["spec"]
        key = None
        if "other" not in d:
            key = (name, json.dumps(s, sort_keys=True))
        held = bool(s.get("hold")) or s.get("order", "").endswith("-held")
        ctx.count(1, nontrivial_key=key if (cls == 2 or held or s.get("natt", 0) > 0 or s.get("dups", 0) > 1) else None,
                  dist="%s:%s%s" % (name, ["reply-side", "timer-side", "boundary"][cls], ":slow-callback" if held and "other" not in d else ""))
    ctx.sample({"suite": name, "case": cases[len(cases) // 2][1]})
    ctx.obligation("correspondence:" + name, "correspondence", not bad_a, "%d emits, %d not explained by the model" % (len(cases), len(bad_a)))
    ctx.obligation("oracle:" + name, "oracle", not bad_o, "%d emits, %d fail" % (len(cases), len(bad_o)))
    for i in bad_o[:3]:
        ctx.violation("ack property violated on real sockets: " + live_what(cases[i][1]),
                      {"kind": "failing-input", "engine": "acks", "mode": mode, "case": cases[i][1],
                       "replay_cmd": "vh acks -mode %s -only '%s'" % (mode, json.dumps([cases[i][1]["spec"]]))})
    if bad_a and not bad_o:
        i = bad_a[0]
        ctx.violation("real sockets did something no schedule of the model Sio/Ack.v for that scenario does: " + live_what(cases[i][1]),
                      {"kind": "correspondence-broken", "suite": name, "theorems": THEOREMS, "case": cases[i][1]}, no_input=True)


def peer_suite(ctx, vh):
    rows = ctx.vh_jsonl(vh, "acks", ["-mode", "rawpeer", "-seed", ctx.seed, "-tier", ctx.tier], timeout=600)
    if rows is None:
        return
    rows = [r for r in rows if not r.get("err")]

    def term(r):
        s = r["spec"]
        cands = [1003 + c + 10 * h for h in range(s["hands"]) for c in range(s["calls"])]
        return "(mkKcase %s %s %s)" % (g_args_list(cands), gbool(not s["conc"]), g_args_list(r["seen"]))

    def evaluate(rows, tag):
        terms = [term(r) for r in rows]
        if not ctx.coq_eval_cases("peer_both" + tag, HDR, terms, "kboth"):
            return [], []
        return (ctx.coq_eval_cases("peer_oracle" + tag, HDR, terms, "koracle"),
                ctx.coq_eval_cases("peer_agree" + tag, HDR, terms, "kagree"))

    bad_o, bad_a = evaluate(rows, "")
    suspects = sorted(set(bad_o) | set(bad_a))
    if suspects:
        # "no ACK packet seen" can be a stalled machine: run the suspects again alone
        again = ctx.vh_jsonl(vh, "acks", ["-mode", "rawpeer", "-only", json.dumps([rows[i]["spec"] for i in suspects]),
                                          "-workers", 1, "-patience", 4000], timeout=600)
        if again is not None and len(again) == len(suspects) and not any(r.get("err") for r in again):
            o2, a2 = evaluate(again, "_retry")
            for j, i in enumerate(suspects):
                rows[i] = again[j]
            bad_o, bad_a = [suspects[j] for j in o2], [suspects[j] for j in a2]
            ctx.note("rawpeer: %d suspects re-run alone, %d reproduce" % (len(suspects), len(set(bad_o) | set(bad_a))))
    for r in rows:
        s = r["spec"]
        ctx.count(1, nontrivial_key=("peer", json.dumps(s, sort_keys=True)) if s["calls"] * s["hands"] > 1 else None,
                  dist="rawpeer:%s" % ("concurrent" if s["conc"] else "sequential"))
    ctx.obligation("correspondence:rawpeer", "correspondence", not bad_a, "%d events, %d disagree" % (len(rows), len(bad_a)))
    ctx.obligation("oracle:rawpeer", "oracle", not bad_o, "%d events, %d fail" % (len(rows), len(bad_o)))
    for i in bad_o[:3]:
        ctx.violation("one reply per event violated: %s socket answered an event whose handlers call the ack function "
                      "(%s) with ACK packets %s on the wire (expected exactly one, carrying the first call's arguments)"
                      % (rows[i]["spec"]["side"], json.dumps(rows[i]["spec"]), rows[i]["seen"]),
                      {"kind": "failing-input", "engine": "acks", "mode": "rawpeer", "case": rows[i],
                       "replay_cmd": "vh acks -mode rawpeer -only '%s'" % json.dumps([rows[i]["spec"]])})
    if bad_a and not bad_o:
        ctx.violation("answering side no longer behaves as the peer part of the model Sio/Ack.v: %s" % rows[bad_a[0]],
                      {"kind": "correspondence-broken", "suite": "rawpeer", "theorems": ["C03_one_reply_per_event"],
                       "case": rows[bad_a[0]]}, no_input=True)


def queue_suite(ctx, vh):
    """clientPacketQueue (Retries > 0) is outside the model; its at-most-once behaviour is probed directly."""
    rows = ctx.vh_jsonl(vh, "acks", ["-mode", "queue", "-seed", ctx.seed], timeout=300)
    if rows is None:
        return
    ok = True
    for r in rows:
        if r.get("err"):
            ctx.indeterminate += 1
            continue
        ctx.count(1, nontrivial_key=("queue", r["cut_at"]), dist="queue:%s" % ("reconnect" if r["cut_at"] >= 0 else "plain"))
        replay = {"kind": "failing-input", "engine": "acks", "mode": "queue", "case": r,
                  "replay_cmd": "vh acks -mode queue"}
        for which, invs in (("first", r["invs"]), ("second", r["invs2"])):
            if len(invs) > 1:
                what = ("client with Retries=%d, AckTimeout=%dms: callback of the %s queued packet ran %d times (%s) "
                        "(connection dropped %d ms after Emit, server answers after %d ms)"
                        % (r["retries"], r["timeout"], which, len(invs),
                           ["timeout" if i["to"] else "reply(%d)" % i["code"] for i in invs], r["cut_at"], r["delay"]))
                # finding class: Retries > 0 and a reconnect (forced drain) while an attempt is still pending
                if not ctx.fail_or_known("retry-queue-forced-drain" if r["retries"] > 0 and r["cut_at"] >= 0 else None, what, replay):
                    ok = False
        if r["cut_at"] < 0 and (len(r["invs"]) != 1 or r["invs"][0]["to"] or r["invs"][0]["code"] != 42):
            ok = False
            ctx.violation("client with Retries=%d: plain emit through the retry queue, callback got %s (expected one reply 42)"
                          % (r["retries"], r["invs"]), replay)
    ctx.obligation("oracle:queue", "oracle", ok, "%d scenarios (failures in the listed known-finding class retry-queue-forced-drain are reported as KNOWN-FINDING, any other fails this obligation)" % len(rows))


def queuewin_suite(ctx, vh):
    """Retry queue (Retries = 1): a second Emit runs, synchronously, at a chosen log line of the reply / timeout /
    retry / discard path of the first packet (public ManagerConfig.Debugger); model Sio/AckQueue.v."""
    rows = ctx.vh_jsonl(vh, "acks", ["-mode", "queuewin", "-seed", ctx.seed, "-tier", ctx.tier], timeout=300)
    if rows is None:
        return

    def term(r):
        s = r["spec"]
        o0, o1 = g_outcomes(r["invs0"]), g_outcomes(r["invs1"])
        if o0 is None or o1 is None:
            o0 = o1 = "[OTimeout; OTimeout]"
        pos = s["pos"] if (r["fired"] or not s["word"] or r.get("hung")) else 99
        return "(mkQcase %s %s %s %s %s %s)" % (gnat(s["kind"]), gnat(pos), o0, o1, gnat(min(r["seen0"], 50)), gnat(min(r["seen1"], 50)))

    def evaluate(rows, tag):
        terms = [term(r) for r in rows]
        if not ctx.coq_eval_cases("qwin_both" + tag, HDR, terms, "qboth"):
            return [], []
        return (ctx.coq_eval_cases("qwin_oracle" + tag, HDR, terms, "qoracle"),
                ctx.coq_eval_cases("qwin_agree" + tag, HDR, terms, "qagree"))

    good = [r for r in rows if not r.get("err")]
    ctx.indeterminate += len(rows) - len(good)
    rows = good
    bad_o, bad_a = evaluate(rows, "")
    suspects = sorted(set(bad_o) | set(bad_a))
    if suspects:
        # a reply slower than AckTimeout (250 ms) on a stalled machine adds a retry: re-run the suspects alone
        again = ctx.vh_jsonl(vh, "acks", ["-mode", "queuewin", "-only", json.dumps([rows[i]["spec"] for i in suspects]),
                                          "-workers", 1, "-patience", 3000], timeout=600)
        if again is not None and len(again) == len(suspects) and not any(r.get("err") for r in again):
            o2, a2 = evaluate(again, "_retry")
            for j, i in enumerate(suspects):
                rows[i] = again[j]
            bad_o, bad_a = [suspects[j] for j in o2], [suspects[j] for j in a2]
            ctx.note("queuewin: %d suspects re-run alone, %d reproduce" % (len(suspects), len(set(bad_o) | set(bad_a))))
    unfired = [r["spec"] for r in rows if r["spec"]["word"] and not r["fired"]]
    if unfired:
        ctx.note("queuewin: %d windows were never reached (log lines changed?): %s" % (len(unfired), unfired[:3]))
    for r in rows:
        s = r["spec"]
        ctx.count(1, nontrivial_key=("qwin", s["kind"], s["word"], s["occ"]) if r["fired"] else None,
                  dist="queuewin:%s" % ["answered", "retried", "discarded"][s["kind"]])
    ctx.obligation("correspondence:queuewin", "correspondence", not bad_a and len(unfired) <= 2,
                   "%d interleavings, %d disagree, %d windows not reached" % (len(rows), len(bad_a), len(unfired)))
    ctx.obligation("oracle:queuewin", "oracle", not bad_o, "%d interleavings, %d fail" % (len(rows), len(bad_o)))
    fmt = lambda invs: ["timeout" if i["to"] else "reply(%d)" % i["code"] for i in invs]
    for i in bad_o[:3]:
        r = rows[i]
        ctx.violation("client with Retries=1, AckTimeout=250ms: Emit(\"q\",1,cb1), and a second Emit(\"q\",2,cb2) running when the "
                      "client logs %r (occurrence %d; server policy %s): cb1 got %s, cb2 got %s, server received the packets %d / %d "
                      "times (expected: each callback exactly once with its own outcome)"
                      % (r["spec"]["word"] or "<afterwards>", r["spec"]["occ"],
                         ["answers at once", "ignores the first attempt", "never answers packet 1"][r["spec"]["kind"]],
                         fmt(r["invs0"]) if not r.get("hung") else "nothing: the socket is wedged (an Emit or Close never returned)",
                         fmt(r["invs1"]), r["seen0"], r["seen1"]),
                      {"kind": "failing-input", "engine": "acks", "mode": "queuewin", "case": r,
                       "replay_cmd": "vh acks -mode queuewin -only '%s'" % json.dumps([r["spec"]])})
    if (bad_a and not bad_o) or len(unfired) > 2:
        r = rows[bad_a[0]] if bad_a else {"spec": unfired[0]}
        ctx.violation("client retry queue no longer behaves as the model Sio/AckQueue.v (or its log lines moved): %s" % json.dumps(r)[:600],
                      {"kind": "correspondence-broken", "suite": "queuewin",
                       "theorems": ["C03_queue_at_most_once_partial", "C03_queue_head_pending_until_shifted"], "case": r},
                      no_input=True)


def run(ctx):
    ctx.rule = ("purge: every layout of <=2 packets and a seeded sample (quick) / all (thorough) of the 3-packet layouts over "
                "{T,K,N} x 0..3 attachments, non-trivial = a timed-out packet with >=1 attachment; live: one case per emitted "
                "packet with an ack callback, non-trivial = boundary class, attachments, or duplicated replies (distinct specs)")
    ctx.trusted = ["Coq 8.16.1 kernel + vm_compute", "hand-written model Sio/Ack.v tied by kernel-evaluated correspondence",
                   "harness cmd/vh acks (raw Engine.IO peers, yield gate) + hooks handler_verif.go, verifhook.Yield in the ack timer",
                   "Go runtime: timers never fire early, scheduler fairness"]
    ctx.assumptions = ["a mutex-protected critical section is one atomic step",
                       "expectations far from the timeout boundary (reply delay <= T/4 or >= 2T) are timing based: "
                       "failures are re-run alone and only counted when they reproduce"]
    ctx.proofs(modules=["Sio/AckCheck"])
    vh = ctx.go_build()
    if vh is None:
        return
    with cf.ThreadPoolExecutor(max_workers=7) as ex:
        futs = [ex.submit(purge_suite, ctx, vh),
                ex.submit(live_suite, ctx, vh, "race", "race", race_cases),
                ex.submit(live_suite, ctx, vh, "forced", "forced", race_cases),
                ex.submit(live_suite, ctx, vh, "raw", "raw", raw_cases),
                ex.submit(peer_suite, ctx, vh),
                ex.submit(queue_suite, ctx, vh),
                ex.submit(queuewin_suite, ctx, vh)]
        for f in futs:
            f.result()
