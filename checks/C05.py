"""C05 - namespaces multiplexed on one connection are isolated from each other."""
import json

from lib.vlib import gN, gbool, glist, gpair, gopt, gstring_bytes

HDR = "From SioV Require Import Base.GoSem Sio.NspRouting Sio.NspRoutingCheck.\nLocal Open Scope N_scope.\n"
PT = ["PConnect", "PDisconnect", "PEvent", "PAck", "PConnectError", "PBinEvent", "PBinAck"]
ROOMS = {"": None, "r1": 1, "r2": 2}
THEOREMS = ["C05_routed_by_header_nsp", "C05_unknown_nsp_closes", "C05_attach_only_after_accept",
            "C05_broadcast_and_ack_isolated", "C05_disconnect_one_keeps_others", "C05_client_sockets_isolated"]


def norm_api(n):
    if n == "":
        return "/"
    return n if n[0] == "/" else "/" + n


def norm_hdr(n):
    return "/" if n == "" else n


def ns(n):
    return gstring_bytes(n)


def packet(ty, n, pid, tag):
    return "(mkP %s %s %s %s)" % (PT[ty], ns(n), gopt(gN(pid) if pid >= 0 else None),
                                  gN(tag if ty in (2, 3, 5, 6) else 0))


def op_term(o):
    k = o["op"]
    c, n = gN(o.get("c", 0)), ns(o.get("n", ""))
    tag, ack = gN(o.get("tag", 0)), gbool(o.get("ack", False))
    room = ROOMS[o.get("room", "")]
    groom = gopt(gN(room) if room is not None else None)
    if k == "connect":
        return "OpConnect %s %s" % (c, n)
    if k == "release":
        return "OpRelease %s %s" % (n, gbool(o["ok"]))
    if k == "cemit":
        return "OpCEmit %s %s %s %s" % (c, n, tag, ack)
    if k == "semit":
        return "OpSEmit %s %s %s %s" % (c, n, tag, ack)
    if k == "bcast":
        return "OpBcast %s %s %s" % (n, groom, tag)
    if k == "sbcast":
        return "OpSBcast %s %s %s %s" % (c, n, groom, tag)
    if k == "join":
        return "OpJoin %s %s %s" % (c, n, gN(room))
    if k == "cdisc":
        return "OpCDisc %s %s" % (c, n)
    if k == "sdisc":
        return "OpSDisc %s %s" % (c, n)
    if k == "rconnect":
        return "OpRaw %s %s" % (c, packet(0, o.get("n", ""), -1, 0))
    if k == "rsend":
        return "OpRaw %s %s" % (c, packet(o.get("ty", 0), o.get("n", ""), o.get("id", -1), o.get("tag", 0)))
    raise ValueError("unknown op %r" % (o,))


def rows_of(sc):
    sids = {"": 0}
    rows = []
    for o in sc["obs"]:
        sid = o.get("sid", "")
        if o["side"] != "s":
            sid = ""
        if sid not in sids:
            sids[sid] = len(sids)
        conn = o["conn"] if o["conn"] >= 0 else 999
        side = o["side"] == "s"
        k = o["k"]
        n = o.get("nsp", "")
        if k == "ev":
            r = (0, side, conn, n, o["tag"], 0)
        elif k == "ack":
            r = (1, side, conn, n, o["tag"], 0)
        elif k in ("connect", "connect_error", "disconnect"):
            r = (2, side, conn, n, ["connect", "connect_error", "disconnect"].index(k), 0)
        elif k == "closed":
            r = (3, False, conn, "", 0, 0)
        elif k == "mw":
            r = (4, side, conn, n, 0, 0)
        elif k == "rx":
            ty = o["ty"]
            r = (10 + ty, False, conn, norm_hdr(n), o["tag"] if ty in (2, 3, 5, 6) and o["tag"] >= 0 else 0, o["id"] + 1)
        else:
            raise ValueError("unknown observation %r" % (o,))
        rows.append(gpair(gN(r[0]), gbool(r[1]), gN(r[2]), ns(r[3]), gN(r[4]), gN(r[5]), gN(sids[sid])))
    return rows


def case_term(sc):
    names = [norm_api(n) for n in sc["names"]]
    gated = [n for n, g in zip(names, sc["gated"]) if g]
    raws = [i for i, k in enumerate(sc["conns"]) if k == "raw"]
    return "(%s : case)" % gpair(glist(ns(n) for n in names), glist(ns(n) for n in gated), glist(gN(i) for i in raws),
                                 glist(op_term(o) for o in sc["ops"]), glist(rows_of(sc)))


def nontrivial_key(sc):
    """non-trivial = >= 2 namespaces joined on one connection and traffic in >= 2 namespaces, or a
    raw packet for a namespace that was not joined"""
    per_conn = {}
    for o in sc["obs"]:
        if o["k"] == "connect" and o["side"] == "s":
            per_conn.setdefault(o["conn"], set()).add(o["nsp"])
    multi = any(len(v) >= 2 for v in per_conn.values())
    traffic = {o["nsp"] for o in sc["obs"] if o["k"] in ("ev", "ack")}
    probe = any(o["op"] == "rsend" for o in sc["ops"])
    if (multi and len(traffic) >= 2) or probe:
        return json.dumps([sc["names"], sc["gated"], sc["conns"], sc["ops"]], sort_keys=True)
    return None


BHDR = "From Coq Require Import Strings.String.\nFrom SioV Require Import Base.GoSem Sio.NspRouting Sio.NspFrames Sio.NspFramesCheck.\nLocal Open Scope N_scope.\n"


def burst_term(sc):
    # all deliveries of a scenario as one string literal (see NspFramesCheck.unpack): tens of thousands of
    # numerals are slow to read
    def pack(d):
        assert all(0 <= x <= 9 for x in d[:5]) and d[5] < 1000
        t = "%d%d%d%d%d%03d" % tuple(d[:6])
        for j in range((len(d) - 6) // 5):
            a = d[6 + 5 * j: 11 + 5 * j]
            t += "%d%d%d%03d%d" % (min(a[0], 9), min(a[1], 9), min(a[2], 9), min(a[3], 999), min(a[4], 9))
        return t
    rows = '"' + ";".join(pack(d) for d in sc["del"]) + '"%string'
    return "((%d, %d, %d, %s, %s) : pcase)" % (len(sc["names"]), sc["em"], sc["rounds"], gbool(sc["closed"]), rows)


def burst_suite(ctx, vh, n, rounds):
    """concurrent emitters of several namespaces on one connection, both directions, binary + text"""
    def run(seed, k):
        return ctx.vh_jsonl(vh, "namespaces", ["-mode", "burst", "-seed", seed, "-n", k, "-ops", rounds])
    scs = run(ctx.seed + 2, n)
    if scs is None:
        return
    broken = [s for s in scs if s.get("err")]
    scs = [s for s in scs if not s.get("err")]
    terms = [burst_term(s) for s in scs]
    bad_both = ctx.coq_eval_cases("c05_burst_both", BHDR, terms, "(fun c => NspFramesCheck.poracle c && NspFramesCheck.pagree c)", shard=1)
    tb = [terms[i] for i in bad_both]
    bad_o = [bad_both[j] for j in ctx.coq_eval_cases("c05_burst_oracle", BHDR, tb, "NspFramesCheck.poracle", shard=1)]
    bad_a = [bad_both[j] for j in ctx.coq_eval_cases("c05_burst_agree", BHDR, tb, "NspFramesCheck.pagree", shard=1)]
    # environmental failures (stall > 15 s: deliveries missing, nothing foreign, connection up) are re-run once
    only_a = [i for i in bad_a if i not in bad_o]
    if only_a:
        redo = run(ctx.seed + 1000, len(only_a)) or []
        redo = [s for s in redo if not s.get("err")]
        t2 = [burst_term(s) for s in redo]
        if redo and not ctx.coq_eval_cases("c05_burst_agree2", BHDR, t2, "NspFramesCheck.pagree", shard=1) \
                and not ctx.coq_eval_cases("c05_burst_oracle2", BHDR, t2, "NspFramesCheck.poracle", shard=1):
            ctx.indeterminate += len(only_a)
            ctx.note("burst: %d scenario(s) with missing deliveries passed when re-run" % len(only_a))
            bad_a = [i for i in bad_a if i in bad_o]
    for s in scs:
        ctx.count(len(s["del"]), nontrivial_key=json.dumps([s["id"], s["names"], s["em"], s["bcast"], s["tr"]]),
                  dist="burst:%dnsp:%dem:%s" % (len(s["names"]), s["em"], s["tr"]))
    if scs:
        s = scs[0]
        ctx.sample({"suite": "burst", "id": s["id"], "names": s["names"], "em": s["em"], "rounds": s["rounds"],
                    "bcast": s["bcast"], "deliveries": len(s["del"]), "first": s["del"][:2]})
    ctx.obligation("oracle:burst", "oracle", not bad_o and not broken,
                   "%d scenarios, %d deliveries, %d scenarios fail" % (len(scs), sum(len(s["del"]) for s in scs), len(bad_o)))
    ctx.obligation("correspondence:burst", "correspondence", not bad_a, "%d scenarios, %d disagree with Sio/NspFrames.v" % (len(scs), len(bad_a)))
    for s in broken[:1]:
        ctx.violation("burst rig could not run: %s" % s["err"], {"kind": "correspondence-broken", "suite": "burst", "case": {k: s[k] for k in s if k != "del"}}, no_input=True)
    for i in bad_o[:2]:
        s = scs[i]
        nn = len(s["names"])
        foreign = [d for d in s["del"] if d[1] != d[3] or any(d[6 + 5 * j] != 1 - d[0] or d[7 + 5 * j] != d[1] or d[8 + 5 * j] != d[4] or d[9 + 5 * j] != d[5]
                                                             for j in range((len(d) - 6) // 5))]
        ctx.violation("namespaces sharing one connection are not isolated under concurrent emits (a parse error on the shared connection "
                      "disconnects every namespace on it): %d handler entr%s received an argument "
                      "that no emit of the handler's namespace carried (first: %s; row = srv, handler nsp, kind, nsp, emitter, seq, then "
                      "dir/nsp/emitter/seq/pos per argument, dir 9 = foreign bytes); shared connection closed: %s (%s); names %s, %d emitters per "
                      "(direction, namespace), %d rounds, text and 3-attachment events alternating"
                      % (len(foreign), "y" if len(foreign) == 1 else "ies", foreign[:1], s["closed"], s["reason"], s["names"], s["em"], s["rounds"]),
                      {"kind": "failing-input", "engine": "namespaces", "mode": "burst",
                       "args": ["-mode", "burst", "-seed", ctx.seed + 2, "-n", n, "-ops", rounds], "scenario": {k: s[k] for k in s if k != "del"},
                       "foreign_rows": foreign[:5], "deliveries": len(s["del"])})
    if bad_a and not bad_o:
        s = scs[bad_a[0]]
        ctx.violation("burst: deliveries differ from the model Sio/NspFrames.v (lost / duplicated packets) in scenario %s" % s["id"],
                      {"kind": "correspondence-broken", "suite": "burst", "theorems": ["C05_frames_isolated"],
                       "scenario": {k: s[k] for k in s if k != "del"}, "deliveries": len(s["del"])}, no_input=True)


def judge(ctx, suite, scs, rerun=None):
    """oracle first (property on the implementation's observations), then agreement with the model"""
    scs = [s for s in scs if s is not None]
    broken = [s for s in scs if s.get("err")]
    scs = [s for s in scs if not s.get("err")]
    terms = [case_term(s) for s in scs]
    # one pass for "oracle && agree"; the two are told apart only for the scenarios that fail
    bad_both = ctx.coq_eval_cases("c05_both_" + suite, HDR, terms, "(fun c => oracle c && agree c)", shard=4)
    tb = [terms[i] for i in bad_both]
    bad_o = [bad_both[j] for j in ctx.coq_eval_cases("c05_oracle_" + suite, HDR, tb, "oracle", shard=4)]
    bad_a = [bad_both[j] for j in ctx.coq_eval_cases("c05_agree_" + suite, HDR, tb, "agree", shard=4)]
    # a live rig can be disturbed by the environment (port, stalls > 5 s): a scenario that fails is
    # re-run once from its recorded operation list; only failures that reproduce are reported
    if rerun is not None and (bad_o or bad_a):
        again = sorted(set(bad_o) | set(bad_a))
        redo = [rerun(scs[i]) for i in again]
        ok_idx = [i for i, s in zip(again, redo) if s is not None and not s.get("err")]
        t2 = [case_term(s) for s in redo if s is not None and not s.get("err")]
        bo2 = set(ctx.coq_eval_cases("c05_oracle2_" + suite, HDR, t2, "oracle", shard=5))
        ba2 = set(ctx.coq_eval_cases("c05_agree2_" + suite, HDR, t2, "agree", shard=5))
        keep_o, keep_a = [], []
        for j, i in enumerate(ok_idx):
            if i in bad_o and j in bo2:
                keep_o.append(i)
            if i in bad_a and j in ba2:
                keep_a.append(i)
            if (i in bad_o and j not in bo2) or (i in bad_a and j not in ba2):
                ctx.indeterminate += 1
                ctx.note("%s: scenario %s failed once and passed when re-run from its operation list" % (suite, scs[i]["id"]))
        bad_o, bad_a = keep_o, keep_a
    terms_by_idx = {i: t for i, t in enumerate(terms)}
    for s in scs:
        ctx.count(1, nontrivial_key=nontrivial_key(s), dist="%s:%s:%dconn:%dnsp" % (
            suite, "+".join(sorted(set(s["conns"]))), len(s["conns"]), len(s["names"])))
        for o in s["ops"]:
            ctx.dist["op:" + o["op"]] = ctx.dist.get("op:" + o["op"], 0) + 1
    if scs:
        s = scs[len(scs) // 2]
        ctx.sample({"suite": suite, "id": s["id"], "names": s["names"], "gated": s["gated"], "conns": s["conns"],
                    "ops": s["ops"][:12], "n_obs": len(s["obs"])})
    ctx.obligation("correspondence:" + suite, "correspondence", not bad_a,
                   "%d scenarios, %d disagree with the model" % (len(scs), len(bad_a)))
    for s in broken[:2]:
        ctx.violation("live rig could not run scenario %s: %s" % (s["id"], s["err"]),
                      {"kind": "correspondence-broken", "suite": suite, "case": s}, no_input=True)
    # finding classes are decided by the Coq predicate (side condition of the _partial theorem)
    known_idx = set()
    if bad_o:
        tk = [terms_by_idx[i] for i in bad_o]
        not_known = set(ctx.coq_eval_cases("c05_class_" + suite, HDR, tk, "known_pending_emit", shard=5))
        known_idx = {i for j, i in enumerate(bad_o) if j not in not_known}
    unknown = [i for i in bad_o if i not in known_idx]
    ctx.obligation("oracle:" + suite, "oracle", not unknown and not broken,
                   "%d scenarios, %d fail (%d of them in known finding classes), %d could not run"
                   % (len(scs), len(bad_o), len(known_idx), len(broken)))
    for i in sorted(known_idx)[:1]:
        ctx.fail_or_known("emit-while-connect-pending", "client emit while its CONNECT is pending closes the connection",
                          {"kind": "failing-input", "engine": "namespaces", "mode": "script",
                           "script": {k: scs[i][k] for k in ("id", "names", "gated", "conns", "tr", "ops")}})
    # a scenario of a known class is excused from agreement only if the model agrees (it does: the model is as coded)
    for i in [i for i in bad_o if i not in known_idx][:3]:
        s = scs[i]
        ctx.fail_or_known(None, "namespace isolation violated on the implementation's observations "
                          "(a handler entry / ack / connect / disconnect not attributable to an operation in the "
                          "same namespace, a socket other than the one registered for the namespace, or an event of a server emit / "
                          "broadcast that reached a client whose CONNECT for that namespace had not been accepted yet): names %s ops %s"
                          % (s["names"], json.dumps(s["ops"])[:600]),
                          {"kind": "failing-input", "engine": "namespaces", "mode": "script",
                           "script": {k: s[k] for k in ("id", "names", "gated", "conns", "tr", "ops")}, "obs": s["obs"]})
    ctx.extra.setdefault("known_class_scenarios", 0)
    ctx.extra["known_class_scenarios"] += len(known_idx)
    if bad_a and not [i for i in bad_o if i not in known_idx]:
        s = scs[bad_a[0]]
        ctx.violation("the implementation no longer behaves as the model Sio/NspRouting.v (theorems C05_* are about "
                      "the model): scenario %s, ops %s" % (s["id"], json.dumps(s["ops"])[:600]),
                      {"kind": "correspondence-broken", "suite": suite, "theorems": THEOREMS,
                       "script": {k: s[k] for k in ("id", "names", "gated", "conns", "tr", "ops")}, "obs": s["obs"]},
                      no_input=True)


def run(ctx):
    ctx.rule = ("live scenarios: 2-4 server namespaces out of /, /a, /a/b, /ab, /b (client spellings '', 'a'), some gated "
                "by a middleware, 1-3 connections (Go Managers multiplexing several namespaces, raw protocol peers), <= 30 "
                "seeded operations; non-trivial = >= 2 namespaces joined on one connection with traffic in >= 2 of them, or "
                "a raw packet probe (distinct scenario scripts)")
    ctx.trusted = ["Coq 8.16.1 kernel + vm_compute",
                   "hand-written model Sio/NspRouting.v tied by kernel-evaluated history comparison",
                   "harness cmd/vh namespaces (public API + raw peer from engine.io client and parser/json)",
                   "loopback TCP, websocket/polling transports, Go scheduler (operations wait for their effects)"]
    ctx.assumptions = ["each operation's effects complete within 5 s (otherwise the scenario is re-run once)",
                       "wire-level statement C05_nsp_injective relies on Sio/Header.v (C10's port of parseHeader)"]
    ctx.proofs(modules=["Sio/NspRoutingCheck", "Sio/NspFramesCheck"])
    vh = ctx.go_build()
    if vh is None:
        return

    def rerun(sc):
        script = {k: sc[k] for k in ("id", "names", "gated", "conns", "tr", "ops")}
        rows = ctx.vh_jsonl(vh, "namespaces", ["-mode", "script", "-script", json.dumps(script)])
        return rows[0] if rows else None

    # corpus / forced scenarios first
    import os
    cdir = os.path.join(os.path.dirname(os.path.dirname(os.path.abspath(__file__))), "corpus", "C05")
    forced = []
    if os.path.isdir(cdir):
        for f in sorted(os.listdir(cdir)):
            if f.endswith(".json"):
                forced.append(json.load(open(os.path.join(cdir, f))))
    if forced:
        judge(ctx, "forced", [rerun(s) for s in forced], rerun)
    n_live, n_raw = (30, 30) if ctx.quick else (400, 400)
    live = ctx.vh_jsonl(vh, "namespaces", ["-mode", "live", "-seed", ctx.seed, "-n", n_live, "-ops", 30, "-par", 6])
    if live is not None:
        judge(ctx, "live", live, rerun)
    burst_suite(ctx, vh, 6 if ctx.quick else 40, 300)
    raw = ctx.vh_jsonl(vh, "namespaces", ["-mode", "raw", "-seed", ctx.seed + 1, "-n", n_raw, "-ops", 24, "-par", 6])
    if raw is not None:
        judge(ctx, "rawprobe", raw, rerun)
