"""C04 - a broadcast reaches exactly the sockets its rooms and exclusions select, once."""
from lib.vlib import gN, gbool, glist, gpair

HDR = ("From SioV Require Import Adapter.Rooms Adapter.Broadcast Adapter.BroadcastSpec Adapter.BroadcastCheck "
       "Adapter.BroadcastLiveCheck.\n"
       "Local Open Scope positive_scope.\n")
THEOREMS = ["C04_indexes_inverse", "C04_membership_is_net_effect", "C04_broadcast_exact"]


def pl(xs):
    return "[" + "; ".join("%d" % x for x in xs) + "]"


def kvl(kvs):
    return glist("(%d, %s)" % (e["k"], pl(e["v"])) for e in kvs)


def popt(k):
    return "(Some %d)" % k if k else "None"


def op_term(o):
    k = o["k"]
    s, r, rs = o.get("s", 0), o.get("r", 0), pl(o.get("rs") or [])
    fr, T, E = popt(o.get("from", 0)), pl(o.get("T") or []), pl(o.get("E") or [])
    return {
        "connect": lambda: "HN (NConnect %d)" % s,
        "join": lambda: "HN (NJoin %d %s)" % (s, rs),
        "leave": lambda: "HN (NLeave %d %d)" % (s, r),
        "disc": lambda: "HN (NDisconnect %d)" % s,
        "sjoin": lambda: "HN (NSocketsJoin %s %s %s %s)" % (fr, T, E, rs),
        "sleave": lambda: "HN (NSocketsLeave %s %s %s %s)" % (fr, T, E, rs),
        "sdisc": lambda: "HN (NDisconnectSockets %s %s %s)" % (fr, T, E),
        "addall": lambda: "HA (AddAll %d %s)" % (s, rs),
        "delete": lambda: "HA (Delete %d %d)" % (s, r),
        "deleteall": lambda: "HA (DeleteAll %d)" % s,
    }[k]()


def step_term(st):
    p = st["probe"]
    return "St (%s) %s %s %s %d %s %d %s %s %s %s %s %s %s %s" % (
        op_term(st["op"]), kvl(st["rooms"]), kvl(st["sids"]), pl(st["all"]), st["pr"], pl(st["prs"]),
        st["ps"], gbool(st["pok"]), pl(st["psr"]), popt(p["from"]), pl(p["T"]), pl(p["E"]), pl(p["out"]),
        pl(st["store"]), pl(st["closed"]))


def hist_term(row):
    return "(%s : hcase)" % gpair(pl(row["init"]), glist(step_term(s) for s in row["steps"]))


def table_term(row):
    return "(%s : tcase)" % gpair(gN(row["m"]), gN(row["kb"]), glist(pl(o) for o in row["outs"]))


def ops_term(row):
    def ins(i):
        return {"new": "BNew", "to": "BTo %d%%nat %s" % (i["i"], pl(i["rs"])),
                "except": "BExcept %d%%nat %s" % (i["i"], pl(i["rs"]))}[i["k"]]
    # Emit and FetchSockets must hand over the same sets; both are compared
    return ["(%s : ocase)" % gpair(glist(ins(i) for i in row["prog"]), glist(gpair(pl(a), pl(b)) for a, b in row[k]))
            for k in ("emit", "fetch")]


import concurrent.futures as cf
import os
import re
import time


class Batch:
    """All suites are evaluated in one pass: NSH coqc processes, each loading the development once
    and evaluating its slice of every suite with every check function (loading std++ costs far
    more than the evaluation itself)."""
    NSH = 4

    def __init__(self, ctx):
        self.ctx = ctx
        if not ctx.quick:
            self.NSH = 16
        self.groups = []     # (name, terms, fns)
        self.res = {}

    def add(self, name, terms, fns):
        self.groups.append((name, terms, fns))

    def run(self):
        ctx = self.ctx
        files = []
        for k in range(self.NSH):
            body, index = HDR, []
            for name, terms, fns in self.groups:
                idxs = list(range(k, len(terms), self.NSH))
                if not idxs:
                    continue
                body += "\nDefinition cases_%s := [\n  %s\n].\n" % (name, ";\n  ".join(terms[i] for i in idxs))
                for fn in fns:
                    body += ("Definition bad_%s_%s := Eval vm_compute in (fix go (i : nat) l := match l with [] => [] "
                             "| c :: l' => if %s c then go (S i) l' else i :: go (S i) l' end) O cases_%s.\n"
                             "Print bad_%s_%s.\n" % (name, fn, fn, name, name, fn))
                    index.append((name, fn, idxs))
            files.append((k, body, index))

        def one(f):
            k, body, index = f
            if not index:
                return []
            rc, out = ctx.coq_run("c04_batch_%d" % k, body, timeout=900)
            if rc != 0:
                raise RuntimeError("coqc failed on batch %d:\n%s" % (k, out[-3000:]))
            got = []
            for name, fn, idxs in index:
                m = re.search(r"bad_%s_%s\s*=\s*(\[.*?\])\s*:\s*list nat" % (name, fn), out, re.S)
                if not m:
                    raise RuntimeError("cannot parse coqc output for %s/%s batch %d:\n%s" % (name, fn, k, out[-2000:]))
                got.append((name, fn, [idxs[int(x)] for x in re.findall(r"\d+", m.group(1))]))
            return got

        for name, terms, fns in self.groups:
            for fn in fns:
                self.res[(name, fn)] = []
        with cf.ThreadPoolExecutor(max_workers=min(self.NSH, int(os.environ.get("VERIF_JOBS", "4" if self.ctx.quick else "8")))) as ex:
            for got in ex.map(one, files):
                for name, fn, bad in got:
                    self.res[(name, fn)].extend(bad)
        for k in self.res:
            self.res[k].sort()

    def bad(self, name, fn):
        return self.res[(name, fn)]


def report(ctx, batch, suite, name, rows, agree_fn, oracle_fn, theorems, describe, row_of=None):
    """steps 2-4 of the verdict protocol for one suite: oracle on the implementation's observations
    first, then model = implementation."""
    row_of = row_of or (lambda i: rows[i])
    bad_oracle = batch.bad(name, oracle_fn)
    bad_agree = batch.bad(name, agree_fn)
    n = len([g for g in batch.groups if g[0] == name][0][1])
    ctx.obligation("correspondence:%s" % suite, "correspondence", not bad_agree,
                   "%d cases, %d disagree" % (n, len(bad_agree)))
    ctx.obligation("oracle:%s" % suite, "oracle", not bad_oracle,
                   "%d cases, %d fail" % (n, len(bad_oracle)))
    for i in bad_oracle[:3]:
        ctx.violation(describe(row_of(i)), {"kind": "failing-input", "engine": "rooms", "suite": suite, "case": row_of(i)})
    if bad_agree and not bad_oracle:
        i = bad_agree[0]
        ctx.violation("the adapter no longer computes what the model Adapter/{Rooms,Broadcast}.v computes (suite %s); "
                      "the theorems of Props/C04.v are about the model; first differing case in the replay" % suite,
                      {"kind": "correspondence-broken", "suite": suite, "theorems": theorems, "case": row_of(i)},
                      no_input=True)
    return bad_oracle, bad_agree


def first_bad_step(row):
    """harness-side localisation of the failing step of a history (for the message only)."""
    return "history of %d operations: %s" % (len(row["steps"]), [s["op"] for s in row["steps"]][:40])


HIST_FNS = ["hist_agree", "hist_oracle", "hist_sender_oracle", "hist_sender_known"]
HIST_THMS = ["C04_indexes_inverse", "C04_membership_is_net_effect", "C04_broadcast_exact", "C04_disconnected_in_no_room"]


def table_gen(ctx, vh, batch):
    args = ["-mode", "table", "-seed", ctx.seed] + ([] if ctx.quick else ["-kball"])
    rows = ctx.vh_jsonl(vh, "rooms", args)
    if rows is None:
        return None
    for r in rows:
        for te, out in enumerate(r["outs"]):
            nt = (r["m"], r["kb"], te) if te != 0 and out and len(out) < 3 else None
            ctx.count(1, nontrivial_key=nt, dist="table:%s" % ("all" if te & 7 == 0 else "rooms"))
    ctx.sample({"suite": "table", "case": {"m": rows[300]["m"], "kb": rows[300]["kb"], "outs[0..9]": rows[300]["outs"][:10]}})
    batch.add("table", [table_term(r) for r in rows], ["table_agree", "table_oracle"])
    return rows


def table_report(ctx, batch, rows):
    report(ctx, batch, "table", "table", rows, "table_agree", "table_oracle",
           ["C04_broadcast_exact", "C04_all_3x3"],
           lambda r: "in-memory adapter, 3 sockets x 3 rooms, membership matrix %d (bit 3i+j: socket i+1 in room 4+j), "
                     "store bits %d: some (T,E) broadcast did not reach exactly the selected sockets once; "
                     "outs[T+8E]=%s" % (r["m"], r["kb"], r["outs"]))


def hist_gen(ctx, vh, batch, mode, args):
    rows = ctx.vh_jsonl(vh, "rooms", ["-mode", mode] + args)
    if rows is None:
        return None
    for r in rows:
        for st in r["steps"]:
            p = st["probe"]
            nt = (st["op"]["k"], repr(st["sids"]), p["from"], tuple(p["T"]), tuple(p["E"])) if st["rooms"] and p["out"] else None
            ctx.count(1, nontrivial_key=nt, dist="%s:%s" % (mode, st["op"]["k"]))
    ctx.sample({"suite": mode, "case": {"init": rows[0]["init"], "steps[0..2]": rows[0]["steps"][:3]}})
    batch.add(mode, [hist_term(r) for r in rows], HIST_FNS)
    return rows


def hist_localise(ctx, mode, row):
    """first failing step of a history, decided by the kernel (oracle index, agree index)"""
    try:
        v = ctx.coq_eval_values("c04_%s_localise" % mode, HDR, ["hist_first_bad %s" % hist_term(row)])[0]
        m = re.findall(r"Some (\d+)", v)
        k = min(int(x) for x in m) if m else None
    except Exception:
        k = None
    if k is None:
        return first_bad_step(row)
    st = row["steps"][k]
    return ("after the %d operations %s (initially known sockets %s): index dump rooms=%s sids=%s, Sockets({})=%s, "
            "Sockets({x%d})=%s, SocketRooms(x%d)=(%s,%s), broadcast probe %s, store %s, closed %s"
            % (k + 1, [s["op"] for s in row["steps"][:k + 1]], row["init"], st["rooms"], st["sids"], st["all"], st["pr"],
               st["prs"], st["ps"], st["pok"], st["psr"], st["probe"], st["store"], st["closed"]))


def hist_report(ctx, batch, mode, rows):
    report(ctx, batch, mode, mode, rows, "hist_agree", "hist_oracle", HIST_THMS,
           lambda r: "the adapter's indexes / Sockets / SocketRooms / a broadcast probe differ from the net effect of the "
                     "joins and leaves " + hist_localise(ctx, mode, r))
    # 'a broadcast issued through a socket never reaches that socket' on every probe
    bad = batch.bad(mode, "hist_sender_oracle")
    ctx.obligation("oracle:%s/sender-excluded" % mode, "oracle", True,
                   "%d histories, %d with a sender that received its own broadcast" % (len(rows), len(bad)))
    # finding class, decided twice: in Coq (side condition of C04_sender_excluded_partial) and here
    unknown = set(batch.bad(mode, "hist_sender_known"))
    for i in bad:
        hits = []
        for k, st in enumerate(rows[i]["steps"]):
            p = st["probe"]
            if p["from"] and p["from"] in p["out"]:
                own = [e["v"] for e in st["sids"] if e["k"] == p["from"]]
                hits.append((k, p, not (own and p["from"] in own[0])))
        py_known = all(h[2] for h in hits)
        if py_known != (i not in unknown) or not hits:
            ctx.violation("finding classifier disagreement (Go/Python vs Coq) on sender-left-own-room",
                          {"kind": "correspondence-broken", "suite": mode + "/sender-class", "case": rows[i]}, no_input=True)
            continue
        k, p, _ = [h for h in hits if not h[2]][0] if not py_known else hits[0]
        ops = [s["op"] for s in rows[i]["steps"][:k + 1]]
        what = ("socket %d received its own Broadcast() (T=%s E=%s) after operations %s" % (p["from"], p["T"], p["E"], ops))[:600]
        ctx.fail_or_known("sender-left-own-room" if py_known else None, what,
                          {"kind": "failing-input", "engine": "rooms", "suite": mode, "ops": ops, "probe": p})


def ops_gen(ctx, vh, batch):
    rows = ctx.vh_jsonl(vh, "rooms", ["-mode", "ops", "-seed", ctx.seed, "-n", 200 if ctx.quick else 3000])
    if rows is None:
        return None
    terms, owner = [], []
    for i, r in enumerate(rows):
        shared = len({ins["i"] for ins in r["prog"] if ins["k"] != "new"}) < sum(1 for ins in r["prog"] if ins["k"] != "new")
        ctx.count(1, nontrivial_key=repr(r["prog"]) if shared else None, dist="ops:%s" % ("shared-parent" if shared else "chain"))
        for t in ops_term(r):
            terms.append(t)
            owner.append(i)
    ctx.sample({"suite": "ops", "case": rows[1]})
    batch.add("ops", terms, ["ops_agree", "ops_oracle"])
    return rows, owner


def ops_report(ctx, batch, rows, owner):
    report(ctx, batch, "ops", "ops", rows, "ops_agree", "ops_oracle", ["C04_operator_immutable"],
           lambda r: "BroadcastOperator program %s: an operator hands the adapter (Rooms,Except)=%s, not what its own "
                     "derivation denotes (an operator was changed through a later To/In/Except)" % (r["prog"], r["emit"]),
           row_of=lambda i: rows[owner[i]])


LIVE_FNS = ["live_agree", "live_oracle", "live_sender_oracle", "live_sender_known"]


def live_term(r):
    return "((%d%%N, %d%%N, %d%%N, %d%%N, [%s]) : lcase)" % (
        r["m"], r["te"], r["from"], sum(b << i for i, b in enumerate(r["own"])),
        "; ".join("%d%%nat" % c for c in r["counts"]))


def live_gen(ctx, vh, batch, name, args):
    """real server + 3 real clients; an environmental failure (time-out) is retried, then noted"""
    for attempt in range(3):
        rc, log = ctx.vh(vh, ["rooms", "-mode", "live", "-out", "%s/%s.jsonl" % (ctx.work, name)] + args, timeout=600)
        if rc == 0:
            break
        if "environment:" not in log:
            ctx.violation("harness engine rooms/live failed (rc=%d)" % rc,
                          {"kind": "correspondence-broken", "suite": "live", "log": log[-3000:]}, no_input=True)
            return None
    else:
        ctx.note("live suite skipped after 3 environmental failures: %s" % log[-300:])
        ctx.obligation("correspondence:live", "correspondence", False, "environment: " + log[-300:])
        ctx.violation("live rig could not be run (environment)", {"kind": "correspondence-broken", "suite": "live",
                                                                 "log": log[-3000:]}, no_input=True)
        return None
    import json
    rows = [json.loads(l) for l in open("%s/%s.jsonl" % (ctx.work, name)) if l.strip()]
    batch.add(name, [live_term(r) for r in rows], LIVE_FNS)
    return rows


def live_describe(r):
    return ("live namespace, 3 clients, membership matrix %d (bit 3i+j: client i+1 in room x%d), T+8E=%d, sender %d, "
            "own-room bits %s: deliveries per client %s" % (r["m"], 4, r["te"], r["from"], r["own"], r["counts"]))


def live_report(ctx, vh, batch, rows):
    for r in rows:
        nt = (r["m"], r["te"], r["from"], tuple(r["own"])) if sum(r["counts"]) in (1, 2) else None
        ctx.count(1, nontrivial_key=nt, dist="live:%s" % ("socket" if r["from"] else "namespace"))
    ctx.sample({"suite": "live", "case": rows[0]})
    bad_o, bad_a = set(batch.bad("live", "live_oracle")), set(batch.bad("live", "live_agree"))
    bad_s = set(batch.bad("live", "live_sender_oracle"))
    unknown = set(batch.bad("live", "live_sender_known"))
    retry = sorted(bad_o | bad_a | (bad_s & unknown))
    if retry:
        # a live failure must reproduce on a fresh server before it is reported
        b2 = Batch(ctx)
        b2.NSH = 1
        cases = ";".join("%d,%d,%d,%d" % (rows[i]["m"], rows[i]["te"], rows[i]["from"],
                                         sum(b << k for k, b in enumerate(rows[i]["own"]))) for i in retry)
        rows2 = live_gen(ctx, vh, b2, "live_retry", ["-cases", cases])
        if rows2 is None:
            return
        b2.groups = [("live", b2.groups[0][1], LIVE_FNS)]
        b2.run()
        ctx.note("live: %d cases re-run on a fresh server, %d still failing" % (
            len(retry), len(set(b2.bad("live", "live_oracle")) | set(b2.bad("live", "live_agree")))))
        keep_o = {retry[j] for j in b2.bad("live", "live_oracle")}
        keep_a = {retry[j] for j in b2.bad("live", "live_agree")}
        keep_s = {retry[j] for j in set(b2.bad("live", "live_sender_oracle")) & set(b2.bad("live", "live_sender_known"))}
        bad_o, bad_a, unknown = bad_o & keep_o, bad_a & keep_a, unknown & keep_s
    ctx.obligation("correspondence:live", "correspondence", not bad_a, "%d cases, %d disagree" % (len(rows), len(bad_a)))
    ctx.obligation("oracle:live", "oracle", not bad_o, "%d cases, %d fail" % (len(rows), len(bad_o)))
    ctx.obligation("oracle:live/sender-excluded", "oracle", True,
                   "%d cases, %d with a sender that received its own broadcast" % (len(rows), len(bad_s)))
    for i in sorted(bad_o)[:3]:
        ctx.violation(live_describe(rows[i]), {"kind": "failing-input", "engine": "rooms", "suite": "live", "case": rows[i]})
    if bad_a and not bad_o:
        i = sorted(bad_a)[0]
        ctx.violation("live namespace deliveries differ from the model (suite live): " + live_describe(rows[i]),
                      {"kind": "correspondence-broken", "suite": "live", "theorems": ["C04_broadcast_exact_after_history"],
                       "case": rows[i]}, no_input=True)
    for i in sorted(bad_s):
        r = rows[i]
        py_known = r["own"][r["from"] - 1] == 0
        if py_known != (i not in unknown):
            ctx.violation("finding classifier disagreement (Python vs Coq) on sender-left-own-room",
                          {"kind": "correspondence-broken", "suite": "live/sender-class", "case": r}, no_input=True)
            continue
        ctx.fail_or_known("sender-left-own-room" if py_known else None,
                          "real server: the sender received its own broadcast; " + live_describe(r),
                          {"kind": "failing-input", "engine": "rooms", "suite": "live", "case": r})


def conc_term(r):
    socks = glist("(%d, %s, %s, %d%%N, %d%%N, %d%%nat)" % (
        k["s"], "[" + "; ".join("%d%%N" % x for x in k["inT"]) + "]", "[" + "; ".join("%d%%N" % x for x in k["inE"]) + "]",
        k["reg"], k["known"], k["count"]) for k in r["socks"])
    return "((%s, %s, %s) : ccase)" % (pl(r["T"]), pl(r["E"]), socks)


def conc_gen(ctx, vh, batch):
    rows = ctx.vh_jsonl(vh, "rooms", ["-mode", "conc", "-seed", ctx.seed, "-n", 1500 if ctx.quick else 12000])
    if rows is None:
        return None
    for r in rows:
        tne = bool(r["T"])
        for k in r["socks"]:
            must = (any(x == 1 for x in k["inT"]) if tne else k["reg"] == 1) and all(x == 0 for x in k["inE"]) and k["known"] == 1
            never = (all(x == 0 for x in k["inT"]) if tne else k["reg"] == 0) or any(x == 1 for x in k["inE"]) or k["known"] == 0
            if not must and not never:
                ctx.indeterminate += 1
        ctx.count(1, nontrivial_key=(tuple(r["T"]), tuple(r["E"]), repr(r["socks"])) if r["churn"] else None,
                  dist="conc:%s" % ("overlapped" if r["churn"] else "quiet"))
    ctx.sample({"suite": "conc", "case": rows[len(rows) // 2]})
    batch.add("conc", [conc_term(r) for r in rows], ["conc_ok"])
    return rows


def conc_report(ctx, batch, rows):
    bad = batch.bad("conc", "conc_ok")
    ov = sum(1 for r in rows if r["churn"])
    detail = "%d broadcasts (%d overlapped by membership changes), %d violate the interval semantics" % (len(rows), ov, len(bad))
    ctx.obligation("correspondence:conc", "correspondence", not bad, detail)
    ctx.obligation("oracle:conc", "oracle", not bad, detail)
    for i in bad[:3]:
        r = rows[i]
        ctx.violation("in-memory adapter, broadcast T=%s E=%s concurrent with AddAll/Delete/DeleteAll of other goroutines: a socket "
                      "that was a member throughout did not get it exactly once, or a non-member / excluded / unknown socket "
                      "got it, or somebody got it twice; per socket (status per T room, per E room, registered, known, count): %s"
                      % (r["T"], r["E"], [(k["s"], k["inT"], k["inE"], k["reg"], k["known"], k["count"]) for k in r["socks"]]),
                      {"kind": "failing-input", "engine": "rooms", "suite": "conc", "case": r,
                       "theorems": ["C04_interval_member_receives_once", "C04_interval_nonmember_never", "C04_interval_at_most_once"]})


def joinrace_gen(ctx, vh, batch):
    rows = None
    for attempt in range(3):
        rc, log = ctx.vh(vh, ["rooms", "-mode", "joinrace", "-out", "%s/joinrace.jsonl" % ctx.work], timeout=300)
        if rc == 0:
            import json
            rows = [json.loads(l) for l in open("%s/joinrace.jsonl" % ctx.work) if l.strip()]
            break
        if "environment:" not in log:
            break
    if rows is None:
        ctx.violation("harness engine rooms/joinrace failed", {"kind": "correspondence-broken", "suite": "joinrace",
                                                              "log": log[-3000:]}, no_input=True)
        return None
    batch.add("joinrace", ["((%s, %s, %s, %d%%nat) : jcase)" % (gbool(r["forced"]), gbool(r["rooms_ok"]), pl(r["rooms"]),
                                                                r["socket_rooms"]) for r in rows],
              ["joinrace_agree", "joinrace_oracle"])
    return rows


def joinrace_report(ctx, batch, rows):
    for r in rows:
        ctx.count(1, nontrivial_key=("joinrace", r["forced"]) if r["forced"] else None, dist="joinrace")
    report(ctx, batch, "joinrace", "joinrace", rows, "joinrace_agree", "joinrace_oracle", ["C04_disconnected_in_no_room"],
           lambda r: "real server: ServerSocket.Join(\"x9\") held inside the join closure (public Debugger hook, log line "
                     "'Joining room(s)') while the socket is disconnected by Disconnect(false), then released: afterwards "
                     "Adapter().SocketRooms(id) ok=%s rooms=%s, ServerSocket.Rooms() size %d - a disconnected socket is "
                     "still in a room" % (r["rooms_ok"], r["rooms"], r["socket_rooms"]))


def run(ctx):
    ctx.rule = ("table: every membership matrix of 3 sockets x 3 rooms x every (T,E) of room subsets (x store subsets); "
                "non-trivial = (T,E) != (0,0) and the broadcast reached 1 or 2 of the 3 sockets (distinct (matrix,store,T,E)); "
                "histories: seeded random histories (<= 40 ops, 4 sockets x 4 rooms + own-id rooms) with a broadcast probe, "
                "index dump, Sockets and SocketRooms after every op; non-trivial = non-empty indexes and a probe that "
                "reached somebody (distinct (op kind, sids index, probe)); ops: operator programs, non-trivial = some "
                "operator is the parent of two derivations; conc: broadcasts on the real adapter while 3 goroutines "
                "join/leave/leave-all, non-trivial = at least one adapter call overlapped the broadcast; live: real server "
                "+ 3 clients on seeded (matrix,T,E,sender) cases, non-trivial = 1 or 2 of the 3 clients got the event")
    ctx.trusted = ["Coq 8.16.1 kernel + vm_compute", "std++ (gmap/gset)",
                   "hand-written model Adapter/{Rooms,Broadcast}.v tied by kernel-evaluated correspondence",
                   "harness cmd/vh rooms + hook adapter/adapter_memory_verif.go (read-only index dump)"]
    ctx.assumptions = ["Go map iteration: an entry present for the whole iteration is produced exactly once, an entry "
                       "removed before being reached is not produced",
                       "mapset.Set (deckarep/golang-set) behaves as a finite set"]
    rf = getattr(ctx, "replay_file", None)
    if rf:
        # every suite is exhaustive or a function of the seed: replaying = the recorded seed on the working tree
        import json
        ctx.seed = json.load(open(rf)).get("seed", ctx.seed)
        ctx.note("replay of %s with seed %s" % (rf, ctx.seed))
    t0 = time.time()
    ctx.proofs(modules=["Adapter/BroadcastCheck", "Adapter/BroadcastLiveCheck"])
    t1 = time.time()
    vh = ctx.go_build()
    if vh is None:
        return
    t2 = time.time()
    batch = Batch(ctx)
    table = table_gen(ctx, vh, batch)
    hists = {}
    for mode, args in (("sender", []),
                       ("nhist", ["-seed", ctx.seed, "-n", 100 if ctx.quick else 1500]),
                       ("ahist", ["-seed", ctx.seed, "-n", 60 if ctx.quick else 1000])):
        hists[mode] = hist_gen(ctx, vh, batch, mode, args)
    ops = ops_gen(ctx, vh, batch)
    conc = conc_gen(ctx, vh, batch)
    live = live_gen(ctx, vh, batch, "live", ["-seed", ctx.seed, "-n", 40 if ctx.quick else 400])
    joinrace = joinrace_gen(ctx, vh, batch)
    t3 = time.time()
    batch.run()
    ctx.note("phase timings (s): proofs+audit %.1f, harness build %.1f, engines %.1f, kernel evaluation %.1f" % (
        t1 - t0, t2 - t1, t3 - t2, time.time() - t3))
    if table is not None:
        table_report(ctx, batch, table)
    for mode, rows in hists.items():
        if rows is not None:
            hist_report(ctx, batch, mode, rows)
    if ops is not None:
        ops_report(ctx, batch, *ops)
    if conc is not None:
        conc_report(ctx, batch, conc)
    if live is not None:
        live_report(ctx, vh, batch, live)
    if joinrace is not None:
        joinrace_report(ctx, batch, joinrace)
