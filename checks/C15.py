"""C15 - clients reconnect with bounded back-off and deliver what was emitted offline."""
from lib.vlib import gZ, gN, gnat, gbool, glist, gopt, gpair

BO_HDR = "From SioV Require Import Base.GoSem Sio.Backoff Sio.BackoffCheck.\nLocal Open Scope Z_scope.\n"


def bo_term(r):
    return gpair(gZ(r["min"]), gZ(r["max"]), gZ(r["jm"]), gZ(r["je"]), gZ(r["att"]), gZ(r["k"]), gZ(r["ke"]),
                 gZ(r["conv"]), gZ(r["d"]), gZ(r["after"]))


def eval_both(ctx, name, hdr, terms, oracle="oracle", agree="agree", shard=1500):
    """One kernel pass evaluating oracle && agree; only the failing cases are evaluated again, separately,
    to tell property failures from correspondence breaks.  Returns (bad_oracle, bad_agree) index lists."""
    hdr2 = hdr + "Definition both_ c := andb (%s c) (%s c).\n" % (oracle, agree)
    bad = ctx.coq_eval_cases(name + "_both", hdr2, terms, "both_", shard=shard)
    if not bad:
        return [], []
    sub = [terms[i] for i in bad]
    bo = ctx.coq_eval_cases(name + "_oracle", hdr, sub, oracle, shard=shard)
    ba = ctx.coq_eval_cases(name + "_agree", hdr, sub, agree, shard=shard)
    return [bad[i] for i in bo], [bad[i] for i in ba]


def bo_class(r):
    """finding class of a failing back-off input (None = unclassified)"""
    return None


def backoff_suite(ctx, vh):
    suites = [("grid", ["-mode", "grid", "-tier", ctx.tier, "-seed", ctx.seed]),
              ("random", ["-mode", "random", "-seed", ctx.seed, "-n", 3000 if ctx.quick else 60000])]
    for name, args in suites:
        rows = ctx.vh_jsonl(vh, "backoff", args)
        if rows is None:
            return
        terms = [bo_term(r) for r in rows]
        for r in rows:
            jit = 0 < r["jm"] <= 2 ** r["je"]
            wraps = r["att"] >= 63 or abs(r["min"]) * 2 ** r["att"] >= 2 ** 63
            key = ("bo", r["min"], r["max"], r["att"], r["jm"], r["je"]) if (wraps or jit or r["max"] >= 2 ** 53) else None
            ctx.count(1, nontrivial_key=key,
                      dist="backoff:%s:%s%s" % (name, "wrap" if wraps else "plain", "+jitter" if jit else ""))
        ctx.sample({"suite": "backoff/" + name, "case": rows[len(rows) // 3]})
        bad_oracle, bad_agree = eval_both(ctx, "bo_" + name, BO_HDR, terms, shard=max(300, (len(terms) + 7) // 8))
        ctx.obligation("correspondence:backoff/" + name, "correspondence", not bad_agree,
                       "%d cases, %d disagree" % (len(rows), len(bad_agree)))
        ctx.obligation("oracle:backoff/" + name, "oracle", not bad_oracle,
                       "%d cases, %d fail" % (len(rows), len(bad_oracle)))
        for i in bad_oracle[:3]:
            r = rows[i]
            ctx.fail_or_known(bo_class(r),
                              "back-off: newBackoff(min=%d, max=%d, jitter=%d/2^%d) at attempt %d returns %d ns: outside "
                              "(0, max], or the first delay is not the configured delay" % (
                                  r["min"], r["max"], r["jm"], r["je"], r["att"], r["d"]),
                              {"kind": "failing-input", "engine": "backoff", "case": r,
                               "replay": "sio.VerifBackoffDuration(min, max, jitter, att) with math/rand seeded so that the draw is k/2^ke"})
        if bad_agree and not bad_oracle:
            i = bad_agree[0]
            ctx.violation("back-off calculator no longer computes what the model Sio/Backoff.v computes "
                          "(theorems C15_delay_* are about the model); first differing case %s" % rows[i],
                          {"kind": "correspondence-broken", "suite": "backoff/" + name,
                           "theorems": ["C15_delay_in_range", "C15_first_delay", "C15_first_delay_jitter",
                                        "C15_delay_exponential"], "case": rows[i]}, no_input=True)
    # whole sequences of a fresh calculator + reset
    rows = ctx.vh_jsonl(vh, "backoff", ["-mode", "sequence"])
    if rows is None:
        return
    terms = [gpair(gZ(r["min"]), gZ(r["max"]), gZ(r["conv"]), glist(gZ(d) for d in r["ds"]), gZ(r["reset"])) for r in rows]
    for r in rows:
        ctx.count(1, nontrivial_key=("seq", r["min"], r["max"]), dist="backoff:sequence")
    bad_oracle, bad_agree = eval_both(ctx, "bo_seq", BO_HDR, terms, "seq_oracle", "seq_agree")
    ctx.obligation("correspondence:backoff/sequence", "correspondence", not bad_agree,
                   "%d sequences of 80 delays + reset, %d disagree" % (len(rows), len(bad_agree)))
    ctx.obligation("oracle:backoff/sequence", "oracle", not bad_oracle, "%d sequences, %d fail" % (len(rows), len(bad_oracle)))
    for i in bad_oracle[:2]:
        ctx.violation("back-off: a fresh calculator (min=%d, max=%d, no jitter) yields delays %s...; after reset %d: a delay is "
                      "outside (0,max] or the sequence does not (re)start from the configured delay" % (
                          rows[i]["min"], rows[i]["max"], rows[i]["ds"][:6], rows[i]["reset"]),
                      {"kind": "failing-input", "engine": "backoff-sequence", "case": rows[i]})
    if bad_agree and not bad_oracle:
        ctx.violation("back-off attempt counter / reset no longer behaves as the model (Sio/Backoff.v delays_from)",
                      {"kind": "correspondence-broken", "suite": "backoff/sequence",
                       "theorems": ["C15_delay_exponential", "C15_first_delay"], "case": rows[bad_agree[0]]}, no_input=True)


def run(ctx):
    ctx.rule = ("back-off: boundary grid (min x max x attempt x jitter incl. int64 wrap points, attempts 0..70, 1023..1025, 2^31, 2^32-1) "
                "+ seeded random inputs with the PRNG draw reproduced exactly; non-trivial = the product wraps, jitter is on, or max >= 2^53")
    ctx.trusted = ["Coq 8.16.1 kernel + vm_compute (incl. primitive floats, used only to replay the jitter arithmetic in the correspondence)",
                   "hand-written models Sio/Backoff.v, Sio/Reconnect.v, Sio/OfflineBuffer.v tied by kernel-evaluated correspondence",
                   "harness cmd/vh backoff|reconnect|offline + hook backoff_verif.go"]
    ctx.assumptions = ["math/rand top-level functions follow rand.Seed (Go <= 1.23 behaviour; the engine verifies it per case)"]
    ctx.proofs(modules=["Sio/BackoffCheck"])
    vh = ctx.go_build()
    if vh is None:
        return
    backoff_suite(ctx, vh)
