"""C15 - clients reconnect with bounded back-off and deliver what was emitted offline."""
from lib.vlib import gZ, gN, gnat, gbool, glist, gopt, gpair

BO_HDR = "From SioV Require Import Base.GoSem Sio.Backoff Sio.BackoffCheck.\nLocal Open Scope Z_scope.\n"


def bo_term(r):
    return "(%s : bocase)" % gpair(gZ(r["min"]), gZ(r["max"]), gZ(r["jm"]), gZ(r["je"]), gZ(r["att"]), gZ(r["k"]), gZ(r["ke"]),
                                   gZ(r["conv"]), gZ(r["d"]), gZ(r["after"]))


def eval_both(ctx, name, hdr, terms, oracle="oracle", agree="agree", shard=1500):
    """One kernel pass evaluating oracle && agree; only the failing cases are evaluated again, separately,
    to tell property failures from correspondence breaks.  Returns (bad_oracle, bad_agree) index lists."""
    hdr2 = hdr + "Definition both_ c := andb (%s c) (%s c).\n" % (oracle, agree)
    bad = ctx.coq_eval_cases(name + "_both", hdr2, terms, "both_", shard=shard)
    if not bad:
        return [], []
    sub = [terms[i] for i in bad]
    bo = ctx.coq_eval_cases(name + "_oracle", hdr, sub, oracle, shard=shard)
    ba = ctx.coq_eval_cases(name + "_agree", hdr, sub, agree, shard=shard)
    return [bad[i] for i in bo], [bad[i] for i in ba]


def bo_class(r):
    """finding class of a failing back-off input (None = unclassified)"""
    return None


def backoff_suite(ctx, vh):
    suites = [("grid", ["-mode", "grid", "-tier", ctx.tier, "-seed", ctx.seed]),
              ("random", ["-mode", "random", "-seed", ctx.seed, "-n", 1500 if ctx.quick else 60000])]
    for name, args in suites:
        rows = ctx.vh_jsonl(vh, "backoff", args)
        if rows is None:
            return
        terms = [bo_term(r) for r in rows]
        for r in rows:
            jit = 0 < r["jm"] <= 2 ** r["je"]
            wraps = r["att"] >= 63 or abs(r["min"]) * 2 ** r["att"] >= 2 ** 63
            key = ("bo", r["min"], r["max"], r["att"], r["jm"], r["je"]) if (wraps or jit or r["max"] >= 2 ** 53) else None
            ctx.count(1, nontrivial_key=key,
                      dist="backoff:%s:%s%s" % (name, "wrap" if wraps else "plain", "+jitter" if jit else ""))
        ctx.sample({"suite": "backoff/" + name, "case": rows[len(rows) // 3]})
        bad_oracle, bad_agree = eval_both(ctx, "bo_" + name, BO_HDR, terms, shard=max(300, (len(terms) + 7) // 8))
        ctx.obligation("correspondence:backoff/" + name, "correspondence", not bad_agree,
                       "%d cases, %d disagree" % (len(rows), len(bad_agree)))
        ctx.obligation("oracle:backoff/" + name, "oracle", not bad_oracle,
                       "%d cases, %d fail" % (len(rows), len(bad_oracle)))
        for i in bad_oracle[:3]:
            r = rows[i]
            ctx.fail_or_known(bo_class(r),
                              "back-off: newBackoff(min=%d, max=%d, jitter=%d/2^%d) at attempt %d returns %d ns: outside "
                              "(0, max], or the first delay is not the configured delay" % (
                                  r["min"], r["max"], r["jm"], r["je"], r["att"], r["d"]),
                              {"kind": "failing-input", "engine": "backoff", "case": r,
                               "replay": "sio.VerifBackoffDuration(min, max, jitter, att) with math/rand seeded so that the draw is k/2^ke"})
        if bad_agree and not bad_oracle:
            i = bad_agree[0]
            ctx.violation("back-off calculator no longer computes what the model Sio/Backoff.v computes "
                          "(theorems C15_delay_* are about the model); first differing case %s" % rows[i],
                          {"kind": "correspondence-broken", "suite": "backoff/" + name,
                           "theorems": ["C15_delay_in_range", "C15_first_delay", "C15_first_delay_jitter",
                                        "C15_delay_exponential"], "case": rows[i]}, no_input=True)
    # whole sequences of a fresh calculator + reset
    rows = ctx.vh_jsonl(vh, "backoff", ["-mode", "sequence"])
    if rows is None:
        return
    terms = ["(%s : seqcase)" % gpair(gZ(r["min"]), gZ(r["max"]), gZ(r["conv"]), glist(gZ(d) for d in r["ds"]), gZ(r["reset"]))
             for r in rows]
    for r in rows:
        ctx.count(1, nontrivial_key=("seq", r["min"], r["max"]), dist="backoff:sequence")
    bad_oracle, bad_agree = eval_both(ctx, "bo_seq", BO_HDR, terms, "seq_oracle", "seq_agree")
    ctx.obligation("correspondence:backoff/sequence", "correspondence", not bad_agree,
                   "%d sequences of 80 delays + reset, %d disagree" % (len(rows), len(bad_agree)))
    ctx.obligation("oracle:backoff/sequence", "oracle", not bad_oracle, "%d sequences, %d fail" % (len(rows), len(bad_oracle)))
    for i in bad_oracle[:2]:
        ctx.violation("back-off: a fresh calculator (min=%d, max=%d, no jitter) yields delays %s...; after reset %d: a delay is "
                      "outside (0,max] or the sequence does not (re)start from the configured delay" % (
                          rows[i]["min"], rows[i]["max"], rows[i]["ds"][:6], rows[i]["reset"]),
                      {"kind": "failing-input", "engine": "backoff-sequence", "case": rows[i]})
    if bad_agree and not bad_oracle:
        ctx.violation("back-off attempt counter / reset no longer behaves as the model (Sio/Backoff.v delays_from)",
                      {"kind": "correspondence-broken", "suite": "backoff/sequence",
                       "theorems": ["C15_delay_exponential", "C15_first_delay"], "case": rows[bad_agree[0]]}, no_input=True)


RC_HDR = "From SioV Require Import Base.GoSem Sio.Backoff Sio.Reconnect Sio.ReconnectCheck.\nLocal Open Scope Z_scope.\n"
RC_FAIL = ("f503", "garbage", "hang", "extra")


def rc_segments(row):
    """cut script and recording at the rig's own actions"""
    segs = []
    for tok in row["script"]:
        if tok in ("open", "drop", "close", "abort", "sabort"):
            segs.append({"in": tok, "dials": [], "ev": []})
        else:
            segs[-1]["dials"].append(tok)
    cur = -1
    for e in row["events"]:
        k = e["k"]
        if k in ("in:open", "in:drop", "in:close", "in:abort"):
            cur += 1
            if cur < len(segs):
                segs[cur]["t0"] = e["t"]
            continue
        if k == "in:end":
            cur = len(segs)          # whatever comes after the end marker belongs to no segment
            segs.append({"in": "end", "dials": [], "ev": []})
            continue
        if 0 <= cur < len(segs):
            segs[cur]["ev"].append(e)
    return segs


def rc_term(row):
    segs = rc_segments(row)
    out = []
    for sg in segs:
        if sg["in"] == "end":
            ins = []
        else:
            ins = [{"open": "IOpen", "drop": "IDrop", "close": "IClose", "abort": "IClose", "sabort": "IClose"}[sg["in"]]]
            ins += ["(IDial %s 0 None)" % gbool(d == "ok") for d in sg["dials"]]
        ev = sg["ev"]
        cnt = lambda k: sum(1 for e in ev if e["k"] == k)
        times = ([sg["t0"]] if sg["in"] == "drop" and "t0" in sg else []) + [e["t"] for e in ev if e["k"].startswith("dial:")]
        gaps = [b - a for a, b in zip(times, times[1:])]
        obs = gpair(gZ(cnt("open")), gZ(cnt("error")), gZ(cnt("close")), gZ(cnt("reconnect_error")),
                    gZ(cnt("reconnect_failed")),
                    glist(gZ(e["n"]) for e in ev if e["k"] == "reconnect_attempt"),
                    glist(gZ(e["n"]) for e in ev if e["k"] == "reconnect"),
                    glist(gZ(g) for g in gaps))
        out.append(gpair(glist(ins), obs))
    return "(%s : rcase)" % gpair(gZ(row["limit"]), gbool(row["norecon"]), gZ(row["min"]), gZ(row["max"]), gbool(row["jitter"]),
                                  glist(out))


def rc_env_trouble(row):
    """a dial failed without reaching the gate (client-side time-out on an overloaded machine) or the rig's
    own wait expired: the run says nothing about the property"""
    if row["timeout"]:
        return True
    # an abort that landed after the back-off sleep it was aimed at (stalled machine): before the abort marker the
    # manager announced more attempts than the script has dials in that segment
    toks = row["script"]
    ev = row["events"]
    marks = [i for i, e in enumerate(ev) if e["k"] in ("in:open", "in:drop", "in:close", "in:abort", "in:end")]
    acts = [t for t in toks if t in ("open", "drop", "close", "abort", "sabort")]
    for mi, pos in enumerate(marks[:-1]):
        if ev[marks[mi + 1]]["k"] == "in:abort" and mi < len(acts):
            # segment mi precedes an abort: count its scripted dials
            idx = [i for i, t in enumerate(toks) if t in ("open", "drop", "close", "abort", "sabort")][mi]
            nd = 0
            for t in toks[idx + 1:]:
                if t in ("open", "drop", "close", "abort", "sabort"):
                    break
                nd += 1
            scripted_attempts = nd - (1 if toks[idx] == "open" else 0)
            seen = sum(1 for e in ev[pos:marks[mi + 1]] if e["k"] == "reconnect_attempt")
            if seen > max(0, scripted_attempts):
                return True
    errs = sum(1 for e in row["events"] if e["k"] == "error")
    fails = sum(1 for e in row["events"] if e["k"].startswith("dial:") and e["k"][5:] in RC_FAIL)
    return errs > fails


def rc_delivery_ok(row):
    """numbered events emitted while the socket was down: the non-volatile (even) ones emitted before the last
    connect of the socket all arrive, nothing arrives twice, nothing that was not emitted arrives"""
    ev_arr = [n for n in row["arrived"] if n % 2 == 0]
    ev_emit = [n for n in row["emitted"] if n % 2 == 0]
    if len(set(row["arrived"])) != len(row["arrived"]) or not set(row["arrived"]) <= set(row["emitted"]):
        return False
    conns = [e["n"] for e in row["events"] if e["k"] == "socket_connect"]
    due = [n for n in ev_emit if conns and n < conns[-1]]
    return set(due) <= set(ev_arr)


def reconnect_suite(ctx, vh):
    n = 25 if ctx.quick else 400
    rows = ctx.vh_jsonl(vh, "reconnect", ["-seed", ctx.seed, "-n", n, "-par", 10], timeout=900)
    if rows is None:
        return
    import json, os
    # runs disturbed by the environment are repeated alone; what stays disturbed is counted, not judged
    for attempt in range(2):
        redo = [i for i, r in enumerate(rows) if rc_env_trouble(r)]
        if not redo:
            break
        path = os.path.join(ctx.work, "rc_redo_%d.jsonl" % attempt)
        with open(path, "w") as f:
            for i in redo:
                f.write(json.dumps(rows[i]) + "\n")
        again = ctx.vh_jsonl(vh, "reconnect", ["-replay", path, "-seed", attempt], timeout=900)
        if again is None:
            return
        for i, r in zip(redo, again):
            rows[i] = r
    # a wait of the rig that expires again and again (3 runs, the last two alone) is not the environment: the manager
    # did not do what the script needs (e.g. it never dialled again), so the run is judged like any other
    judged = [r for r in rows if not rc_env_trouble(r) or r["timeout"]]
    ctx.indeterminate += len(rows) - len(judged)
    terms = [rc_term(r) for r in judged]
    bad_oracle, bad_agree = eval_both(ctx, "rc", RC_HDR, terms, shard=max(20, (len(terms) + 7) // 8))
    bad_deliv = [i for i, r in enumerate(judged) if not rc_delivery_ok(r)]
    # a failing live case is run once more, alone: only what reproduces is reported
    suspects = sorted(set(bad_oracle) | set(bad_agree) | set(bad_deliv))
    if suspects:
        path = os.path.join(ctx.work, "rc_suspects.jsonl")
        with open(path, "w") as f:
            for i in suspects:
                f.write(json.dumps(judged[i]) + "\n")
        again = ctx.vh_jsonl(vh, "reconnect", ["-replay", path], timeout=900)
        if again is None:
            return
        keep = [k for k, r in enumerate(again) if not rc_env_trouble(r) or r["timeout"]]
        t2 = [rc_term(again[k]) for k in keep]
        bo2, ba2 = eval_both(ctx, "rc_again", RC_HDR, t2, shard=50)
        bd2 = [j for j, k in enumerate(keep) if not rc_delivery_ok(again[k])]
        idx = lambda js: [suspects[keep[j]] for j in js]
        bo2, ba2, bd2 = set(idx(bo2)), set(idx(ba2)), set(idx(bd2))
        nrep = lambda first, second: [i for i in first if i in second]
        ctx.indeterminate += len(set(bad_oracle) - bo2) + len(set(bad_agree) - ba2) + len(set(bad_deliv) - bd2)
        for j, k in enumerate(keep):
            judged[suspects[k]] = again[k] if (suspects[k] in bo2 | ba2 | bd2) else judged[suspects[k]]
        bad_oracle, bad_agree, bad_deliv = nrep(bad_oracle, bo2), nrep(bad_agree, ba2), nrep(bad_deliv, bd2)
        # and a third time: a real defect fails every time, a stalled machine does not
        still = sorted(set(bad_oracle) | set(bad_agree) | set(bad_deliv))
        if still:
            path = os.path.join(ctx.work, "rc_suspects3.jsonl")
            with open(path, "w") as f:
                for i in still:
                    f.write(json.dumps(judged[i]) + "\n")
            third = ctx.vh_jsonl(vh, "reconnect", ["-replay", path, "-seed", 3], timeout=900)
            if third is None:
                return
            ok3 = set()
            keep3 = [k for k, r in enumerate(third) if not rc_env_trouble(r) or r["timeout"]]
            t3 = [rc_term(third[k]) for k in keep3]
            bo3, ba3 = eval_both(ctx, "rc_third", RC_HDR, t3, shard=50)
            fail3 = {still[keep3[j]] for j in set(bo3) | set(ba3)} | {still[k] for k in keep3 if not rc_delivery_ok(third[k])}
            gone = [i for i in still if i not in fail3]
            ctx.indeterminate += len(gone)
            bad_oracle = [i for i in bad_oracle if i in fail3]
            bad_agree = [i for i in bad_agree if i in fail3]
            bad_deliv = [i for i in bad_deliv if i in fail3]
    for r in judged:
        nd = sum(1 for t in r["script"] if t not in ("open", "drop", "close", "abort", "sabort"))
        ctx.count(1, nontrivial_key=("rc", r["limit"], r["norecon"], tuple(r["script"])) if nd >= 2 else None,
                  dist="reconnect:limit%d:%s%s" % (r["limit"], "aborted-cycle+" if any(t in ("abort", "sabort") for t in r["script"]) else "",
                                                   "gives-up" if any(e["k"] == "reconnect_failed" for e in r["events"]) else "recovers"))
    ctx.sample({"suite": "reconnect/live", "case": {k: judged[len(judged) // 2][k] for k in ("limit", "norecon", "min", "max", "script")},
                "events": [e["k"] for e in judged[len(judged) // 2]["events"]]})
    ctx.obligation("correspondence:reconnect/live", "correspondence", not bad_agree,
                   "%d scripts against a real Manager + gated real server, %d disagree (%d disturbed runs not judged)" % (
                       len(judged), len(bad_agree), len(rows) - len(judged)))
    ctx.obligation("oracle:reconnect/live", "oracle", not bad_oracle, "%d scripts, %d fail" % (len(judged), len(bad_oracle)))
    ctx.obligation("oracle:reconnect/offline-delivery", "oracle", not bad_deliv,
                   "%d scripts with numbered emits while down, %d fail" % (len(judged), len(bad_deliv)))
    show = lambda r: {"limit": r["limit"], "norecon": r["norecon"], "min_ns": r["min"], "max_ns": r["max"], "jitter": r["jitter"],
                      "script": r["script"], "events": ["%s%s" % (e["k"], (":%d" % e["n"]) if e["n"] else "") for e in r["events"]],
                      "emitted": r["emitted"], "arrived": r["arrived"]}
    for i in bad_oracle[:3]:
        ctx.violation("reconnect: with ReconnectionAttempts=%d%s the manager's events for the outage script %s violate the property "
                      "(attempt numbering / exactly N attempts then one reconnect_failed / reconnect when reachable / delay before an attempt)"
                      % (judged[i]["limit"], " (reconnection off)" if judged[i]["norecon"] else "", judged[i]["script"]),
                      {"kind": "failing-input", "engine": "reconnect", "case": show(judged[i]),
                       "replay": "vh reconnect -replay <file with this case>"})
    for i in bad_deliv[:3]:
        ctx.violation("offline delivery: events emitted while the socket was down %s, arrived at the server %s (even = non-volatile: "
                      "must arrive exactly once after the reconnect; nothing may arrive twice) for script %s"
                      % (judged[i]["emitted"], judged[i]["arrived"], judged[i]["script"]),
                      {"kind": "failing-input", "engine": "reconnect", "case": show(judged[i])})
    if bad_agree and not bad_oracle:
        i = bad_agree[0]
        ctx.violation("the manager's reconnect behaviour differs from the model Sio/Reconnect.v (theorems C15_gives_up_exactly, "
                      "C15_reconnects_when_up, ... are about the model); script %s" % judged[i]["script"],
                      {"kind": "correspondence-broken", "suite": "reconnect/live",
                       "theorems": ["C15_gives_up_exactly", "C15_gives_up_exactly_on_open", "C15_reconnects_when_up",
                                    "C15_no_reconnection", "C15_idle_is_quiet"], "case": show(judged[i])}, no_input=True)


OFF_HDR = "From SioV Require Import Base.GoSem Sio.OfflineBuffer Sio.OfflineCheck.\n"
HK = {"N": "HNoAck", "S": "HAckSync", "Q": "HAckSilent"}


def off_op_term(o):
    k = o["op"]
    if k == "emit":
        return "(Emit %s %s %s %s)" % (gN(o.get("l", 0)), gbool(o.get("vol", False)), gbool(o.get("ack", False)), gnat(o.get("att", 0)))
    if k == "recv":
        i = o.get("id", 0)
        return "(Recv %s %s %s)" % (gN(o.get("l", 0)), gopt(gN(i) if i >= 0 else None), glist(HK[c] for c in o["hs"]))
    if k == "timeout":
        return "(Timeout %s)" % gN(o.get("id", 0))
    return {"open": "MgrOpen", "reply": "ConnectReply", "close": "Close"}[k]


def off_term(row, upto=None):
    n = len(row["ops"]) if upto is None else upto
    obs = []
    for w, c in list(zip(row["wire"], row["calls"]))[:n]:
        ws = glist(gpair(gN(k), gN(l if l >= 0 else 999999), gnat(i), gopt(gN(a) if a >= 0 else None)) for k, l, i, a in w)
        cs = glist(gpair(gN(l), gnat(h)) for l, h in c)
        obs.append(gpair(ws, cs))
    return "(%s : ocase)" % gpair(glist(off_op_term(o) for o in row["ops"][:n]), glist(obs))


def off_show(row):
    def one(o):
        if o["op"] == "emit":
            if o.get("tmo"):
                return "emit(%d%s,ack+timeout%s)" % (o.get("l", 0), ",volatile" if o.get("vol") else "",
                                                     ",%d attachments" % o["att"] if o.get("att") else "")
            chain = {"vt": ",Volatile().Timeout(d)", "tv": ",Timeout(d).Volatile()", "t": ",Timeout(d)"}.get(o.get("chain", ""), "")
            return "emit(%d%s%s%s%s)" % (o.get("l", 0), ",volatile" if o.get("vol") else "", ",ack" if o.get("ack") else "", chain,
                                       ",%d attachments" % o["att"] if o.get("att") else "")
        if o["op"] == "recv":
            return "recv(%d,id=%d,handlers=%s)" % (o.get("l", 0), o.get("id", 0), o["hs"])
        if o["op"] == "timeout":
            return "timeout(ack id %d expires)" % o.get("id", 0)
        return o["op"]
    return [one(o) for o in row["ops"]]


def offline_suite(ctx, vh):
    import json, os
    rows = ctx.vh_jsonl(vh, "offline", ["-seed", ctx.seed, "-n", 70 if ctx.quick else 1500, "-par", 10], timeout=900)
    if rows is None:
        return
    disturbed = [r for r in rows if r["timeout"]]
    ctx.indeterminate += len(disturbed)
    if len(disturbed) * 5 > len(rows):
        ctx.violation("offline rig: %d of %d histories could not be driven to the end (an operation's effect never showed up, "
                      "e.g. %s at %s)" % (len(disturbed), len(rows), off_show(disturbed[0]), disturbed[0]["timeout"]),
                      {"kind": "correspondence-broken", "suite": "offline/live", "theorems": ["C15_offline_exactly_once_in_order"],
                       "case": {"ops": off_show(disturbed[0]), "stopped_at": disturbed[0]["timeout"]}}, no_input=True)
    # a history that stops early again at the same operation when run alone is not the environment
    for r in disturbed[:6]:
        one = ctx.vh_jsonl(vh, "offline", ["-replay", json.dumps(r["ops"]), "-n", 0, "-seed", 1], timeout=300)
        if one and one[0]["timeout"] == r["timeout"]:
            one2 = ctx.vh_jsonl(vh, "offline", ["-replay", json.dumps(r["ops"]), "-n", 0, "-seed", 2], timeout=300)
            if not (one2 and one2[0]["timeout"] == r["timeout"]):
                continue
            ctx.violation("offline buffer: history %s: the effect of %s never shows up (three times in a row, twice run alone): "
                          "a CONNECT request, a connect / close callback, a parked event or a flushed frame is missing"
                          % (off_show(r), r["timeout"]),
                          {"kind": "failing-input", "engine": "offline", "case": {"ops": r["ops"], "wire": one[0]["wire"],
                                                                                 "calls": one[0]["calls"], "stopped_at": r["timeout"]}})
    # a history that stopped early is judged on the part that completed
    terms = [off_term(r, None if not r["timeout"] else max(0, len(r["wire"]) - 1)) for r in rows]
    bad_oracle, bad_agree = eval_both(ctx, "off", OFF_HDR, terms, shard=max(20, (len(terms) + 7) // 8))
    suspects = sorted(set(bad_oracle) | set(bad_agree))
    if suspects:   # live rig: only what reproduces when run again, alone, is reported
        again = []
        for i in suspects:
            path = os.path.join(ctx.work, "off_suspect.json")
            one = ctx.vh_jsonl(vh, "offline", ["-replay", json.dumps(rows[i]["ops"]), "-n", 0, "-seed", i], timeout=300)
            if one is None:
                return
            again.append(one[0])
        t2 = [off_term(r, None if not r["timeout"] else max(0, len(r["wire"]) - 1)) for r in again]
        bo2, ba2 = eval_both(ctx, "off_again", OFF_HDR, t2, shard=50)
        bo2, ba2 = {suspects[j] for j in bo2}, {suspects[j] for j in ba2}
        ctx.indeterminate += len(set(bad_oracle) - bo2) + len(set(bad_agree) - ba2)
        bad_oracle = [i for i in bad_oracle if i in bo2]
        bad_agree = [i for i in bad_agree if i in ba2]
        still = sorted(set(bad_oracle) | set(bad_agree))
        if still:   # and a third time
            third = []
            for i in still:
                one = ctx.vh_jsonl(vh, "offline", ["-replay", json.dumps(rows[i]["ops"]), "-n", 0, "-seed", 3], timeout=300)
                if one is None:
                    return
                third.append(one[0])
            t3 = [off_term(r, None if not r["timeout"] else max(0, len(r["wire"]) - 1)) for r in third]
            bo3, ba3 = eval_both(ctx, "off_third", OFF_HDR, t3, shard=50)
            bo3, ba3 = {still[j] for j in bo3}, {still[j] for j in ba3}
            ctx.indeterminate += len(set(bad_oracle) - bo3) + len(set(bad_agree) - ba3)
            bad_oracle = [i for i in bad_oracle if i in bo3]
            bad_agree = [i for i in bad_agree if i in ba3]
    for r in rows:
        kinds = set(o["op"] for o in r["ops"])
        parked = any(o["op"] == "emit" for o in r["ops"]) and "reply" in kinds
        ctx.count(1, nontrivial_key=("off", json.dumps(r["ops"], sort_keys=True)) if parked else None,
                  dist="offline:%s%s%s" % ("timeout+" if "timeout" in kinds else "", "recv+" if "recv" in kinds else "", "reconnect" if sum(1 for o in r["ops"] if o["op"] == "open") > 1 else "single"))
    ctx.sample({"suite": "offline/live", "ops": off_show(rows[len(rows) // 2]), "wire": rows[len(rows) // 2]["wire"]})
    ctx.obligation("correspondence:offline/live", "correspondence", not bad_agree,
                   "%d histories (<= 13 ops) against a real client + raw protocol server, %d disagree, %d stopped early" % (
                       len(rows), len(bad_agree), len(disturbed)))
    ctx.obligation("oracle:offline/live", "oracle", not bad_oracle, "%d histories, %d fail" % (len(rows), len(bad_oracle)))
    for i in bad_oracle[:3]:
        r = rows[i]
        ctx.violation("offline buffer: history %s -> the server received (per operation; [kind,label,frame,ack], kind 1 = event frame, 2 = ack) %s, "
                      "handlers run %s: a non-volatile emit made while not connected is missing / duplicated / out of order after the CONNECT reply, "
                      "or a volatile one was sent, or a parked event's handler did not run exactly once"
                      % (off_show(r), r["wire"], r["calls"]),
                      {"kind": "failing-input", "engine": "offline", "case": {"ops": r["ops"], "wire": r["wire"], "calls": r["calls"]},
                       "replay": "vh offline -n 0 -replay '<ops as JSON>'"})
    if bad_agree and not bad_oracle:
        r = rows[bad_agree[0]]
        ctx.violation("client socket buffering differs from the model Sio/OfflineBuffer.v (theorems C15_offline_* are about the model); "
                      "history %s, observed wire %s, calls %s" % (off_show(r), r["wire"], r["calls"]),
                      {"kind": "correspondence-broken", "suite": "offline/live",
                       "theorems": ["C15_offline_exactly_once_in_order", "C15_delivered_after_connect", "C15_reply_hands_over_offline_emits",
                                    "C15_volatile_offline_dropped", "C15_buffered_events_called_once"],
                       "case": {"ops": r["ops"], "wire": r["wire"], "calls": r["calls"]}}, no_input=True)


def run(ctx):
    ctx.rule = ("back-off: boundary grid (min x max x attempt x jitter incl. int64 wrap points, attempts 0..70, 1023..1025, 2^31, 2^32-1) "
                "+ seeded random inputs with the PRNG draw reproduced exactly; non-trivial = the product wraps, jitter is on, or max >= 2^53")
    ctx.trusted = ["Coq 8.16.1 kernel + vm_compute (incl. primitive floats, used only to replay the jitter arithmetic in the correspondence)",
                   "hand-written models Sio/Backoff.v, Sio/Reconnect.v, Sio/OfflineBuffer.v tied by kernel-evaluated correspondence",
                   "harness cmd/vh backoff|reconnect|offline + hook backoff_verif.go"]
    ctx.assumptions = ["math/rand top-level functions follow rand.Seed (Go <= 1.23 behaviour; the engine verifies it per case)"]
    ctx.proofs(modules=["Sio/BackoffCheck", "Sio/ReconnectCheck", "Sio/OfflineCheck"])
    vh = ctx.go_build()
    if vh is None:
        return
    backoff_suite(ctx, vh)
    reconnect_suite(ctx, vh)
    offline_suite(ctx, vh)
