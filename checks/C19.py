"""C19 - queued packets are sent without waiting for unrelated traffic (no lost wake-up).

Forced schedules on the real pollQueue / packetQueue through the yield hooks (every interleaving of
the hook points for 1-2 consumers x 1-3 producers, close/reset/closer at every position), compared
step by step with the models Eio/PollQueue.v and Sio/PacketQueue.v (kernel evaluation), the property
oracle evaluated on the observations alone, and a live long-polling rig."""
import concurrent.futures as cf
import json
import os
import re
import time

from lib.vlib import gN, gnat, gbool, glist, gpair, gZ

THEOREMS_POLL = ["C19_poll_no_lost_wakeup", "C19_poll_progress", "C19_poll_fifo_all_delivered",
                 "C19_poll_never_empty_while_queued"]
THEOREMS_PQ = ["C19_pq_no_lost_wakeup", "C19_pq_progress", "C19_pq_fifo_all_delivered", "C19_pq_close_drain"]


def ids(l):
    return "[" + "; ".join("%d" % i for i in l) + "]%N"


def nats(l):
    return glist("%d" % i for i in l)


def poll_term(row):
    steps = []
    for op, ob in zip(row["ops"], row["obs"]):
        if op["k"] == "S":
            o = "(HS %d %s)" % (op["c"], gbool(op.get("s", 0) == 1))
        elif op["k"] == "R":
            o = "(HR %d)" % op["c"]
        elif op["k"] == "A":
            o = "(HA %s)" % ids(op["p"])
        else:
            raise ValueError("poll queue: unexpected op %r" % (op,))
        sts = []
        for c in ob["c"]:
            sts.append({"idle": "HIdle", "held": "HHeld", "blk": "HBlk"}.get(c["s"]) or "HRet %s" % ids(c["p"]))
        steps.append("PS %s (PO %s %s %d %d)" % (o, glist(sts), nats(ob["ev"]), ob["q"], ob["r"]))
    return "PC %d %s" % (row["nc"], glist(steps))


def packet_term(row):
    steps = []
    for op, ob in zip(row["ops"], row["obs"]):
        k = op["k"]
        if k == "S":
            o = "(KS %d)" % op["c"]
        elif k == "R":
            o = "(KR %d)" % op["c"]
        elif k == "A":
            o = "(KA %s)" % ids(op["p"])
        else:
            o = {"X": "KX", "Z": "KZ", "W": "KW"}[k]
        sts = []
        for c in ob["c"]:
            if c["s"] == "ret":
                sts.append("KClosed" if c["cl"] else "KRet %s %s" % (ids(c["p"]), gbool(c["ok"])))
            else:
                sts.append({"idle": "KIdle", "held": "KHeld", "blk": "KBlk"}[c["s"]])
        steps.append("KSt %s (KO %s %s %d %d %d %d %d)" % (o, glist(sts), nats(ob["ev"]), ob["q"], ob["r"],
                                                         ob["x"], ob["z"], 1 if ob["w"] == "blk" else 0))
    return "KC %d %s" % (row["nc"], glist(steps))


def critical(row):
    """non-trivial = a producer / close / reset ran while a consumer was held in the window between its
    emptiness check and its wait (the interleaving the existing tests cannot place)"""
    for i, op in enumerate(row["ops"]):
        if op["k"] in ("A", "X", "Z", "W") and i > 0 and any(c["s"] == "held" for c in row["obs"][i - 1]["c"]):
            return True
    return False


def describe(row):
    out = []
    for op, ob in zip(row["ops"], row["obs"]):
        o = op["k"] + (str(op["c"]) if op["k"] in "SR" else "") + ("short" if op.get("s") else "") + \
            (str(op["p"]) if op["k"] == "A" else "")
        sts = ",".join(c["s"] + (str(c["p"]) if c["s"] == "ret" else "") + ("/closed" if c.get("cl") else "")
                       for c in ob["c"])
        out.append("%s->[%s] q=%d ready=%d" % (o, sts, ob["q"], ob["r"]))
    return "; ".join(out)


def eval_both(ctx, name, hdr, terms, shard):
    """Evaluate `oracle` and `agree` on every case (one coqc per shard, shards in parallel); returns the
    indexes where each is false.  Same kernel evaluation as ctx.coq_eval_cases, two functions per process."""
    if not terms:
        return [], []
    shards = [list(range(i, min(i + shard, len(terms)))) for i in range(0, len(terms), shard)]
    falses = ("(fix go (i : nat) l := match l with [] => [] | c :: l' => "
              "if %s c then go (S i) l' else i :: go (S i) l' end) O cases_")

    def run_shard(k):
        idxs = shards[k]
        body = hdr + "\nDefinition cases_ := [\n  " + ";\n  ".join(terms[i] for i in idxs) + "\n].\n"
        body += "Definition bad_o_ := Eval vm_compute in (%s).\nPrint bad_o_.\n" % (falses % "oracle")
        body += "Definition bad_a_ := Eval vm_compute in (%s).\nPrint bad_a_.\n" % (falses % "agree")
        rc, out = ctx.coq_run("%s_%03d" % (name, k), body, timeout=900)
        if rc != 0:
            raise RuntimeError("coqc failed on %s shard %d:\n%s" % (name, k, out[-3000:]))
        res = []
        for v in ("bad_o_", "bad_a_"):
            m = re.search(v + r"\s*=\s*(\[.*?\])\s*:\s*list nat", out, re.S)
            if not m:
                raise RuntimeError("cannot parse coqc output for %s shard %d:\n%s" % (name, k, out[-2000:]))
            res.append([idxs[int(x)] for x in re.findall(r"\d+", m.group(1))])
        return res

    bo, ba = [], []
    with cf.ThreadPoolExecutor(max_workers=int(os.environ.get("VERIF_JOBS", "8"))) as ex:
        for o, a in ex.map(run_shard, range(len(shards))):
            bo.extend(o)
            ba.extend(a)
    return sorted(bo), sorted(ba)


def forced_suite(ctx, vh, queue):
    mod = "Eio.PollQueueCheck" if queue == "poll" else "Sio.PacketQueueCheck"
    hdr = "From Coq Require Import List NArith ZArith Bool.\nImport ListNotations.\nFrom SioV Require Import %s.\n" % mod
    term = poll_term if queue == "poll" else packet_term
    theorems = THEOREMS_POLL if queue == "poll" else THEOREMS_PQ
    rows = ctx.vh_jsonl(vh, "queues", ["-mode", "forced", "-queue", queue, "-tier", ctx.tier, "-seed", ctx.seed])
    if rows is None:
        return
    # a run the harness could not bring to quiescence (environment): replay it, never drop it silently
    for i, r in enumerate(rows):
        for _attempt in range(2):
            if not r.get("err"):
                break
            rc, txt = ctx.vh(vh, ["queues", "-mode", "forced", "-queue", queue, "-nc", r["nc"],
                                  "-only", json.dumps(r["ops"][:len(r["ops"])] if r.get("ops") else [])])
            try:
                r = json.loads(txt.strip().split("\n")[-1])
                r["cfg"] = rows[i]["cfg"]
            except Exception:
                break
        rows[i] = r
    errs = [r for r in rows if r.get("err")]
    if errs:
        ctx.violation("forced-schedule harness could not run %d schedules on the %s queue: %s"
                      % (len(errs), queue, errs[0]["err"]),
                      {"kind": "correspondence-broken", "suite": "forced/" + queue, "case": errs[0]}, no_input=True)
        rows = [r for r in rows if not r.get("err")]
    terms = [term(r) for r in rows]
    for r in rows:
        ctx.count(1, nontrivial_key=(queue, json.dumps(r["ops"])) if critical(r) else None,
                  dist="forced:%s:%s" % (queue, r["cfg"]))
    if rows:
        ctx.sample({"suite": "forced/" + queue, "case": rows[len(rows) // 2]})
    # oracle and agree of one shard are evaluated by the same coqc process (start-up dominates)
    t0 = time.time()
    bad_oracle, bad_agree = eval_both(ctx, "c19_" + queue, hdr, terms, shard=max(150, min(600, (len(terms) + 3) // 4)))
    ctx.note("%s queue: %d schedules evaluated in Coq in %.1f s" % (queue, len(terms), time.time() - t0))
    ctx.obligation("correspondence:forced/" + queue, "correspondence", not bad_agree,
                   "%d schedules, %d disagree with the model" % (len(rows), len(bad_agree)))
    ctx.obligation("oracle:forced/" + queue, "oracle", not bad_oracle,
                   "%d schedules, %d violate the property" % (len(rows), len(bad_oracle)))
    qname = "pollQueue (long-polling transport)" if queue == "poll" else "packetQueue (sender goroutine)"
    for i in sorted(bad_oracle, key=lambda i: len(rows[i]["ops"]))[:3]:
        r = rows[i]
        ctx.fail_or_known(None,
                          "%s: under the forced schedule a poll is left waiting / answers empty while packets "
                          "are queued (or while a close is pending / after close()), or packets are lost, "
                          "duplicated or reordered: %s" % (qname, describe(r)),
                          {"kind": "failing-input", "engine": "queues", "queue": queue, "nc": r["nc"],
                           "ops": r["ops"], "observed": r["obs"],
                           "replay_cmd": "vh queues -mode forced -queue %s -nc %d -only '%s'"
                                         % (queue, r["nc"], json.dumps(r["ops"]))})
    if bad_agree and not bad_oracle:
        r = rows[bad_agree[0]]
        ctx.violation("%s no longer behaves like the model (%d of %d forced schedules differ); the theorems %s "
                      "are about the model; first differing schedule: %s"
                      % (qname, len(bad_agree), len(rows), ", ".join(theorems), describe(r)),
                      {"kind": "correspondence-broken", "suite": "forced/" + queue, "theorems": theorems,
                       "case": r}, no_input=True)


def swap_term(row):
    steps = []
    for op, ob in zip(row["ops"], row["obs"]):
        k = op["k"]
        o = {"N": "(ON %d %s)" % (op.get("c", 0), gbool(op.get("s", 0) == 1)), "R": "(OR %d)" % op.get("c", 0),
             "U": "OU"}[k]
        sts = [{"idle": "WIdle", "held": "WHeld", "blk": "WBlk", "ret": "WRet"}[c["s"]] for c in ob["c"]]
        up = {"idle": 0, "blk": 1, "done": 2}[ob["w"]]
        steps.append("WS %s (WO %s %d %s %s)" % (o, glist(sts), up, ids(ob.get("oq") or []), ids(ob.get("ns") or [])))
    return "WC %d %s" % (row["nc"], glist(steps))


def describe_swap(row):
    out = []
    for op, ob in zip(row["ops"], row["obs"]):
        o = {"N": "Send%d%s" % (op.get("c", 0) + 1, "(held in transport.Send)" if op.get("s") else ""),
             "R": "release%d" % (op.get("c", 0) + 1), "U": "upgradeTo"}[op["k"]]
        out.append("%s->senders[%s] upgrade=%s oldQueue=%s newSent=%s"
                   % (o, ",".join(c["s"] for c in ob["c"]), ob["w"], ob.get("oq") or [], ob.get("ns") or []))
    return "; ".join(out)


def swap_suite(ctx, vh):
    """engine.io server socket: Send racing the transport swap.  Real serverSocket on the real polling
    transport wrapped so that chosen Sends are held at the first instruction of transport.Send (after the
    socket picked the transport, before the packet is queued); every interleaving with one upgradeTo."""
    hdr = "From Coq Require Import List NArith ZArith Bool.\nImport ListNotations.\nFrom SioV Require Import Eio.PollQueueSwapCheck.\n"
    theorems = ["C19_swap_no_stranded", "C19_swap_send_targets_current"]
    rows = ctx.vh_jsonl(vh, "queues", ["-mode", "forced", "-queue", "swap", "-tier", ctx.tier, "-seed", ctx.seed])
    if rows is None:
        return
    errs = [r for r in rows if r.get("err")]
    if errs:
        ctx.violation("swap rig could not run %d schedules: %s" % (len(errs), errs[0]["err"]),
                      {"kind": "correspondence-broken", "suite": "forced/swap", "case": errs[0]}, no_input=True)
        rows = [r for r in rows if not r.get("err")]
    terms = [swap_term(r) for r in rows]
    for r in rows:
        racing = any(op["k"] == "U" and i > 0 and any(c["s"] == "held" for c in r["obs"][i - 1]["c"])
                     for i, op in enumerate(r["ops"]))
        ctx.count(1, nontrivial_key=("swap", json.dumps(r["ops"])) if racing else None, dist="forced:swap:" + r["cfg"])
    if rows:
        ctx.sample({"suite": "forced/swap", "case": rows[len(rows) // 2]})
    bad_oracle, bad_agree = eval_both(ctx, "c19_swap", hdr, terms, shard=400)
    ctx.obligation("correspondence:forced/swap", "correspondence", not bad_agree,
                   "%d schedules, %d disagree with the model" % (len(rows), len(bad_agree)))
    ctx.obligation("oracle:forced/swap", "oracle", not bad_oracle,
                   "%d schedules, %d violate the property" % (len(rows), len(bad_oracle)))
    for i in sorted(bad_oracle, key=lambda i: len(rows[i]["ops"]))[:3]:
        r = rows[i]
        ctx.fail_or_known(None,
                          "engine.io server socket: a packet handed to Send while the connection is upgraded is left "
                          "in the poll queue of the discarded transport (or lost / duplicated / a Send or the upgrade "
                          "stays blocked): %s" % describe_swap(r),
                          {"kind": "failing-input", "engine": "queues", "queue": "swap", "nc": r["nc"],
                           "ops": r["ops"], "observed": r["obs"],
                           "replay_cmd": "vh queues -mode forced -queue swap -nc %d -only '%s'"
                                         % (r["nc"], json.dumps(r["ops"]))})
    if bad_agree and not bad_oracle:
        r = rows[bad_agree[0]]
        ctx.violation("engine.io server socket Send/upgradeTo no longer behave like the model Eio/PollQueueSwap.v "
                      "(%d of %d forced schedules differ); the theorems %s are about the model; first differing "
                      "schedule: %s" % (len(bad_agree), len(rows), ", ".join(theorems), describe_swap(r)),
                      {"kind": "correspondence-broken", "suite": "forced/swap", "theorems": theorems, "case": r},
                      no_input=True)


def park_term(row):
    steps = []
    for op, ob in zip(row["ops"], row["obs"]):
        o = {"E": "(PE %d)" % op.get("c", 0), "R": "(PR %d)" % op.get("c", 0), "C": "PCn", "F": "PFl"}[op["k"]]
        steps.append("KPS %s %d %s" % (o, max(ob["q"], 0), gbool(ob["x"] == 1)))
    return "KP %s %s %s" % (glist(ids(p) for p in row["progs"]), glist(steps), ids(row.get("recv") or []))


def describe_park(row):
    out = []
    for op, ob in zip(row["ops"], row["obs"]):
        o = {"E": "Emit by emitter %d (parked before sendBufferMu)" % op.get("c", 0), "R": "release emitter %d" % op.get("c", 0),
             "C": "CONNECT reply (state=Connected, flush held)", "F": "flush of the CONNECT reply"}[op["k"]]
        out.append("%s->sendBuffer=%d connected=%d" % (o, ob["q"], ob["x"]))
    return "; ".join(out) + "; server received %s of %s" % (row.get("recv") or [], row["progs"])


def park_straddles(ops):
    """an Emit that reached the mutex before the CONNECT reply and is released after it"""
    cpos = [i for i, op in enumerate(ops) if op["k"] == "C"]
    if not cpos:
        return False
    pending = {}
    for i, op in enumerate(ops):
        c = op.get("c", 0)
        if op["k"] == "E":
            pending[c] = i
        elif op["k"] == "R" and c in pending:
            if pending.pop(c) < cpos[0] < i:
                return True
    return False


def park_suite(ctx):
    """client socket park/flush stage (in front of the packet queue): emitters and the CONNECT reply's goroutine
    are parked right before they take sendBufferMu (instrumented mutexes, -tags sio_deadlock; no line of the repo
    touched) and released in every order."""
    vh = ctx.go_build(tags="verif,sio_deadlock")
    if vh is None:
        return
    hdr = "From Coq Require Import List NArith ZArith Bool.\nImport ListNotations.\nFrom SioV Require Import Sio.PacketQueueParkCheck.\n"
    theorems = ["C19_park_flush_pending", "C19_park_none_stranded"]
    rows = ctx.vh_jsonl(vh, "queues", ["-mode", "forced", "-queue", "park", "-tier", ctx.tier, "-seed", ctx.seed])
    if rows is None:
        return
    for i, r in enumerate(rows):  # environmental failures (connection set-up) are retried once
        if r.get("err"):
            rc, txt = ctx.vh(vh, ["queues", "-mode", "forced", "-queue", "park", "-nc", r["nc"], "-only", json.dumps(r["ops"] or [])]) \
                if r.get("ops") else (1, "")
            try:
                r2 = json.loads(txt.strip().split("\n")[-1])
                r2["cfg"] = r["cfg"]
                rows[i] = r2
            except Exception:
                pass
    errs = [r for r in rows if r.get("err") or any(ob["q"] < 0 for ob in r.get("obs") or [])]
    if errs:
        ctx.violation("park rig could not run %d schedules: %s" % (len(errs), errs[0].get("err")),
                      {"kind": "correspondence-broken", "suite": "forced/park", "case": errs[0]}, no_input=True)
        rows = [r for r in rows if r not in errs]
    terms = [park_term(r) for r in rows]
    for r in rows:
        racing = park_straddles(r["ops"])
        ctx.count(1, nontrivial_key=("park", json.dumps(r["ops"])) if racing else None, dist="forced:park:" + r["cfg"])
    if rows:
        ctx.sample({"suite": "forced/park", "case": rows[len(rows) // 2]})
    bad_oracle, bad_agree = eval_both(ctx, "c19_park", hdr, terms, shard=400)
    ctx.obligation("correspondence:forced/park", "correspondence", not bad_agree,
                   "%d schedules, %d disagree with the model" % (len(rows), len(bad_agree)))
    ctx.obligation("oracle:forced/park", "oracle", not bad_oracle,
                   "%d schedules, %d violate the property" % (len(rows), len(bad_oracle)))
    for i in sorted(bad_oracle, key=lambda i: len(rows[i]["ops"]))[:3]:
        r = rows[i]
        ctx.fail_or_known(None,
                          "client socket: a packet emitted around the CONNECT reply is parked in sendBuffer after the "
                          "reply's flush has run (nothing flushes it, later emits queue behind it), or is lost / duplicated "
                          "/ overtaken: %s" % describe_park(r),
                          {"kind": "failing-input", "engine": "queues", "queue": "park", "nc": r["nc"], "ops": r["ops"],
                           "observed": r["obs"], "received": r.get("recv"),
                           "replay_cmd": "vh(-tags verif,sio_deadlock) queues -mode forced -queue park -nc %d -only '%s'"
                                         % (r["nc"], json.dumps(r["ops"]))})
    if bad_agree and not bad_oracle:
        r = rows[bad_agree[0]]
        ctx.violation("client socket park/flush stage no longer behaves like the model Sio/PacketQueuePark.v over "
                      "PipelineConn.cstep_fix (%d of %d forced schedules differ); the theorems %s are about the model; first "
                      "differing schedule: %s" % (len(bad_agree), len(rows), ", ".join(theorems), describe_park(r)),
                      {"kind": "correspondence-broken", "suite": "forced/park", "theorems": theorems, "case": r}, no_input=True)


def stress_suite(ctx, vh):
    """Real preemption, no hooks: producers and polling consumers run freely; nothing but the queue's own
    signalling may deliver (poll timeout 60 s).  Covers what the gate cannot place (a thread between the
    packet queue's append and its signal)."""
    rows = ctx.vh_jsonl(vh, "queues", ["-mode", "stress", "-n", 6 if ctx.quick else 60, "-seed", ctx.seed])
    if rows is None:
        return
    terms = [gpair(gnat(r["np"]), gnat(r["k"]), glist(ids(g or []) for g in r["got"]), gbool(r["stuck"])) for r in rows]
    for r in rows:
        ctx.count(1, nontrivial_key=("stress", r["queue"], r["nc"], r["np"], r["k"], json.dumps(r["got"]))
                  if len([g for g in r["got"] if g]) > 1 or r["np"] > 1 else None,
                  dist="stress:%s:%dc" % (r["queue"], r["nc"]))
    hdr = "From Coq Require Import List NArith ZArith Bool.\nImport ListNotations.\nFrom SioV Require Import Sio.PacketQueueCheck.\n"
    bad = ctx.coq_eval_cases("c19_stress", hdr, terms, "stress_oracle", shard=500)
    ctx.obligation("oracle:stress", "oracle", not bad, "%d free-running runs (max %.1f ms from last add to last "
                   "delivery), %d violate the property" % (len(rows), max([r["ms"] for r in rows] or [0]), len(bad)))
    for i in bad[:2]:
        r = rows[i]
        ctx.fail_or_known(None,
                          "%s queue, %d consumer(s) polling in a loop, %d producers x %d packets, free-running: %s"
                          % (r["queue"], r["nc"], r["np"], r["k"],
                             "packets still queued (%d) 3 s after the last add while the consumers wait"
                             % r["qlen"] if r["stuck"] else "packets lost, duplicated or reordered"),
                          {"kind": "failing-input", "engine": "queues", "mode": "stress", "case": r,
                           "replay_cmd": "vh queues -mode stress -n 60 -seed %s" % ctx.seed})


def live_suite(ctx, vh):
    n = 2 if ctx.quick else 6
    rows = ctx.vh_jsonl(vh, "queues", ["-mode", "live", "-n", n])
    if rows is None:
        return

    def rerun(kind):
        again = ctx.vh_jsonl(vh, "queues", ["-mode", "live", "-n", 1, "-seed", len(rows) + 7]) or []
        for a in again:
            if a["kind"] == kind:
                return a
        return None

    terms, kept = [], []
    for r in rows:
        # environmental failures (port, handshake) and straddling delays are retried once
        if r.get("err") or 1000 <= r["answer_ms"] < 3000:
            r2 = rerun(r["kind"])
            if r2 is not None:
                r = r2
        if r.get("err"):
            ctx.indeterminate += 1
            ctx.note("live rig run could not be completed (%s): %s" % (r["kind"], r["err"]))
            continue
        if 1000 <= r["answer_ms"] < 3000:
            ctx.indeterminate += 1
            continue
        has = r["want"] in r["body"].split("\x1e")
        kept.append(r)
        terms.append(gpair(gZ(int(r["answer_ms"])), gZ(1000), gbool(r["status"] == 200), gbool(has)))
        ctx.count(1, nontrivial_key=("live", r["kind"]) if r["kind"] == "window" and r["held"] else None,
                  dist="live:" + r["kind"])
    if kept:
        ctx.sample({"suite": "live", "case": kept[-1]})
    bad = ctx.coq_eval_cases("c19_live", "From Coq Require Import List NArith ZArith Bool.\nImport ListNotations.\nFrom SioV Require Import Eio.PollQueueCheck.\n", terms, "live_oracle")
    ctx.obligation("oracle:live-longpoll", "oracle", not bad and bool(kept),
                   "%d live polls (pending in select / held in the window), %d late or wrong" % (len(kept), len(bad)))
    if not kept:
        ctx.violation("live long-polling rig produced no usable run", {"kind": "correspondence-broken",
                      "suite": "live", "rows": rows}, no_input=True)
    for i in bad[:2]:
        r = kept[i]
        ctx.fail_or_known(None,
                          "live engine.io server (poll timeout %d ms): a poll request %s when Send ran was answered "
                          "after %.0f ms with body %r (expected %r within 1 s)"
                          % (r["poll_timeout_ms"], "held between its emptiness check and its wait"
                             if r["kind"] == "window" else "already waiting", r["answer_ms"], r["body"], r["want"]),
                          {"kind": "failing-input", "engine": "queues", "mode": "live", "case": r,
                           "replay_cmd": "vh queues -mode live -n 1"})


def run(ctx):
    ctx.rule = ("forced schedules: every interleaving of the hook points of 1-2 consumers (S=start poll, R=release from "
                "the window; long or 1 ms poll timeout) with 1-3 producers, and for the packet queue close/reset/closer "
                "at every position; non-trivial = a producer/close/reset ran while a consumer was held in the window "
                "(distinct schedules); live: real engine.io server, poll pending or held in the window when Send runs")
    ctx.trusted = ["Coq 8.16.1 kernel + vm_compute",
                   "hand-written models Eio/PollQueue.v, Sio/PacketQueue.v tied by forced-schedule correspondence "
                   "(exhaustive over the enumerated interleavings, not proved)",
                   "harness cmd/vh queues (gate scheduler; 'parked in select' read from the runtime goroutine dump)",
                   "hooks poll_queue_verif.go, packet_queue_verif.go and the two verifhook.Yield lines",
                   "Go channel/select/mutex semantics as modelled; weak fairness of the Go scheduler"]
    ctx.assumptions = ["a mutex-protected critical section is one atomic step",
                       "a non-blocking send on a capacity-1 channel succeeds iff the channel is empty",
                       "the Go scheduler eventually runs a runnable goroutine (progress theorems are stated as "
                       "bounded progress of the consumer running alone)"]
    ctx.proofs(modules=["Eio/PollQueueCheck", "Sio/PacketQueueCheck", "Eio/PollQueueSwapCheck", "Sio/PacketQueueParkCheck"])
    vh = ctx.go_build()
    if vh is None:
        return
    forced_suite(ctx, vh, "poll")
    forced_suite(ctx, vh, "packet")
    swap_suite(ctx, vh)
    park_suite(ctx)
    stress_suite(ctx, vh)
    live_suite(ctx, vh)
