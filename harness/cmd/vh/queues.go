package main

// queues (C19): forced schedules on the REAL pollQueue (engine.io/transport/polling) and
// packetQueue (root package) through the yield hooks, plus a live long-polling rig.
//
// A schedule is a list of ops executed one at a time by the harness goroutine:
//   S c [short]  consumer c calls poll in its own goroutine (no-op if c is already polling);
//                it runs until it returns or reaches the yield point (window between the
//                emptiness check and the wait), where the hook parks it ("held")
//   R c          release consumer c from the yield point (no-op if it is not held)
//   A [ids]      a producer calls add(packets with these ids) synchronously
//   X / Z        close() / reset()                       (packet queue only)
//   W            a closer goroutine: waitForDrain(long); close()   (packet queue only)
// After every op the harness waits for quiescence: every goroutine it started has either
// reported (returned / held) or is parked in a `select` inside the queue code.  "Parked in
// select" is read from the runtime's goroutine dump (status `select`), not from a grace period,
// so a slow machine cannot turn "returned late" into "blocked".  A consumer started with the
// short poll timeout (1 ms) is never classified as blocked: its timer fires on its own.
// Per op the observation is: status of every consumer (idle / held / blocked / returned what),
// queue length, tokens pending in ready/_close/_reset, closer status.

import (
	"bytes"
	"encoding/json"
	"flag"
	"fmt"
	"io"
	"net/http"
	"net/http/httptest"
	"runtime"
	"strconv"
	"strings"
	"sync"
	"time"

	sio "github.com/karagenc/socket.io-go"
	eio "github.com/karagenc/socket.io-go/engine.io"
	"github.com/karagenc/socket.io-go/engine.io/parser"
	"github.com/karagenc/socket.io-go/engine.io/transport/polling"

	"verifharness/vk"
)

func init() { register("queues", queuesMain) }

type qOp struct {
	K string `json:"k"`           // S R A X Z W
	C int    `json:"c"`           // consumer index (S, R)
	S int    `json:"s,omitempty"` // S: 1 = short poll timeout
	P []int  `json:"p,omitempty"` // A: packet ids
}

type qCons struct {
	St string `json:"s"` // idle held blk ret
	P  []int  `json:"p"` // ret: packet ids returned
	Ok bool   `json:"ok"`
	Cl bool   `json:"cl"` // ret: closed (packet queue)
}

type qObs struct {
	C []qCons `json:"c"`
	Q int     `json:"q"`
	R int     `json:"r"`
	X int     `json:"x"`
	Z int     `json:"z"`
	W string  `json:"w"` // closer: idle blk done
	// consumers that returned during this op, in the order their returns were reported
	Ev []int `json:"ev"`
	// swap rig: message ids waiting in the OLD (long-polling) transport's queue, and the ids the
	// NEW transport has been asked to send, in order
	OQ []int `json:"oq,omitempty"`
	NS []int `json:"ns,omitempty"`
}

type qCase struct {
	Queue string  `json:"queue"` // poll | packet
	NC    int     `json:"nc"`
	Cfg   string  `json:"cfg"`
	Ops   []qOp   `json:"ops"`
	Obs   []qObs  `json:"obs"`
	Err   string  `json:"err,omitempty"`
	Cap   int     `json:"cap"`             // capacity of ready
	Progs [][]int `json:"progs,omitempty"` // park rig: event ids per emitter
	Recv  []int   `json:"recv,omitempty"`  // park rig: ids the server received, in order
}

const (
	tIdle = iota
	tRunning
	tHeld
	tBlocked
	tDone
)

type qThread struct {
	idx     int // consumer index, -1 = closer
	gid     uint64
	state   int
	short   bool
	started time.Time
	release chan struct{}
	last    qCons
}

type qEvent struct {
	th   *qThread
	kind string // held ret wdone
	res  qCons
}

// the queue under test, behind one interface
type qUnderTest interface {
	poll(short bool) qCons
	add(ids []int)
	closeQ()
	resetQ()
	waitDrainAndClose()
	lens() (q, r, x, z int)
	point() string
}

func mkPackets(ids []int) []*parser.Packet {
	ps := make([]*parser.Packet, len(ids))
	for i, id := range ids {
		ps[i] = &parser.Packet{Type: parser.PacketTypeMessage, Data: []byte(strconv.Itoa(id))}
	}
	return ps
}

func packetIDs(ps []*parser.Packet) []int {
	ids := make([]int, 0, len(ps))
	for _, p := range ps {
		id, err := strconv.Atoi(string(p.Data))
		if err != nil {
			id = -1
		}
		ids = append(ids, id)
	}
	return ids
}

const (
	qLongTimeout  = 60 * time.Second
	qShortTimeout = time.Millisecond
)

type pollUT struct{ q *polling.VerifPollQueue }

func (u pollUT) poll(short bool) qCons {
	to := qLongTimeout
	if short {
		to = qShortTimeout
	}
	ps := u.q.Poll(to)
	return qCons{St: "ret", P: packetIDs(ps), Ok: len(ps) > 0}
}
func (u pollUT) add(ids []int)      { u.q.Add(mkPackets(ids)...) }
func (u pollUT) closeQ()            {}
func (u pollUT) resetQ()            {}
func (u pollUT) waitDrainAndClose() {}
func (u pollUT) lens() (int, int, int, int) {
	return u.q.Len(), u.q.ReadyLen(), 0, 0
}
func (u pollUT) point() string { return "pollqueue-window" }

type packetUT struct{ q *sio.VerifPacketQueue }

func (u packetUT) poll(short bool) qCons {
	ps, ok, closed := u.q.Poll()
	return qCons{St: "ret", P: packetIDs(ps), Ok: ok, Cl: closed}
}
func (u packetUT) add(ids []int) { u.q.Add(mkPackets(ids)...) }
func (u packetUT) closeQ()       { u.q.Close() }
func (u packetUT) resetQ()       { u.q.Reset() }
func (u packetUT) waitDrainAndClose() {
	u.q.WaitForDrain(qLongTimeout)
	u.q.Close()
}
func (u packetUT) lens() (int, int, int, int) {
	return u.q.Len(), u.q.ReadyLen(), u.q.CloseLen(), u.q.ResetLen()
}
func (u packetUT) point() string { return "packetqueue-window" }

// ---------------------------------------------------------------- goroutine introspection

func curGoID() uint64 {
	var buf [64]byte
	n := runtime.Stack(buf[:], false)
	// "goroutine 123 [running]:"
	f := bytes.Fields(buf[:n])
	if len(f) < 2 {
		return 0
	}
	id, _ := strconv.ParseUint(string(f[1]), 10, 64)
	return id
}

var qStackBuf = make([]byte, 1<<20)

// goroutineStatuses returns gid -> status ("select", "chan receive", "running", ...).
func goroutineStatuses() map[uint64]string {
	n := runtime.Stack(qStackBuf, true)
	res := map[uint64]string{}
	for _, blk := range bytes.Split(qStackBuf[:n], []byte("\n\n")) {
		if !bytes.HasPrefix(blk, []byte("goroutine ")) {
			continue
		}
		line := blk
		if i := bytes.IndexByte(blk, '\n'); i >= 0 {
			line = blk[:i]
		}
		rest := line[len("goroutine "):]
		sp := bytes.IndexByte(rest, ' ')
		if sp < 0 {
			continue
		}
		id, err := strconv.ParseUint(string(rest[:sp]), 10, 64)
		if err != nil {
			continue
		}
		lb := bytes.IndexByte(rest, '[')
		rb := bytes.IndexByte(rest, ']')
		if lb < 0 || rb < lb {
			continue
		}
		st := string(rest[lb+1 : rb])
		if c := strings.IndexByte(st, ','); c >= 0 {
			st = st[:c]
		}
		res[id] = st
	}
	return res
}

// ---------------------------------------------------------------- forced-schedule runner

type qRunner struct {
	ut     qUnderTest
	cons   []*qThread
	closer *qThread
	mu     sync.Mutex
	byGid  map[uint64]*qThread
	ev     chan qEvent
	evOrd  []int
}

var qCurrent struct {
	mu sync.Mutex
	r  *qRunner
}

// the yield handler: parks the calling consumer goroutine if it is managed by the runner
func qYield(point string) {
	qCurrent.mu.Lock()
	r := qCurrent.r
	qCurrent.mu.Unlock()
	if r == nil || point != r.ut.point() {
		return
	}
	gid := curGoID()
	r.mu.Lock()
	th := r.byGid[gid]
	r.mu.Unlock()
	if th == nil {
		return
	}
	r.ev <- qEvent{th: th, kind: "held"}
	<-th.release
}

func newQRunner(ut qUnderTest, nc int) *qRunner {
	r := &qRunner{ut: ut, byGid: map[uint64]*qThread{}, ev: make(chan qEvent, 256)}
	for i := 0; i < nc; i++ {
		r.cons = append(r.cons, &qThread{idx: i, release: make(chan struct{}), last: qCons{St: "idle", P: []int{}}})
	}
	r.closer = &qThread{idx: -1, release: make(chan struct{})}
	return r
}

func (r *qRunner) spawn(th *qThread, body func() qEvent) {
	started := make(chan struct{})
	th.state = tRunning
	go func() {
		gid := curGoID()
		r.mu.Lock()
		th.gid = gid
		r.byGid[gid] = th
		r.mu.Unlock()
		close(started)
		e := body()
		r.mu.Lock()
		delete(r.byGid, gid)
		r.mu.Unlock()
		r.ev <- e
	}()
	<-started
}

func (r *qRunner) handle(e qEvent) {
	switch e.kind {
	case "held":
		e.th.state = tHeld
	case "ret":
		e.th.state = tDone
		e.th.last = e.res
		r.evOrd = append(r.evOrd, e.th.idx)
	case "wdone":
		e.th.state = tDone
	}
}

func (r *qRunner) drainEvents() bool {
	got := false
	for {
		select {
		case e := <-r.ev:
			r.handle(e)
			got = true
		default:
			return got
		}
	}
}

func (r *qRunner) threads() []*qThread { return append(append([]*qThread{}, r.cons...), r.closer) }

// qParked: the goroutine waits for another goroutine (channel, select, lock).  If every goroutine
// the harness started is parked like this in ONE stop-the-world snapshot and no report is pending,
// nothing can change until the harness acts again.  Waits that end by themselves (sleep, IO) and
// running/runnable goroutines are not parked.  A consumer held by the yield handler is also in
// "chan receive", but it has sent its "held" report before parking, so it is never misread.
func qParked(st string) bool {
	switch st {
	case "select", "chan receive", "chan send", "select (no cases)", "sync.Mutex.Lock",
		"sync.RWMutex.Lock", "sync.RWMutex.RLock", "sync.Cond.Wait", "semacquire":
		return true
	}
	return false
}

// settle waits until every started goroutine has reported or is parked in a select.
func (r *qRunner) settle() error {
	deadline := time.Now().Add(20 * time.Second)
	for iter := 0; ; iter++ {
		r.drainEvents()
		active := false
		for _, th := range r.threads() {
			if th.state == tRunning || th.state == tBlocked {
				active = true
			}
		}
		if !active {
			return nil
		}
		snap := goroutineStatuses()
		quiet := true
		for _, th := range r.threads() {
			if th.state != tRunning && th.state != tBlocked {
				continue
			}
			st, ok := snap[th.gid]
			if ok && qParked(st) && !th.short {
				continue
			}
			quiet = false
		}
		if quiet {
			if r.drainEvents() {
				continue
			}
			// confirm: a goroutine can be parked for an instant on its way (lock hand-off, runtime
			// internals); only a state that is still parked, with no report, in a second snapshot
			// taken a little later counts as quiescent
			time.Sleep(150 * time.Microsecond)
			snap2 := goroutineStatuses()
			for _, th := range r.threads() {
				if th.state != tRunning && th.state != tBlocked {
					continue
				}
				if st, ok := snap2[th.gid]; !ok || !qParked(st) || snap[th.gid] != st {
					quiet = false
				}
			}
			if !quiet || r.drainEvents() {
				continue
			}
			for _, th := range r.threads() {
				if th.state == tRunning {
					th.state = tBlocked
				}
			}
			return nil
		}
		for _, th := range r.threads() {
			if th.state == tBlocked {
				if st, ok := snap[th.gid]; !ok || !qParked(st) {
					th.state = tRunning
				}
			}
		}
		if time.Now().After(deadline) {
			return fmt.Errorf("settle: no quiescence within 20 s")
		}
		if iter < 50 {
			runtime.Gosched()
		} else {
			time.Sleep(50 * time.Microsecond)
		}
	}
}

func (r *qRunner) observe() qObs {
	o := qObs{C: make([]qCons, len(r.cons)), Ev: append([]int{}, r.evOrd...)}
	r.evOrd = r.evOrd[:0]
	for i, th := range r.cons {
		switch th.state {
		case tIdle:
			o.C[i] = qCons{St: "idle", P: []int{}}
		case tHeld:
			o.C[i] = qCons{St: "held", P: []int{}}
		case tBlocked, tRunning:
			o.C[i] = qCons{St: "blk", P: []int{}}
		case tDone:
			o.C[i] = th.last
		}
	}
	switch r.closer.state {
	case tIdle:
		o.W = "idle"
	case tDone:
		o.W = "done"
	default:
		o.W = "blk"
	}
	o.Q, o.R, o.X, o.Z = r.ut.lens()
	if sw, ok := r.ut.(*swapUT); ok {
		o.OQ, o.NS = sw.view()
	}
	return o
}

func (r *qRunner) apply(op qOp) {
	switch op.K {
	case "N", "U":
		r.applySwap(op)
		return
	case "E", "C", "F":
		r.applyPark(op)
		return
	case "S":
		th := r.cons[op.C]
		if th.state != tIdle && th.state != tDone {
			return
		}
		th.short = op.S == 1
		short := th.short
		th.started = time.Now()
		r.spawn(th, func() qEvent {
			res := r.ut.poll(short)
			return qEvent{th: th, kind: "ret", res: res}
		})
	case "R":
		th := r.cons[op.C]
		if th.state != tHeld {
			return
		}
		if th.short {
			// A consumer with the short poll timeout is released only once its timer has
			// certainly expired, so that its select sees the timer ready (and, when a token is
			// pending too, Go picks one of the two ready cases at random): the timeout branch is
			// exercised by every such schedule, not only on a slow machine.
			if d := time.Until(th.started.Add(qShortTimeout + 4*time.Millisecond)); d > 0 {
				time.Sleep(d)
			}
		}
		th.state = tRunning
		th.release <- struct{}{}
	case "A":
		r.ut.add(op.P)
	case "X":
		r.ut.closeQ()
	case "Z":
		r.ut.resetQ()
	case "W":
		th := r.closer
		if th.state != tIdle {
			return
		}
		r.spawn(th, func() qEvent {
			r.ut.waitDrainAndClose()
			return qEvent{th: th, kind: "wdone"}
		})
	}
}

// cleanup frees every goroutine still inside the queue code (not part of the observation).
func (r *qRunner) cleanup() error {
	for round := 0; round < 50; round++ {
		busy := false
		for _, th := range r.cons {
			switch th.state {
			case tHeld:
				busy = true
				th.state = tRunning
				th.release <- struct{}{}
			case tBlocked, tRunning:
				busy = true
			}
		}
		if r.closer.state == tBlocked || r.closer.state == tRunning {
			busy = true
			r.ut.resetQ()
		}
		if !busy {
			return nil
		}
		if err := r.settle(); err != nil {
			return err
		}
		blocked := false
		for _, th := range r.cons {
			if th.state == tBlocked {
				blocked = true
			}
		}
		if blocked {
			r.ut.closeQ()
			r.ut.add([]int{9999})
			if err := r.settle(); err != nil {
				return err
			}
		}
	}
	return fmt.Errorf("cleanup: goroutines still inside the queue after 50 rounds")
}

func runQCase(queue string, nc int, cfg string, ops []qOp) qCase {
	var ut qUnderTest
	parkTotal := 0
	c := qCase{Queue: queue, NC: nc, Cfg: cfg}
	if queue == "park" {
		progs := make([][]int, nc)
		total := 0
		for _, op := range ops {
			if op.K == "E" {
				progs[op.C] = append(progs[op.C], (op.C+1)*10+len(progs[op.C]))
				total++
			}
		}
		c.Progs = progs
		pu, err := newParkUT(progs)
		if err != nil {
			c.Err = err.Error()
			return c
		}
		defer pu.close()
		parkTotal = total
		ut = pu
	} else if queue == "swap" {
		sw := newSwapUT()
		defer sw.sock.Close()
		ut = sw
	} else if queue == "poll" {
		q := polling.VerifNewPollQueue()
		c.Cap = q.ReadyCap()
		ut = pollUT{q}
	} else {
		ut = packetUT{sio.VerifNewPacketQueue()}
		c.Cap = 1
	}
	r := newQRunner(ut, nc)
	if sw, ok := ut.(*swapUT); ok {
		sw.r = r
	}
	if pu, ok := ut.(*parkUT); ok {
		pu.r = r
	}
	qCurrent.mu.Lock()
	qCurrent.r = r
	qCurrent.mu.Unlock()
	defer func() {
		qCurrent.mu.Lock()
		qCurrent.r = nil
		qCurrent.mu.Unlock()
	}()
	step := func(op qOp) bool {
		r.apply(op)
		if err := r.settle(); err != nil {
			c.Err = err.Error()
			return false
		}
		c.Ops = append(c.Ops, op)
		c.Obs = append(c.Obs, r.observe())
		return true
	}
	for _, op := range ops {
		if !step(op) {
			return c
		}
	}
	// flush: release every consumer still held at the yield point (a few rounds: a woken
	// consumer that finds the queue empty comes back to the yield point)
	for round := 0; round < 4; round++ {
		any := false
		for i, th := range r.cons {
			if th.state == tHeld {
				any = true
				if !step(qOp{K: "R", C: i}) {
					return c
				}
			}
		}
		if !any {
			break
		}
	}
	if pu, ok := ut.(*parkUT); ok && c.Err == "" {
		c.Recv = pu.finishPark(parkTotal)
		if !pu.hookSeen {
			c.Err = "the mutex hook never fired: harness not built with -tags sio_deadlock"
		}
	}
	if err := r.cleanup(); err != nil {
		c.Err = err.Error()
	}
	return c
}

// ---------------------------------------------------------------- schedule enumeration

type qProg struct {
	class string // threads of one class are interchangeable: started in index order
	ops   []qOp
}

// interleavings enumerates all merges of the thread programs (symmetric threads in index order).
func interleavings(progs []qProg, emit func([]qOp)) {
	pos := make([]int, len(progs))
	total := 0
	for _, p := range progs {
		total += len(p.ops)
	}
	cur := make([]qOp, 0, total)
	var rec func()
	rec = func() {
		if len(cur) == total {
			emit(append([]qOp{}, cur...))
			return
		}
		for i, p := range progs {
			if pos[i] >= len(p.ops) {
				continue
			}
			if pos[i] == 0 {
				// symmetry: an earlier thread of the same class must have started already
				skip := false
				for j := 0; j < i; j++ {
					if progs[j].class == p.class && p.class != "" && pos[j] == 0 {
						skip = true
					}
				}
				if skip {
					continue
				}
			}
			cur = append(cur, p.ops[pos[i]])
			pos[i]++
			rec()
			pos[i]--
			cur = cur[:len(cur)-1]
		}
	}
	rec()
}

func consProg(c int, short bool, shape string) qProg {
	s := 0
	cl := "c"
	if short {
		s = 1
		cl = "cs"
	}
	var ops []qOp
	for _, ch := range shape {
		switch ch {
		case 'S':
			ops = append(ops, qOp{K: "S", C: c, S: s})
		case 'R':
			ops = append(ops, qOp{K: "R", C: c})
		}
	}
	return qProg{class: cl + shape, ops: ops}
}

type qConfig struct {
	name  string
	queue string
	nc    int
	progs []qProg
}

func qConfigs(queue string, thorough bool) []qConfig {
	if queue == "swap" {
		return swapConfigs(thorough)
	}
	if queue == "park" {
		return parkConfigs(thorough)
	}
	var cfgs []qConfig
	prods := func(n int, double bool) []qProg {
		var ps []qProg
		for k := 1; k <= n; k++ {
			ids := []int{k}
			if double && k == 1 {
				ids = []int{k, 10 + k}
			}
			ps = append(ps, qProg{class: "p", ops: []qOp{{K: "A", P: ids}}})
		}
		return ps
	}
	add := func(name string, nc int, progs ...[]qProg) {
		var all []qProg
		for _, p := range progs {
			all = append(all, p...)
		}
		cfgs = append(cfgs, qConfig{name: name, queue: queue, nc: nc, progs: all})
	}
	one := func(p qProg) []qProg { return []qProg{p} }
	if queue == "poll" {
		for np := 1; np <= 3; np++ {
			add(fmt.Sprintf("1c-%dp", np), 1, one(consProg(0, false, "SRR")), prods(np, np == 2))
			if np <= 2 || thorough {
				add(fmt.Sprintf("1c-repoll-%dp", np), 1, one(consProg(0, false, "SRSRR")), prods(np, false))
				add(fmt.Sprintf("1cshort-%dp", np), 1, one(consProg(0, true, "SRR")), prods(np, false))
			}
		}
		for np := 1; np <= 2; np++ {
			shape := "SR"
			if thorough || np == 1 {
				shape = "SRR"
			}
			add(fmt.Sprintf("2c-%dp", np), 2, one(consProg(0, false, shape)), one(consProg(1, false, shape)), prods(np, false))
			add(fmt.Sprintf("2c-mixed-%dp", np), 2, one(consProg(0, false, shape)), one(consProg(1, true, "SR")), prods(np, false))
		}
		if thorough {
			add("2c-3p", 2, one(consProg(0, false, "SR")), one(consProg(1, false, "SR")), prods(3, false))
			add("2c-repoll-2p", 2, one(consProg(0, false, "SRSR")), one(consProg(1, false, "SRR")), prods(2, false))
		}
		return cfgs
	}
	// packet queue: the same, with close / reset / closer inserted at every position
	extra := map[string][]qProg{
		"":  nil,
		"X": {{ops: []qOp{{K: "X"}}}},
		"Z": {{ops: []qOp{{K: "Z"}}}},
		"W": {{ops: []qOp{{K: "W"}}}},
	}
	for _, ek := range []string{"", "X", "Z", "W"} {
		ex := extra[ek]
		for np := 1; np <= 3; np++ {
			if np == 3 && !thorough && (ek == "Z" || ek == "W") {
				continue
			}
			add(fmt.Sprintf("1c-%dp%s", np, ek), 1, one(consProg(0, false, "SRSR")), prods(np, np == 2), ex)
		}
		for np := 1; np <= 2; np++ {
			if np == 2 && !thorough && (ek == "Z" || ek == "W") {
				continue
			}
			shape := "SR"
			if thorough && np == 1 {
				shape = "SRSR"
			}
			add(fmt.Sprintf("2c-%dp%s", np, ek), 2, one(consProg(0, false, shape)), one(consProg(1, false, shape)), prods(np, false), ex)
		}
	}
	if thorough {
		add("1c-2pXZ", 1, one(consProg(0, false, "SRSR")), prods(2, false), extra["X"], extra["Z"])
		add("1c-2pWZ", 1, one(consProg(0, false, "SRSR")), prods(2, false), extra["W"], extra["Z"])
		add("1c-2pWX", 1, one(consProg(0, false, "SRSR")), prods(2, false), extra["W"], extra["X"])
		add("2c-3p", 2, one(consProg(0, false, "SR")), one(consProg(1, false, "SR")), prods(3, false))
	}
	return cfgs
}

// ---------------------------------------------------------------- live rig

type qLive struct {
	Kind      string  `json:"kind"` // parked | window
	PollMs    float64 `json:"poll_timeout_ms"`
	DelayMs   float64 `json:"answer_ms"` // time from Send to the poll response
	Status    int     `json:"status"`
	Body      string  `json:"body"`
	Want      string  `json:"want"`
	Err       string  `json:"err,omitempty"`
	HeldInWin bool    `json:"held"`
}

var qLiveGate struct {
	mu      sync.Mutex
	armed   bool
	reached chan struct{}
	release chan struct{}
}

func qLiveYield(point string) {
	if point != "pollqueue-window" {
		return
	}
	qLiveGate.mu.Lock()
	if !qLiveGate.armed {
		qLiveGate.mu.Unlock()
		return
	}
	qLiveGate.armed = false
	reached, release := qLiveGate.reached, qLiveGate.release
	qLiveGate.mu.Unlock()
	close(reached)
	<-release
}

// runQLive: a real engine.io server, one long-polling session, a poll request pending; the
// server-side socket sends one message.  kind=parked: the poll is already waiting in select;
// kind=window: the poll is held exactly between its emptiness check and its wait while Send runs.
func runQLive(kind string, n int) qLive {
	res := qLive{Kind: kind}
	sockCh := make(chan eio.ServerSocket, 1)
	srv := eio.NewServer(func(s eio.ServerSocket) *eio.Callbacks {
		sockCh <- s
		return &eio.Callbacks{}
	}, &eio.ServerConfig{PingInterval: 4 * time.Second, PingTimeout: 4 * time.Second})
	if err := srv.Run(); err != nil {
		res.Err = "server: " + err.Error()
		return res
	}
	defer srv.Close()
	res.PollMs = float64(srv.PollTimeout()) / float64(time.Millisecond)
	ts := httptest.NewServer(srv)
	defer ts.Close()
	cl := &http.Client{Timeout: 30 * time.Second}
	get := func(url string) (int, string, error) {
		resp, err := cl.Get(url)
		if err != nil {
			return 0, "", err
		}
		defer resp.Body.Close()
		b, err := io.ReadAll(resp.Body)
		return resp.StatusCode, string(b), err
	}
	st, body, err := get(ts.URL + "/?EIO=4&transport=polling")
	if err != nil || st != 200 || len(body) < 2 || body[0] != '0' {
		res.Err = fmt.Sprintf("handshake: %v %d %q", err, st, body)
		return res
	}
	var hs struct {
		SID string `json:"sid"`
	}
	if err := json.Unmarshal([]byte(body[1:]), &hs); err != nil {
		res.Err = "handshake json: " + err.Error()
		return res
	}
	var sock eio.ServerSocket
	select {
	case sock = <-sockCh:
	case <-time.After(5 * time.Second):
		res.Err = "no server socket"
		return res
	}
	type pr struct {
		st   int
		body string
		err  error
		at   time.Time
	}
	done := make(chan pr, 1)
	if kind == "window" {
		qLiveGate.mu.Lock()
		qLiveGate.armed = true
		qLiveGate.reached = make(chan struct{})
		qLiveGate.release = make(chan struct{})
		qLiveGate.mu.Unlock()
	}
	go func() {
		st, body, err := get(ts.URL + "/?EIO=4&transport=polling&sid=" + hs.SID)
		done <- pr{st, body, err, time.Now()}
	}()
	if kind == "window" {
		select {
		case <-qLiveGate.reached:
			res.HeldInWin = true
		case r := <-done:
			res.Err = fmt.Sprintf("poll answered before reaching the window: %d %q %v", r.st, r.body, r.err)
			return res
		case <-time.After(5 * time.Second):
			res.Err = "poll request did not reach the window"
			return res
		}
	} else {
		time.Sleep(100 * time.Millisecond) // let the poll park in select
	}
	msg := fmt.Sprintf("hello-%d", n)
	res.Want = "4" + msg
	p, _ := parser.NewPacket(parser.PacketTypeMessage, false, []byte(msg))
	sent := time.Now()
	sock.Send(p)
	if kind == "window" {
		close(qLiveGate.release)
	}
	select {
	case r := <-done:
		res.DelayMs = float64(r.at.Sub(sent)) / float64(time.Millisecond)
		res.Status, res.Body = r.st, r.body
		if r.err != nil {
			res.Err = "poll: " + r.err.Error()
		}
	case <-time.After(25 * time.Second):
		res.Err = "poll not answered within 25 s"
	}
	return res
}

// ---------------------------------------------------------------- stress (real preemption, no hooks)

type qStress struct {
	Queue string  `json:"queue"`
	NC    int     `json:"nc"`
	NP    int     `json:"np"`
	K     int     `json:"k"`
	Got   [][]int `json:"got"`   // per consumer: ids in the order its polls returned them
	Ms    float64 `json:"ms"`    // time from the last add returning to the last packet being returned
	Stuck bool    `json:"stuck"` // not everything was returned within the deadline
	QLen  int     `json:"qlen"`  // queue length when the run was declared stuck / finished
}

// runQStress: np producers add k packets each (ids p*1000+i) with random yields; nc consumers poll in
// a loop (as pollAndSend / consecutive poll requests do).  No hook handler is installed.  Nothing but
// the queue's own signalling may deliver the packets: the poll timeout is 60 s, the deadline 3 s.
func runQStress(queue string, nc, np, k int, rnd *vk.Rand) qStress {
	res := qStress{Queue: queue, NC: nc, NP: np, K: k, Got: make([][]int, nc)}
	var ut qUnderTest
	if queue == "poll" {
		ut = pollUT{polling.VerifNewPollQueue()}
	} else {
		ut = packetUT{sio.VerifNewPacketQueue()}
	}
	var mu sync.Mutex
	total := 0
	var lastRet time.Time
	stop := make(chan struct{})
	var cwg sync.WaitGroup
	for c := 0; c < nc; c++ {
		c := c
		cwg.Add(1)
		go func() {
			defer cwg.Done()
			for {
				select {
				case <-stop:
					return
				default:
				}
				r := ut.poll(false)
				if r.Cl {
					return
				}
				if len(r.P) > 0 {
					now := time.Now()
					mu.Lock()
					for _, id := range r.P {
						if id != 9999 {
							res.Got[c] = append(res.Got[c], id)
							total++
						}
					}
					lastRet = now
					mu.Unlock()
				}
			}
		}()
	}
	var pwg sync.WaitGroup
	for p := 1; p <= np; p++ {
		p := p
		pr := rnd.Fork()
		pwg.Add(1)
		go func() {
			defer pwg.Done()
			for i := 0; i < k; i++ {
				switch pr.Intn(4) {
				case 0:
					runtime.Gosched()
				case 1:
					time.Sleep(time.Duration(pr.Intn(30)) * time.Microsecond)
				}
				ut.add([]int{p*1000 + i})
			}
		}()
	}
	pwg.Wait()
	lastAdd := time.Now()
	deadline := lastAdd.Add(3 * time.Second)
	for {
		mu.Lock()
		done := total == np*k
		mu.Unlock()
		if done {
			break
		}
		if time.Now().After(deadline) {
			res.Stuck = true
			break
		}
		time.Sleep(100 * time.Microsecond)
	}
	res.QLen, _, _, _ = ut.lens()
	mu.Lock()
	if lastRet.After(lastAdd) {
		res.Ms = float64(lastRet.Sub(lastAdd)) / float64(time.Millisecond)
	}
	mu.Unlock()
	// stop the consumers: wake them until all have left
	close(stop)
	fin := make(chan struct{})
	go func() { cwg.Wait(); close(fin) }()
	for {
		select {
		case <-fin:
			return res
		default:
			ut.closeQ()
			ut.add([]int{9999})
			time.Sleep(200 * time.Microsecond)
		}
	}
}

// ---------------------------------------------------------------- main

func queuesMain(args []string) error {
	fs := flag.NewFlagSet("queues", flag.ExitOnError)
	seed := fs.Uint64("seed", 1, "")
	mode := fs.String("mode", "forced", "forced|live|stress|count")
	queue := fs.String("queue", "poll", "poll|packet|swap|park")
	tier := fs.String("tier", "quick", "quick|thorough")
	n := fs.Int("n", 3, "live: number of runs per kind")
	only := fs.String("only", "", "forced: run only this JSON op list (replay), with -nc")
	nc := fs.Int("nc", 1, "replay: number of consumers")
	outp := fs.String("out", "-", "")
	fs.Parse(args)
	out, err := vk.NewOut(*outp)
	if err != nil {
		return err
	}
	defer out.Close()
	switch *mode {
	case "live":
		polling.VerifSetYieldHandler(qLiveYield)
		for i := 0; i < *n; i++ {
			out.Put(runQLive("parked", i))
			out.Put(runQLive("window", i))
		}
		return nil
	case "stress":
		polling.VerifSetYieldHandler(nil)
		rnd := vk.NewRand(*seed)
		for i := 0; i < *n; i++ {
			for _, q := range []string{"poll", "packet"} {
				out.Put(runQStress(q, 1, 1+rnd.Intn(3), 20+rnd.Intn(60), rnd.Fork()))
				if i%3 == 0 {
					out.Put(runQStress(q, 2, 1+rnd.Intn(2), 20+rnd.Intn(60), rnd.Fork()))
				}
			}
		}
		return nil
	case "forced", "count":
		polling.VerifSetYieldHandler(qYield)
		if *only != "" {
			var ops []qOp
			if err := json.Unmarshal([]byte(*only), &ops); err != nil {
				return err
			}
			out.Put(runQCase(*queue, *nc, "replay", ops))
			return nil
		}
		total, nerr := 0, 0
		for _, cfg := range qConfigs(*queue, *tier == "thorough") {
			cnt := 0
			interleavings(cfg.progs, func(ops []qOp) {
				cnt++
				if *mode == "forced" && nerr < 4 {
					// a schedule with a short-timeout consumer has a random outcome when timer
					// and token are both ready: run it several times, keep each distinct outcome
					reps := 1
					for _, op := range ops {
						if op.K == "S" && op.S == 1 {
							reps = 6
						}
					}
					seen := map[string]bool{}
					for i := 0; i < reps; i++ {
						c := runQCase(cfg.queue, cfg.nc, cfg.name, ops)
						if c.Err != "" {
							nerr++
						}
						b, _ := json.Marshal(c.Obs)
						if seen[string(b)] && c.Err == "" {
							continue
						}
						seen[string(b)] = true
						out.Put(c)
					}
				}
			})
			total += cnt
			if *mode == "count" {
				fmt.Printf("%s %s: %d\n", *queue, cfg.name, cnt)
			}
		}
		if *mode == "count" {
			fmt.Printf("total %d\n", total)
		}
		if nerr >= 4 {
			return fmt.Errorf("gave up after %d schedules the harness could not bring to quiescence", nerr)
		}
		return nil
	}
	return fmt.Errorf("unknown mode %q", *mode)
}
