package main

// middleware: live rigs for C12 (namespace middlewares gate admission; per-socket event middlewares
// gate events).  Real server (httptest, 127.0.0.1:0), public API only.
//
//   -mode adm   raw Socket.IO client on the repo's Engine.IO client: every accept/reject vector for
//               chains of length 0..maxlen x rejection kinds x join patterns x {"/", "/chat"};
//               `conc` sessions run concurrently against one server.  A session sends several
//               CONNECTs (rejected attempts first) on ONE Engine.IO connection, so a rejected socket
//               left in the connection tables shows (the next CONNECT would be an invalid state).
//   -mode admgo the same admission cases through the repo's Go client (Manager/ClientSocket):
//               client-level connect / connect_error events.
//   -mode ev    per-socket event middlewares: handler signatures x chains x accept/reject.
//
// Nothing here synchronises by sleeping: every wait is on an event with a generous timeout, and
// "must not happen" facts are read after the positive event that orders them (CONNECT_ERROR is
// sent after the chain and the clean-up) and once more at the end of the run.

import (
	"encoding/json"
	"flag"
	"fmt"
	"net/http/httptest"
	"sort"
	"strconv"
	"strings"
	"sync"
	"time"

	mapset "github.com/deckarep/golang-set/v2"
	sio "github.com/karagenc/socket.io-go"
	"github.com/karagenc/socket.io-go/adapter"
	eio "github.com/karagenc/socket.io-go/engine.io"
	eioparser "github.com/karagenc/socket.io-go/engine.io/parser"
	"github.com/karagenc/socket.io-go/parser"
	"nhooyr.io/websocket"

	"verifharness/vk"
)

func init() { register("middleware", middlewareMain) }

const mwWait = 15 * time.Second

// ---------------------------------------------------------------- admission cases

// verdict codes: 0 accept, 1 reject with error, 2 reject with string, 3 reject with structured data
type admCase struct {
	ID    int    `json:"id"`
	Suite string `json:"suite"`
	Nsp   string `json:"nsp"`
	K     int    `json:"k"`
	Conc  int    `json:"conc"`
	Sess  int    `json:"sess"`
	Pos   int    `json:"pos"` // position of the attempt on its Engine.IO connection
	V     []int  `json:"v"`
	A     int    `json:"a"`     // CONNECT auth: 0 no pid, 1 a pid/offset the adapter cannot restore, 2 pid+offset of a session the adapter restores
	Rec   bool   `json:"rec"`   // ServerConnectionStateRecovery.Enabled
	UseMw bool   `json:"usemw"` // ServerConnectionStateRecovery.UseMiddlewares
	J     []int  `json:"j"`     // 0: no Join call, 1: Join("r<i>"), 2: Join() with no room, 3: Join("r<i>","shared"), 4: go Join("slow<i>") held in the adapter, 5: go Join("late<i>") started after the answer

	Calls   []viewObs `json:"calls"`   // middleware calls, in the order they happened
	Handler []viewObs `json:"handler"` // connection handler runs for this case's socket(s)
	AnyH    int       `json:"anyh"`    // Server.OnAnyConnection runs
	Trap    int       `json:"trap"`    // calls of the middleware registered on the OTHER namespace
	Sids    []string  `json:"sids"`    // distinct server-side socket ids seen for this case

	Resp     string  `json:"resp"`      // "connect" | "connect_error" | "timeout" | "closed"
	RespNsp  bool    `json:"resp_nsp"`  // response carried the namespace of the request
	RespSid  bool    `json:"resp_sid"`  // CONNECT payload sid == server-side sid
	MsgKind  string  `json:"msg_kind"`  // "text" | "data" | ""
	MsgMw    int     `json:"msg_mw"`    // which middleware's rejection the message carries (-1 unknown)
	MsgCode  int     `json:"msg_code"`  // verdict code encoded in the message (-1 unknown)
	Post     viewObs `json:"post"`      // server state after the response (and handler) was seen
	HWaited  bool    `json:"h_waited"`  // handler seen within the wait
	Probe    bool    `json:"probe"`     // accepted: a broadcast to the socket's own room arrived
	Final    viewObs `json:"final"`     // server state at the end of the run (before shutdown)
	FinalEvt int     `json:"final_evt"` // unexpected packets on the connection: CONNECT/CONNECT_ERROR beyond one per attempt, DISCONNECT, ACK; EVENTs on a never-admitted connection
	Watchdog bool    `json:"watchdog"`  // a held Join was ended by the watchdog, not by the script: the schedule was not the forced one
	Slow     bool    `json:"slow"`      // this server's run took so long that heartbeat time-outs may have interfered
	Note     string  `json:"note,omitempty"`

	mu       sync.Mutex
	hch      chan struct{}
	hclosed  bool
	late     chan struct{} // closed to let the "late" Joins start
	heldRoom string        // the Join currently held in the adapter (at most one: it holds joinMu)
	heldDone chan struct{}
	async    []chan struct{} // one per Join goroutine, closed when it returned
}

// what the server shows about one socket id at one moment
type viewObs struct {
	Mw        int      `json:"mw"` // middleware index (calls), -1 otherwise
	Sid       string   `json:"-"`
	Known     bool     `json:"known"`     // sid known at all (post/final of a case whose sid was never seen: false)
	Listed    bool     `json:"listed"`    // in Namespace.Sockets()
	Fetch     bool     `json:"fetch"`     // in Namespace.FetchSockets()
	Connected bool     `json:"connected"` // ServerSocket.Connected()
	HasRooms  bool     `json:"has_rooms"` // Adapter().SocketRooms(sid) ok
	Rooms     []string `json:"rooms"`     // canonical: "own", "r<i>", "shared", other
	ReachAll  bool     `json:"reach_all"` // Adapter().Sockets({}) contains sid
	ReachOwn  bool     `json:"reach_own"` // Adapter().Sockets({sid}) contains sid
	ReachVia  []string `json:"reach_via"` // named rooms through which Adapter().Sockets({room}) yields sid
}

func canonRoom(r string, sid string) string {
	if r == sid {
		return "own"
	}
	return r
}

func observe(nsp *sio.Namespace, sock sio.ServerSocket, sid string, mw int, k int) viewObs {
	o := viewObs{Mw: mw, Sid: sid, Known: true, Rooms: []string{}, ReachVia: []string{}}
	for _, s := range nsp.Sockets() {
		if string(s.ID()) == sid {
			o.Listed = true
		}
	}
	for _, s := range nsp.FetchSockets() {
		if string(s.ID()) == sid {
			o.Fetch = true
		}
	}
	if sock != nil {
		o.Connected = sock.Connected()
	}
	ad := nsp.Adapter()
	if rooms, ok := ad.SocketRooms(sio.SocketID(sid)); ok {
		o.HasRooms = true
		for _, r := range rooms.ToSlice() {
			o.Rooms = append(o.Rooms, canonRoom(string(r), sid))
		}
		sort.Strings(o.Rooms)
	}
	o.ReachAll = ad.Sockets(mapset.NewSet[sio.Room]()).Contains(sio.SocketID(sid))
	o.ReachOwn = ad.Sockets(mapset.NewSet[sio.Room](sio.Room(sid))).Contains(sio.SocketID(sid))
	names := []string{"shared", "sess"}
	for i := 0; i < k; i++ {
		names = append(names, "r"+strconv.Itoa(i), "slow"+strconv.Itoa(i), "late"+strconv.Itoa(i))
	}
	for _, r := range names {
		if ad.Sockets(mapset.NewSet[sio.Room](sio.Room(r))).Contains(sio.SocketID(sid)) {
			o.ReachVia = append(o.ReachVia, r)
		}
	}
	sort.Strings(o.ReachVia)
	return o
}

// holdAdapter wraps the in-memory adapter: AddAll for a room named "slow..." is held up - the Join
// that issued it stays in progress (ServerSocket.Join holds the socket's joinMu meanwhile) - until
// the rig's script releases it (a channel), or DeleteAll was called for the same socket id.  A
// deterministic way to keep a Join in progress across the rest of the chain and the clean-up,
// without any hook.  A watchdog (seconds) ends a hold nobody released; such a case is recorded and
// counted as indeterminate, never compared.
const holdWatchdog = 10 * time.Second

// after a rejecting middleware returned, the clean-up runs: the hold ends when DeleteAll is seen
// (an implementation that leaves the rooms before it waits for the Join) or after this grace
// period (an implementation whose clean-up waits for the Join: nothing is observable meanwhile)
const rejectGrace = 300 * time.Millisecond

type holdAdapter struct {
	adapter.Adapter
	mu       sync.Mutex
	entered  map[string]chan struct{}             // sid|room -> closed when AddAll was entered
	release  map[string]chan struct{}             // sid|room -> closed by the script
	deleted  map[string]chan struct{}             // sid -> closed by the first DeleteAll
	watchdog map[string]bool                      // sid -> a hold was ended by the watchdog
	sessions map[string]*adapter.SessionToPersist // pid -> session this adapter can restore (offset "off1")
}

func (a *holdAdapter) ch(m map[string]chan struct{}, key string) chan struct{} {
	a.mu.Lock()
	defer a.mu.Unlock()
	c := m[key]
	if c == nil {
		c = make(chan struct{})
		m[key] = c
	}
	return c
}

func closeOnce(a *holdAdapter, c chan struct{}) {
	a.mu.Lock()
	select {
	case <-c:
	default:
		close(c)
	}
	a.mu.Unlock()
}

func (a *holdAdapter) AddAll(sid sio.SocketID, rooms []sio.Room) {
	for _, room := range rooms {
		if strings.HasPrefix(string(room), "slow") {
			key := string(sid) + "|" + string(room)
			closeOnce(a, a.ch(a.entered, key))
			select {
			case <-a.ch(a.release, key):
			case <-a.ch(a.deleted, string(sid)):
			case <-time.After(holdWatchdog):
				a.mu.Lock()
				a.watchdog[string(sid)] = true
				a.mu.Unlock()
			}
			break
		}
	}
	a.Adapter.AddAll(sid, rooms)
}

func (a *holdAdapter) DeleteAll(sid sio.SocketID) {
	a.Adapter.DeleteAll(sid)
	closeOnce(a, a.ch(a.deleted, string(sid)))
}

// The adapter is also the session store of connection state recovery: it restores exactly the
// sessions the rig registered, for the offset "off1" (an unknown pid, or a known pid with another
// offset, is not restored - as with the repo's session-aware adapter).
func (a *holdAdapter) RestoreSession(pid adapter.PrivateSessionID, offset string) (*adapter.SessionToPersist, bool) {
	a.mu.Lock()
	defer a.mu.Unlock()
	sess := a.sessions[string(pid)]
	if sess == nil || offset != "off1" {
		return nil, false
	}
	cp := *sess
	return &cp, true
}

func (r *admRig) registerSession(pid, sid string) {
	r.hmu.Lock()
	holds := append([]*holdAdapter{}, r.holds...)
	r.hmu.Unlock()
	for _, h := range holds {
		h.mu.Lock()
		h.sessions[pid] = &adapter.SessionToPersist{SID: sio.SocketID(sid), PID: adapter.PrivateSessionID(pid),
			Rooms: []sio.Room{sio.Room(sid), "sess"}}
		h.mu.Unlock()
	}
}

func holdAdapterCreator(reg func(nsp *holdAdapter)) adapter.Creator {
	inner := adapter.NewInMemoryAdapterCreator()
	return func(store adapter.SocketStore, pc parser.Creator) adapter.Adapter {
		h := &holdAdapter{Adapter: inner(store, pc), entered: map[string]chan struct{}{}, release: map[string]chan struct{}{},
			deleted: map[string]chan struct{}{}, watchdog: map[string]bool{}, sessions: map[string]*adapter.SessionToPersist{}}
		reg(h)
		return h
	}
}

type admRig struct {
	holds  []*holdAdapter
	hmu    sync.Mutex
	srv    *sio.Server
	ts     *httptest.Server
	nsp    *sio.Namespace
	name   string
	k      int
	mu     sync.Mutex
	cases  map[int]*admCase
	bySid  map[string]*admCase
	stray  []string // things that could not be attributed to a case
	hstray []string // handler runs for sids no case knows (resolved at the end)
	hobs   map[string][]viewObs
	socks  map[string]sio.ServerSocket
	anyh   map[string]int
}

type rejData struct {
	Case int    `json:"case"`
	Mw   int    `json:"mw"`
	Code int    `json:"code"`
	Why  string `json:"why"`
}

func (r *admRig) caseOf(auth json.RawMessage) *admCase {
	var a struct {
		C *int `json:"c"`
	}
	if json.Unmarshal(auth, &a) != nil || a.C == nil {
		return nil
	}
	r.mu.Lock()
	defer r.mu.Unlock()
	return r.cases[*a.C]
}

// connection state recovery configuration of the servers of this run (flags -recovery, -usemw)
var admRecovery, admUseMw bool

func newAdmRig(name string, k int) (*admRig, error) {
	r := &admRig{name: name, k: k, cases: map[int]*admCase{}, bySid: map[string]*admCase{},
		hobs: map[string][]viewObs{}, anyh: map[string]int{}, socks: map[string]sio.ServerSocket{}}
	cfg := &sio.ServerConfig{}
	cfg.EIO.WebSocketAcceptOptions = &websocket.AcceptOptions{CompressionMode: websocket.CompressionDisabled}
	cfg.ServerConnectionStateRecovery = sio.ServerConnectionStateRecovery{Enabled: admRecovery, UseMiddlewares: admUseMw}
	cfg.AdapterCreator = holdAdapterCreator(func(h *holdAdapter) {
		r.hmu.Lock()
		r.holds = append(r.holds, h)
		r.hmu.Unlock()
	})
	r.srv = sio.NewServer(cfg)
	if err := r.srv.Run(); err != nil {
		return nil, err
	}
	other := "/chat"
	if name == "/chat" {
		other = "/"
	}
	r.nsp = r.srv.Of(name)
	// the chain of the OTHER namespace must never run for a connection to `name`
	r.srv.Of(other).Use(func(socket sio.ServerSocket, hs *sio.Handshake) any {
		if c := r.caseOf(hs.Auth); c != nil {
			c.mu.Lock()
			c.Trap++
			c.mu.Unlock()
		}
		return fmt.Errorf("trap")
	})
	for i := 0; i < k; i++ {
		i := i
		r.nsp.Use(func(socket sio.ServerSocket, hs *sio.Handshake) any {
			c := r.caseOf(hs.Auth)
			sid := string(socket.ID())
			if c == nil {
				r.mu.Lock()
				r.stray = append(r.stray, fmt.Sprintf("mw %d called with unknown auth %s", i, string(hs.Auth)))
				r.mu.Unlock()
				return fmt.Errorf("unknown case")
			}
			o := observe(r.nsp, socket, sid, i, r.k)
			r.mu.Lock()
			r.bySid[sid] = c
			r.socks[sid] = socket
			r.mu.Unlock()
			c.mu.Lock()
			c.Calls = append(c.Calls, o)
			if !containsStr(c.Sids, sid) {
				c.Sids = append(c.Sids, sid)
			}
			j, v := 0, 0
			if i < len(c.J) {
				j = c.J[i]
			}
			if i < len(c.V) {
				v = c.V[i]
			}
			id := c.ID
			c.mu.Unlock()
			if j >= 1 && j <= 4 {
				// this middleware's own Join (or the Join it starts) needs the socket's joinMu
				r.finishHeld(c, sid)
			}
			switch j {
			case 1:
				socket.Join(sio.Room("r" + strconv.Itoa(i)))
			case 2:
				socket.Join()
			case 3:
				socket.Join(sio.Room("r"+strconv.Itoa(i)), sio.Room("shared"))
			case 4:
				// a Join on a goroutine of the middleware's own; the middleware goes on once the
				// Join is in progress (it has reached the adapter, which holds it up)
				done := make(chan struct{})
				room := sio.Room("slow" + strconv.Itoa(i))
				c.mu.Lock()
				c.async = append(c.async, done)
				c.heldRoom, c.heldDone = string(room), done
				c.mu.Unlock()
				go func() {
					defer close(done)
					socket.Join(room)
				}()
				r.waitEntered(sid, string(room))
			case 5:
				// a Join that starts only after the client got its answer
				done := make(chan struct{})
				c.mu.Lock()
				c.async = append(c.async, done)
				gate := c.late
				c.mu.Unlock()
				room := sio.Room("late" + strconv.Itoa(i))
				go func() {
					defer close(done)
					<-gate
					socket.Join(room)
				}()
			}
			if v == 0 && i == r.k-1 {
				// the chain passed: onConnect's Join of the own room needs joinMu next
				r.finishHeld(c, sid)
			}
			if v != 0 {
				// rejected: the clean-up follows; see rejectGrace
				c.mu.Lock()
				room := c.heldRoom
				c.heldRoom, c.heldDone = "", nil
				c.mu.Unlock()
				if room != "" {
					go func() {
						time.Sleep(rejectGrace)
						r.releaseHold(sid, room)
					}()
				}
			}
			switch v {
			case 1:
				return fmt.Errorf("E:%d:%d:1", id, i)
			case 2:
				return fmt.Sprintf("S:%d:%d:2", id, i)
			case 3:
				return &rejData{Case: id, Mw: i, Code: 3, Why: "structured"}
			}
			return nil
		})
	}
	r.nsp.OnConnection(func(socket sio.ServerSocket) {
		sid := string(socket.ID())
		o := observe(r.nsp, socket, sid, -1, r.k)
		r.mu.Lock()
		r.hobs[sid] = append(r.hobs[sid], o)
		r.socks[sid] = socket
		c := r.bySid[sid]
		r.mu.Unlock()
		if c != nil {
			c.signalHandler()
		}
	})
	r.srv.OnAnyConnection(func(nspName string, socket sio.ServerSocket) {
		if nspName != name {
			return
		}
		r.mu.Lock()
		r.anyh[string(socket.ID())]++
		r.mu.Unlock()
	})
	r.ts = httptest.NewServer(r.srv)
	return r, nil
}

// wait until the Join for (sid, room) is inside the adapter's AddAll (bounded)
func (r *admRig) waitEntered(sid, room string) {
	deadline := time.After(mwWait)
	for {
		r.hmu.Lock()
		holds := append([]*holdAdapter{}, r.holds...)
		r.hmu.Unlock()
		for _, h := range holds {
			h.mu.Lock()
			e := h.entered[sid+"|"+room]
			h.mu.Unlock()
			if e != nil {
				select {
				case <-e:
					return
				default:
				}
			}
		}
		select {
		case <-deadline:
			return
		case <-time.After(time.Millisecond):
		}
	}
}

// end the hold of (sid, room) in every adapter of the server
func (r *admRig) releaseHold(sid, room string) {
	r.hmu.Lock()
	holds := append([]*holdAdapter{}, r.holds...)
	r.hmu.Unlock()
	for _, h := range holds {
		closeOnce(h, h.ch(h.release, sid+"|"+room))
	}
}

func (r *admRig) watchdogHit(sid string) bool {
	r.hmu.Lock()
	holds := append([]*holdAdapter{}, r.holds...)
	r.hmu.Unlock()
	for _, h := range holds {
		h.mu.Lock()
		w := h.watchdog[sid]
		h.mu.Unlock()
		if w {
			return true
		}
	}
	return false
}

// the script's step "the admission is about to need joinMu": the held Join is let go and has
// returned before the admission goes on (in the code the admission would wait for exactly that)
func (r *admRig) finishHeld(c *admCase, sid string) {
	c.mu.Lock()
	room, done := c.heldRoom, c.heldDone
	c.heldRoom, c.heldDone = "", nil
	c.mu.Unlock()
	if room == "" {
		return
	}
	r.releaseHold(sid, room)
	select {
	case <-done:
	case <-time.After(mwWait):
	}
}

// after the answer (and the handler) was seen: let the late Joins run, wait for every Join goroutine
func (c *admCase) settleAsync() {
	c.mu.Lock()
	select {
	case <-c.late:
	default:
		close(c.late)
	}
	as := append([]chan struct{}{}, c.async...)
	c.mu.Unlock()
	for _, d := range as {
		select {
		case <-d:
		case <-time.After(mwWait):
		}
	}
}

func (c *admCase) signalHandler() {
	c.mu.Lock()
	if !c.hclosed {
		c.hclosed = true
		close(c.hch)
	}
	c.mu.Unlock()
}

func containsStr(l []string, s string) bool {
	for _, x := range l {
		if x == s {
			return true
		}
	}
	return false
}

func (r *admRig) close() {
	r.srv.Close()
	r.ts.Close()
}

// ---------------------------------------------------------------- raw Socket.IO peer

type rawPkt struct {
	typ  int
	nsp  string
	body string
}

type rawPeer struct {
	sock   eio.ClientSocket
	ch     chan rawPkt
	closed chan struct{}
	once   sync.Once
	mu     sync.Mutex
	events int
	byType [7]int
}

func parseSioText(b []byte) (rawPkt, bool) {
	if len(b) == 0 || b[0] < '0' || b[0] > '6' {
		return rawPkt{}, false
	}
	p := rawPkt{typ: int(b[0] - '0'), nsp: "/"}
	rest := string(b[1:])
	if strings.HasPrefix(rest, "/") {
		if i := strings.IndexByte(rest, ','); i >= 0 {
			p.nsp, rest = rest[:i], rest[i+1:]
		} else {
			p.nsp, rest = rest, ""
		}
	}
	i := 0
	for i < len(rest) && rest[i] >= '0' && rest[i] <= '9' {
		i++
	}
	p.body = rest[i:]
	return p, true
}

func dialRaw(url string) (*rawPeer, error) {
	p := &rawPeer{ch: make(chan rawPkt, 256), closed: make(chan struct{})}
	cb := &eio.Callbacks{
		OnPacket: func(packets ...*eioparser.Packet) {
			for _, pk := range packets {
				if pk.Type != eioparser.PacketTypeMessage || pk.IsBinary {
					continue
				}
				if sp, ok := parseSioText(pk.Data); ok {
					p.mu.Lock()
					p.byType[sp.typ]++
					if sp.typ == 2 {
						p.events++
					}
					p.mu.Unlock()
					select {
					case p.ch <- sp:
					default:
					}
				}
			}
		},
		OnClose: func(reason eio.Reason, err error) { p.once.Do(func() { close(p.closed) }) },
	}
	cfg := &eio.ClientConfig{Transports: []string{"websocket"},
		WebSocketDialOptions: &websocket.DialOptions{CompressionMode: websocket.CompressionDisabled}}
	var err error
	for attempt := 0; attempt < 3; attempt++ { // environmental failures (port, accept backlog) only
		p.sock, err = eio.Dial(url, cb, cfg)
		if err == nil {
			return p, nil
		}
	}
	return nil, err
}

func (p *rawPeer) sendText(s string) {
	pk, err := eioparser.NewPacket(eioparser.PacketTypeMessage, false, []byte(s))
	if err != nil {
		panic(err)
	}
	p.sock.Send(pk)
}

// wait for the next packet of namespace nsp whose type is in `types`
func (p *rawPeer) wait(nsp string, d time.Duration, types ...int) (rawPkt, string) {
	t := time.NewTimer(d)
	defer t.Stop()
	for {
		select {
		case pk := <-p.ch:
			if pk.nsp != nsp {
				continue
			}
			for _, ty := range types {
				if pk.typ == ty {
					return pk, "ok"
				}
			}
		case <-p.closed:
			// drain what is already queued
			select {
			case pk := <-p.ch:
				if pk.nsp == nsp {
					for _, ty := range types {
						if pk.typ == ty {
							return pk, "ok"
						}
					}
				}
				continue
			default:
			}
			return rawPkt{}, "closed"
		case <-t.C:
			return rawPkt{}, "timeout"
		}
	}
}

func connectText(nsp string, id int) string { return connectTextAuth(nsp, id, 0) }

func connectTextAuth(nsp string, id int, a int) string {
	auth := fmt.Sprintf(`{"c":%d}`, id)
	switch a {
	case 1:
		if id%2 == 0 {
			auth = fmt.Sprintf(`{"c":%d,"pid":"bogus-%d","offset":"off1"}`, id, id)
		} else { // a session the adapter knows, but not at this offset
			auth = fmt.Sprintf(`{"c":%d,"pid":"good-%d","offset":"nope"}`, id, id)
		}
	case 2:
		auth = fmt.Sprintf(`{"c":%d,"pid":"good-%d","offset":"off1"}`, id, id)
	}
	if nsp == "/" {
		return "0" + auth
	}
	return "0" + nsp + "," + auth
}

// decode the "message" of a CONNECT_ERROR body into (kind, mw, code)
func classifyMessage(body string, id int) (kind string, mw, code int) {
	mw, code = -1, -1
	var e struct {
		Message json.RawMessage `json:"message"`
	}
	if json.Unmarshal([]byte(body), &e) != nil || len(e.Message) == 0 {
		return "", -1, -1
	}
	var s string
	if json.Unmarshal(e.Message, &s) == nil {
		kind = "text"
		parts := strings.Split(s, ":")
		if len(parts) == 4 {
			c, _ := strconv.Atoi(parts[1])
			m, e1 := strconv.Atoi(parts[2])
			cd, e2 := strconv.Atoi(parts[3])
			if c == id && e1 == nil && e2 == nil && ((parts[0] == "E" && cd == 1) || (parts[0] == "S" && cd == 2)) {
				mw, code = m, cd
			}
		}
		return
	}
	var d rejData
	if json.Unmarshal(e.Message, &d) == nil && d.Why == "structured" && d.Case == id {
		return "data", d.Mw, d.Code
	}
	return "data", -1, -1
}

// one Engine.IO connection; attempts in order
func (r *admRig) runSession(cases []*admCase, start <-chan struct{}, wg *sync.WaitGroup, peers *[]*sessPeer, pmu *sync.Mutex) {
	defer wg.Done()
	p, err := dialRaw(r.ts.URL)
	<-start
	if err != nil {
		for _, c := range cases {
			c.Resp = "dialfail"
			c.Note = err.Error()
		}
		return
	}
	sp := &sessPeer{p: p, cases: cases}
	pmu.Lock()
	*peers = append(*peers, sp)
	pmu.Unlock()
	for pos, c := range cases {
		c.Pos = pos
		if c.A != 0 {
			r.registerSession(fmt.Sprintf("good-%d", c.ID), fmt.Sprintf("RESTORED-%d-sid", c.ID))
		}
		p.sendText(connectTextAuth(r.name, c.ID, c.A))
		pk, st := p.wait(r.name, mwWait, 0, 4)
		if st != "ok" {
			c.Resp = st
			c.settleAsync()
			c.Post = r.postView(c)
			continue
		}
		c.RespNsp = true
		if pk.typ == 0 {
			c.Resp = "connect"
			var info struct {
				SID string `json:"sid"`
			}
			json.Unmarshal([]byte(pk.body), &info)
			// the handler runs on its own goroutine after CONNECT was sent: wait for it (bounded)
			r.mu.Lock()
			if r.bySid[info.SID] == nil {
				r.bySid[info.SID] = c // chains of length 0: no middleware recorded the sid
			}
			seen := len(r.hobs[info.SID]) > 0
			r.mu.Unlock()
			c.mu.Lock()
			if !containsStr(c.Sids, info.SID) {
				c.Sids = append(c.Sids, info.SID)
			}
			c.RespSid = len(c.Sids) == 1 && c.Sids[0] == info.SID
			c.mu.Unlock()
			if seen {
				c.signalHandler()
			}
			select {
			case <-c.hch:
				c.HWaited = true
			case <-time.After(mwWait):
			}
			sp.accepted = true
			sp.sid = info.SID
		} else {
			c.Resp = "connect_error"
			c.MsgKind, c.MsgMw, c.MsgCode = classifyMessage(pk.body, c.ID)
		}
		c.settleAsync()
		c.Post = r.postView(c)
		if pk.typ == 0 {
			// reachable by a broadcast to its own room
			r.nsp.To(sio.Room(sp.sid)).Emit("probe", c.ID)
			ev, st := p.wait(r.name, mwWait, 2)
			c.Probe = st == "ok" && strings.HasPrefix(ev.body, `["probe",`+strconv.Itoa(c.ID))
			// the namespace is connected on this connection now: attempts planned after this one
			// (only possible if this CONNECT was not expected to be accepted) cannot be made
			for _, rest := range cases[pos+1:] {
				rest.Resp = "notrun"
				rest.Post = viewObs{Mw: -1, Rooms: []string{}, ReachVia: []string{}}
			}
			break
		}
	}
}

type sessPeer struct {
	p        *rawPeer
	cases    []*admCase
	accepted bool
	sid      string
}

func (r *admRig) postView(c *admCase) viewObs {
	c.mu.Lock()
	var sid string
	if len(c.Sids) > 0 {
		sid = c.Sids[len(c.Sids)-1]
	}
	c.mu.Unlock()
	r.mu.Lock()
	sock := r.socks[sid]
	r.mu.Unlock()
	if sid == "" {
		return viewObs{Mw: -1, Rooms: []string{}, ReachVia: []string{}}
	}
	return observe(r.nsp, sock, sid, -1, r.k)
}

func enumVectors(k int) [][]int {
	res := [][]int{{}}
	for i := 0; i < k; i++ {
		var nx [][]int
		for _, v := range res {
			for c := 0; c < 4; c++ {
				w := append(append([]int{}, v...), c)
				nx = append(nx, w)
			}
		}
		res = nx
	}
	return res
}

func isAccept(v []int) bool {
	for _, x := range v {
		if x != 0 {
			return false
		}
	}
	return true
}

// runs all cases of one (namespace, k) server; returns finished cases
func runAdmServer(name string, k int, conc int, rnd *vk.Rand, nextID *int, perConn int, jvFrom int, joinVariants int, authKinds int) ([]*admCase, []string, error) {
	r, err := newAdmRig(name, k)
	if err != nil {
		return nil, nil, err
	}
	t0 := time.Now()
	var all []*admCase
	for _, v := range enumVectors(k) {
		for akind := 0; akind < authKinds; akind++ {
			for jv := jvFrom; jv < jvFrom+joinVariants; jv++ {
				c := &admCase{ID: *nextID, Suite: "adm", Nsp: name, K: k, Conc: conc, V: v, J: make([]int, k), A: akind, Rec: admRecovery, UseMw: admUseMw,
					Calls: []viewObs{}, Handler: []viewObs{}, Sids: []string{}, MsgMw: -1, MsgCode: -1, hch: make(chan struct{}), late: make(chan struct{})}
				*nextID++
				for i := range c.J {
					switch jv {
					case 0:
						c.J[i] = 0
					case 1:
						c.J[i] = rnd.Intn(4)
					case 2:
						c.J[i] = 1
					case 3: // a Join in progress while the rest of the chain runs
						c.J[i] = 4
					case 4: // Joins started after the answer
						c.J[i] = 5
					default: // anything, at least one asynchronous Join
						c.J[i] = rnd.Intn(6)
						if i == 0 {
							c.J[i] = 4 + rnd.Intn(2)
						}
					}
				}
				all = append(all, c)
				r.cases[c.ID] = c
			}
		}
	}
	// more admitted sockets (the all-accept vector is one in 4^k): five extra ones with random joins
	for e := 0; e < 5; e++ {
		c := &admCase{ID: *nextID, Suite: "adm", Nsp: name, K: k, Conc: conc, V: make([]int, k), J: make([]int, k), Rec: admRecovery, UseMw: admUseMw,
			Calls: []viewObs{}, Handler: []viewObs{}, Sids: []string{}, MsgMw: -1, MsgCode: -1, hch: make(chan struct{}), late: make(chan struct{})}
		*nextID++
		for i := range c.J {
			if jvFrom >= 3 {
				c.J[i] = rnd.Intn(6)
			} else {
				c.J[i] = rnd.Intn(4)
			}
		}
		all = append(all, c)
		r.cases[c.ID] = c
	}
	// sessions: up to perConn rejected attempts, then (when available) one accepted attempt
	var rej, acc []*admCase
	for _, c := range all {
		// a session the adapter restores is admitted without the chain when UseMiddlewares is off
		if isAccept(c.V) || (c.Rec && !c.UseMw && c.A == 2) {
			acc = append(acc, c)
		} else {
			rej = append(rej, c)
		}
	}
	// shuffle rejected cases so that sessions mix vectors
	for i := len(rej) - 1; i > 0; i-- {
		j := rnd.Intn(i + 1)
		rej[i], rej[j] = rej[j], rej[i]
	}
	var sessions [][]*admCase
	for len(rej) > 0 || len(acc) > 0 {
		var s []*admCase
		n := perConn
		if n > len(rej) {
			n = len(rej)
		}
		s = append(s, rej[:n]...)
		rej = rej[n:]
		if len(acc) > 0 {
			s = append(s, acc[0])
			acc = acc[1:]
		}
		sessions = append(sessions, s)
	}
	var peers []*sessPeer
	var pmu sync.Mutex
	for i := 0; i < len(sessions); i += conc {
		end := i + conc
		if end > len(sessions) {
			end = len(sessions)
		}
		start := make(chan struct{})
		var wg sync.WaitGroup
		for si, s := range sessions[i:end] {
			for _, c := range s {
				c.Sess = i + si
			}
			wg.Add(1)
			go r.runSession(s, start, &wg, &peers, &pmu)
		}
		close(start)
		wg.Wait()
	}
	// end of run: a namespace-wide broadcast; every admitted connection gets it, nobody else gets any EVENT
	r.nsp.Emit("all", 1)
	for _, sp := range peers {
		if sp.accepted {
			sp.p.wait(r.name, mwWait, 2)
		}
	}
	for _, sp := range peers {
		sp.p.mu.Lock()
		ev := sp.p.events
		bt := sp.p.byType
		sp.p.mu.Unlock()
		// exactly one CONNECT / CONNECT_ERROR per answered attempt, nothing else of that kind
		want0, want4 := 0, 0
		for _, c := range sp.cases {
			switch c.Resp {
			case "connect":
				want0++
			case "connect_error":
				want4++
			}
		}
		extra := (bt[0] - want0) + (bt[4] - want4) + bt[1] + bt[3]
		if extra < 0 {
			extra = -extra
		}
		for _, c := range sp.cases {
			c.FinalEvt = extra
			if !sp.accepted {
				c.FinalEvt += ev
			}
		}
	}
	slow := time.Since(t0) > 15*time.Second
	for _, c := range all {
		c.Slow = slow
		for _, sid := range c.Sids {
			if r.watchdogHit(sid) {
				c.Watchdog = true
			}
		}
		c.Final = r.postView(c)
		r.mu.Lock()
		for _, sid := range c.Sids {
			c.Handler = append(c.Handler, r.hobs[sid]...)
			c.AnyH += r.anyh[sid]
			delete(r.hobs, sid)
		}
		r.mu.Unlock()
	}
	r.mu.Lock()
	stray := append([]string{}, r.stray...)
	for sid := range r.hobs {
		stray = append(stray, "connection handler ran for a socket no case knows: "+sid)
	}
	r.mu.Unlock()
	for _, sp := range peers {
		sp.p.sock.Close()
	}
	r.close()
	return all, stray, nil
}

// ---------------------------------------------------------------- main

func middlewareMain(args []string) error {
	fs := flag.NewFlagSet("middleware", flag.ExitOnError)
	seed := fs.Uint64("seed", 1, "")
	mode := fs.String("mode", "adm", "adm|admgo|ev|win")
	maxLen := fs.Int("maxlen", 3, "max chain length")
	conc := fs.Int("conc", 8, "concurrent sessions")
	perConn := fs.Int("perconn", 3, "rejected attempts per connection before an accepted one")
	joinVariants := fs.Int("joinvariants", 3, "join patterns per vector (none, random, Join(r_i); then the asynchronous ones: in progress, late, mixed)")
	jvFrom := fs.Int("jvfrom", 0, "first join pattern (3 = the asynchronous patterns)")
	authKinds := fs.Int("authkinds", 1, "CONNECT auth kinds per vector: 1 = no pid only, 3 = no pid / pid the adapter cannot restore / pid+offset of a session it restores")
	fs.BoolVar(&admRecovery, "recovery", false, "ServerConnectionStateRecovery.Enabled")
	fs.BoolVar(&admUseMw, "usemw", false, "ServerConnectionStateRecovery.UseMiddlewares")
	n := fs.Int("n", 0, "case limit (admgo)")
	outp := fs.String("out", "-", "")
	fs.Parse(args)
	out, err := vk.NewOut(*outp)
	if err != nil {
		return err
	}
	defer out.Close()
	rnd := vk.NewRand(*seed)
	switch *mode {
	case "adm":
		id := 0
		for _, name := range []string{"/", "/chat"} {
			for k := 0; k <= *maxLen; k++ {
				cases, stray, err := runAdmServer(name, k, *conc, rnd, &id, *perConn, *jvFrom, *joinVariants, *authKinds)
				if err != nil {
					return err
				}
				for _, c := range cases {
					out.Put(c)
				}
				for _, s := range stray {
					out.Put(map[string]any{"suite": "stray", "nsp": name, "k": k, "what": s})
				}
			}
		}
	case "admgo":
		return admGoMain(out, rnd, *maxLen, *n)
	case "ev":
		return evMain(out, rnd, *maxLen)
	case "win":
		return winMain(out, rnd, *maxLen)
	default:
		return fmt.Errorf("unknown mode %s", *mode)
	}
	return nil
}
