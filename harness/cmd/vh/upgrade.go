package main

// upgrade: live Engine.IO transport-upgrade rig for C07.
//
// A REAL eio.Server and REAL eio clients (eio.Dial) on 127.0.0.1:0.  Every connection starts on
// long-polling and upgrades to websocket while numbered text+binary messages flow in both
// directions (one continuous stream per side, plus a burst released exactly at UpgradeDone on the
// client and at the first moment the server reports TransportName()=="websocket").  The websocket
// dial of each client goes through a per-connection fault proxy which delays the handshake (so that
// traffic is in flight when the swap happens) and, in the fault scenarios, refuses / stalls / cuts
// the websocket connection at a chosen step of the probe:
//
//	step "tcp"       the TCP connection is closed before any byte            (refuse)
//	step "http"      the HTTP upgrade request is answered 403                (refuse)
//	step "handshake" the request is swallowed / the 101 answer is dropped    (stall / cut)
//	step "ping"      the client's probe PING frame is not delivered          (stall / cut)
//	step "pong"      the server's probe PONG frame is not delivered          (stall / cut)
//	step "upgrade"   the client's UPGRADE frame is not delivered             (stall / cut)  <- commit window
//
// Recorded per connection through the public API only (Callbacks.OnPacket / OnClose on both sides,
// ClientConfig.UpgradeDone, TransportName()): ids sent by each side, ids delivered to each side in
// callback order, transport names before/after, close flags.  One JSON line per connection.
//
// Mode "forced": a raw protocol peer (hand-written HTTP + websocket client) drives the REAL server
// through a given schedule of link-level actions, one at a time, and records after every action what
// came out of the server (poll responses, websocket frames, deliveries, transport name).

import (
	"bytes"
	"context"
	"encoding/binary"
	"flag"
	"fmt"
	"io"
	"net"
	"net/http"
	"os"
	"strconv"
	"strings"
	"sync"
	"sync/atomic"
	"time"

	eio "github.com/karagenc/socket.io-go/engine.io"
	"github.com/karagenc/socket.io-go/engine.io/parser"
	"github.com/karagenc/socket.io-go/engine.io/transport/polling"
	"nhooyr.io/websocket"

	"verifharness/vk"
)

func init() { register("upgrade", upgradeMain) }

// ---------------------------------------------------------------------------- messages

// upMkPacket builds message number id: even ids text, odd ids binary (unless forced), with a
// payload whose every byte is determined by id and its length by the id too.
func upMkPacket(id int, pad int) *parser.Packet {
	if id%2 == 0 {
		s := strconv.Itoa(id) + "|" + strings.Repeat(string(rune('a'+id%26)), pad)
		p, _ := parser.NewPacket(parser.PacketTypeMessage, false, []byte(s))
		return p
	}
	b := make([]byte, 8+pad)
	binary.BigEndian.PutUint64(b, uint64(id))
	for i := 0; i < pad; i++ {
		b[8+i] = byte(id*7 + i)
	}
	p, _ := parser.NewPacket(parser.PacketTypeMessage, true, b)
	return p
}

// upParse returns the id of a message packet, or -1 if the payload is not intact.
func upParse(p *parser.Packet) int {
	if p.IsBinary {
		if len(p.Data) < 8 {
			return -1
		}
		id := int(binary.BigEndian.Uint64(p.Data))
		if id%2 != 1 {
			return -1
		}
		for i := 8; i < len(p.Data); i++ {
			if p.Data[i] != byte(id*7+(i-8)) {
				return -1
			}
		}
		return id
	}
	s := string(p.Data)
	k := strings.IndexByte(s, '|')
	if k < 0 {
		// forced-schedule rig: the payload is the bare number
		if id, err := strconv.Atoi(s); err == nil && id >= 0 {
			return id
		}
		return -1
	}
	id, err := strconv.Atoi(s[:k])
	if err != nil || id%2 != 0 {
		return -1
	}
	for _, c := range s[k+1:] {
		if c != rune('a'+id%26) {
			return -1
		}
	}
	return id
}

// ---------------------------------------------------------------------------- recorder

type upSide struct {
	mu      sync.Mutex
	sent    []int // ids in the order Send was entered
	recv    []int // ids in callback order
	batches []int // size of each OnPacket call that carried >= 1 message
	other   int   // non-message packets seen by OnPacket
	closed  atomic.Bool
	reason  atomic.Value
	nextID  atomic.Int64
	errs    []string // OnError callbacks (first few)
}

func (s *upSide) onError(err error) {
	s.mu.Lock()
	if len(s.errs) < 4 {
		s.errs = append(s.errs, err.Error())
	}
	s.mu.Unlock()
}

func (s *upSide) onPacket(packets ...*parser.Packet) {
	s.mu.Lock()
	n := 0
	for _, p := range packets {
		if p.Type == parser.PacketTypeMessage {
			s.recv = append(s.recv, upParse(p))
			n++
		} else {
			s.other++
		}
	}
	if n > 0 {
		s.batches = append(s.batches, n)
	}
	s.mu.Unlock()
}

func (s *upSide) recvLen() int {
	s.mu.Lock()
	defer s.mu.Unlock()
	return len(s.recv)
}

func (s *upSide) sentLen() int {
	s.mu.Lock()
	defer s.mu.Unlock()
	return len(s.sent)
}

// send k consecutive messages in ONE Send call.
func (s *upSide) send(sock eio.Socket, r *vk.Rand, k int) []int {
	pk := make([]*parser.Packet, k)
	ids := make([]int, 0, k)
	s.mu.Lock()
	for i := range pk {
		id := int(s.nextID.Add(1) - 1)
		pad := r.Intn(24)
		if r.Intn(16) == 0 {
			pad = 200 + r.Intn(1500)
		}
		pk[i] = upMkPacket(id, pad)
		s.sent = append(s.sent, id)
		ids = append(ids, id)
	}
	s.mu.Unlock()
	sock.Send(pk...)
	return ids
}

type upServerRec struct {
	side   upSide // what the SERVER sent / received
	sock   eio.ServerSocket
	errors atomic.Int32
}

// ---------------------------------------------------------------------------- fault proxy

type upFault struct {
	Kind string // none | refuse | stall | cut
	Step string // tcp | http | handshake | ping | pong | upgrade
}

func (f upFault) String() string {
	if f.Kind == "none" || f.Kind == "poststall" || f.Kind == "slowdiscard" {
		return f.Kind
	}
	return f.Kind + "@" + f.Step
}

type upProxy struct {
	ln      net.Listener
	target  string
	fault   upFault
	delay   time.Duration
	mu      sync.Mutex
	conns   []net.Conn
	engaged atomic.Bool // the fault was applied
	done    chan struct{}
}

func newUpProxy(target string, f upFault, delay time.Duration) (*upProxy, error) {
	ln, err := net.Listen("tcp", "127.0.0.1:0")
	if err != nil {
		return nil, err
	}
	p := &upProxy{ln: ln, target: target, fault: f, delay: delay, done: make(chan struct{})}
	go func() {
		for {
			c, err := ln.Accept()
			if err != nil {
				return
			}
			go p.handle(c)
		}
	}()
	return p, nil
}

func (p *upProxy) addr() string { return p.ln.Addr().String() }

func (p *upProxy) track(c net.Conn) {
	p.mu.Lock()
	p.conns = append(p.conns, c)
	p.mu.Unlock()
}

func (p *upProxy) close() {
	p.ln.Close()
	select {
	case <-p.done:
	default:
		close(p.done)
	}
	p.mu.Lock()
	for _, c := range p.conns {
		c.Close()
	}
	p.mu.Unlock()
}

// readHTTPHead reads up to and including the blank line.
func upReadHead(c net.Conn) ([]byte, error) {
	var buf []byte
	one := make([]byte, 1)
	for {
		_, err := c.Read(one)
		if err != nil {
			return buf, err
		}
		buf = append(buf, one[0])
		if len(buf) >= 4 && bytes.Equal(buf[len(buf)-4:], []byte("\r\n\r\n")) {
			return buf, nil
		}
		if len(buf) > 1<<16 {
			return buf, fmt.Errorf("head too long")
		}
	}
}

// upReadFrame reads one websocket frame (raw bytes) and reports whether it is a data frame
// (text/binary/continuation) and whether it carries FIN.
func upReadFrame(c net.Conn) (raw []byte, data bool, fin bool, err error) {
	h := make([]byte, 2)
	if _, err = io.ReadFull(c, h); err != nil {
		return
	}
	raw = append(raw, h...)
	opcode := h[0] & 0x0f
	masked := h[1]&0x80 != 0
	l := uint64(h[1] & 0x7f)
	if l == 126 {
		e := make([]byte, 2)
		if _, err = io.ReadFull(c, e); err != nil {
			return
		}
		raw = append(raw, e...)
		l = uint64(binary.BigEndian.Uint16(e))
	} else if l == 127 {
		e := make([]byte, 8)
		if _, err = io.ReadFull(c, e); err != nil {
			return
		}
		raw = append(raw, e...)
		l = binary.BigEndian.Uint64(e)
	}
	if masked {
		l += 4
	}
	body := make([]byte, l)
	if _, err = io.ReadFull(c, body); err != nil {
		return
	}
	raw = append(raw, body...)
	return raw, opcode < 8, h[0]&0x80 != 0, nil
}

func (p *upProxy) hold() { <-p.done }

func (p *upProxy) handle(c net.Conn) {
	p.track(c)
	defer c.Close()
	f := p.fault
	if p.delay > 0 {
		time.Sleep(p.delay)
	}
	if f.Kind == "refuse" && f.Step == "tcp" {
		p.engaged.Store(true)
		return
	}
	head, err := upReadHead(c)
	if err != nil {
		return
	}
	if f.Kind == "refuse" && f.Step == "http" {
		p.engaged.Store(true)
		c.Write([]byte("HTTP/1.1 403 Forbidden\r\nContent-Length: 0\r\nConnection: close\r\n\r\n"))
		return
	}
	if f.Kind == "stall" && f.Step == "handshake" {
		p.engaged.Store(true)
		p.hold()
		return
	}
	s, err := net.Dial("tcp", p.target)
	if err != nil {
		return
	}
	p.track(s)
	defer s.Close()
	if _, err = s.Write(head); err != nil {
		return
	}
	rhead, err := upReadHead(s)
	if err != nil {
		return
	}
	if f.Kind == "cut" && f.Step == "handshake" {
		p.engaged.Store(true)
		return
	}
	if _, err = c.Write(rhead); err != nil {
		return
	}
	// frame relay. c2s data frame 1 = probe PING, 2 = UPGRADE; s2c data frame 1 = probe PONG.
	stop := make(chan struct{})
	var once sync.Once
	trip := func() bool { // returns true when the caller must stop relaying
		p.engaged.Store(true)
		if f.Kind == "cut" {
			once.Do(func() { close(stop) })
			c.Close()
			s.Close()
			return true
		}
		// stall: nothing moves any more in either direction, connections stay open
		once.Do(func() { close(stop) })
		p.hold()
		return true
	}
	relay := func(from, to net.Conn, dir string) {
		n := 0
		inMsg := false // nhooyr writes one message as several frames (one per Write + a final FIN frame)
		for {
			raw, data, fin, err := upReadFrame(from)
			if err != nil {
				// propagate close (unless stalled: then keep the other side open)
				select {
				case <-stop:
					if f.Kind == "stall" {
						p.hold()
					}
				default:
				}
				to.Close()
				from.Close()
				return
			}
			select {
			case <-stop:
				if f.Kind == "stall" {
					p.hold()
				}
				return
			default:
			}
			newMsg := data && !inMsg
			if data {
				inMsg = !fin
			}
			if newMsg {
				n++
				if f.Kind == "stall" || f.Kind == "cut" {
					if (dir == "c2s" && n == 1 && f.Step == "ping") ||
						(dir == "s2c" && n == 1 && f.Step == "pong") ||
						(dir == "c2s" && n == 2 && f.Step == "upgrade") {
						if trip() {
							return
						}
					}
				}
			}
			if _, err := to.Write(raw); err != nil {
				return
			}
		}
	}
	go relay(s, c, "s2c")
	relay(c, s, "c2s")
}

// upPostHold keeps the client's first long-polling POST back for `hold` (hook-free: ClientConfig.HTTPTransport).
// Scenario "poststall": a Send is in flight (it holds the socket's read lock) when the probe pong arrives and
// stays in flight longer than the client's UpgradeTimeout: the swap must simply wait for it.
type upPostHold struct {
	base http.RoundTripper
	hold time.Duration
	used atomic.Bool
}

// nil interface (default transport) unless a hold is wanted
func upRoundTripper(h *upPostHold) http.RoundTripper {
	if h == nil {
		return nil
	}
	return h
}

func (h *upPostHold) RoundTrip(req *http.Request) (*http.Response, error) {
	if req.Method == "POST" && !h.used.Swap(true) {
		time.Sleep(h.hold)
	}
	return h.base.RoundTrip(req)
}

// upSlowDiscard is the client's real long-polling transport, except that Discard takes a while (as the
// websocket transport's does).  Scenario "slowdiscard": several goroutines are inside / waiting for Send
// while finishUpgradeTo swaps, discards the old transport and writes the UPGRADE packet; installed through
// the verif export eio.VerifWrapClientTransport.
type upSlowDiscard struct {
	*polling.ClientTransport
	d    time.Duration
	used atomic.Bool
}

func (t *upSlowDiscard) Discard() {
	t.used.Store(true)
	t.ClientTransport.Discard()
	time.Sleep(t.d)
}

// ---------------------------------------------------------------------------- live rig

type upRow struct {
	Kind      string   `json:"kind"`  // live | fault
	Fault     string   `json:"fault"` // none | refuse@tcp | ...
	Idx       int      `json:"idx"`
	SSent     []int    `json:"ssent"`
	CSent     []int    `json:"csent"`
	CRecv     []int    `json:"crecv"`
	SRecv     []int    `json:"srecv"`
	SBurst    []int    `json:"sburst"` // ids sent by the burst goroutine of the server / the client
	CBurst    []int    `json:"cburst"`
	CStreams  [][]int  `json:"cstreams"` // ids sent by each additional client sender goroutine
	CBatches  []int    `json:"cbatches"`
	SBatches  []int    `json:"sbatches"`
	CTrBefore string   `json:"ctr0"`
	STrBefore string   `json:"str0"`
	CTrAfter  string   `json:"ctr1"`
	STrAfter  string   `json:"str1"`
	UpDone    bool     `json:"updone"`
	CClosed   bool     `json:"cclosed"`
	SClosed   bool     `json:"sclosed"`
	CReason   string   `json:"creason"`
	CErrs     []string `json:"cerrs"`
	SErrs     []string `json:"serrs"`
	// number of messages each side had sent when the swap was observed on that side (0 = never)
	CSentAtSwap int `json:"csentatswap"`
	SSentAtSwap int `json:"ssentatswap"`
	// messages sent after the fault had been applied and both upgrade timers had expired
	SLate   int    `json:"slate"`
	CLate   int    `json:"clate"`
	Engaged bool   `json:"engaged"`
	Settled bool   `json:"settled"` // both sides stopped receiving before the deadline
	Env     string `json:"env"`     // non-empty: environmental failure (dial error ...): not a verdict
	WallMs  int64  `json:"ms"`
}

type upRig struct {
	srv     *eio.Server
	hs      *http.Server
	addr    string
	recs    sync.Map // sid -> *upServerRec
	upgrTmo time.Duration
}

func newUpRig(serverUpgradeTimeout time.Duration) (*upRig, error) {
	rig := &upRig{upgrTmo: serverUpgradeTimeout}
	rig.srv = eio.NewServer(func(sock eio.ServerSocket) *eio.Callbacks {
		rec := &upServerRec{sock: sock}
		rig.recs.Store(sock.ID(), rec)
		return &eio.Callbacks{
			OnPacket: rec.side.onPacket,
			OnError:  func(err error) { rec.errors.Add(1); rec.side.onError(err) },
			OnClose: func(reason eio.Reason, err error) {
				rec.side.reason.Store(string(reason))
				rec.side.closed.Store(true)
			},
		}
	}, &eio.ServerConfig{UpgradeTimeout: serverUpgradeTimeout})
	if err := rig.srv.Run(); err != nil {
		return nil, err
	}
	ln, err := net.Listen("tcp", "127.0.0.1:0")
	if err != nil {
		return nil, err
	}
	rig.addr = ln.Addr().String()
	mux := http.NewServeMux()
	mux.Handle("/engine.io/", rig.srv)
	rig.hs = &http.Server{Handler: mux}
	go rig.hs.Serve(ln)
	return rig, nil
}

func (rig *upRig) close() {
	rig.srv.Close()
	rig.hs.Close()
}

type upParams struct {
	fault       upFault
	idx         int
	seed        uint64
	clientTmo   time.Duration
	maxStream   int // cap on the continuous stream per side
	postSwap    int // messages of the continuous stream after the swap was seen
	burst       int
	late        int // messages per side after the timers expired (fault scenarios)
	cSenders    int // additional client sender goroutines (live traffic)
	dialDelayMs int
}

func (rig *upRig) runConn(pr upParams) upRow {
	t0 := time.Now()
	r := vk.NewRand(pr.seed)
	kind := "live"
	if pr.fault.Kind != "none" {
		kind = "fault"
	}
	row := upRow{Kind: kind, Fault: pr.fault.String(), Idx: pr.idx}
	delay := time.Duration(1+r.Intn(pr.dialDelayMs)) * time.Millisecond
	pxFault := pr.fault
	var postHold *upPostHold
	if pr.fault.Kind == "slowdiscard" {
		pxFault = upFault{"none", ""}
		delay += 5 * time.Millisecond
	}
	if pr.fault.Kind == "poststall" {
		pxFault = upFault{"none", ""}
		postHold = &upPostHold{base: http.DefaultTransport.(*http.Transport).Clone(), hold: pr.clientTmo + 400*time.Millisecond}
	}
	px, err := newUpProxy(rig.addr, pxFault, delay)
	if err != nil {
		row.Env = "proxy: " + err.Error()
		return row
	}
	defer px.close()

	var cside upSide
	upDone := make(chan struct{})
	var upOnce sync.Once
	wsClient := &http.Client{Transport: &http.Transport{
		DialContext: func(ctx context.Context, network, addr string) (net.Conn, error) {
			var d net.Dialer
			return d.DialContext(ctx, "tcp", px.addr())
		},
		DisableKeepAlives: true,
	}}
	sock, err := eio.Dial("http://"+rig.addr+"/engine.io/", &eio.Callbacks{
		OnPacket: cside.onPacket,
		OnError:  cside.onError,
		OnClose: func(reason eio.Reason, err error) {
			cside.reason.Store(string(reason))
			cside.closed.Store(true)
		},
	}, &eio.ClientConfig{
		HTTPTransport:        upRoundTripper(postHold),
		Transports:           []string{"polling", "websocket"},
		UpgradeTimeout:       pr.clientTmo,
		UpgradeDone:          func(name string) { upOnce.Do(func() { close(upDone) }) },
		WebSocketDialOptions: &websocket.DialOptions{HTTPClient: wsClient},
	})
	if err != nil {
		row.Env = "dial: " + err.Error()
		return row
	}
	defer sock.Close()
	var slow *upSlowDiscard
	if pr.fault.Kind == "slowdiscard" {
		eio.VerifWrapClientTransport(sock, func(t eio.ClientTransport) eio.ClientTransport {
			if pt, ok := t.(*polling.ClientTransport); ok {
				slow = &upSlowDiscard{ClientTransport: pt, d: 50 * time.Millisecond}
				return slow
			}
			return t
		})
		if slow == nil {
			row.Env = "slowdiscard: transport already swapped"
			return row
		}
	}
	row.CTrBefore = sock.TransportName()
	v, ok := rig.recs.Load(sock.ID())
	if !ok {
		row.Env = "server record missing"
		return row
	}
	srec := v.(*upServerRec)
	ssock := srec.sock
	row.STrBefore = ssock.TransportName()
	sside := &srec.side

	// the swap as seen by the server application: TransportName() flips
	sSwap := make(chan struct{})
	stopWatch := make(chan struct{})
	go func() {
		for {
			if ssock.TransportName() == "websocket" {
				close(sSwap)
				return
			}
			select {
			case <-stopWatch:
				return
			default:
			}
			time.Sleep(20 * time.Microsecond)
		}
	}()
	defer close(stopWatch)

	var cAtSwap, sAtSwap atomic.Int64
	var wg sync.WaitGroup
	deadline := time.Now().Add(8 * time.Second)
	faulty := pr.fault.Kind != "none" && pr.fault.Kind != "slowdiscard"
	// continuous streams
	var bmu sync.Mutex
	row.CStreams = [][]int{}
	stream := func(side *upSide, s eio.Socket, swap <-chan struct{}, rr *vk.Rand, ids *[]int) {
		defer wg.Done()
		var mine []int
		defer func() {
			if ids != nil {
				bmu.Lock()
				*ids = mine
				bmu.Unlock()
			}
		}()
		after := -1
		for i := 0; i < pr.maxStream && time.Now().Before(deadline); i++ {
			if after < 0 {
				select {
				case <-swap:
					after = 0
				default:
				}
			}
			if after >= 0 {
				after++
				if after > pr.postSwap {
					return
				}
			}
			k := 1
			if rr.Intn(6) == 0 {
				k = 2 + rr.Intn(3)
			}
			mine = append(mine, side.send(s, rr, k)...)
			switch rr.Intn(4) {
			case 0:
			case 1:
				time.Sleep(time.Duration(rr.Intn(120)) * time.Microsecond)
			default:
				time.Sleep(time.Duration(rr.Intn(900)) * time.Microsecond)
			}
		}
	}
	burst := func(side *upSide, s eio.Socket, swap <-chan struct{}, at *atomic.Int64, rr *vk.Rand, ids *[]int) {
		defer wg.Done()
		select {
		case <-swap:
		case <-time.After(time.Until(deadline)):
			return
		}
		at.Store(int64(side.sentLen()))
		got := side.send(s, rr, 3)
		for i := 0; i < pr.burst; i++ {
			got = append(got, side.send(s, rr, 1)...)
		}
		bmu.Lock()
		*ids = got
		bmu.Unlock()
	}
	row.SBurst, row.CBurst = []int{}, []int{}
	if faulty {
		// fixed traffic before the fault resolves
		wg.Add(2)
		go func() {
			defer wg.Done()
			for i := 0; i < pr.maxStream; i++ {
				sside.send(ssock, r, 1)
				time.Sleep(time.Duration(r.Intn(3000)) * time.Microsecond)
			}
		}()
		rc := r.Fork()
		go func() {
			defer wg.Done()
			for i := 0; i < pr.maxStream; i++ {
				if cside.closed.Load() {
					return
				}
				cside.send(sock, rc, 1)
				time.Sleep(time.Duration(rc.Intn(3000)) * time.Microsecond)
			}
		}()
		wg.Wait()
		// let both upgrade timers expire
		wait := rig.upgrTmo
		if pr.clientTmo > wait {
			wait = pr.clientTmo
		}
		time.Sleep(time.Duration(pr.dialDelayMs)*time.Millisecond + wait + 400*time.Millisecond)
		row.Engaged = px.engaged.Load()
		if postHold != nil {
			row.Engaged = postHold.used.Load()
		}
		// later messages
		for i := 0; i < pr.late; i++ {
			sside.send(ssock, r, 1)
			row.SLate++
			if !cside.closed.Load() {
				cside.send(sock, rc, 1)
				row.CLate++
			}
			time.Sleep(200 * time.Microsecond)
		}
	} else {
		wg.Add(4)
		go stream(sside, ssock, sSwap, r.Fork(), nil)
		go stream(&cside, sock, upDone, r.Fork(), nil)
		// additional client sender goroutines (any number of Sends may be in flight at the swap)
		extra := make([][]int, pr.cSenders)
		for g := 0; g < pr.cSenders; g++ {
			wg.Add(1)
			go stream(&cside, sock, upDone, r.Fork(), &extra[g])
		}
		go burst(sside, ssock, sSwap, &sAtSwap, r.Fork(), &row.SBurst)
		go burst(&cside, sock, upDone, &cAtSwap, r.Fork(), &row.CBurst)
		wg.Wait()
		row.CStreams = extra
		if slow != nil {
			row.Engaged = slow.used.Load()
		}
	}

	// settle: wait until everything sent has arrived, or nothing moves any more
	settleDeadline := time.Now().Add(6 * time.Second)
	lastC, lastS, lastChange := -1, -1, time.Now()
	for time.Now().Before(settleDeadline) {
		c, s := cside.recvLen(), sside.recvLen()
		if c >= sside.sentLen() && s >= cside.sentLen() {
			row.Settled = true
			break
		}
		if c != lastC || s != lastS {
			lastC, lastS, lastChange = c, s, time.Now()
		} else if time.Since(lastChange) > 1500*time.Millisecond {
			row.Settled = true // quiescent with something missing
			break
		}
		time.Sleep(2 * time.Millisecond)
	}
	// a little extra time for a duplicate to show up
	time.Sleep(15 * time.Millisecond)

	select {
	case <-upDone:
		row.UpDone = true
	default:
	}
	row.CTrAfter = sock.TransportName()
	row.STrAfter = ssock.TransportName()
	row.CClosed = cside.closed.Load()
	row.SClosed = sside.closed.Load()
	if v := cside.reason.Load(); v != nil {
		row.CReason = v.(string)
	}
	cside.mu.Lock()
	sside.mu.Lock()
	row.CErrs = append([]string{}, cside.errs...)
	row.SErrs = append([]string{}, sside.errs...)
	row.CSent = append([]int{}, cside.sent...)
	row.SSent = append([]int{}, sside.sent...)
	row.CRecv = append([]int{}, cside.recv...)
	row.SRecv = append([]int{}, sside.recv...)
	row.CBatches = append([]int{}, cside.batches...)
	row.SBatches = append([]int{}, sside.batches...)
	sside.mu.Unlock()
	cside.mu.Unlock()
	row.CSentAtSwap = int(cAtSwap.Load())
	row.SSentAtSwap = int(sAtSwap.Load())
	row.WallMs = time.Since(t0).Milliseconds()
	return row
}

var upFaults = []upFault{
	{"refuse", "tcp"}, {"refuse", "http"},
	{"stall", "handshake"}, {"stall", "ping"}, {"stall", "pong"}, {"stall", "upgrade"},
	{"cut", "handshake"}, {"cut", "ping"}, {"cut", "pong"}, {"cut", "upgrade"},
}

func upgradeMain(args []string) error {
	fs := flag.NewFlagSet("upgrade", flag.ExitOnError)
	seed := fs.Uint64("seed", 1, "")
	mode := fs.String("mode", "live", "live|fault|forced")
	n := fs.Int("n", 100, "connections (live) / repetitions per fault (fault)")
	par := fs.Int("par", 25, "parallel connections")
	sched := fs.String("sched", "", "forced: file with one schedule per line")
	settleMs := fs.Int("settle", 12, "forced: quiet time that ends a step (ms)")
	outp := fs.String("out", "-", "")
	fs.Parse(args)
	out, err := vk.NewOut(*outp)
	if err != nil {
		return err
	}
	defer out.Close()
	if *mode == "forced" {
		return upForcedMain(*sched, *settleMs, *par, out)
	}

	// fault mode: the server's upgrade time-out is well above the held POST of "poststall" (1 s), so only the
	// client's time-out (0.6 s) can expire while the swap waits for that POST
	srvTmo := 5 * time.Second // live: a swap that is slow on a busy machine must not run into the server's timer
	if *mode == "fault" {
		srvTmo = 3 * time.Second
	}
	rig, err := newUpRig(srvTmo)
	if err != nil {
		return err
	}
	defer rig.close()
	r := vk.NewRand(*seed)
	var jobs []upParams
	if *mode == "live" {
		for i := 0; i < *n; i++ {
			jobs = append(jobs, upParams{fault: upFault{"none", ""}, idx: i, seed: r.U64(), clientTmo: 5 * time.Second,
				cSenders: r.Intn(4), maxStream: 600, postSwap: 12 + r.Intn(12), burst: 4 + r.Intn(8), dialDelayMs: 2 + r.Intn(12)})
		}
	} else {
		for i := 0; i < *n; i++ {
			for _, f := range append(append([]upFault{}, upFaults...), upFault{"poststall", ""}) {
				jobs = append(jobs, upParams{fault: f, idx: len(jobs), seed: r.U64(), clientTmo: 600 * time.Millisecond,
					maxStream: 10 + r.Intn(10), late: 6 + r.Intn(6), dialDelayMs: 1 + r.Intn(8)})
			}
			jobs = append(jobs, upParams{fault: upFault{"slowdiscard", ""}, idx: len(jobs), seed: r.U64(), clientTmo: 5 * time.Second,
				cSenders: 7, maxStream: 300, postSwap: 10, burst: 5, dialDelayMs: 4})
		}
	}
	sem := make(chan struct{}, *par)
	var wg sync.WaitGroup
	for _, j := range jobs {
		wg.Add(1)
		sem <- struct{}{}
		go func(j upParams) {
			defer wg.Done()
			defer func() { <-sem }()
			row := rig.runConn(j)
			if row.Env != "" { // environmental: one retry
				row = rig.runConn(j)
			}
			out.Put(row)
		}(j)
	}
	wg.Wait()
	return nil
}

// ---------------------------------------------------------------------------- forced schedules (raw peer)

// One row per schedule.  Actions: s = server application sends the next message; g = the peer starts a GET
// poll; d = the peer dials the candidate websocket; p = probe PING; u = UPGRADE; m = message on the
// websocket; o = message by POST.  After every action the rig waits until nothing has moved for `settle`
// and records what the server produced.  Packets are coded: n >= 0 message n, -1 NOOP, -2 PONG, -3 other,
// -9 a non-200 poll response.
type upObs struct {
	Poll  []int  `json:"poll"` // packets of the poll response that completed during this step (nil = none)
	HasP  bool   `json:"hasp"`
	Ws    []int  `json:"ws"`    // frames received on the websocket during this step
	SRecv []int  `json:"srecv"` // all messages delivered to the server application so far
	Tr    string `json:"tr"`
	WsErr bool   `json:"wserr"` // the websocket was closed by the server during this step
}

type upForcedRow struct {
	Kind  string  `json:"kind"`
	Sched string  `json:"sched"`
	Obs   []upObs `json:"obs"`
	Env   string  `json:"env"`
}

func upDecodePayload(body string) []int {
	res := []int{}
	if body == "" {
		return res
	}
	for _, part := range strings.Split(body, "\x1e") {
		res = append(res, upDecodePacket(part))
	}
	return res
}

func upDecodePacket(part string) int {
	if part == "" {
		return -3
	}
	switch part[0] {
	case '4':
		id, err := strconv.Atoi(part[1:])
		if err != nil {
			return -3
		}
		return id
	case '6':
		return -1
	case '3':
		return -2
	}
	return -3
}

// upHold parks every goroutine that reaches the repo's existing yield point "pollqueue-window"
// (pollQueue.poll: after the first, empty, get() and before the wait) while armed.  The handler is
// process-wide, so schedules that use it run one at a time (-par 1).
type upHolder struct {
	mu    sync.Mutex
	armed bool
	gate  chan struct{}
}

var upHold = &upHolder{}

func (h *upHolder) install() {
	polling.VerifSetYieldHandler(func(point string) {
		if point != "pollqueue-window" {
			return
		}
		h.mu.Lock()
		armed, gate := h.armed, h.gate
		h.mu.Unlock()
		if armed {
			<-gate
		}
	})
}

func (h *upHolder) arm() {
	h.mu.Lock()
	if !h.armed {
		h.armed, h.gate = true, make(chan struct{})
	}
	h.mu.Unlock()
}

func (h *upHolder) release() {
	h.mu.Lock()
	if h.armed {
		h.armed = false
		close(h.gate)
	}
	h.mu.Unlock()
}

// exp (optional): per step "hasPoll,nWs,nSrecv,onWs" as predicted by the model; the rig then waits (bounded)
// until at least that much has been observed, plus a short quiet time, instead of guessing a settle time.
func (rig *upRig) runForced(sched string, exp [][4]int, settle time.Duration) upForcedRow {
	row := upForcedRow{Kind: "forced", Sched: sched}
	base := "http://" + rig.addr + "/engine.io/?EIO=4"
	hc := &http.Client{Transport: &http.Transport{}}
	defer hc.CloseIdleConnections()
	resp, err := hc.Get(base + "&transport=polling")
	if err != nil {
		row.Env = "handshake: " + err.Error()
		return row
	}
	body, _ := io.ReadAll(resp.Body)
	resp.Body.Close()
	k := strings.Index(string(body), `"sid":"`)
	if resp.StatusCode != 200 || k < 0 {
		row.Env = "handshake body"
		return row
	}
	sid := string(body)[k+7:]
	sid = sid[:strings.IndexByte(sid, '"')]
	v, ok := rig.recs.Load(sid)
	if !ok {
		row.Env = "server record missing"
		return row
	}
	srec := v.(*upServerRec)
	defer srec.sock.Close()
	defer upHold.release()

	var mu sync.Mutex
	var last time.Time
	touch := func() { mu.Lock(); last = time.Now(); mu.Unlock() }
	pollCh := make(chan []int, 4)
	pollBusy := false
	wsCh := make(chan int, 64)
	wsErr := make(chan struct{}, 1)
	var conn *websocket.Conn
	ctx, cancel := context.WithCancel(context.Background())
	defer cancel()
	sSent, cSent := 0, 0

	for step, a := range sched {
		touch()
		switch a {
		case 's':
			p, _ := parser.NewPacket(parser.PacketTypeMessage, false, []byte(strconv.Itoa(sSent)))
			sSent++
			srec.sock.Send(p)
		case 'r': // release the GET held at the yield point
			upHold.release()
		case 'g', 'h':
			if pollBusy { // one GET at a time (the model skips it too)
				break
			}
			if a == 'h' {
				upHold.arm()
			}
			pollBusy = true
			go func() {
				r, err := hc.Get(base + "&transport=polling&sid=" + sid)
				if err != nil {
					touch()
					pollCh <- []int{-9}
					return
				}
				b, _ := io.ReadAll(r.Body)
				r.Body.Close()
				touch()
				if r.StatusCode != 200 {
					pollCh <- []int{-9}
				} else {
					pollCh <- upDecodePayload(string(b))
				}
			}()
		case 'd':
			c, _, err := websocket.Dial(ctx, "ws://"+rig.addr+"/engine.io/?EIO=4&transport=websocket&sid="+sid, nil)
			if err != nil {
				row.Env = "ws dial: " + err.Error()
				return row
			}
			conn = c
			defer conn.Close(websocket.StatusNormalClosure, "")
			go func() {
				for {
					_, b, err := c.Read(ctx)
					touch()
					if err != nil {
						select {
						case wsErr <- struct{}{}:
						default:
						}
						return
					}
					wsCh <- upDecodePacket(string(b))
				}
			}()
		case 'p', 'u', 'm':
			if conn == nil {
				row.Env = "schedule uses the websocket before dialing"
				return row
			}
			msg := "2probe"
			if a == 'u' {
				msg = "5"
			} else if a == 'm' {
				msg = "4" + strconv.Itoa(cSent)
				cSent++
			}
			conn.Write(ctx, websocket.MessageText, []byte(msg))
		case 'o':
			r, err := hc.Post(base+"&transport=polling&sid="+sid, "text/plain;charset=UTF-8", strings.NewReader("4"+strconv.Itoa(cSent)))
			cSent++
			if err == nil {
				io.ReadAll(r.Body)
				r.Body.Close()
			}
		}
		if step < len(exp) {
			e := exp[step]
			t0 := time.Now()
			for time.Since(t0) < 3*time.Second {
				tr := 0
				if srec.sock.TransportName() == "websocket" {
					tr = 1
				}
				if len(pollCh) >= e[0] && len(wsCh) >= e[1] && srec.side.recvLen() >= e[2] && tr == e[3] {
					break
				}
				time.Sleep(300 * time.Microsecond)
			}
			touch()
		}
		// settle: nothing moved for `settle` (deliveries to the server application count as movement)
		prev := srec.side.recvLen()
		t0 := time.Now()
		for time.Since(t0) < 40*settle {
			time.Sleep(settle / 4)
			if n := srec.side.recvLen(); n != prev {
				prev = n
				touch()
			}
			mu.Lock()
			idle := time.Since(last)
			mu.Unlock()
			if idle >= settle {
				break
			}
		}
		o := upObs{Ws: []int{}, Tr: srec.sock.TransportName()}
		select {
		case pk := <-pollCh:
			o.Poll, o.HasP, pollBusy = pk, true, false
		default:
			o.Poll = []int{}
		}
	drain:
		for {
			select {
			case f := <-wsCh:
				o.Ws = append(o.Ws, f)
			default:
				break drain
			}
		}
		select {
		case <-wsErr:
			o.WsErr = true
		default:
		}
		srec.side.mu.Lock()
		o.SRecv = append([]int{}, srec.side.recv...)
		srec.side.mu.Unlock()
		row.Obs = append(row.Obs, o)
	}
	return row
}

func upForcedMain(schedFile string, settleMs int, par int, out *vk.Out) error {
	data, err := io.ReadAll(func() io.Reader {
		f, err := osOpen(schedFile)
		if err != nil {
			return strings.NewReader("")
		}
		return f
	}())
	if err != nil {
		return err
	}
	rig, err := newUpRig(5 * time.Second)
	if err != nil {
		return err
	}
	defer rig.close()
	upHold.install()
	sem := make(chan struct{}, par)
	var wg sync.WaitGroup
	for _, line := range strings.Split(string(data), "\n") {
		line = strings.TrimSpace(line)
		if line == "" {
			continue
		}
		wg.Add(1)
		sem <- struct{}{}
		go func(line string) {
			defer wg.Done()
			defer func() { <-sem }()
			f := strings.Fields(line)
			var exp [][4]int
			if len(f) > 1 {
				for _, st := range strings.Split(f[1], ";") {
					var e [4]int
					for i, x := range strings.Split(st, ",") {
						if i < 4 {
							e[i], _ = strconv.Atoi(x)
						}
					}
					exp = append(exp, e)
				}
			}
			row := rig.runForced(f[0], exp, time.Duration(settleMs)*time.Millisecond)
			if row.Env != "" {
				row = rig.runForced(f[0], exp, time.Duration(settleMs)*time.Millisecond)
			}
			out.Put(row)
		}(line)
	}
	wg.Wait()
	return nil
}

func osOpen(path string) (*os.File, error) { return os.Open(path) }
