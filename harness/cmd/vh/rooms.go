package main

// rooms: correspondence engine of C04 (rooms / broadcast target selection).
//
// Everything runs the real adapter package: the in-memory adapter built by
// adapter.NewInMemoryAdapterCreator() over the package's TestSocketStore, the real
// BroadcastOperator, and (mode live) a real server with real clients.
//
// Socket ids and rooms are small positive numbers k, spelled "x<k>" in Go, so that the own room
// of socket k (Room(socket.ID())) is room k, as in the server.

import (
	"flag"
	"fmt"
	"net/http/httptest"
	"sort"
	"strconv"
	"strings"
	"sync"
	"sync/atomic"
	"time"

	mapset "github.com/deckarep/golang-set/v2"
	"github.com/karagenc/socket.io-go/adapter"
	"github.com/karagenc/socket.io-go/parser"
	jsonparser "github.com/karagenc/socket.io-go/parser/json"
	"github.com/karagenc/socket.io-go/parser/json/serializer/stdjson"

	sio "github.com/karagenc/socket.io-go"

	"verifharness/vk"
)

func init() { register("rooms", roomsMain) }

func rmXs(k int) string { return "x" + strconv.Itoa(k) }
func rmXk(s string) int {
	if len(s) < 2 || s[0] != 'x' {
		return 0
	}
	k, err := strconv.Atoi(s[1:])
	if err != nil {
		return 0
	}
	return k
}
func rmXroom(k int) adapter.Room    { return adapter.Room(rmXs(k)) }
func rmXsid(k int) adapter.SocketID { return adapter.SocketID(rmXs(k)) }
func rmXrooms(ks []int) []adapter.Room {
	r := make([]adapter.Room, len(ks))
	for i, k := range ks {
		r[i] = rmXroom(k)
	}
	return r
}

// rmRig: a real in-memory adapter over the package's test socket store, with delivery recording.
type rmRig struct {
	ad    adapter.Adapter
	store *adapter.TestSocketStore
	mu    sync.Mutex
	sent  []int
	socks map[int]*rmHsock
}

func rmNewRig() *rmRig {
	g := &rmRig{store: adapter.NewTestSocketStore(), socks: map[int]*rmHsock{}}
	g.store.SetSendBuffers(func(sid adapter.SocketID, buffers [][]byte) bool {
		g.mu.Lock()
		g.sent = append(g.sent, rmXk(string(sid)))
		g.mu.Unlock()
		return true
	})
	g.ad = adapter.NewInMemoryAdapterCreator()(g.store, jsonparser.NewCreator(0, stdjson.New()))
	return g
}

func (g *rmRig) operator(from int) *adapter.BroadcastOperator {
	op := adapter.NewBroadcastOperator("/", g.ad, func(string) bool { return false })
	if from > 0 {
		// serverSocket.newBroadcastOperator
		op = op.Except(adapter.Room(rmXsid(from)))
	}
	return op
}

// broadcast through the real operator (Emit -> adapter.Broadcast -> apply -> SendBuffers).
func (g *rmRig) broadcast(from int, T, E []int) []int {
	g.mu.Lock()
	g.sent = nil
	g.mu.Unlock()
	g.operator(from).To(rmXrooms(T)...).Except(rmXrooms(E)...).Emit("e", 1)
	g.mu.Lock()
	defer g.mu.Unlock()
	out := append([]int{}, g.sent...)
	return out
}

// rmHsock: a socket of the harness doing to the adapter what serverSocket does
// (Join -> AddAll unless closed, Leave -> Delete, Disconnect -> leaveAll + removal from the store).
type rmHsock struct {
	g         *rmRig
	k         int
	connected bool
	closed    bool
}

var _ adapter.Socket = (*rmHsock)(nil)

func (s *rmHsock) ID() adapter.SocketID { return rmXsid(s.k) }
func (s *rmHsock) Join(room ...adapter.Room) {
	if !s.closed {
		s.g.ad.AddAll(s.ID(), room)
	}
}
func (s *rmHsock) Leave(room adapter.Room)         { s.g.ad.Delete(s.ID(), room) }
func (s *rmHsock) Emit(eventName string, v ...any) {}
func (s *rmHsock) To(room ...adapter.Room) *adapter.BroadcastOperator {
	return s.Broadcast().To(room...)
}
func (s *rmHsock) In(room ...adapter.Room) *adapter.BroadcastOperator { return s.To(room...) }
func (s *rmHsock) Except(room ...adapter.Room) *adapter.BroadcastOperator {
	return s.Broadcast().Except(room...)
}
func (s *rmHsock) Broadcast() *adapter.BroadcastOperator { return s.g.operator(s.k) }
func (s *rmHsock) Disconnect(close bool) {
	if !s.connected {
		return
	}
	s.closed = true
	s.g.ad.DeleteAll(s.ID())
	s.g.store.Remove(s.ID())
	s.connected = false
}

func (g *rmRig) sock(k int) *rmHsock {
	s, ok := g.socks[k]
	if !ok {
		s = &rmHsock{g: g, k: k}
		g.socks[k] = s
	}
	return s
}

func (g *rmRig) connect(k int) {
	s := g.sock(k)
	if s.connected || s.closed {
		return
	}
	// Namespace.doConnect: sockets.set(socket); socket.onConnect() joins Room(id)
	g.store.Set(s)
	s.connected = true
	s.Join(adapter.Room(s.ID()))
}

type rmKv struct {
	K int   `json:"k"`
	V []int `json:"v"`
}

func rmSortedInts(a []int) []int { sort.Ints(a); return a }

func (g *rmRig) dump() (rooms, sids []rmKv) {
	rm, sm, ok := adapter.VerifIndexes(g.ad)
	if !ok {
		panic("not an in-memory adapter")
	}
	rooms, sids = []rmKv{}, []rmKv{}
	for r, l := range rm {
		v := []int{}
		for _, s := range l {
			v = append(v, rmXk(string(s)))
		}
		rooms = append(rooms, rmKv{rmXk(string(r)), rmSortedInts(v)})
	}
	for s, l := range sm {
		v := []int{}
		for _, r := range l {
			v = append(v, rmXk(string(r)))
		}
		sids = append(sids, rmKv{rmXk(string(s)), rmSortedInts(v)})
	}
	sort.Slice(rooms, func(i, j int) bool { return rooms[i].K < rooms[j].K })
	sort.Slice(sids, func(i, j int) bool { return sids[i].K < sids[j].K })
	return
}

func (g *rmRig) pubSockets(rooms []int) []int {
	set := mapset.NewSet[adapter.Room]()
	for _, r := range rooms {
		set.Add(rmXroom(r))
	}
	out := []int{}
	g.ad.Sockets(set).Each(func(s adapter.SocketID) bool { out = append(out, rmXk(string(s))); return false })
	return rmSortedInts(out)
}

func (g *rmRig) pubSocketRooms(s int) (bool, []int) {
	set, ok := g.ad.SocketRooms(rmXsid(s))
	out := []int{}
	if ok {
		set.Each(func(r adapter.Room) bool { out = append(out, rmXk(string(r))); return false })
	}
	return ok, rmSortedInts(out)
}

func rmBitsOf(b, base, n int) []int {
	r := []int{}
	for j := 0; j < n; j++ {
		if b>>j&1 == 1 {
			r = append(r, base+j)
		}
	}
	return r
}

// ---------------------------------------------------------------- mode table
// Every membership matrix of 3 sockets (1..3) x 3 rooms (4..6) x every (T,E) of subsets of the
// rooms x store subsets `kb` (which sockets the socket store knows).
// Row: {"m":matrix bits (bit 3*i+j: socket i+1 in room 4+j), "kb":store bits, "outs":[64 lists]}
// outs[T+8*E] = sockets SendBuffers was called for, in call order.
type rmTableRow struct {
	M    int     `json:"m"`
	KB   int     `json:"kb"`
	Outs [][]int `json:"outs"`
}

func rmTableRun(m, kb int) rmTableRow {
	g := rmNewRig()
	for i := 0; i < 3; i++ {
		if kb>>i&1 == 1 {
			g.store.Set(adapter.NewTestSocket(rmXsid(i + 1)))
		}
		g.ad.AddAll(rmXsid(i+1), rmXrooms(rmBitsOf(m>>(3*i), 4, 3)))
	}
	row := rmTableRow{M: m, KB: kb}
	for te := 0; te < 64; te++ {
		row.Outs = append(row.Outs, g.broadcast(0, rmBitsOf(te&7, 4, 3), rmBitsOf(te>>3, 4, 3)))
	}
	return row
}

// ---------------------------------------------------------------- mode nhist
type rmNop struct {
	K    string `json:"k"` // connect join leave disc sjoin sleave sdisc
	S    int    `json:"s,omitempty"`
	R    int    `json:"r,omitempty"`
	Rs   []int  `json:"rs,omitempty"`
	From int    `json:"from,omitempty"`
	T    []int  `json:"T,omitempty"`
	E    []int  `json:"E,omitempty"`
}

type rmProbe struct {
	From int   `json:"from"`
	T    []int `json:"T"`
	E    []int `json:"E"`
	Out  []int `json:"out"`
}

type rmStepObs struct {
	Op     rmNop   `json:"op"`
	Rooms  []rmKv  `json:"rooms"`
	Sids   []rmKv  `json:"sids"`
	All    []int   `json:"all"`
	PubR   int     `json:"pr"`
	PubRS  []int   `json:"prs"`
	PubS   int     `json:"ps"`
	PubOk  bool    `json:"pok"`
	PubSR  []int   `json:"psr"`
	Probe  rmProbe `json:"probe"`
	Store  []int   `json:"store"`
	Closed []int   `json:"closed"`
}

type rmHistRow struct {
	Init  []int       `json:"init"`
	Steps []rmStepObs `json:"steps"`
}

func rmSubset(r *vk.Rand, univ []int, p int) []int {
	out := []int{}
	for _, u := range univ {
		if r.Intn(100) < p {
			out = append(out, u)
		}
	}
	return out
}

func (g *rmRig) do(o rmNop) {
	switch o.K {
	case "connect":
		g.connect(o.S)
	case "join":
		g.sock(o.S).Join(rmXrooms(o.Rs)...)
	case "leave":
		g.sock(o.S).Leave(rmXroom(o.R))
	case "disc":
		g.sock(o.S).Disconnect(false)
	case "sjoin":
		g.operator(o.From).To(rmXrooms(o.T)...).Except(rmXrooms(o.E)...).SocketsJoin(rmXrooms(o.Rs)...)
	case "sleave":
		g.operator(o.From).To(rmXrooms(o.T)...).Except(rmXrooms(o.E)...).SocketsLeave(rmXrooms(o.Rs)...)
	case "sdisc":
		g.operator(o.From).To(rmXrooms(o.T)...).Except(rmXrooms(o.E)...).DisconnectSockets(false)
	// raw adapter calls (any sid, connected or not)
	case "addall":
		g.ad.AddAll(rmXsid(o.S), rmXrooms(o.Rs))
	case "delete":
		g.ad.Delete(rmXsid(o.S), rmXroom(o.R))
	case "deleteall":
		g.ad.DeleteAll(rmXsid(o.S))
	default:
		panic("unknown op " + o.K)
	}
}

func rmGenNop(r *vk.Rand, nsock, nroom int, raw bool) rmNop {
	socks := []int{}
	for i := 1; i <= nsock; i++ {
		socks = append(socks, i)
	}
	rooms := []int{}
	for i := 1; i <= nroom; i++ {
		rooms = append(rooms, nsock+i)
	}
	// own rooms appear among room arguments now and then
	anyRoom := func() int {
		if r.Intn(5) == 0 {
			return 1 + r.Intn(nsock)
		}
		return nsock + 1 + r.Intn(nroom)
	}
	roomList := func(max int) []int {
		n := r.Intn(max + 1)
		l := []int{}
		for i := 0; i < n; i++ {
			l = append(l, anyRoom())
		}
		return l
	}
	roomSet := func(p int) []int {
		l := rmSubset(r, rooms, p)
		if r.Intn(6) == 0 {
			l = append(l, 1+r.Intn(nsock))
		}
		return l
	}
	s := 1 + r.Intn(nsock)
	if raw {
		switch c := r.Intn(10); {
		case c < 5:
			return rmNop{K: "addall", S: s, Rs: roomList(3)}
		case c < 8:
			return rmNop{K: "delete", S: s, R: anyRoom()}
		default:
			return rmNop{K: "deleteall", S: s}
		}
	}
	from := 0
	if r.Intn(3) == 0 {
		from = s
	}
	switch c := r.Intn(20); {
	case c < 4:
		return rmNop{K: "connect", S: s}
	case c < 9:
		return rmNop{K: "join", S: s, Rs: roomList(3)}
	case c < 13:
		return rmNop{K: "leave", S: s, R: anyRoom()}
	case c < 14:
		return rmNop{K: "disc", S: s}
	case c < 16:
		return rmNop{K: "sjoin", From: from, T: roomSet(30), E: roomSet(15), Rs: roomList(2)}
	case c < 18:
		return rmNop{K: "sleave", From: from, T: roomSet(30), E: roomSet(15), Rs: roomList(2)}
	case c < 19:
		return rmNop{K: "sdisc", From: from, T: roomSet(30), E: roomSet(30)}
	default:
		return rmNop{K: "leave", S: s, R: s} // leave own room
	}
}

func (g *rmRig) observe(o rmNop, p rmProbe, pubR, pubS, nsock int) rmStepObs {
	g.do(o)
	st := rmStepObs{Op: o}
	st.Rooms, st.Sids = g.dump()
	st.All = g.pubSockets(nil)
	st.PubR = pubR
	st.PubRS = g.pubSockets([]int{st.PubR})
	st.PubS = pubS
	st.PubOk, st.PubSR = g.pubSocketRooms(st.PubS)
	p.Out = g.broadcast(p.From, p.T, p.E)
	st.Probe = p
	st.Store, st.Closed = []int{}, []int{}
	for k := 1; k <= nsock; k++ {
		if _, ok := g.store.Get(rmXsid(k)); ok {
			st.Store = append(st.Store, k)
		}
		if g.sock(k).closed {
			st.Closed = append(st.Closed, k)
		}
	}
	return st
}

func rmHistRun(r *vk.Rand, maxLen, nsock, nroom int, raw bool) rmHistRow {
	g := rmNewRig()
	n := 1 + r.Intn(maxLen)
	row := rmHistRow{Init: []int{}}
	rooms := []int{}
	for i := 1; i <= nroom; i++ {
		rooms = append(rooms, nsock+i)
	}
	if raw {
		// the store knows a random subset of the sockets from the start
		for i := 1; i <= nsock; i++ {
			if r.Intn(4) != 0 {
				s := g.sock(i)
				g.store.Set(s)
				s.connected = true
				row.Init = append(row.Init, i)
			}
		}
	}
	for i := 0; i < n; i++ {
		o := rmGenNop(r, nsock, nroom, raw)
		p := rmProbe{T: rmSubset(r, rooms, 30), E: rmSubset(r, rooms, 20)}
		if !raw && r.Intn(2) == 0 {
			// (raw adapter histories have no sockets with an own-id room, hence no sender)
			p.From = 1 + r.Intn(nsock)
		}
		if r.Intn(8) == 0 {
			p.T = append(p.T, 1+r.Intn(nsock))
		}
		row.Steps = append(row.Steps, g.observe(o, p, 1+r.Intn(nsock+nroom), 1+r.Intn(nsock), nsock))
	}
	return row
}

// scripted scenario around sender exclusion (serverSocket.Broadcast() excludes Room(id), not the id)
func rmSenderScript() rmHistRow {
	g := rmNewRig()
	row := rmHistRow{Init: []int{}}
	type sp struct {
		o rmNop
		p rmProbe
	}
	e := []int{}
	script := []sp{
		{rmNop{K: "connect", S: 1}, rmProbe{From: 1, T: e, E: e}},
		{rmNop{K: "connect", S: 2}, rmProbe{From: 1, T: e, E: e}},
		{rmNop{K: "connect", S: 3}, rmProbe{From: 2, T: e, E: e}},
		{rmNop{K: "join", S: 1, Rs: []int{5}}, rmProbe{From: 1, T: []int{5}, E: e}},
		{rmNop{K: "join", S: 2, Rs: []int{5}}, rmProbe{From: 1, T: []int{5}, E: e}},
		{rmNop{K: "leave", S: 1, R: 1}, rmProbe{From: 1, T: e, E: e}},                // sender left its own-id room
		{rmNop{K: "leave", S: 1, R: 1}, rmProbe{From: 1, T: []int{5}, E: e}},         // same, rooms branch
		{rmNop{K: "join", S: 1, Rs: []int{1}}, rmProbe{From: 1, T: e, E: e}},         // re-joined: excluded again
		{rmNop{K: "sleave", T: e, E: e, Rs: []int{2}}, rmProbe{From: 2, T: e, E: e}}, // SocketsLeave(own room of 2)
		{rmNop{K: "disc", S: 3}, rmProbe{From: 3, T: e, E: e}},
		{rmNop{K: "join", S: 3, Rs: []int{5}}, rmProbe{From: 0, T: []int{5}, E: e}}, // join after close is a no-op
	}
	for i, x := range script {
		row.Steps = append(row.Steps, g.observe(x.o, x.p, 1+i%8, 1+i%4, 4))
	}
	return row
}

// ---------------------------------------------------------------- mode ops
// Random programs over the real BroadcastOperator: every instruction derives a new operator from
// an earlier one.  After the whole program ran, every operator ever created emits once through a
// recording adapter; the (Rooms, Except) it hands over are what it denotes *now*, after all the
// later derivations - an operator mutated through a shared set shows up here.
type rmRecAdapter struct {
	adapter.Adapter
	rooms, except []int
}

func rmSetInts(s mapset.Set[adapter.Room]) []int {
	out := []int{}
	s.Each(func(r adapter.Room) bool { out = append(out, rmXk(string(r))); return false })
	return rmSortedInts(out)
}

func (a *rmRecAdapter) Broadcast(header *parser.PacketHeader, v []any, opts *adapter.BroadcastOptions) {
	a.rooms, a.except = rmSetInts(opts.Rooms), rmSetInts(opts.Except)
}
func (a *rmRecAdapter) FetchSockets(opts *adapter.BroadcastOptions) []adapter.Socket {
	a.rooms, a.except = rmSetInts(opts.Rooms), rmSetInts(opts.Except)
	return nil
}

type rmBinstr struct {
	K  string `json:"k"` // new to except
	I  int    `json:"i"`
	Rs []int  `json:"rs"`
}
type rmOpsRow struct {
	Prog  []rmBinstr `json:"prog"`
	Emit  [][2][]int `json:"emit"`  // per operator: (Rooms, Except) handed to Adapter.Broadcast
	Fetch [][2][]int `json:"fetch"` // per operator: (Rooms, Except) handed to Adapter.FetchSockets
}

func rmOpsRun(r *vk.Rand) rmOpsRow {
	rec := &rmRecAdapter{}
	n := 1 + r.Intn(10)
	row := rmOpsRow{Prog: []rmBinstr{}, Emit: [][2][]int{}, Fetch: [][2][]int{}}
	ops := []*adapter.BroadcastOperator{}
	for i := 0; i < n; i++ {
		c := r.Intn(7)
		if len(ops) == 0 || c == 0 {
			ops = append(ops, adapter.NewBroadcastOperator("/", rec, func(string) bool { return false }))
			row.Prog = append(row.Prog, rmBinstr{K: "new", Rs: []int{}})
			continue
		}
		j := r.Intn(len(ops))
		rs := []int{}
		for k := r.Intn(3); k > 0; k-- {
			rs = append(rs, 1+r.Intn(6))
		}
		if c <= 3 {
			if r.Bool() {
				ops = append(ops, ops[j].To(rmXrooms(rs)...))
			} else {
				ops = append(ops, ops[j].In(rmXrooms(rs)...))
			}
			row.Prog = append(row.Prog, rmBinstr{K: "to", I: j, Rs: rs})
		} else {
			ops = append(ops, ops[j].Except(rmXrooms(rs)...))
			row.Prog = append(row.Prog, rmBinstr{K: "except", I: j, Rs: rs})
		}
	}
	for _, op := range ops {
		op.Emit("e", 1)
		row.Emit = append(row.Emit, [2][]int{rec.rooms, rec.except})
		op.FetchSockets()
		row.Fetch = append(row.Fetch, [2][]int{rec.rooms, rec.except})
	}
	return row
}

// ---------------------------------------------------------------- mode joinrace
// ServerSocket.Join reads the socket's join closure under joinMu but calls it after unlocking;
// onClose swaps the closure for a no-op and then calls leaveAll.  The public Debugger is called
// inside the old closure ("Joining room(s)") just before AddAll, which lets the harness hold a
// Join exactly there while the socket is disconnected.  Observation: SocketRooms / Rooms of the
// closed socket afterwards.
type rmParkDebugger struct {
	armed   *atomic.Bool
	parked  chan struct{}
	release chan struct{}
}

func (d rmParkDebugger) Log(main string, v ...any) {
	if main == "Joining room(s)" && d.armed.CompareAndSwap(true, false) {
		d.parked <- struct{}{}
		<-d.release
	}
}
func (d rmParkDebugger) WithContext(string) sio.Debugger { return d }
func (d rmParkDebugger) WithDynamicContext(string, func() string) sio.Debugger {
	return d
}

type rmJoinRaceRow struct {
	Forced      bool  `json:"forced"`       // false: plain sequence disconnect; join (control)
	RoomsOk     bool  `json:"rooms_ok"`     // Adapter().SocketRooms(id) reports the closed socket
	Rooms       []int `json:"rooms"`        // its rooms (room "x9" = 9)
	SocketRooms int   `json:"socket_rooms"` // ServerSocket.Rooms().Cardinality()
	Connected   bool  `json:"connected"`
}

func roomsJoinRace(out *vk.Out) error {
	for _, forced := range []bool{false, true} {
		d := rmParkDebugger{armed: new(atomic.Bool), parked: make(chan struct{}, 1), release: make(chan struct{})}
		srv := sio.NewServer(&sio.ServerConfig{Debugger: d})
		if err := srv.Run(); err != nil {
			return err
		}
		ts := httptest.NewServer(srv)
		connCh := make(chan sio.ServerSocket, 1)
		srv.Of("/").OnConnection(func(s sio.ServerSocket) { connCh <- s })
		m := sio.NewManager(ts.URL, &sio.ManagerConfig{})
		c := m.Socket("/", nil)
		c.Connect()
		var ss sio.ServerSocket
		select {
		case ss = <-connCh:
		case <-time.After(10 * time.Second):
			return fmt.Errorf("environment: no connection")
		}
		joined := make(chan struct{})
		if forced {
			d.armed.Store(true)
			go func() { ss.Join(sio.Room(rmXs(9))); close(joined) }()
			select {
			case <-d.parked:
			case <-time.After(10 * time.Second):
				return fmt.Errorf("environment: Join did not reach the debugger")
			}
			// Disconnect either completes while the Join is held (the Join then lands after
			// leaveAll), or waits for the Join in progress: release the Join after a grace period.
			disc := make(chan struct{})
			go func() { ss.Disconnect(false); close(disc) }()
			select {
			case <-disc:
			case <-time.After(300 * time.Millisecond):
			}
			close(d.release)
			<-joined
			select {
			case <-disc:
			case <-time.After(10 * time.Second):
				return fmt.Errorf("environment: Disconnect did not return")
			}
		} else {
			ss.Disconnect(false)
			ss.Join(sio.Room(rmXs(9)))
		}
		row := rmJoinRaceRow{Forced: forced, Rooms: []int{}, Connected: ss.Connected()}
		set, ok := srv.Of("/").Adapter().SocketRooms(ss.ID())
		row.RoomsOk = ok
		if ok {
			set.Each(func(r adapter.Room) bool { row.Rooms = append(row.Rooms, rmXk(string(r))); return false })
		}
		row.SocketRooms = ss.Rooms().Cardinality()
		out.Put(row)
		m.Close()
		srv.Close()
		ts.Close()
	}
	return nil
}

func roomsMain(args []string) error {
	fs := flag.NewFlagSet("rooms", flag.ExitOnError)
	seed := fs.Uint64("seed", 1, "")
	mode := fs.String("mode", "table", "table|nhist|ahist|ops|live|conc")
	n := fs.Int("n", 100, "number of random cases")
	maxLen := fs.Int("maxlen", 40, "max history length")
	kbAll := fs.Bool("kball", false, "table: every store rmSubset (else: full store, plus a few)")
	outp := fs.String("out", "-", "")
	cases := fs.String("cases", "", "live: replay list m,te,from,own;...")
	fs.Parse(args)
	out, err := vk.NewOut(*outp)
	if err != nil {
		return err
	}
	defer out.Close()
	r := vk.NewRand(*seed)
	switch *mode {
	case "table":
		for m := 0; m < 512; m++ {
			out.Put(rmTableRun(m, 7))
			if *kbAll {
				for kb := 0; kb < 7; kb++ {
					out.Put(rmTableRun(m, kb))
				}
			} else if m%8 == 5 {
				out.Put(rmTableRun(m, r.Intn(7)))
			}
		}
	case "nhist", "ahist":
		for i := 0; i < *n; i++ {
			out.Put(rmHistRun(r.Fork(), *maxLen, 4, 4, *mode == "ahist"))
		}
	case "sender":
		out.Put(rmSenderScript())
	case "ops":
		for i := 0; i < *n; i++ {
			out.Put(rmOpsRun(r.Fork()))
		}
	case "live":
		return roomsLive(out, r, *n, *cases)
	case "conc":
		return roomsConc(out, r, *n)
	case "joinrace":
		return roomsJoinRace(out)
	default:
		return fmt.Errorf("unknown mode %q", *mode)
	}
	return nil
}

// ---------------------------------------------------------------- mode live
// A real server, namespace "/", three real clients (one Manager each).  Rooms "x4".."x6" are
// set per case from a membership matrix through ServerSocket.Join/Leave; the broadcast goes through
// Namespace.To(..).Except(..) or through a socket (ServerSocket.To/Except/Broadcast); clients count
// the "b" events carrying the case id.  own[i]: socket i is in the room named by its own id.
type rmLiveRow struct {
	M      int   `json:"m"`
	TE     int   `json:"te"`
	From   int   `json:"from"`
	Own    []int `json:"own"`
	Counts []int `json:"counts"`
}

type rmLiveRig struct {
	srv     *sio.Server
	ts      *httptest.Server
	mgrs    []*sio.Manager
	ss      []sio.ServerSocket
	mu      sync.Mutex
	recv    [3]map[int]int
	done    [3]chan int
	nextID  int
	timeout time.Duration
}

func rmNewLiveRig() (*rmLiveRig, error) {
	g := &rmLiveRig{timeout: 10 * time.Second}
	g.srv = sio.NewServer(&sio.ServerConfig{})
	if err := g.srv.Run(); err != nil {
		return nil, err
	}
	g.ts = httptest.NewServer(g.srv)
	connCh := make(chan sio.ServerSocket, 8)
	g.srv.Of("/").OnConnection(func(s sio.ServerSocket) { connCh <- s })
	byID := map[string]sio.ServerSocket{}
	var clients []sio.ClientSocket
	for i := 0; i < 3; i++ {
		i := i
		g.recv[i] = map[int]int{}
		g.done[i] = make(chan int, 64)
		m := sio.NewManager(g.ts.URL, &sio.ManagerConfig{})
		g.mgrs = append(g.mgrs, m)
		c := m.Socket("/", nil)
		c.OnEvent("b", func(id int) {
			g.mu.Lock()
			g.recv[i][id]++
			g.mu.Unlock()
		})
		c.OnEvent("done", func(id int) { g.done[i] <- id })
		ok := make(chan struct{}, 4)
		c.OnConnect(func() { ok <- struct{}{} })
		c.Connect()
		select {
		case <-ok:
		case <-time.After(g.timeout):
			return nil, fmt.Errorf("environment: client %d did not connect", i)
		}
		select {
		case s := <-connCh:
			byID[string(s.ID())] = s
		case <-time.After(g.timeout):
			return nil, fmt.Errorf("environment: no connection event for client %d", i)
		}
		clients = append(clients, c)
	}
	for i, c := range clients {
		s, ok := byID[string(c.ID())]
		if !ok {
			return nil, fmt.Errorf("environment: no server socket with the id of client %d", i)
		}
		g.ss = append(g.ss, s)
	}
	return g, nil
}

func (g *rmLiveRig) close() {
	for _, m := range g.mgrs {
		m.Close()
	}
	g.srv.Close()
	g.ts.Close()
}

// barrier: a direct emit to every client, twice, then wait until the counters have been quiet.
func (g *rmLiveRig) barrier() error {
	for round := 0; round < 2; round++ {
		g.nextID++
		id := g.nextID
		for _, s := range g.ss {
			s.Emit("done", id)
		}
		for i := range g.ss {
			for {
				select {
				case got := <-g.done[i]:
					if got != id {
						continue
					}
				case <-time.After(g.timeout):
					return fmt.Errorf("environment: barrier timeout on client %d", i)
				}
				break
			}
		}
	}
	snap := func() int {
		g.mu.Lock()
		defer g.mu.Unlock()
		n := 0
		for i := range g.recv {
			for _, c := range g.recv[i] {
				n += c
			}
		}
		return n
	}
	last, quiet := snap(), 0
	for quiet < 4 {
		time.Sleep(15 * time.Millisecond)
		if now := snap(); now == last {
			quiet++
		} else {
			last, quiet = now, 0
		}
	}
	return nil
}

func (g *rmLiveRig) run(m, te, from int, own [3]bool) (rmLiveRow, error) {
	row := rmLiveRow{M: m, TE: te, From: from}
	for i, s := range g.ss {
		for j := 0; j < 3; j++ {
			if m>>(3*i+j)&1 == 1 {
				s.Join(sio.Room(rmXs(4 + j)))
			} else {
				s.Leave(sio.Room(rmXs(4 + j)))
			}
		}
		if own[i] {
			s.Join(sio.Room(s.ID()))
			row.Own = append(row.Own, 1)
		} else {
			s.Leave(sio.Room(s.ID()))
			row.Own = append(row.Own, 0)
		}
	}
	T, E := []sio.Room{}, []sio.Room{}
	for _, k := range rmBitsOf(te&7, 4, 3) {
		T = append(T, sio.Room(rmXs(k)))
	}
	for _, k := range rmBitsOf(te>>3, 4, 3) {
		E = append(E, sio.Room(rmXs(k)))
	}
	g.nextID++
	id := g.nextID
	if from == 0 {
		g.srv.Of("/").To(T...).Except(E...).Emit("b", id)
	} else if len(T) == 0 && len(E) == 0 {
		g.ss[from-1].Broadcast().Emit("b", id)
	} else if len(T) == 0 {
		g.ss[from-1].Except(E...).Emit("b", id)
	} else {
		g.ss[from-1].To(T...).Except(E...).Emit("b", id)
	}
	if err := g.barrier(); err != nil {
		return row, err
	}
	g.mu.Lock()
	for i := range g.recv {
		row.Counts = append(row.Counts, g.recv[i][id])
	}
	g.mu.Unlock()
	return row, nil
}

// cases: "m,te,from,ownbits;..." (replay) or n seeded random cases followed by the scripted
// own-room cases.
func roomsLive(out *vk.Out, r *vk.Rand, n int, cases string) error {
	g, err := rmNewLiveRig()
	if err != nil {
		return err
	}
	defer g.close()
	type lc struct{ m, te, from, own int }
	list := []lc{}
	if cases != "" {
		for _, c := range strings.Split(cases, ";") {
			var x lc
			if _, err := fmt.Sscanf(c, "%d,%d,%d,%d", &x.m, &x.te, &x.from, &x.own); err != nil {
				return err
			}
			list = append(list, x)
		}
	} else {
		for i := 0; i < n; i++ {
			x := lc{m: r.Intn(512), te: r.Intn(64), own: 7}
			if r.Intn(2) == 0 {
				x.from = 1 + r.Intn(3)
			}
			if r.Intn(3) == 0 {
				x.te &= 7 // no exclusions
			}
			list = append(list, x)
		}
		// the sender left the room named by its own id (and re-joined it afterwards)
		list = append(list, lc{m: 0, te: 0, from: 1, own: 6}, lc{m: 0o111, te: 1, from: 2, own: 5},
			lc{m: 0, te: 0, from: 1, own: 7}, lc{m: 0o111, te: 1, from: 2, own: 7})
	}
	for _, x := range list {
		row, err := g.run(x.m, x.te, x.from, [3]bool{x.own&1 == 1, x.own&2 == 2, x.own&4 == 4})
		if err != nil {
			return err
		}
		out.Put(row)
	}
	return nil
}

// ---------------------------------------------------------------- mode conc
// Membership changes concurrent with broadcasts on the real adapter.  A global logical clock
// (atomic counter) stamps every adapter call [t0,t1] and every broadcast [b0,b1]; a call with
// t1 < b0 returned before the broadcast started, one with t0 > b1 started after it returned.
// Per broadcast and socket the row gives, for every room of T and E, for "registered" (key of
// a.sids) and "known" (socket store): 1 = throughout, 0 = never, 2 = changed or may have changed
// during the broadcast (indeterminate), plus the number of SendBuffers calls for the socket.
type rmConcSock struct {
	S     int   `json:"s"`
	InT   []int `json:"inT"` // status per room of T (same order)
	InE   []int `json:"inE"`
	Reg   int   `json:"reg"`
	Known int   `json:"known"`
	Count int   `json:"count"`
}
type rmConcRow struct {
	T     []int        `json:"T"`
	E     []int        `json:"E"`
	Socks []rmConcSock `json:"socks"`
	Churn int          `json:"churn"` // adapter calls overlapping this broadcast
}

type rmConcOp struct {
	t0, t1 int64
	mask   uint32 // what the call may have changed: bit r-11 for rooms, bit 8 = registered
	after  uint32 // state after the call (same bits)
}

func roomsConc(out *vk.Out, r *vk.Rand, n int) error {
	const nStable, nChurn = 5, 3
	rooms := []int{11, 12, 13, 14}
	regBit := uint32(1 << 8)
	bit := func(room int) uint32 { return 1 << uint(room-11) }
	var clock atomic.Int64
	g := rmNewRig()
	var cur atomic.Pointer[[]int]
	var sentMu sync.Mutex
	g.store.SetSendBuffers(func(sid adapter.SocketID, buffers [][]byte) bool {
		sentMu.Lock()
		p := cur.Load()
		*p = append(*p, rmXk(string(sid)))
		sentMu.Unlock()
		return true
	})
	// stable sockets: 1 in 11; 2 in 11,12; 3 in 14 only; 4 in 11 and 13; 5 in 11,12 but unknown to the store
	stable := map[int][]int{1: {11}, 2: {11, 12}, 3: {14}, 4: {11, 13}, 5: {11, 12}}
	for s, rs := range stable {
		if s != 5 {
			g.store.Set(adapter.NewTestSocket(rmXsid(s)))
		}
		g.ad.AddAll(rmXsid(s), rmXrooms(rs))
	}
	logs := make([][]rmConcOp, nChurn)
	stop := make(chan struct{})
	var wg sync.WaitGroup
	for c := 0; c < nChurn; c++ {
		s := nStable + 1 + c
		g.store.Set(adapter.NewTestSocket(rmXsid(s)))
		rr := r.Fork()
		wg.Add(1)
		go func(c, s int, rr *vk.Rand) {
			defer wg.Done()
			var state uint32
			for {
				select {
				case <-stop:
					return
				default:
				}
				op := rmConcOp{}
				room := rooms[rr.Intn(3)] // 11..13
				k := rr.Intn(10)
				op.t0 = clock.Add(1)
				switch {
				case k < 4:
					g.ad.AddAll(rmXsid(s), []adapter.Room{rmXroom(room)})
					state |= bit(room) | regBit
					op.mask = bit(room) | regBit
				case k < 8:
					g.ad.Delete(rmXsid(s), rmXroom(room))
					state &^= bit(room)
					op.mask = bit(room)
				case k < 9:
					g.ad.DeleteAll(rmXsid(s))
					state = 0
					op.mask = 0x1ff
				default:
					g.ad.AddAll(rmXsid(s), nil)
					state |= regBit
					op.mask = regBit
				}
				op.t1 = clock.Add(1)
				op.after = state
				logs[c] = append(logs[c], op)
				if rr.Intn(4) == 0 {
					time.Sleep(time.Duration(rr.Intn(300)) * time.Microsecond)
				}
			}
		}(c, s, rr)
	}
	type bc struct {
		T, E   []int
		b0, b1 int64
		out    []int
	}
	combos := [][2][]int{{{11}, {}}, {{11, 12}, {}}, {{}, {}}, {{11, 12}, {13}}, {{}, {13}}, {{12, 13}, {11}}, {{11}, {13}}}
	bcs := make([]bc, 0, n)
	for i := 0; i < n; i++ {
		cb := combos[r.Intn(len(combos))]
		b := bc{T: cb[0], E: cb[1]}
		outp := []int{}
		cur.Store(&outp)
		b.b0 = clock.Add(1)
		g.operator(0).To(rmXrooms(b.T)...).Except(rmXrooms(b.E)...).Emit("e", i)
		b.b1 = clock.Add(1)
		sentMu.Lock()
		b.out = append([]int{}, outp...)
		sentMu.Unlock()
		bcs = append(bcs, b)
		if r.Intn(3) == 0 {
			time.Sleep(time.Duration(r.Intn(200)) * time.Microsecond)
		}
	}
	close(stop)
	wg.Wait()
	// classification
	status := func(c int, b bc, m uint32) (int, int) {
		var st uint32
		unknown, overlap := false, 0
		for _, op := range logs[c] {
			if op.t1 < b.b0 {
				st = op.after
				continue
			}
			if op.t0 > b.b1 {
				break
			}
			overlap++
			if op.mask&m != 0 {
				unknown = true
			}
		}
		if unknown {
			return 2, overlap
		}
		if st&m != 0 {
			return 1, overlap
		}
		return 0, overlap
	}
	for _, b := range bcs {
		row := rmConcRow{T: b.T, E: b.E}
		count := map[int]int{}
		for _, s := range b.out {
			count[s]++
		}
		for s := 1; s <= nStable+nChurn; s++ {
			so := rmConcSock{S: s, InT: []int{}, InE: []int{}, Count: count[s], Known: 1}
			if s <= nStable {
				has := func(room int) int {
					for _, x := range stable[s] {
						if x == room {
							return 1
						}
					}
					return 0
				}
				for _, t := range b.T {
					so.InT = append(so.InT, has(t))
				}
				for _, e := range b.E {
					so.InE = append(so.InE, has(e))
				}
				so.Reg = 1
				if s == 5 {
					so.Known = 0
				}
			} else {
				c := s - nStable - 1
				ov := 0
				for _, t := range b.T {
					st, o := status(c, b, bit(t))
					so.InT = append(so.InT, st)
					ov = o
				}
				for _, e := range b.E {
					st, o := status(c, b, bit(e))
					so.InE = append(so.InE, st)
					ov = o
				}
				so.Reg, ov = status(c, b, regBit)
				row.Churn += ov
			}
			row.Socks = append(row.Socks, so)
		}
		delete(count, 0)
		for s := range count {
			if s < 1 || s > nStable+nChurn {
				row.Socks = append(row.Socks, rmConcSock{S: s, InT: []int{}, InE: []int{}, Count: count[s], Known: 0})
			}
		}
		out.Put(row)
	}
	return nil
}
