package main

import (
	"encoding/json"
	"flag"
	"fmt"
	"reflect"
	"sort"
	"strings"
	"sync"
	"sync/atomic"
	"time"

	sio "github.com/karagenc/socket.io-go"

	"verifharness/vk"
)

// handlers: drives the real handler registries (store.go) and the public On/Once/Off layer
// (*_events.go) with call sequences and records which handlers every occurrence ran.
//
// Targets:  ls              handlerStore[*int] through the verif export
//
//	es              eventHandlerStore through the verif export
//	api:<obj>:<X>   lifecycle family X of a public object (On<X>/Once<X>/Off<X>, OffAll)
//	eapi:<obj>      OnEvent/OnceEvent/OffEvent/OffAll of a public object
//
// Objects:  nsp (Namespace), srv (Server), ssock (server socket), csock (client socket), mgr (Manager)
//
// Ops are JSON arrays: ["on",h] ["once",h] ["onsub",h] ["offsub",h] ["offsubs"] ["off",[h..]]
// ["offall"] ["fire"]; for event targets ["on",e,h] ["once",e,h] ["off",e,[h..]] ["offall"] ["fire",e];
// a handler index -1 in an event "off" is a literal nil argument.
//
// Mode enum: header row {"hdr":..}, then per prefix one row {"prefix":[alphabet indexes],
// "obs":[octal strings]}: for every sequence s of `depth` ops over the alphabet (first op most
// significant) the outcome of prefix++s++suffix as base-8 digits: leading 1, per occurrence one
// digit (handler id+1) per handler run then 0; 7 = a call panicked (or a bystander registry of the
// object was disturbed), run stopped.
// Mode random: explicit rows {"ops","outs","panic","lens"}.
// Mode race: concurrent occurrences against Once registrations.
func init() { register("handlers", handlersMain) }

type hop = []any

// ---------------------------------------------------------------- event handler menu
var (
	hitLog  []int
	raceCnt []atomic.Int64
)

func hit(i int) { hitLog = append(hitLog, i) }

//go:noinline
func mkClosure(i int) func() { return func() { hit(i) } }

// digits: h0..h2 distinct function literals (codes 0,1,2), h3/h4 two closures of one literal
// (code 3, instances 0 and 1).
var evMenu = []func(){
	func() { hit(0) },
	func() { hit(1) },
	func() { hit(2) },
	mkClosure(3),
	mkClosure(4),
}
var evMenuFval = [][2]int{{0, 0}, {1, 0}, {2, 0}, {3, 0}, {3, 1}}

func checkMenu() error {
	p := func(i int) uintptr { return reflect.ValueOf(evMenu[i]).Pointer() }
	for i := 0; i < 4; i++ {
		for j := i + 1; j < 4; j++ {
			if p(i) == p(j) {
				return fmt.Errorf("handler menu: literals %d and %d share a code pointer", i, j)
			}
		}
	}
	if p(3) != p(4) {
		return fmt.Errorf("handler menu: the two closures of one literal have different code pointers")
	}
	return nil
}

// ---------------------------------------------------------------- targets
type target interface {
	// apply runs one op; for an occurrence it returns the ids of the handlers run.
	apply(op hop) (fired []int, isFire bool)
	// finish is called after the last op; false = something outside the ops' family was disturbed.
	finish() bool
	lens() []int
}

func ints(v any) []int {
	switch t := v.(type) {
	case []int:
		return t
	case []any:
		r := make([]int, len(t))
		for i, x := range t {
			r[i] = toInt(x)
		}
		return r
	}
	panic(fmt.Sprintf("ints: %T", v))
}

func toInt(v any) int {
	switch t := v.(type) {
	case int:
		return t
	case float64:
		return int(t)
	}
	panic(fmt.Sprintf("toInt: %T", v))
}

// ls
type lsTarget struct {
	s   *sio.VerifHandlerStore
	ids []int
}

func newLS() *lsTarget {
	t := &lsTarget{s: sio.VerifNewHandlerStore(), ids: make([]int, 8)}
	for i := range t.ids {
		t.ids[i] = i
	}
	return t
}
func (t *lsTarget) p(i int) *int { return &t.ids[i] }
func (t *lsTarget) apply(op hop) ([]int, bool) {
	switch op[0].(string) {
	case "on":
		t.s.On(t.p(toInt(op[1])))
	case "once":
		t.s.Once(t.p(toInt(op[1])))
	case "onsub":
		t.s.OnSub(t.p(toInt(op[1])))
	case "offsub":
		t.s.OffSub(t.p(toInt(op[1])))
	case "offsubs":
		t.s.OffSubs()
	case "off":
		hs := ints(op[1])
		ps := make([]*int, len(hs))
		for i, h := range hs {
			ps[i] = t.p(h)
		}
		t.s.Off(ps...)
	case "offall":
		t.s.OffAll()
	case "fire":
		all := t.s.GetAll()
		r := make([]int, len(all))
		for i, h := range all {
			r[i] = *h
		}
		return r, true
	default:
		panic("ls: bad op " + op[0].(string))
	}
	return nil, false
}
func (t *lsTarget) finish() bool { return true }
func (t *lsTarget) lens() []int {
	a, b, c := t.s.Lens()
	return []int{a, b, c}
}

// es
type esTarget struct{ s *sio.VerifEventStore }

func evName(e int) string { return fmt.Sprintf("ev%d", e) }

func callAll(rvs []reflect.Value) []int {
	hitLog = hitLog[:0]
	for _, rv := range rvs {
		rv.Call(nil)
	}
	return append([]int{}, hitLog...)
}

func (t *esTarget) apply(op hop) ([]int, bool) {
	switch op[0].(string) {
	case "on":
		if err := t.s.On(evName(toInt(op[1])), evMenu[toInt(op[2])]); err != nil {
			panic(err)
		}
	case "once":
		if err := t.s.Once(evName(toInt(op[1])), evMenu[toInt(op[2])]); err != nil {
			panic(err)
		}
	case "off":
		hs := ints(op[2])
		var vals []reflect.Value // nil when no handler is given, as a direct off(name) call
		for _, h := range hs {
			if h < 0 { // a nil handler: reflect.ValueOf(nil) is the zero Value
				vals = append(vals, reflect.Value{})
			} else {
				vals = append(vals, reflect.ValueOf(evMenu[h]))
			}
		}
		t.s.Off(evName(toInt(op[1])), vals)
	case "offall":
		t.s.OffAll()
	case "fire":
		return callAll(t.s.GetAll(evName(toInt(op[1])))), true
	default:
		panic("es: bad op " + op[0].(string))
	}
	return nil, false
}
func (t *esTarget) finish() bool { return true }
func (t *esTarget) lens() []int {
	a, b := t.s.Lens()
	return []int{a, b}
}

// public objects
type evAPI interface {
	OnEvent(eventName string, handler any)
	OnceEvent(eventName string, handler any)
	OffEvent(eventName string, handler ...any)
	OffAll()
}

var objFamilies = map[string][]string{
	"nsp":   {"Connection"},
	"srv":   {"NewNamespace", "AnyConnection"},
	"ssock": {"Error", "Disconnecting", "Disconnect"},
	"csock": {"Connect", "ConnectError", "Disconnect"},
	"mgr":   {"Open", "Ping", "Error", "Close", "Reconnect", "ReconnectAttempt", "ReconnectError", "ReconnectFailed"},
}

func lower1(s string) string { return strings.ToLower(s[:1]) + s[1:] }

func newObject(name string) any {
	switch name {
	case "nsp":
		return sio.NewServer(nil).Of("/verif")
	case "srv":
		return sio.NewServer(nil)
	case "ssock":
		return sio.VerifNewServerSocket()
	case "csock":
		return sio.NewManager("http://127.0.0.1:9", nil).Socket("/verif", nil)
	case "mgr":
		return sio.NewManager("http://127.0.0.1:9", nil)
	}
	panic("unknown object " + name)
}

// objTarget: one lifecycle family (or the event registry) of a public object; every other
// registry of the object holds one bystander handler that must stay untouched by the family's
// own calls and must be gone after the object's OffAll.
type objTarget struct {
	objName string
	obj     any
	family  string // "" for the event API
	log     []int
	offAll  bool
	hasAll  bool
	onRun   func(id int) // re-entrant mode: called from inside every handler
}

const bystander = 99

func newObjTarget(objName, family string) *objTarget {
	t := &objTarget{objName: objName, obj: newObject(objName), family: family}
	_, t.hasAll = reflect.TypeOf(t.obj).MethodByName("OffAll")
	for _, f := range objFamilies[objName] {
		if f != family {
			t.call("On"+f, t.mkFunc("On"+f, bystander))
		}
	}
	if family != "" {
		if ev, ok := t.obj.(evAPI); ok {
			ev.OnEvent("bystander", func() { hit(bystander) })
		}
	}
	return t
}

func (t *objTarget) method(name string) reflect.Value {
	m := reflect.ValueOf(t.obj).MethodByName(name)
	if !m.IsValid() {
		panic(fmt.Sprintf("%T has no method %s", t.obj, name))
	}
	return m
}

// mkFunc builds a handler of the parameter type of method `onName` that logs `id`.
func (t *objTarget) mkFunc(onName string, id int) reflect.Value {
	ft := t.method(onName).Type().In(0)
	return reflect.MakeFunc(ft, func([]reflect.Value) []reflect.Value {
		t.log = append(t.log, id)
		if t.onRun != nil && id != bystander {
			t.onRun(id)
		}
		return nil
	})
}

func (t *objTarget) call(name string, args ...reflect.Value) { t.method(name).Call(args) }

func (t *objTarget) fireFamily(f string) []int {
	t.log = t.log[:0]
	if _, err := sio.VerifLifecycleOccurrence(t.obj, lower1(f)); err != nil {
		panic(err)
	}
	return append([]int{}, t.log...)
}

func (t *objTarget) fireEvent(name string) []int {
	rvs, err := sio.VerifEventOccurrence(t.obj, name)
	if err != nil {
		panic(err)
	}
	return callAll(rvs)
}

func (t *objTarget) apply(op hop) ([]int, bool) {
	if t.family == "" { // event API
		ev := t.obj.(evAPI)
		switch op[0].(string) {
		case "on":
			ev.OnEvent(evName(toInt(op[1])), evMenu[toInt(op[2])])
		case "once":
			ev.OnceEvent(evName(toInt(op[1])), evMenu[toInt(op[2])])
		case "off":
			hs := ints(op[2])
			name := evName(toInt(op[1]))
			if len(hs) == 0 { // direct call, as a user writes it
				ev.OffEvent(name)
			} else {
				args := make([]any, len(hs))
				for i, h := range hs {
					if h >= 0 { // h < 0: a literal nil handler
						args[i] = evMenu[h]
					}
				}
				ev.OffEvent(name, args...)
			}
		case "offall":
			ev.OffAll()
			t.offAll = true
		case "fire":
			return t.fireEvent(evName(toInt(op[1]))), true
		default:
			panic("eapi: bad op " + op[0].(string))
		}
		return nil, false
	}
	switch op[0].(string) {
	case "on":
		t.call("On"+t.family, t.mkFunc("On"+t.family, toInt(op[1])))
	case "once":
		t.call("Once"+t.family, t.mkFunc("On"+t.family, toInt(op[1])))
	case "off":
		hs := ints(op[1])
		args := make([]reflect.Value, len(hs))
		for i, h := range hs {
			args[i] = t.mkFunc("On"+t.family, h)
		}
		t.call("Off"+t.family, args...)
	case "offall":
		t.call("OffAll")
		t.offAll = true
	case "fire":
		return t.fireFamily(t.family), true
	default:
		panic("api: bad op " + op[0].(string))
	}
	return nil, false
}

func (t *objTarget) finish() bool {
	want := 1
	if t.offAll {
		want = 0
	}
	ok := true
	for _, f := range objFamilies[t.objName] {
		if f == t.family {
			continue
		}
		for round := 0; round < 2; round++ {
			got := t.fireFamily(f)
			if len(got) != want || (want == 1 && got[0] != bystander) {
				ok = false
			}
		}
	}
	if t.family != "" {
		if _, isEv := t.obj.(evAPI); isEv {
			got := t.fireEvent("bystander")
			if len(got) != want || (want == 1 && got[0] != bystander) {
				ok = false
			}
		}
	}
	return ok
}
func (t *objTarget) lens() []int { return nil }

func newTarget(spec string) target {
	parts := strings.Split(spec, ":")
	switch parts[0] {
	case "ls":
		return newLS()
	case "es":
		return &esTarget{s: sio.VerifNewEventStore()}
	case "api":
		return newObjTarget(parts[1], parts[2])
	case "eapi":
		return newObjTarget(parts[1], "")
	}
	panic("unknown target " + spec)
}

// ---------------------------------------------------------------- occurrences in progress
// dispatch performs one occurrence the way the library does - a range loop over what getAll
// returned - and calls ran(id) from inside the loop, after each handler, so that whatever ran
// does happens while the occurrence is still being dispatched.
type reTarget interface {
	target
	dispatch(op hop, ran func(id int))
}

func (t *lsTarget) dispatch(op hop, ran func(id int)) {
	t.s.ForEach(func(h *int) { ran(*h) }, false) // the real forEach: ranges over getAll's result
}

func callOne(rv reflect.Value) int {
	hitLog = hitLog[:0]
	rv.Call(nil)
	if len(hitLog) != 1 {
		panic("event handler did not report exactly once")
	}
	return hitLog[0]
}

func (t *esTarget) dispatch(op hop, ran func(id int)) {
	t.s.Dispatch(evName(toInt(op[1])), func(rv reflect.Value) { ran(callOne(rv)) })
}

func (t *objTarget) dispatch(op hop, ran func(id int)) {
	if t.family == "" {
		err := sio.VerifDispatchEvent(t.obj, evName(toInt(op[1])), func(rv reflect.Value) { ran(callOne(rv)) })
		if err != nil {
			panic(err)
		}
		return
	}
	t.onRun = ran
	if _, err := sio.VerifLifecycleOccurrence(t.obj, lower1(t.family)); err != nil {
		panic(err)
	}
}

type reFrame struct {
	k      int
	during [][]hop
	pos    int
}

type reRun struct {
	spec   string
	t      reTarget
	steps  [][]any
	frames []*reFrame
	nextK  int
	conc   bool // calls made during a dispatch are made by another goroutine while the handler waits
}

// duringOf splits a fire op into the plain op and the calls to make at each loop position
// (["fire", e, [[op..],[op..]]] / ["fire", [[op..],..]]; built in Go or read from JSON).
func duringOf(op hop) (plain hop, during [][]hop) {
	switch d := op[len(op)-1].(type) {
	case [][]hop:
		return op[:len(op)-1], d
	case []any:
		for _, pos := range d {
			var ops []hop
			if pos != nil {
				for _, o := range pos.([]any) {
					ops = append(ops, hop(o.([]any)))
				}
			}
			during = append(during, ops)
		}
		return op[:len(op)-1], during
	}
	return op, nil
}

func (r *reRun) exec(op hop) {
	if op[0].(string) != "fire" {
		r.steps = append(r.steps, []any{"op", op})
		r.t.apply(op)
		return
	}
	plain, during := duringOf(op)
	k := r.nextK
	r.nextK++
	r.steps = append(r.steps, []any{"begin", k, plain})
	r.frames = append(r.frames, &reFrame{k: k, during: during})
	r.t.dispatch(plain, r.ran)
	r.frames = r.frames[:len(r.frames)-1]
	r.steps = append(r.steps, []any{"end", k})
}

func (r *reRun) ran(id int) {
	f := r.frames[len(r.frames)-1]
	r.steps = append(r.steps, []any{"next", f.k, int(digitOf(r.spec, id)-'0') - 1})
	i := f.pos
	f.pos++
	if i >= len(f.during) || len(f.during[i]) == 0 {
		return
	}
	if !r.conc {
		for _, o := range f.during[i] {
			r.exec(o)
		}
		return
	}
	done := make(chan any)
	go func() {
		defer func() { done <- recover() }()
		for _, o := range f.during[i] {
			r.exec(o)
		}
	}()
	if p := <-done; p != nil {
		panic(p)
	}
}

// runRe executes a call sequence whose occurrences carry the calls to make while they are being
// dispatched; reports the flat list of what was executed, in order.
func runRe(out *vk.Out, spec string, ops []hop, conc bool) {
	r := &reRun{spec: spec, t: newTarget(spec).(reTarget), conc: conc}
	panicked, msg, byst := false, "", true
	func() {
		defer func() {
			if p := recover(); p != nil {
				panicked, msg = true, fmt.Sprint(p)
			}
		}()
		for _, o := range ops {
			r.exec(o)
		}
		if ot, ok := r.t.(*objTarget); ok {
			ot.onRun = nil
		}
		byst = r.t.finish()
	}()
	out.Put(map[string]any{"re": 1, "target": spec, "conc": conc, "ops": ops, "steps": r.steps,
		"panic": panicked || !byst, "panicmsg": msg, "bystander": byst, "menu": evMenuFval})
}

func isEvSpec(spec string) bool { return spec == "es" || strings.HasPrefix(spec, "eapi") }

// reentFamily: registration prefixes x one occurrence during which one call is made at one
// position (by the handler itself, or by another goroutine while the handler waits) x closing
// occurrences.
func reentFamily(spec string) [][]hop {
	var prefixes [][]hop
	var during []hop
	var fire func(d [][]hop) hop
	var closing []hop
	switch {
	case spec == "ls":
		prefixes = [][]hop{
			{{"on", 0}, {"on", 1}, {"on", 2}},
			{{"on", 0}, {"on", 1}, {"once", 2}},
			{{"onsub", 0}, {"on", 1}, {"on", 2}},
			{{"on", 0}, {"on", 0}, {"on", 1}},
		}
		during = []hop{{"off", []int{0}}, {"off", []int{1}}, {"off", []int{2}}, {"off", []int{}}, {"off", []int{0, 1}},
			{"on", 1}, {"once", 0}, {"offall"}, {"offsub", 0}, {"offsubs"}, {"onsub", 1}, {"fire"}}
		fire = func(d [][]hop) hop { return hop{"fire", d} }
		closing = []hop{{"fire"}, {"fire"}}
	case isEvSpec(spec):
		prefixes = [][]hop{
			{{"on", 0, 0}, {"on", 0, 1}, {"on", 0, 2}},
			{{"on", 0, 0}, {"on", 0, 1}, {"once", 0, 2}},
			{{"on", 0, 0}, {"on", 0, 0}, {"on", 0, 1}},
			{{"on", 0, 0}, {"on", 0, 1}, {"on", 1, 2}, {"on", 0, 2}},
		}
		during = []hop{{"off", 0, []int{0}}, {"off", 0, []int{1}}, {"off", 0, []int{2}}, {"off", 0, []int{}},
			{"off", 0, []int{0, 1}}, {"off", 0, []int{-1}}, {"on", 0, 1}, {"once", 0, 0}, {"offall"},
			{"off", 1, []int{2}}, {"on", 1, 0}, {"fire", 0}, {"fire", 1}}
		fire = func(d [][]hop) hop { return hop{"fire", 0, d} }
		closing = []hop{{"fire", 0}, {"fire", 1}, {"fire", 0}}
	default: // public lifecycle family
		prefixes = [][]hop{
			{{"on", 0}, {"on", 1}, {"on", 2}},
			{{"on", 0}, {"on", 1}, {"once", 2}},
			{{"once", 0}, {"on", 1}, {"on", 1}},
		}
		during = []hop{{"off", []int{}}, {"off", []int{0}}, {"on", 1}, {"once", 0}, {"fire"}}
		if !strings.HasPrefix(spec, "api:srv") {
			during = append(during, hop{"offall"})
		}
		fire = func(d [][]hop) hop { return hop{"fire", d} }
		closing = []hop{{"fire"}, {"fire"}}
	}
	var res [][]hop
	for _, p := range prefixes {
		for pos := 0; pos < 3; pos++ {
			for _, d := range during {
				dl := make([][]hop, pos+1)
				dl[pos] = []hop{d}
				seq := append(append([]hop{}, p...), fire(dl))
				seq = append(seq, closing...)
				res = append(res, seq)
			}
		}
	}
	return res
}

// randomRe: random sequences whose occurrences carry random calls (and nested occurrences).
func randomRe(spec string, r *vk.Rand, maxLen, depth int) []hop {
	ops := randomOps(spec, r, maxLen)
	for i, o := range ops {
		if o[0].(string) != "fire" || r.Intn(3) == 0 {
			continue
		}
		var dl [][]hop
		for pos := 0; pos < 4; pos++ {
			if r.Intn(2) == 0 || depth <= 0 {
				dl = append(dl, nil)
				continue
			}
			dl = append(dl, randomRe(spec, r, 2, depth-1))
		}
		ops[i] = append(append(hop{}, o...), dl)
	}
	return ops
}

func reentMode(out *vk.Out, spec string, seed uint64, n int) {
	for _, seq := range reentFamily(spec) {
		runRe(out, spec, seq, false)
	}
	if spec == "ls" || isEvSpec(spec) {
		for _, seq := range reentFamily(spec) {
			runRe(out, spec, seq, true)
		}
	}
	for _, c := range []byte(spec) {
		seed = seed*1099511628211 + uint64(c)
	}
	r := vk.NewRand(seed ^ 0x5eed)
	for i := 0; i < n; i++ {
		runRe(out, spec, randomRe(spec, r.Fork(), 8, 2), i%3 == 0)
	}
}

// ---------------------------------------------------------------- linearizability histories
// Several goroutines call the registry at once; every call is stamped at invocation and at
// response with a global logical clock.  At least one call is a *long* Off: it names `absentK`
// handlers that are not registered (and possibly some that are), so that its scan over the
// registered handlers takes milliseconds and the other goroutines' calls fall inside it.  The
// check then looks for an order of the calls that respects real time (a call that returned before
// another was invoked comes first) and under which the atomic model returns what was observed.
type linTarget interface {
	target
	// linApply runs one op; for "fire" it returns the handler ids WITHOUT using shared logs.
	linApply(op hop, absentK int) (fired []int, isFire bool)
	// linPrepare builds the arguments of an Off call; the returned function makes the call.
	linPrepare(op hop) func()
}

var (
	absentInts  []int
	absentPtrs  []*int
	absentFn    = func() { hit(-1) }
	absentVals  []reflect.Value
	absentAnys  []any
	evCodeIndex map[uintptr]int
)

func prepareAbsent(k int) {
	if len(absentPtrs) >= k {
		return
	}
	absentInts = make([]int, k)
	absentPtrs = make([]*int, k)
	absentVals = make([]reflect.Value, k)
	absentAnys = make([]any, k)
	for i := range absentInts {
		absentInts[i] = 1000 + i
		absentPtrs[i] = &absentInts[i]
		absentVals[i] = reflect.ValueOf(absentFn)
		absentAnys[i] = absentFn
	}
	evCodeIndex = map[uintptr]int{}
	for i := 0; i < 3; i++ { // distinct literals only
		evCodeIndex[reflect.ValueOf(evMenu[i]).Pointer()] = i
	}
}

func offParts(op hop, isEv bool) (hs []int, k int) {
	i := 1
	if isEv {
		i = 2
	}
	hs = ints(op[i])
	if len(op) > i+1 {
		k = toInt(op[i+1])
	}
	return
}

func (t *lsTarget) linPrepare(op hop) func() {
	hs, k := offParts(op, false)
	ps := make([]*int, 0, len(hs)+k)
	for _, h := range hs {
		ps = append(ps, t.p(h))
	}
	ps = append(ps, absentPtrs[:k]...)
	return func() { t.s.Off(ps...) }
}

func (t *lsTarget) linApply(op hop, absentK int) ([]int, bool) {
	if op[0].(string) == "off" {
		t.linPrepare(op)()
		return nil, false
	}
	return t.apply(op)
}

func rvIDs(rvs []reflect.Value) []int {
	r := make([]int, len(rvs))
	for i, rv := range rvs {
		id, ok := evCodeIndex[rv.Pointer()]
		if !ok {
			id = -1
		}
		r[i] = id
	}
	return r
}

func (t *esTarget) linPrepare(op hop) func() {
	hs, k := offParts(op, true)
	var vals []reflect.Value
	for _, h := range hs {
		vals = append(vals, reflect.ValueOf(evMenu[h]))
	}
	vals = append(vals, absentVals[:k]...)
	name := evName(toInt(op[1]))
	return func() { t.s.Off(name, vals) }
}

func (t *esTarget) linApply(op hop, absentK int) ([]int, bool) {
	switch op[0].(string) {
	case "off":
		t.linPrepare(op)()
		return nil, false
	case "fire":
		return rvIDs(t.s.GetAll(evName(toInt(op[1])))), true
	}
	return t.apply(op)
}

var linLogMu sync.Mutex

func (t *objTarget) linPrepare(op hop) func() {
	if t.family == "" {
		ev := t.obj.(evAPI)
		hs, k := offParts(op, true)
		name := evName(toInt(op[1]))
		if len(hs)+k == 0 {
			return func() { ev.OffEvent(name) }
		}
		args := make([]any, 0, len(hs)+k)
		for _, h := range hs {
			args = append(args, evMenu[h])
		}
		args = append(args, absentAnys[:k]...)
		return func() { ev.OffEvent(name, args...) }
	}
	_, k := offParts(op, false)
	m := t.method("Off" + t.family)
	ft := m.Type().In(0) // []F
	sl := reflect.MakeSlice(ft, k, k)
	if k > 0 {
		f := t.mkFunc("On"+t.family, -1)
		for i := 0; i < k; i++ {
			sl.Index(i).Set(f)
		}
	}
	args := []reflect.Value{sl}
	return func() { m.CallSlice(args) }
}

func (t *objTarget) linApply(op hop, absentK int) ([]int, bool) {
	if op[0].(string) == "off" {
		t.linPrepare(op)()
		return nil, false
	}
	if t.family == "" {
		if op[0].(string) == "fire" {
			rvs, err := sio.VerifEventOccurrence(t.obj, evName(toInt(op[1])))
			if err != nil {
				panic(err)
			}
			return rvIDs(rvs), true
		}
		return t.apply(op)
	}
	if op[0].(string) == "fire" { // only one goroutine of a history fires on a lifecycle family
		linLogMu.Lock()
		t.log = t.log[:0]
		linLogMu.Unlock()
		if _, err := sio.VerifLifecycleOccurrence(t.obj, lower1(t.family)); err != nil {
			panic(err)
		}
		linLogMu.Lock()
		r := append([]int{}, t.log...)
		linLogMu.Unlock()
		return r, true
	}
	return t.apply(op)
}

type linCall struct {
	G   int   `json:"g"`
	Op  hop   `json:"op"`
	Inv int64 `json:"inv"`
	Res int64 `json:"res"`
	Out []int `json:"out"` // what an occurrence returned (null for other calls)
}

func linRandOp(spec string, r *vk.Rand, allowFire bool, absentK int) hop {
	isEv := isEvSpec(spec)
	isAPI := strings.HasPrefix(spec, "api")
	e := 0
	if isEv && r.Intn(5) == 0 {
		e = 1
	}
	mk := func(name string, rest ...any) hop {
		if isEv && name != "offall" {
			return append(hop{name, e}, rest...)
		}
		return append(hop{name}, rest...)
	}
	for {
		switch c := r.Intn(100); {
		case c < 30:
			return mk("on", r.Intn(3))
		case c < 55:
			return mk("once", r.Intn(3))
		case c < 70:
			if allowFire {
				return mk("fire")
			}
		case c < 78:
			if isAPI && strings.HasPrefix(spec, "api:srv") {
				continue
			}
			return hop{"offall"}
		case c < 86:
			return mk("off", []int{}, 0)
		default:
			hs := []int{}
			if !isAPI && r.Intn(2) == 0 {
				hs = append(hs, r.Intn(3))
			}
			return mk("off", hs, absentK)
		}
	}
}

// linCalibrate measures how long a long Off takes on this target (median of 3).
func linCalibrate(spec string, absentK int) time.Duration {
	isEv := isEvSpec(spec)
	var ds []time.Duration
	for i := 0; i < 3; i++ {
		t := newTarget(spec).(linTarget)
		for j := 0; j < 30; j++ {
			if isEv {
				t.linApply(hop{"on", 0, j % 3}, absentK)
			} else {
				t.linApply(hop{"on", j % 3}, absentK)
			}
		}
		op := hop{"off", []int{}, absentK}
		if isEv {
			op = hop{"off", 0, []int{}, absentK}
		}
		call := t.linPrepare(op)
		t0 := time.Now()
		call()
		ds = append(ds, time.Since(t0))
	}
	sort.Slice(ds, func(a, b int) bool { return ds[a] < ds[b] })
	return ds[1]
}

func linRound(out *vk.Out, spec string, r *vk.Rand, absentK int, dur time.Duration) {
	t := newTarget(spec).(linTarget)
	isEv := isEvSpec(spec)
	isAPI := strings.HasPrefix(spec, "api")
	var clock atomic.Int64
	var started atomic.Bool
	var calls []linCall
	var mu sync.Mutex
	panicked := ""
	do := func(g int, op hop) {
		var call func()
		if op[0].(string) == "off" {
			call = t.linPrepare(op) // building 10^5 arguments is not part of the call
		}
		if g == 1 {
			started.CompareAndSwap(false, true) // the long Off is about to be invoked
		}
		inv := clock.Add(1)
		var fired []int
		isFire := false
		if call != nil {
			call()
		} else {
			fired, isFire = t.linApply(op, absentK)
		}
		res := clock.Add(1)
		c := linCall{G: g, Op: op, Inv: inv, Res: res}
		if isFire {
			if fired == nil {
				fired = []int{}
			}
			c.Out = fired
		}
		mu.Lock()
		calls = append(calls, c)
		mu.Unlock()
	}
	long := func() hop {
		hs := []int{}
		if !isAPI && r.Intn(3) == 0 {
			hs = append(hs, r.Intn(3))
		}
		if isEv {
			return hop{"off", 0, hs, absentK}
		}
		return hop{"off", hs, absentK}
	}
	// sequential prefix: some registrations, so that the long Off has something to scan
	for i, n := 0, 24+r.Intn(12); i < n; i++ {
		var op hop
		if r.Intn(4) == 0 {
			op = hop{"once", r.Intn(3)}
		} else {
			op = hop{"on", r.Intn(3)}
		}
		if isEv {
			op = hop{op[0], 0, op[1]}
		}
		do(0, op)
	}
	// concurrent phase
	progs := [][]hop{{long()}, {}, {}}
	if r.Intn(3) == 0 {
		progs[0] = append(progs[0], linRandOp(spec, r, false, absentK))
	}
	for i, n := 0, 1+r.Intn(3); i < n; i++ {
		progs[1] = append(progs[1], linRandOp(spec, r, true, 0))
	}
	for i, n := 0, r.Intn(3); i < n; i++ {
		if !isAPI && r.Intn(4) == 0 {
			progs[2] = append(progs[2], long())
		} else {
			progs[2] = append(progs[2], linRandOp(spec, r, !isAPI, 0))
		}
	}
	// the other goroutines' calls are spread over the duration of the long Off
	delays := make([][]time.Duration, len(progs))
	for g := range progs {
		for range progs[g] {
			delays[g] = append(delays[g], time.Duration(r.Intn(1000))*dur/1500)
		}
	}
	var wg sync.WaitGroup
	for g := range progs {
		wg.Add(1)
		go func(g int) {
			defer wg.Done()
			defer func() {
				if p := recover(); p != nil {
					mu.Lock()
					panicked = fmt.Sprint(p)
					mu.Unlock()
				}
			}()
			if g != 0 {
				for !started.Load() {
				}
			}
			t0 := time.Now()
			for i, op := range progs[g] {
				if g != 0 {
					for time.Since(t0) < delays[g][i] {
					}
				}
				do(g+1, op)
			}
		}(g)
	}
	wg.Wait()
	// closing occurrences, sequential
	if isEv {
		for _, e := range []int{0, 1, 0, 1} {
			do(0, hop{"fire", e})
		}
	} else {
		do(0, hop{"fire"})
		do(0, hop{"fire"})
	}
	out.Put(map[string]any{"lin": 1, "target": spec, "calls": calls, "absent": absentK, "lens": t.lens(),
		"panicmsg": panicked, "menu": evMenuFval})
}

func linMode(out *vk.Out, spec string, seed uint64, rounds, absentK int) {
	prepareAbsent(absentK)
	for _, c := range []byte(spec) {
		seed = seed*1099511628211 + uint64(c)
	}
	r := vk.NewRand(seed ^ 0x11ea)
	dur := linCalibrate(spec, absentK)
	for i := 0; i < rounds; i++ {
		linRound(out, spec, r.Fork(), absentK, dur)
	}
}

// ---------------------------------------------------------------- running one sequence
type runResult struct {
	Outs     [][]int
	Panicked bool
	PanicMsg string
	Bystand  bool // bystander registries intact
	Lens     []int
}

func runSeq(spec string, ops []hop) (res runResult) {
	t := newTarget(spec)
	res.Bystand = true
	res.Outs = [][]int{}
	func() {
		defer func() {
			if r := recover(); r != nil {
				res.Panicked = true
				res.PanicMsg = fmt.Sprint(r)
			}
		}()
		for _, op := range ops {
			fired, isFire := t.apply(op)
			if isFire {
				if fired == nil {
					fired = []int{}
				}
				res.Outs = append(res.Outs, fired)
			}
		}
		res.Bystand = t.finish()
		res.Lens = t.lens()
	}()
	return
}

func digitOf(spec string, id int) byte {
	if strings.HasPrefix(spec, "es") || strings.HasPrefix(spec, "eapi") {
		if id < 0 || id >= len(evMenuFval) {
			return '7'
		}
		return byte('0' + evMenuFval[id][0] + evMenuFval[id][1] + 1)
	}
	if id < 0 || id > 5 {
		return '7'
	}
	return byte('0' + id + 1)
}

func encode(spec string, r runResult) string {
	b := []byte{'1'}
	for _, o := range r.Outs {
		for _, id := range o {
			b = append(b, digitOf(spec, id))
		}
		b = append(b, '0')
	}
	if r.Panicked || !r.Bystand {
		b = append(b, '7')
	}
	return string(b)
}

// ---------------------------------------------------------------- alphabets
func alphabet(spec, name string) (alpha []hop, suffix []hop) {
	fire := hop{"fire"}
	switch {
	case spec == "ls" && name == "core":
		alpha = []hop{{"on", 0}, {"on", 1}, {"on", 2}, {"once", 0}, {"once", 1}, {"off", []int{}},
			{"off", []int{0}}, {"off", []int{1, 0}}, {"off", []int{0, 2}}, {"off", []int{0, 0}}, {"offall"}, fire}
		suffix = []hop{fire, fire}
	case spec == "ls" && name == "subs":
		alpha = []hop{{"onsub", 0}, {"onsub", 1}, {"offsub", 0}, {"offsubs"}, {"on", 0}, {"once", 1},
			{"off", []int{0}}, {"off", []int{}}, fire}
		suffix = []hop{fire, fire}
	case (spec == "es" || strings.HasPrefix(spec, "eapi")) && name == "core":
		alpha = []hop{{"on", 0, 0}, {"on", 0, 1}, {"on", 1, 0}, {"once", 0, 0}, {"once", 0, 1}, {"once", 1, 1},
			{"off", 0, []int{}}, {"off", 0, []int{0}}, {"off", 0, []int{0, 1}}, {"off", 0, []int{1, 1}},
			{"off", 1, []int{0}}, {"off", 0, []int{-1, 0}}, {"offall"}, {"fire", 0}, {"fire", 1}}
		suffix = []hop{{"fire", 0}, {"fire", 1}, {"fire", 0}, {"fire", 1}}
	case (spec == "es" || strings.HasPrefix(spec, "eapi")) && name == "closures":
		alpha = []hop{{"on", 0, 3}, {"on", 0, 4}, {"once", 0, 4}, {"on", 0, 0}, {"on", 1, 4},
			{"off", 0, []int{3}}, {"off", 0, []int{4, 0}}, {"off", 0, []int{}}, {"off", 0, []int{-1}}, {"fire", 0}}
		suffix = []hop{{"fire", 0}, {"fire", 1}, {"fire", 0}, {"fire", 1}}
	case strings.HasPrefix(spec, "api") && name == "core":
		alpha = []hop{{"on", 0}, {"on", 1}, {"once", 0}, {"once", 1}, {"off", []int{}},
			{"off", []int{0}}, {"off", []int{1, 0}}, fire}
		if !strings.HasPrefix(spec, "api:srv") {
			alpha = append(alpha, hop{"offall"})
		}
		suffix = []hop{fire, fire}
	default:
		panic("no alphabet " + name + " for " + spec)
	}
	return
}

func enumMode(out *vk.Out, spec, alphaName string, plen, depth int) {
	alpha, suffix := alphabet(spec, alphaName)
	out.Put(map[string]any{"hdr": 1, "target": spec, "alphabet": alphaName, "alpha": alpha, "suffix": suffix,
		"plen": plen, "depth": depth, "menu": evMenuFval})
	var prefixes [][]int
	var recP func(cur []int)
	recP = func(cur []int) {
		if len(cur) == plen {
			prefixes = append(prefixes, append([]int{}, cur...))
			return
		}
		for i := range alpha {
			recP(append(cur, i))
		}
	}
	recP(nil)
	for _, pre := range prefixes {
		obs := []string{}
		type anomaly struct {
			Idx  int    `json:"idx"`
			What string `json:"what"`
		}
		anomalies := []anomaly{}
		cur := make([]int, 0, depth)
		var rec func()
		rec = func() {
			if len(cur) == depth {
				ops := make([]hop, 0, plen+depth+len(suffix))
				for _, i := range pre {
					ops = append(ops, alpha[i])
				}
				for _, i := range cur {
					ops = append(ops, alpha[i])
				}
				ops = append(ops, suffix...)
				r := runSeq(spec, ops)
				if r.Panicked && len(anomalies) < 5 {
					anomalies = append(anomalies, anomaly{len(obs), "panic: " + r.PanicMsg})
				} else if !r.Bystand && len(anomalies) < 5 {
					anomalies = append(anomalies, anomaly{len(obs), "a registry of the object other than the one operated on was disturbed (or survived OffAll)"})
				}
				obs = append(obs, encode(spec, r))
				return
			}
			for i := range alpha {
				cur = append(cur, i)
				rec()
				cur = cur[:len(cur)-1]
			}
		}
		rec()
		out.Put(map[string]any{"prefix": pre, "obs": obs, "anomalies": anomalies})
	}
}

// ---------------------------------------------------------------- random sequences
func randomOps(spec string, r *vk.Rand, maxLen int) []hop {
	n := 1 + r.Intn(maxLen)
	ops := make([]hop, 0, n)
	hs := func(max int) []int {
		k := r.Intn(4)
		if r.Intn(6) == 0 {
			k = 0
		}
		l := make([]int, k)
		for i := range l {
			l[i] = r.Intn(max)
		}
		return l
	}
	isEv := spec == "es" || strings.HasPrefix(spec, "eapi")
	isAPI := strings.HasPrefix(spec, "api")
	for i := 0; i < n; i++ {
		c := r.Intn(100)
		switch {
		case isEv:
			e := r.Intn(3)
			nh := 3 // distinct code pointers only, unless this run draws closures
			if r.Intn(3) == 0 {
				nh = 5
			}
			switch {
			case c < 30:
				ops = append(ops, hop{"on", e, r.Intn(nh)})
			case c < 50:
				ops = append(ops, hop{"once", e, r.Intn(nh)})
			case c < 70:
				l := hs(nh)
				if len(l) > 0 && r.Intn(5) == 0 {
					l[r.Intn(len(l))] = -1 // a nil handler among the arguments
				}
				ops = append(ops, hop{"off", e, l})
			case c < 74:
				ops = append(ops, hop{"offall"})
			default:
				ops = append(ops, hop{"fire", e})
			}
		case isAPI:
			switch {
			case c < 30:
				ops = append(ops, hop{"on", r.Intn(4)})
			case c < 50:
				ops = append(ops, hop{"once", r.Intn(4)})
			case c < 60:
				ops = append(ops, hop{"off", []int{}})
			case c < 68:
				ops = append(ops, hop{"off", hs(4)})
			case c < 72 && !strings.HasPrefix(spec, "api:srv"):
				ops = append(ops, hop{"offall"})
			default:
				ops = append(ops, hop{"fire"})
			}
		default:
			switch {
			case c < 25:
				ops = append(ops, hop{"on", r.Intn(4)})
			case c < 42:
				ops = append(ops, hop{"once", r.Intn(4)})
			case c < 50:
				ops = append(ops, hop{"onsub", r.Intn(4)})
			case c < 55:
				ops = append(ops, hop{"offsub", r.Intn(5)})
			case c < 57:
				ops = append(ops, hop{"offsubs"})
			case c < 75:
				ops = append(ops, hop{"off", hs(6)}) // 4,5 are never registered
			case c < 78:
				ops = append(ops, hop{"offall"})
			default:
				ops = append(ops, hop{"fire"})
			}
		}
	}
	return ops
}

// emitCase runs one explicit call sequence and writes the explicit row.
func emitCase(out *vk.Out, spec string, ops []hop) {
	res := runSeq(spec, ops)
	outs := res.Outs
	if strings.HasPrefix(spec, "es") || strings.HasPrefix(spec, "eapi") {
		// report digits-1 so that the ids are those of the model (code+instance)
		outs = make([][]int, len(res.Outs))
		for j, o := range res.Outs {
			outs[j] = make([]int, len(o))
			for k, id := range o {
				outs[j][k] = int(digitOf(spec, id)-'0') - 1
			}
		}
	}
	out.Put(map[string]any{"target": spec, "ops": ops, "outs": outs,
		"panic": res.Panicked || !res.Bystand, "panicmsg": res.PanicMsg, "lens": res.Lens, "menu": evMenuFval})
}

func randomMode(out *vk.Out, spec string, seed uint64, n, maxLen int) {
	for _, c := range []byte(spec) { // an own stream per target
		seed = seed*1099511628211 + uint64(c)
	}
	r := vk.NewRand(seed)
	for i := 0; i < n; i++ {
		ops := randomOps(spec, r.Fork(), maxLen)
		emitCase(out, spec, ops)
	}
}

// ---------------------------------------------------------------- concurrent once race
// `handlers` Once registrations (each its own handler) are made while `goroutines` goroutines
// keep producing occurrences; one On handler is registered before anything else.  Reported: how
// many Once handlers ran 0,1,2,.. times (after a final drain), how many times the On handler ran
// and how many occurrences there were.
func raceMode(out *vk.Out, spec string, goroutines, handlers int) {
	counts := make([]atomic.Int64, handlers)
	var onRuns, occurrences atomic.Int64
	var fireOnce func()
	var register func(i int)

	switch {
	case spec == "ls":
		s := sio.VerifNewHandlerStore()
		ids := make([]int, handlers+1)
		for i := range ids {
			ids[i] = i
		}
		s.On(&ids[handlers])
		register = func(i int) { s.Once(&ids[i]) }
		fireOnce = func() {
			occurrences.Add(1)
			s.ForEach(func(h *int) {
				if *h == handlers {
					onRuns.Add(1)
				} else {
					counts[*h].Add(1)
				}
			}, false)
		}
	case spec == "es":
		s := sio.VerifNewEventStore()
		s.On("e", func() { onRuns.Add(1) })
		register = func(i int) { s.Once("e", func() { counts[i].Add(1) }) }
		fireOnce = func() {
			occurrences.Add(1)
			for _, rv := range s.GetAll("e") {
				rv.Call(nil)
			}
		}
	case spec == "api:csock:Connect":
		obj := newObject("csock")
		cs := obj.(sio.ClientSocket)
		cs.OnConnect(func() { onRuns.Add(1) })
		register = func(i int) { cs.OnceConnect(func() { counts[i].Add(1) }) }
		fireOnce = func() {
			occurrences.Add(1)
			if _, err := sio.VerifLifecycleOccurrence(obj, "connect"); err != nil {
				panic(err)
			}
		}
	case spec == "eapi:nsp":
		obj := newObject("nsp")
		ns := obj.(*sio.Namespace)
		ns.OnEvent("e", func() { onRuns.Add(1) })
		register = func(i int) { ns.OnceEvent("e", func() { counts[i].Add(1) }) }
		fireOnce = func() {
			occurrences.Add(1)
			rvs, err := sio.VerifEventOccurrence(obj, "e")
			if err != nil {
				panic(err)
			}
			for _, rv := range rvs {
				rv.Call(nil)
			}
		}
	default:
		panic("race: unsupported target " + spec)
	}

	// a panic inside an occurrence is an observation, not a crash of the harness
	var panics atomic.Int64
	var panicMsg atomic.Value
	rawFire := fireOnce
	fireOnce = func() {
		defer func() {
			if r := recover(); r != nil {
				panics.Add(1)
				panicMsg.Store(fmt.Sprint(r))
			}
		}()
		rawFire()
	}
	var done atomic.Bool
	var wg sync.WaitGroup
	for g := 0; g < goroutines; g++ {
		wg.Add(1)
		go func() {
			defer wg.Done()
			for !done.Load() {
				fireOnce()
			}
		}()
	}
	// two registrars, so that Once calls race each other as well as the occurrences
	var rw sync.WaitGroup
	for k := 0; k < 2; k++ {
		rw.Add(1)
		go func(k int) {
			defer rw.Done()
			for i := k; i < handlers; i += 2 {
				register(i)
			}
		}(k)
	}
	rw.Wait()
	done.Store(true)
	wg.Wait()
	fireOnce() // drain
	fireOnce()
	hist := map[int]int{}
	for i := range counts {
		hist[int(counts[i].Load())]++
	}
	h := [][2]int{}
	for c, n := range hist {
		h = append(h, [2]int{c, n})
	}
	out.Put(map[string]any{"target": spec, "goroutines": goroutines, "handlers": handlers,
		"once_hist": h, "on_runs": onRuns.Load(), "occurrences": occurrences.Load(),
		"panics": panics.Load(), "panicmsg": fmt.Sprint(panicMsg.Load())})
}

func handlersMain(args []string) error {
	fs := flag.NewFlagSet("handlers", flag.ExitOnError)
	seed := fs.Uint64("seed", 1, "")
	mode := fs.String("mode", "enum", "enum|random|race")
	spec := fs.String("target", "ls", "")
	alphaName := fs.String("alphabet", "core", "")
	plen := fs.Int("plen", 1, "prefix length (rows)")
	depth := fs.Int("depth", 3, "enumerated ops after the prefix")
	n := fs.Int("n", 500, "random cases / once handlers in a race")
	maxLen := fs.Int("maxlen", 30, "")
	goroutines := fs.Int("goroutines", 16, "")
	opsJSON := fs.String("ops", "", "mode replay: the call sequence as JSON")
	absentK := fs.Int("absent", 100000, "mode lin: handlers named by a long Off that are not registered")
	concFlag := fs.Int("reent", -1, "mode replay: -1 plain sequence, 0 re-entrant call tree, 1 calls made by another goroutine")
	outp := fs.String("out", "-", "")
	fs.Parse(args)
	if err := checkMenu(); err != nil {
		return err
	}
	out, err := vk.NewOut(*outp)
	if err != nil {
		return err
	}
	defer out.Close()
	for _, sp := range strings.Split(*spec, ",") {
		switch *mode {
		case "enum":
			enumMode(out, sp, *alphaName, *plen, *depth)
		case "random":
			randomMode(out, sp, *seed, *n, *maxLen)
		case "race":
			raceMode(out, sp, *goroutines, *n)
		case "reent":
			reentMode(out, sp, *seed, *n)
		case "lin":
			linMode(out, sp, *seed, *n, *absentK)
		case "replay":
			var raw [][]any
			if err := json.Unmarshal([]byte(*opsJSON), &raw); err != nil {
				return err
			}
			ops := make([]hop, len(raw))
			for i, o := range raw {
				ops[i] = hop(o)
			}
			if *concFlag >= 0 {
				runRe(out, sp, ops, *concFlag == 1)
			} else {
				emitCase(out, sp, ops)
			}
		default:
			return fmt.Errorf("unknown mode %s", *mode)
		}
	}
	return nil
}
