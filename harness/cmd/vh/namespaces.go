package main

// namespaces: live rig of property C05 (namespaces multiplexed on one connection are isolated).
//
// One scenario = one real sio.Server on 127.0.0.1:0 with a set of namespaces (some of them gated by
// a namespace middleware that holds every CONNECT until the scenario releases it with a verdict),
// 1-3 connections (Go client Managers that multiplex several namespace sockets, and raw protocol
// peers built from the repo's engine.io client + parser/json that can send any packet for any
// namespace), and a seeded list of operations.  Every handler entry, ack callback, lifecycle
// callback and (raw peers) received packet is recorded with the namespace of the object that saw
// it.  Payload tags are unique per emit, so observations are attributable independently of timing.
//
// Output: one JSON row per scenario {id, names, gated, conns, ops, obs}.

import (
	"encoding/json"
	"flag"
	"fmt"
	"net/http/httptest"
	"reflect"
	"sort"
	"strings"
	"sync"
	"time"

	sio "github.com/karagenc/socket.io-go"
	eio "github.com/karagenc/socket.io-go/engine.io"
	eioparser "github.com/karagenc/socket.io-go/engine.io/parser"
	"github.com/karagenc/socket.io-go/parser"
	jsonparser "github.com/karagenc/socket.io-go/parser/json"
	"github.com/karagenc/socket.io-go/parser/json/serializer/stdjson"
	"nhooyr.io/websocket"

	"verifharness/vk"
)

func init() { register("namespaces", namespacesMain) }

type nsOp struct {
	Op   string `json:"op"` // connect release cemit semit bcast sbcast join cdisc sdisc rconnect rsend
	C    int    `json:"c"`
	N    string `json:"n"`
	Tag  int    `json:"tag"`
	Ack  bool   `json:"ack"`
	Ok   bool   `json:"ok"`
	Room string `json:"room"`
	Ty   int    `json:"ty"` // raw packet type 0..6
	ID   int    `json:"id"` // raw packet id, -1 = none
}

type nsObs struct {
	K      string `json:"k"`    // ev ack connect connect_error disconnect closed mw rx
	Side   string `json:"side"` // s | c
	Conn   int    `json:"conn"`
	Nsp    string `json:"nsp"` // namespace of the socket / handler that observed it
	Sid    string `json:"sid"`
	Tag    int    `json:"tag"`
	Ty     int    `json:"ty"` // rx: packet type
	ID     int    `json:"id"` // rx: packet id or -1
	Reason string `json:"reason"`
	Op     int    `json:"op"` // index of the operation during which it was recorded (informational)
}

type nsScenario struct {
	ID    string   `json:"id"`
	Names []string `json:"names"` // namespaces created on the server
	Gated []bool   `json:"gated"`
	Conns []string `json:"conns"` // "mgr" | "raw"
	Tr    string   `json:"tr"`
	Ops   []nsOp   `json:"ops"`
	Obs   []nsObs  `json:"obs"`
	Err   string   `json:"err,omitempty"`
}

type nsAuth struct {
	Conn int `json:"conn"`
}

type nsRig struct {
	mu    sync.Mutex
	cond  *sync.Cond
	obs   []nsObs
	curOp int

	srv      *sio.Server
	ts       *httptest.Server
	sidConn  map[string]int              // server socket id -> connection index (from the CONNECT auth)
	ssock    map[string]sio.ServerSocket // "conn|nsp" -> latest admitted server socket
	held     map[string][]chan bool      // nsp -> gates of CONNECTs held in the middleware
	gated    map[string]bool
	exists   map[string]bool
	managers []*sio.Manager
	csock    map[string]sio.ClientSocket // "conn|nsp"
	raws     []*nsRaw
}

type nsRaw struct {
	sock   eio.ClientSocket
	parser parser.Parser
	pmu    sync.Mutex
}

func key(c int, n string) string { return fmt.Sprintf("%d|%s", c, n) }

func (r *nsRig) rec(o nsObs) {
	r.mu.Lock()
	o.Op = r.curOp
	r.obs = append(r.obs, o)
	r.mu.Unlock()
	r.cond.Broadcast()
}

// waitFor blocks until pred holds on the observation list or the timeout expires.
func (r *nsRig) waitFor(d time.Duration, pred func(obs []nsObs) bool) bool {
	deadline := time.Now().Add(d)
	stop := make(chan struct{})
	go func() {
		select {
		case <-time.After(d + 10*time.Millisecond):
			r.cond.Broadcast()
		case <-stop:
		}
	}()
	defer close(stop)
	r.mu.Lock()
	defer r.mu.Unlock()
	for !pred(r.obs) {
		if time.Now().After(deadline) {
			return false
		}
		r.cond.Wait()
	}
	return true
}

func has(obs []nsObs, f func(o nsObs) bool) bool {
	for _, o := range obs {
		if f(o) {
			return true
		}
	}
	return false
}

func count(obs []nsObs, f func(o nsObs) bool) int {
	n := 0
	for _, o := range obs {
		if f(o) {
			n++
		}
	}
	return n
}

func normNsp(n string) string {
	if n == "" {
		return "/"
	}
	if n[0] != '/' {
		return "/" + n
	}
	return n
}

func newNsRig(names []string, gated []bool) *nsRig {
	r := &nsRig{
		sidConn: map[string]int{}, ssock: map[string]sio.ServerSocket{}, held: map[string][]chan bool{},
		gated: map[string]bool{}, exists: map[string]bool{}, csock: map[string]sio.ClientSocket{},
	}
	r.cond = sync.NewCond(&r.mu)
	cfg := &sio.ServerConfig{}
	cfg.EIO.WebSocketAcceptOptions = &websocket.AcceptOptions{CompressionMode: websocket.CompressionDisabled}
	r.srv = sio.NewServer(cfg)
	for i, name := range names {
		name := name
		nn := normNsp(name)
		r.gated[nn] = gated[i]
		r.exists[nn] = true
		nsp := r.srv.Of(name)
		nsp.Use(func(socket sio.ServerSocket, hs *sio.Handshake) any {
			var a nsAuth
			a.Conn = -1
			json.Unmarshal(hs.Auth, &a)
			sid := string(socket.ID())
			hname := socket.Namespace().Name()
			r.mu.Lock()
			r.sidConn[sid] = a.Conn
			r.mu.Unlock()
			// handlers are registered before admission so that no event can arrive before them
			obsEv := func(tag int) {
				r.rec(nsObs{K: "ev", Side: "s", Conn: a.Conn, Nsp: hname, Sid: sid, Tag: tag})
			}
			socket.OnEvent("ev", func(tag int) { obsEv(tag) })
			socket.OnEvent("eva", func(tag int, ack func(int)) {
				obsEv(tag)
				ack(tag)
			})
			socket.OnDisconnect(func(reason sio.Reason) {
				r.rec(nsObs{K: "disconnect", Side: "s", Conn: a.Conn, Nsp: hname, Sid: sid, Reason: string(reason)})
			})
			if !r.gated[hname] {
				r.rec(nsObs{K: "mw", Side: "s", Conn: a.Conn, Nsp: hname, Sid: sid})
			} else {
				gate := make(chan bool, 1)
				r.mu.Lock()
				r.held[hname] = append(r.held[hname], gate)
				r.mu.Unlock()
				// a gating middleware that already sorts the socket into a room (e.g. by its auth data)
				// before it decides: the socket is in the adapter's room, but not yet accepted
				socket.Join(sio.Room("r1"))
				r.rec(nsObs{K: "mw", Side: "s", Conn: a.Conn, Nsp: hname, Sid: sid})
				select {
				case ok := <-gate:
					if !ok {
						return fmt.Errorf("rejected")
					}
				case <-time.After(20 * time.Second):
					return fmt.Errorf("gate timeout")
				}
			}
			return nil
		})
		nsp.OnConnection(func(socket sio.ServerSocket) {
			sid := string(socket.ID())
			r.mu.Lock()
			c, ok := r.sidConn[sid]
			if !ok {
				c = -1
			}
			r.ssock[key(c, socket.Namespace().Name())] = socket
			r.mu.Unlock()
			r.rec(nsObs{K: "connect", Side: "s", Conn: c, Nsp: socket.Namespace().Name(), Sid: sid})
		})
	}
	if err := r.srv.Run(); err != nil {
		panic(err)
	}
	r.ts = httptest.NewServer(r.srv)
	return r
}

func (r *nsRig) close() {
	for _, m := range r.managers {
		if m != nil {
			m.Close()
		}
	}
	for _, w := range r.raws {
		if w != nil {
			w.sock.Close()
		}
	}
	r.mu.Lock()
	for _, gs := range r.held {
		for _, g := range gs {
			select {
			case g <- false:
			default:
			}
		}
	}
	r.mu.Unlock()
	r.srv.Close()
	r.ts.Close()
}

func (r *nsRig) addManager(c int, tr string) {
	cfg := &sio.ManagerConfig{NoReconnection: true}
	cfg.EIO.Transports = []string{tr}
	cfg.EIO.WebSocketDialOptions = &websocket.DialOptions{CompressionMode: websocket.CompressionDisabled}
	m := sio.NewManager(r.ts.URL, cfg)
	m.OnClose(func(reason sio.Reason, err error) {
		r.rec(nsObs{K: "closed", Side: "c", Conn: c, Reason: string(reason)})
	})
	for len(r.managers) <= c {
		r.managers = append(r.managers, nil)
		r.raws = append(r.raws, nil)
	}
	r.managers[c] = m
}

func (r *nsRig) clientSocket(c int, n string) sio.ClientSocket {
	k := key(c, normNsp(n))
	if s, ok := r.csock[k]; ok {
		return s
	}
	s := r.managers[c].Socket(n, nil)
	nn := normNsp(n)
	s.SetAuth(map[string]any{"conn": c})
	s.OnConnect(func() {
		r.rec(nsObs{K: "connect", Side: "c", Conn: c, Nsp: nn, Sid: string(s.ID())})
	})
	s.OnConnectError(func(err any) {
		r.rec(nsObs{K: "connect_error", Side: "c", Conn: c, Nsp: nn})
	})
	s.OnDisconnect(func(reason sio.Reason) {
		r.rec(nsObs{K: "disconnect", Side: "c", Conn: c, Nsp: nn, Reason: string(reason)})
	})
	obsEv := func(tag int) { r.rec(nsObs{K: "ev", Side: "c", Conn: c, Nsp: nn, Tag: tag}) }
	s.OnEvent("ev", func(tag int) { obsEv(tag) })
	s.OnEvent("eva", func(tag int, ack func(int)) {
		obsEv(tag)
		ack(tag)
	})
	r.csock[k] = s
	return s
}

func (r *nsRig) addRaw(c int, tr string) error {
	w := &nsRaw{parser: jsonparser.NewCreator(0, stdjson.New())()}
	cb := &eio.Callbacks{
		OnPacket: func(packets ...*eioparser.Packet) {
			w.pmu.Lock()
			defer w.pmu.Unlock()
			for _, p := range packets {
				if p.Type != eioparser.PacketTypeMessage {
					continue
				}
				w.parser.Add(p.Data, func(h *parser.PacketHeader, ev string, decode parser.Decode) {
					o := nsObs{K: "rx", Side: "c", Conn: c, Nsp: h.Namespace, Ty: int(h.Type), ID: -1, Tag: -1}
					if h.ID != nil {
						o.ID = int(*h.ID)
					}
					if h.IsEvent() || h.IsAck() {
						var tag int
						vals, err := decode(reflect.TypeOf(&tag))
						if err == nil && len(vals) == 1 {
							if p, ok := vals[0].Interface().(*int); ok {
								o.Tag = *p
							}
						}
					}
					r.rec(o)
				})
			}
		},
		OnClose: func(reason eio.Reason, err error) {
			r.rec(nsObs{K: "closed", Side: "c", Conn: c, Reason: string(reason)})
		},
	}
	cfg := &eio.ClientConfig{Transports: []string{tr}}
	cfg.WebSocketDialOptions = &websocket.DialOptions{CompressionMode: websocket.CompressionDisabled}
	sock, err := eio.Dial(r.ts.URL, cb, cfg)
	if err != nil {
		return err
	}
	w.sock = sock
	for len(r.raws) <= c {
		r.managers = append(r.managers, nil)
		r.raws = append(r.raws, nil)
	}
	r.raws[c] = w
	return nil
}

// rawPacket renders a Socket.IO packet exactly as the protocol writes it.
func rawPacket(ty int, nsp string, id int, body string) string {
	s := fmt.Sprintf("%d", ty)
	if ty == 5 || ty == 6 {
		s += "0-"
	}
	if nsp != "" && nsp != "/" {
		s += nsp + ","
	}
	if id >= 0 {
		s += fmt.Sprintf("%d", id)
	}
	return s + body
}

func (w *nsRaw) send(s string) {
	p, err := eioparser.NewPacket(eioparser.PacketTypeMessage, false, []byte(s))
	if err != nil {
		panic(err)
	}
	w.sock.Send(p)
}

const (
	nsLong   = 5 * time.Second
	nsSettle = 25 * time.Millisecond
)

// tracker: what the scenario driver believes, used ONLY to decide what to wait for and which
// operations are worth generating; the verdict is computed from the observations by the model.
type nsTrack struct {
	state  map[string]string // "conn|nsp" -> "" | pending | connected | dead
	dead   map[int]bool
	rooms  map[string]map[string]bool // "conn|nsp" -> rooms
	active map[int]int                // manager conn -> number of active sockets
	used   map[int]bool               // manager conn on which a socket was connected at least once
}

func (r *nsRig) closedObs(c int) func(obs []nsObs) bool {
	return func(obs []nsObs) bool {
		return has(obs, func(o nsObs) bool { return o.K == "closed" && o.Conn == c })
	}
}

func (r *nsRig) run(sc *nsScenario, t *nsTrack) {
	r.runFrom(sc, t, 0)
	// final settle: stragglers (a leak across namespaces would show up at once)
	time.Sleep(120 * time.Millisecond)
}

func (r *nsRig) runFrom(sc *nsScenario, t *nsTrack, start int) {
	for i := start; i < len(sc.Ops); i++ {
		op := sc.Ops[i]
		r.mu.Lock()
		r.curOp = i
		r.mu.Unlock()
		nn := normNsp(op.N)
		k := key(op.C, nn)
		switch op.Op {
		case "connect":
			s := r.clientSocket(op.C, op.N)
			want := func(o nsObs) bool {
				if o.Conn != op.C || o.Nsp != nn {
					return false
				}
				switch {
				case r.exists[nn] && r.gated[nn]:
					return o.K == "mw"
				case r.exists[nn]:
					return o.Side == "c" && o.K == "connect"
				}
				return o.Side == "c" && o.K == "connect_error"
			}
			r.mu.Lock()
			before := count(r.obs, want)
			beforeS := count(r.obs, func(o nsObs) bool { return o.K == "connect" && o.Side == "s" && o.Conn == op.C && o.Nsp == nn })
			r.mu.Unlock()
			s.Connect()
			if t.state[k] == "connected" || t.state[k] == "pending" {
				time.Sleep(nsSettle) // Connect on a connected / connecting socket does nothing
				break
			}
			r.waitFor(nsLong, func(obs []nsObs) bool { return r.closedObs(op.C)(obs) || count(obs, want) > before })
			if r.exists[nn] && !r.gated[nn] {
				// let the admission goroutine finish (server_conn.go: c.sockets.set follows the CONNECT reply)
				r.waitFor(nsLong, func(obs []nsObs) bool {
					return r.closedObs(op.C)(obs) || count(obs, func(o nsObs) bool { return o.K == "connect" && o.Side == "s" && o.Conn == op.C && o.Nsp == nn }) > beforeS
				})
				time.Sleep(nsSettle)
			}
		case "rconnect":
			w := r.raws[op.C]
			before := 0
			r.mu.Lock()
			before = count(r.obs, func(o nsObs) bool {
				return o.Conn == op.C && ((o.K == "mw" && o.Nsp == nn && r.gated[nn]) || (o.K == "rx" && normNsp(o.Nsp) == nn && (o.Ty == 0 || o.Ty == 4)))
			})
			r.mu.Unlock()
			w.send(rawPacket(0, op.N, -1, fmt.Sprintf(`{"conn":%d}`, op.C)))
			r.waitFor(nsLong, func(obs []nsObs) bool {
				return r.closedObs(op.C)(obs) || count(obs, func(o nsObs) bool {
					return o.Conn == op.C && ((o.K == "mw" && o.Nsp == nn && r.gated[nn]) || (o.K == "rx" && normNsp(o.Nsp) == nn && (o.Ty == 0 || o.Ty == 4)))
				}) > before
			})
			time.Sleep(nsSettle)
		case "release":
			r.mu.Lock()
			gates := r.held[nn]
			r.held[nn] = nil
			before := count(r.obs, func(o nsObs) bool {
				return o.Side == "c" && normNsp(o.Nsp) == nn && (o.K == "connect" || o.K == "connect_error" || (o.K == "rx" && (o.Ty == 0 || o.Ty == 4)))
			})
			r.mu.Unlock()
			for _, g := range gates {
				g <- op.Ok
			}
			r.waitFor(nsLong, func(obs []nsObs) bool {
				return count(obs, func(o nsObs) bool {
					return o.Side == "c" && normNsp(o.Nsp) == nn && (o.K == "connect" || o.K == "connect_error" || (o.K == "rx" && (o.Ty == 0 || o.Ty == 4)))
				}) >= before+len(gates)
			})
			time.Sleep(nsSettle)
		case "cemit":
			s := r.clientSocket(op.C, op.N)
			st := t.state[k]
			if op.Ack {
				tag := op.Tag
				s.Emit("eva", op.Tag, func(reply int) {
					r.rec(nsObs{K: "ack", Side: "c", Conn: op.C, Nsp: nn, Tag: reply, ID: tag})
				})
			} else {
				s.Emit("ev", op.Tag)
			}
			switch st {
			case "connected":
				r.waitFor(nsLong, func(obs []nsObs) bool {
					return r.closedObs(op.C)(obs) || (has(obs, func(o nsObs) bool { return o.K == "ev" && o.Side == "s" && o.Tag == op.Tag }) &&
						(!op.Ack || has(obs, func(o nsObs) bool { return o.K == "ack" && o.Side == "c" && o.Tag == op.Tag })))
				})
			case "pending":
				// a client that emits before the CONNECT reply: either buffered (nothing happens) or
				// sent at once (the server closes the connection)
				r.waitFor(300*time.Millisecond, r.closedObs(op.C))
			default:
				time.Sleep(nsSettle)
			}
		case "semit":
			r.mu.Lock()
			s := r.ssock[k]
			r.mu.Unlock()
			if s == nil {
				break
			}
			if op.Ack {
				s.Emit("eva", op.Tag, func(reply int) {
					r.rec(nsObs{K: "ack", Side: "s", Conn: op.C, Nsp: s.Namespace().Name(), Sid: string(s.ID()), Tag: reply})
				})
			} else {
				s.Emit("ev", op.Tag)
			}
			r.waitFor(nsLong, func(obs []nsObs) bool {
				return r.closedObs(op.C)(obs) || (has(obs, func(o nsObs) bool { return (o.K == "ev" || o.K == "rx") && o.Side == "c" && o.Tag == op.Tag }) &&
					(!op.Ack || sc.Conns[op.C] == "raw" || has(obs, func(o nsObs) bool { return o.K == "ack" && o.Side == "s" && o.Tag == op.Tag })))
			})
		case "bcast", "sbcast":
			expect := 0
			for kk, st := range t.state {
				parts := strings.SplitN(kk, "|", 2)
				if parts[1] != nn || st != "connected" {
					continue
				}
				if op.Room != "" && !t.rooms[kk][op.Room] {
					continue
				}
				if op.Op == "sbcast" && kk == k {
					continue
				}
				expect++
			}
			if op.Op == "bcast" {
				nsp := r.srv.Of(op.N)
				if op.Room != "" {
					nsp.To(sio.Room(op.Room)).Emit("ev", op.Tag)
				} else {
					nsp.Emit("ev", op.Tag)
				}
			} else {
				r.mu.Lock()
				s := r.ssock[k]
				r.mu.Unlock()
				if s == nil {
					break
				}
				if op.Room != "" {
					s.To(sio.Room(op.Room)).Emit("ev", op.Tag)
				} else {
					s.Broadcast().Emit("ev", op.Tag)
				}
			}
			r.waitFor(3*time.Second, func(obs []nsObs) bool {
				return count(obs, func(o nsObs) bool { return (o.K == "ev" || o.K == "rx") && o.Side == "c" && o.Tag == op.Tag }) >= expect
			})
			time.Sleep(nsSettle)
		case "join":
			r.mu.Lock()
			s := r.ssock[k]
			r.mu.Unlock()
			if s != nil {
				s.Join(sio.Room(op.Room))
			}
		case "cdisc":
			s := r.clientSocket(op.C, op.N)
			st := t.state[k]
			s.Disconnect()
			if st == "connected" {
				r.waitFor(nsLong, func(obs []nsObs) bool {
					return has(obs, func(o nsObs) bool {
						return o.K == "disconnect" && o.Side == "s" && o.Conn == op.C && o.Nsp == nn && o.Op == i
					})
				})
			}
			time.Sleep(nsSettle)
		case "sdisc":
			r.mu.Lock()
			s := r.ssock[k]
			r.mu.Unlock()
			if s == nil {
				break
			}
			s.Disconnect(false)
			r.waitFor(nsLong, func(obs []nsObs) bool {
				return r.closedObs(op.C)(obs) || has(obs, func(o nsObs) bool {
					return o.Side == "c" && o.Conn == op.C && normNsp(o.Nsp) == nn && o.Op == i && (o.K == "disconnect" || (o.K == "rx" && o.Ty == 1))
				})
			})
			time.Sleep(nsSettle)
		case "rsend":
			w := r.raws[op.C]
			body := ""
			switch op.Ty {
			case 2, 5:
				body = fmt.Sprintf(`["ev",%d]`, op.Tag)
				if op.ID >= 0 {
					body = fmt.Sprintf(`["eva",%d]`, op.Tag)
				}
			case 3, 6:
				body = fmt.Sprintf(`[%d]`, op.Tag)
			case 0:
				body = fmt.Sprintf(`{"conn":%d}`, op.C)
			case 4:
				body = `{"message":"x"}`
			}
			w.send(rawPacket(op.Ty, op.N, op.ID, body))
			st := t.state[k]
			joined := st == "connected"
			expectClose := (!joined && op.Ty != 0) || (joined && (op.Ty == 0 || op.Ty == 4))
			switch {
			case expectClose:
				r.waitFor(3*time.Second, r.closedObs(op.C))
			case op.Ty == 2 || op.Ty == 5:
				r.waitFor(nsLong, func(obs []nsObs) bool {
					return r.closedObs(op.C)(obs) || (has(obs, func(o nsObs) bool { return o.K == "ev" && o.Side == "s" && o.Tag == op.Tag }) &&
						(op.ID < 0 || has(obs, func(o nsObs) bool { return o.K == "rx" && o.Ty == 3 && o.Tag == op.Tag })))
				})
			case op.Ty == 1:
				r.waitFor(nsLong, func(obs []nsObs) bool {
					return r.closedObs(op.C)(obs) || has(obs, func(o nsObs) bool {
						return o.K == "disconnect" && o.Side == "s" && o.Conn == op.C && o.Nsp == nn && o.Op == i
					})
				})
			case op.Ty == 3 || op.Ty == 6:
				r.waitFor(400*time.Millisecond, func(obs []nsObs) bool {
					return r.closedObs(op.C)(obs) || has(obs, func(o nsObs) bool { return o.K == "ack" && o.Side == "s" && o.Op == i })
				})
			default: // CONNECT for a namespace that is not joined: reply or middleware entry
				r.waitFor(nsLong, func(obs []nsObs) bool {
					return r.closedObs(op.C)(obs) || has(obs, func(o nsObs) bool {
						return o.Conn == op.C && o.Op == i && ((o.K == "mw" && r.gated[o.Nsp]) || (o.K == "rx" && (o.Ty == 0 || o.Ty == 4)))
					})
				})
				time.Sleep(nsSettle)
			}
		}
		wasDead := map[int]bool{}
		for c := range sc.Conns {
			wasDead[c] = t.dead[c]
		}
		t.apply(r, sc, i, op)
		for c := range sc.Conns {
			if t.dead[c] && !wasDead[c] {
				// the client saw its connection close: let the server finish closing its sockets
				// (serverConn.close: eio.Close() first, then the sockets) before the next operation
				c := c
				r.waitFor(2*time.Second, func(obs []nsObs) bool {
					for _, n := range sc.Names {
						nn := normNsp(n)
						up := count(obs, func(o nsObs) bool { return o.Side == "s" && o.K == "connect" && o.Conn == c && o.Nsp == nn })
						down := count(obs, func(o nsObs) bool { return o.Side == "s" && o.K == "disconnect" && o.Conn == c && o.Nsp == nn })
						if down < up {
							return false
						}
					}
					return true
				})
				time.Sleep(nsSettle)
			}
		}
		for c, kind := range sc.Conns {
			if kind == "mgr" && t.used[c] && t.active[c] <= 0 && !t.dead[c] {
				// Manager.destroy: no active socket left -> the manager closes its connection
				r.waitFor(2*time.Second, r.closedObs(c))
				t.dead[c] = true
				t.apply(r, sc, -1, nsOp{})
			}
		}
	}
}

// apply updates the driver's belief after operation i from what was observed.
func (t *nsTrack) apply(r *nsRig, sc *nsScenario, i int, op nsOp) {
	r.mu.Lock()
	defer r.mu.Unlock()
	for _, o := range r.obs {
		if o.K == "closed" && !t.dead[o.Conn] {
			t.dead[o.Conn] = true
		}
	}
	nn := normNsp(op.N)
	k := key(op.C, nn)
	seen := func(f func(o nsObs) bool) bool { return has(r.obs, func(o nsObs) bool { return o.Op == i && f(o) }) }
	if op.Op == "connect" {
		t.used[op.C] = true
	}
	switch op.Op {
	case "connect", "rconnect", "rsend":
		if op.Op == "rsend" && op.Ty != 0 {
			if op.Ty == 1 && t.state[k] == "connected" {
				t.state[k] = ""
				delete(t.rooms, k)
			}
			break
		}
		if t.state[k] == "connected" {
			break
		}
		switch {
		case seen(func(o nsObs) bool {
			return o.Side == "c" && o.Conn == op.C && normNsp(o.Nsp) == nn && (o.K == "connect" || (o.K == "rx" && o.Ty == 0))
		}):
			t.state[k] = "connected"
			if op.Op == "connect" {
				t.active[op.C]++
			}
		case seen(func(o nsObs) bool {
			return o.Side == "c" && o.Conn == op.C && normNsp(o.Nsp) == nn && (o.K == "connect_error" || (o.K == "rx" && o.Ty == 4))
		}):
			t.state[k] = "dead"
		case r.gated[nn] && seen(func(o nsObs) bool { return o.K == "mw" && o.Conn == op.C && o.Nsp == nn }):
			if t.state[k] != "pending" && op.Op == "connect" {
				t.active[op.C]++
			}
			t.state[k] = "pending"
		}
	case "release":
		for kk, st := range t.state {
			parts := strings.SplitN(kk, "|", 2)
			if parts[1] != nn || st != "pending" {
				continue
			}
			if op.Ok {
				t.state[kk] = "connected"
				if t.rooms[kk] == nil {
					t.rooms[kk] = map[string]bool{}
				}
				t.rooms[kk]["r1"] = true // joined by the gating middleware
			} else {
				t.state[kk] = "dead"
				var c int
				fmt.Sscanf(parts[0], "%d", &c)
				if sc.Conns[c] == "mgr" {
					t.active[c]--
				}
			}
		}
	case "join":
		if t.state[k] == "connected" {
			if t.rooms[k] == nil {
				t.rooms[k] = map[string]bool{}
			}
			t.rooms[k][op.Room] = true
		}
	case "cdisc", "sdisc":
		if t.state[k] == "connected" || t.state[k] == "pending" {
			if sc.Conns[op.C] == "mgr" {
				t.active[op.C]--
			}
			if t.state[k] == "pending" {
				t.state[k] = "dead" // the held CONNECT will still be answered; do not reuse this socket
			} else {
				t.state[k] = ""
			}
			delete(t.rooms, k)
		}
	}
	for c := range t.dead {
		for kk := range t.state {
			if strings.HasPrefix(kk, fmt.Sprintf("%d|", c)) {
				t.state[kk] = "dead"
			}
		}
	}
}

// ------------------------------------------------------------------ scenario generation

var nsNamePool = []string{"/", "", "/a", "/a/b", "/ab", "/b", "a"}

func genScenario(rng *vk.Rand, id string, nops int, withRaw bool, tr string) *nsScenario {
	sc := &nsScenario{ID: id, Tr: tr}
	// 2-4 server namespaces, look-alike names preferred; "" , "/" and "a", "/a" are the same namespace
	perm := []string{"/", "/a", "/a/b", "/ab", "/b"}
	for i := len(perm) - 1; i > 0; i-- {
		j := rng.Intn(i + 1)
		perm[i], perm[j] = perm[j], perm[i]
	}
	k := 2 + rng.Intn(3)
	sc.Names = append(sc.Names, perm[:k]...)
	sort.Strings(sc.Names)
	for range sc.Names {
		sc.Gated = append(sc.Gated, rng.Intn(3) == 0)
	}
	nconn := 1 + rng.Intn(3)
	for c := 0; c < nconn; c++ {
		if withRaw && (c == 0 || rng.Intn(3) == 0) {
			sc.Conns = append(sc.Conns, "raw")
		} else {
			sc.Conns = append(sc.Conns, "mgr")
		}
	}
	return sc
}

// spelled returns one of the spellings a client may use for the server namespace nn.
func spelled(rng *vk.Rand, nn string) string {
	switch {
	case nn == "/" && rng.Bool():
		return ""
	case nn != "/" && !strings.Contains(nn[1:], "/") && rng.Intn(4) == 0:
		return nn[1:] // Manager.Socket("a") means "/a"
	}
	return nn
}

func namespacesMain(args []string) error {
	fs := flag.NewFlagSet("namespaces", flag.ExitOnError)
	seed := fs.Uint64("seed", 1, "")
	n := fs.Int("n", 10, "number of scenarios")
	nops := fs.Int("ops", 30, "max operations per scenario")
	mode := fs.String("mode", "live", "live|raw|script")
	script := fs.String("script", "", "JSON scenario (mode script)")
	par := fs.Int("par", 4, "scenarios run in parallel")
	outp := fs.String("out", "-", "")
	fs.Parse(args)
	out, err := vk.NewOut(*outp)
	if err != nil {
		return err
	}
	defer out.Close()

	if *mode == "burst" {
		burstMain(*seed, *n, *nops, out)
		return nil
	}
	if *mode == "script" {
		var sc nsScenario
		if err := json.Unmarshal([]byte(*script), &sc); err != nil {
			return err
		}
		runScripted(&sc)
		out.Put(sc)
		return nil
	}

	rng := vk.NewRand(*seed)
	type job struct {
		i   int
		rng *vk.Rand
	}
	jobs := make(chan job)
	var wg sync.WaitGroup
	for w := 0; w < *par; w++ {
		wg.Add(1)
		go func() {
			defer wg.Done()
			for j := range jobs {
				tr := "websocket"
				if j.rng.Intn(4) == 0 {
					tr = "polling"
				}
				sc := genScenario(j.rng, fmt.Sprintf("%s-%d-%d", *mode, *seed, j.i), *nops, *mode == "raw", tr)
				runGenerated(sc, j.rng, *nops, *mode == "raw")
				out.Put(sc)
			}
		}()
	}
	for i := 0; i < *n; i++ {
		jobs <- job{i, rng.Fork()}
	}
	close(jobs)
	wg.Wait()
	return nil
}

func newTrack() *nsTrack {
	return &nsTrack{state: map[string]string{}, dead: map[int]bool{}, rooms: map[string]map[string]bool{}, active: map[int]int{}, used: map[int]bool{}}
}

func (r *nsRig) openConns(sc *nsScenario) error {
	for c, kind := range sc.Conns {
		if kind == "mgr" {
			r.addManager(c, sc.Tr)
		} else if err := r.addRaw(c, sc.Tr); err != nil {
			return err
		}
	}
	return nil
}

// runScripted executes a fixed operation list (corpus / forced scenarios / replays).
func runScripted(sc *nsScenario) {
	r := newNsRig(sc.Names, sc.Gated)
	defer r.close()
	if sc.Tr == "" {
		sc.Tr = "websocket"
	}
	if err := r.openConns(sc); err != nil {
		sc.Err = err.Error()
		return
	}
	t := newTrack()
	r.run(sc, t)
	r.mu.Lock()
	sc.Obs = append([]nsObs{}, r.obs...)
	r.mu.Unlock()
}

// runGenerated draws operations one at a time from the driver's belief, so that most of them are
// meaningful (emits on connected sockets, disconnects of connected sockets, ...), and executes
// each before drawing the next.
func runGenerated(sc *nsScenario, rng *vk.Rand, nops int, rawHeavy bool) {
	r := newNsRig(sc.Names, sc.Gated)
	defer r.close()
	if err := r.openConns(sc); err != nil {
		sc.Err = err.Error()
		return
	}
	t := newTrack()
	tag := 0
	one := &nsScenario{Conns: sc.Conns, Names: sc.Names, Gated: sc.Gated}
	foreign := []string{"/zz", "/a/", "/A", "/a/b/c", "/abc", "/a?x=1", "/b?", "/a#b", "/ab ", "/a;b"}
	for step := 0; step < nops; step++ {
		live := []int{}
		for c := range sc.Conns {
			if !t.dead[c] {
				live = append(live, c)
			}
		}
		if len(live) == 0 {
			break
		}
		c := live[rng.Intn(len(live))]
		nn := sc.Names[rng.Intn(len(sc.Names))]
		k := key(c, normNsp(nn))
		st := t.state[k]
		var op *nsOp
		tag++
		pendingHeld := func(n string) bool {
			r.mu.Lock()
			defer r.mu.Unlock()
			return len(r.held[normNsp(n)]) > 0
		}
		if sc.Conns[c] == "mgr" {
			sp := spelled(rng, nn)
			switch x := rng.Intn(20); {
			case st == "" && x < 14:
				op = &nsOp{Op: "connect", C: c, N: sp}
			case st == "" && x < 16:
				op = &nsOp{Op: "cemit", C: c, N: sp, Tag: tag, Ack: rng.Bool()} // offline emit: buffered
			case st == "pending" && x < 8 && pendingHeld(nn):
				op = &nsOp{Op: "release", N: nn, Ok: rng.Intn(4) != 0}
			case st == "pending" && x < 10:
				op = &nsOp{Op: "cemit", C: c, N: sp, Tag: tag, Ack: rng.Bool()} // emit before the CONNECT reply
			case st == "pending" && x < 16:
				// broadcast into the namespace (or the room the middleware put the socket in) while the CONNECT is held
				op = &nsOp{Op: "bcast", N: nn, Tag: tag, Room: []string{"", "r1", "r1"}[rng.Intn(3)]}
			case st == "connected" && x < 5:
				op = &nsOp{Op: "cemit", C: c, N: sp, Tag: tag, Ack: rng.Bool()}
			case st == "connected" && x < 9:
				op = &nsOp{Op: "semit", C: c, N: nn, Tag: tag, Ack: rng.Bool()}
			case st == "connected" && x < 11:
				op = &nsOp{Op: "join", C: c, N: nn, Room: []string{"r1", "r2"}[rng.Intn(2)]}
			case st == "connected" && x < 14:
				op = &nsOp{Op: "bcast", N: nn, Tag: tag, Room: []string{"", "r1", "r2"}[rng.Intn(3)]}
			case st == "connected" && x < 16:
				op = &nsOp{Op: "sbcast", C: c, N: nn, Tag: tag, Room: []string{"", "r1"}[rng.Intn(2)]}
			case st == "connected" && x < 18 && t.active[c] > 1:
				op = &nsOp{Op: "cdisc", C: c, N: sp}
			case st == "connected" && x < 20 && t.active[c] > 1:
				op = &nsOp{Op: "sdisc", C: c, N: nn}
			case x == 19 && rng.Intn(3) == 0 && st == "":
				op = &nsOp{Op: "connect", C: c, N: foreign[rng.Intn(len(foreign))]} // not created on the server
			}
		} else {
			switch x := rng.Intn(20); {
			case st == "" && x < 9:
				op = &nsOp{Op: "rconnect", C: c, N: spelledRaw(rng, nn)}
			case st == "pending" && x < 8 && pendingHeld(nn):
				op = &nsOp{Op: "release", N: nn, Ok: rng.Intn(4) != 0}
			case st == "pending" && x < 14:
				op = &nsOp{Op: "bcast", N: nn, Tag: tag, Room: []string{"", "r1", "r1"}[rng.Intn(3)]}
			case st == "connected" && x < 5:
				id := -1
				if rng.Bool() {
					id = rng.Intn(5)
				}
				op = &nsOp{Op: "rsend", C: c, N: spelledRaw(rng, nn), Ty: []int{2, 2, 2, 5}[rng.Intn(4)], ID: id, Tag: tag}
			case st == "connected" && x < 8:
				op = &nsOp{Op: "semit", C: c, N: nn, Tag: tag, Ack: rng.Bool()}
			case st == "connected" && x < 10:
				op = &nsOp{Op: "rsend", C: c, N: spelledRaw(rng, nn), Ty: 3, ID: rng.Intn(3), Tag: tag} // ACK (maybe for a pending server emit)
			case st == "connected" && x < 12:
				op = &nsOp{Op: "bcast", N: nn, Tag: tag}
			case st == "connected" && x < 13:
				op = &nsOp{Op: "rsend", C: c, N: spelledRaw(rng, nn), Ty: 1, ID: -1} // DISCONNECT of a joined namespace
			case rawHeavy && x >= 13 && (step > 3 || x >= 18):
				// the probe: a packet for a namespace this connection has not joined (or CONNECT /
				// CONNECT_ERROR for one it has)
				ty := []int{2, 2, 3, 1, 5, 6, 4, 0}[rng.Intn(8)]
				target := nn
				if rng.Intn(4) == 0 {
					target = foreign[rng.Intn(len(foreign))]
				}
				if ty == 0 && t.state[key(c, normNsp(target))] != "connected" {
					ty = 2
				}
				id := -1
				if ty == 3 || ty == 6 || rng.Intn(3) == 0 {
					id = rng.Intn(3)
				}
				if ty == 0 || ty == 1 || ty == 4 {
					id = -1
				}
				op = &nsOp{Op: "rsend", C: c, N: target, Ty: ty, ID: id, Tag: tag}
			}
		}
		if op == nil {
			continue
		}
		sc.Ops = append(sc.Ops, *op)
		one.Ops = sc.Ops
		// run only the new operation (index len-1) with the persistent rig
		r.runOne(one, t, len(sc.Ops)-1)
	}
	time.Sleep(120 * time.Millisecond)
	r.mu.Lock()
	sc.Obs = append([]nsObs{}, r.obs...)
	r.mu.Unlock()
}

func spelledRaw(rng *vk.Rand, nn string) string {
	if nn == "/" && rng.Bool() {
		return "" // on the wire "/" is omitted anyway; rawPacket treats both alike
	}
	return nn
}

// runOne executes operation i of sc.
func (r *nsRig) runOne(sc *nsScenario, t *nsTrack, i int) {
	sub := &nsScenario{Conns: sc.Conns, Names: sc.Names, Gated: sc.Gated, Ops: make([]nsOp, i+1)}
	copy(sub.Ops, sc.Ops[:i+1])
	r.runFrom(sub, t, i)
}

// ------------------------------------------------------------------ burst mode
//
// Concurrent emitters of several namespaces on ONE connection, both directions at once, text events
// and events with binary attachments mixed.  Every argument that reaches a handler is decoded back
// to (direction, namespace, emitter, sequence, position) so that the oracle can attribute every
// delivered argument -- attachment bytes included -- to one emit of the handler's own namespace.

type nsBurst struct {
	ID     string   `json:"id"`
	Mode   string   `json:"mode"`
	Names  []string `json:"names"`
	Tr     string   `json:"tr"`
	Em     int      `json:"em"`     // emitters per (direction, namespace)
	Rounds int      `json:"rounds"` // events per emitter
	Bcast  bool     `json:"bcast"`  // emitter 0 of each namespace uses Namespace.Emit instead of socket.Emit
	// deliveries: [srv, handlerNs, kind(0 text,1 binary), ns, em, seq, then 5 numbers per argument: dir ns em seq k]
	Del    [][]int `json:"del"`
	Closed bool    `json:"closed"`
	Reason string  `json:"reason"`
	Err    string  `json:"err,omitempty"`
}

const burstAtts = 3

func burstBlob(dir, ns, em, seq, k int) sio.Binary {
	b := make([]byte, 24)
	b[0], b[1], b[2], b[3], b[4], b[5], b[6] = 0xFE, byte(dir), byte(ns), byte(em), byte(seq>>8), byte(seq), byte(k)
	for i := 7; i < len(b); i++ {
		b[i] = byte(i*7 + seq)
	}
	return b
}

// burstOwner decodes an argument back to its owner; anything else is "foreign" (dir 9).
func burstOwner(b []byte) []int {
	if len(b) == 24 && b[0] == 0xFE {
		seq := int(b[4])<<8 | int(b[5])
		ok := true
		for i := 7; i < len(b); i++ {
			if b[i] != byte(i*7+seq) {
				ok = false
			}
		}
		if ok {
			return []int{int(b[1]), int(b[2]), int(b[3]), seq, int(b[6])}
		}
	}
	return []int{9, 0, 0, 0, 0}
}

func burstNote(dir, ns, em, seq int) string { return fmt.Sprintf("note:%d:%d:%d:%d", dir, ns, em, seq) }

func burstNoteOwner(s string) []int {
	var dir, ns, em, seq int
	if n, err := fmt.Sscanf(s, "note:%d:%d:%d:%d", &dir, &ns, &em, &seq); err == nil && n == 4 && s == burstNote(dir, ns, em, seq) {
		return []int{dir, ns, em, seq, 8}
	}
	return []int{9, 0, 0, 0, 0}
}

func runBurst(sc *nsBurst) {
	var (
		mu   sync.Mutex
		cond = sync.NewCond(&mu)
		del  [][]int
	)
	rec := func(row []int) {
		mu.Lock()
		del = append(del, row)
		mu.Unlock()
		cond.Broadcast()
	}
	idx := map[string]int{}
	for i, n := range sc.Names {
		idx[normNsp(n)] = i
	}
	register := func(srv int, hns int, on func(string, any)) {
		on("t", func(ns, em, seq int, s string) {
			rec(append([]int{srv, hns, 0, ns, em, seq}, burstNoteOwner(s)...))
		})
		on("b", func(ns, em, seq int, a0, a1, a2 sio.Binary) {
			row := []int{srv, hns, 1, ns, em, seq}
			for _, a := range []sio.Binary{a0, a1, a2} {
				row = append(row, burstOwner(a)...)
			}
			rec(row)
		})
	}

	cfg := &sio.ServerConfig{}
	cfg.EIO.WebSocketAcceptOptions = &websocket.AcceptOptions{CompressionMode: websocket.CompressionDisabled}
	srv := sio.NewServer(cfg)
	ssock := make([]sio.ServerSocket, len(sc.Names))
	for _, n := range sc.Names {
		nsp := srv.Of(n)
		hns := idx[normNsp(n)]
		nsp.Use(func(socket sio.ServerSocket, hs *sio.Handshake) any {
			register(1, hns, socket.OnEvent)
			return nil
		})
		nsp.OnConnection(func(socket sio.ServerSocket) {
			mu.Lock()
			ssock[hns] = socket
			mu.Unlock()
			cond.Broadcast()
		})
	}
	if err := srv.Run(); err != nil {
		sc.Err = err.Error()
		return
	}
	ts := httptest.NewServer(srv)
	defer ts.Close()
	defer srv.Close()

	mcfg := &sio.ManagerConfig{NoReconnection: true}
	mcfg.EIO.Transports = []string{sc.Tr}
	mcfg.EIO.WebSocketDialOptions = &websocket.DialOptions{CompressionMode: websocket.CompressionDisabled}
	m := sio.NewManager(ts.URL, mcfg)
	defer m.Close()
	var closed bool
	var reason string
	m.OnClose(func(r sio.Reason, err error) {
		mu.Lock()
		if !closed {
			closed, reason = true, string(r)
		}
		mu.Unlock()
		cond.Broadcast()
	})
	csock := make([]sio.ClientSocket, len(sc.Names))
	connected := 0
	for i, n := range sc.Names {
		s := m.Socket(n, nil)
		csock[i] = s
		register(0, i, s.OnEvent)
		s.OnConnect(func() {
			mu.Lock()
			connected++
			mu.Unlock()
			cond.Broadcast()
		})
		s.Connect()
	}
	waitUntil := func(d time.Duration, pred func() bool) bool {
		deadline := time.Now().Add(d)
		stop := make(chan struct{})
		defer close(stop)
		go func() {
			t := time.NewTicker(20 * time.Millisecond)
			defer t.Stop()
			for {
				select {
				case <-t.C:
					cond.Broadcast()
				case <-stop:
					return
				}
			}
		}()
		mu.Lock()
		defer mu.Unlock()
		for !pred() {
			if time.Now().After(deadline) {
				return false
			}
			cond.Wait()
		}
		return true
	}
	allUp := func() bool {
		if connected < len(sc.Names) {
			return false
		}
		for _, s := range ssock {
			if s == nil {
				return false
			}
		}
		return true
	}
	if !waitUntil(10*time.Second, allUp) {
		sc.Err = "namespaces did not connect"
		return
	}
	time.Sleep(nsSettle)

	start := make(chan struct{})
	var wg sync.WaitGroup
	emit := func(dir, ns, em int) {
		defer wg.Done()
		<-start
		for seq := 0; seq < sc.Rounds; seq++ {
			mu.Lock()
			dead := closed
			mu.Unlock()
			if dead {
				return
			}
			var args []any
			name := "t"
			if (seq+em+ns)%2 == 0 {
				name = "b"
				args = []any{ns, em, seq}
				for k := 0; k < burstAtts; k++ {
					args = append(args, burstBlob(dir, ns, em, seq, k))
				}
			} else {
				args = []any{ns, em, seq, burstNote(dir, ns, em, seq)}
			}
			switch {
			case dir == 1 && sc.Bcast && em == 0:
				srv.Of(sc.Names[ns]).Emit(name, args...)
			case dir == 1:
				ssock[ns].Emit(name, args...)
			default:
				csock[ns].Emit(name, args...)
			}
		}
	}
	for dir := 0; dir < 2; dir++ {
		for ns := range sc.Names {
			for em := 0; em < sc.Em; em++ {
				wg.Add(1)
				go emit(dir, ns, em)
			}
		}
	}
	close(start)
	wg.Wait()
	want := 2 * len(sc.Names) * sc.Em * sc.Rounds
	waitUntil(15*time.Second, func() bool { return closed || len(del) >= want })
	time.Sleep(100 * time.Millisecond)
	mu.Lock()
	sc.Del = append([][]int{}, del...)
	sc.Closed, sc.Reason = closed, reason
	mu.Unlock()
}

func burstMain(seed uint64, n int, rounds int, out *vk.Out) {
	rng := vk.NewRand(seed)
	pool := [][]string{{"/a", "/ab"}, {"/", "/a", "/a/b"}, {"/a", "/b"}, {"", "/ab", "/b"}}
	for i := 0; i < n; i++ {
		sc := &nsBurst{ID: fmt.Sprintf("burst-%d-%d", seed, i), Mode: "burst", Names: pool[rng.Intn(len(pool))],
			Tr: "websocket", Em: 2 + rng.Intn(2), Rounds: rounds, Bcast: rng.Bool()}
		if rng.Intn(4) == 0 {
			sc.Tr = "polling"
		}
		runBurst(sc)
		out.Put(sc)
	}
}
