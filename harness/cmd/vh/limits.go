package main

// limits: live rig for the limit decisions of C13 (every transport, both directions).
//
// One real eio.Server per configuration (MaxBufferSize / DisableMaxBufferSize) behind a real
// net/http server on 127.0.0.1:0.  Peers: raw HTTP/1.1 over TCP (POST with Content-Length, chunked
// POST without a declared size), raw WebSocket (nhooyr Dial with an unlimited reader), and the real
// eio client (polling, websocket, polling->websocket upgrade).  One JSON line per case:
//
//   {"max":M,"dis":B,"ann":A,"tr":"post-cl|post-chunked|ws|poll","dir":"c2s|s2c","peer":"raw|eio|eio-upgrade",
//    "size":N,"status":S,"delivered":D,"closed":B,"alive":B,"read":R, ...informational fields}
//
// size      = bytes of the message on the wire (POST body / WebSocket message / encoded packet)
// ann       = maxPayload announced in the OPEN packet of this session
// status    = HTTP status of the POST (-1 when not a POST)
// delivered = wire size of the message the receiver's OnPacket callback got (-1: nothing delivered)
// closed    = the receiving side reported the session closed
// alive     = a small follow-up message sent after the probe was delivered
// read      = bytes the engine.io handler pulled from the request body (-1 when not a raw POST)

import (
	"bufio"
	"bytes"
	"context"
	"crypto/ecdsa"
	"crypto/elliptic"
	"crypto/rand"
	"crypto/tls"
	"crypto/x509"
	"crypto/x509/pkix"
	"encoding/json"
	"encoding/pem"
	"flag"
	"fmt"
	"io"
	"math/big"
	"net"
	"net/http"
	"os"
	"path/filepath"
	"sort"
	"strconv"
	"strings"
	"sync"
	"sync/atomic"
	"time"

	eio "github.com/karagenc/socket.io-go/engine.io"
	"github.com/karagenc/socket.io-go/engine.io/parser"
	"github.com/quic-go/webtransport-go"
	"nhooyr.io/websocket"

	"verifharness/vk"
)

func init() { register("limits", limitsMain) }

type limCase struct {
	Max       int64  `json:"max"`
	Dis       bool   `json:"dis"`
	Ann       int64  `json:"ann"`
	Tr        string `json:"tr"`
	Dir       string `json:"dir"`
	Peer      string `json:"peer"`
	Size      int64  `json:"size"`
	Status    int    `json:"status"`
	Delivered int64  `json:"delivered"`
	Closed    bool   `json:"closed"`
	Alive     bool   `json:"alive"`
	Read      int64  `json:"read"`
	// informational (never compared)
	Reason    string `json:"reason,omitempty"`
	CloseCode int    `json:"close_code,omitempty"`
	SentAtRsp int64  `json:"sent_at_response,omitempty"`
	Endless   bool   `json:"endless,omitempty"`
	Retried   bool   `json:"retried,omitempty"`
	Variant   string `json:"variant,omitempty"` // jsonp | binary | fragmented | random-size | sweep
	Err       string `json:"err,omitempty"`
	Ms        int64  `json:"ms"`
}

// ---------------------------------------------------------------- server side bookkeeping

type sessRec struct {
	mu     sync.Mutex
	msgs   []int64 // wire sizes (1+len(data)) of MESSAGE packets handed to OnPacket
	closed bool
	reason string
	sock   eio.ServerSocket
	notify chan struct{} // poked on every change
}

func (s *sessRec) poke() {
	select {
	case s.notify <- struct{}{}:
	default:
	}
}

func (s *sessRec) snapshot() (msgs []int64, closed bool, reason string) {
	s.mu.Lock()
	defer s.mu.Unlock()
	return append([]int64{}, s.msgs...), s.closed, s.reason
}

// waitFor polls cond (under the lock) until it holds or the deadline passes.
func (s *sessRec) waitFor(d time.Duration, cond func() bool) bool {
	deadline := time.After(d)
	for {
		s.mu.Lock()
		ok := cond()
		s.mu.Unlock()
		if ok {
			return true
		}
		select {
		case <-s.notify:
		case <-time.After(20 * time.Millisecond):
		case <-deadline:
			s.mu.Lock()
			ok := cond()
			s.mu.Unlock()
			return ok
		}
	}
}

type limRig struct {
	max      int64
	dis      bool
	srv      *eio.Server
	hs       *http.Server
	ln       net.Listener
	base     string // http://127.0.0.1:port
	mu       sync.Mutex
	sess     map[string]*sessRec
	bodyRead sync.Map // X-Vreq -> *int64
	httpc    *http.Client
	wt       *webtransport.Server // non-nil: HTTPS + HTTP/3 (WebTransport) rig
	tmp      string
}

type countingBody struct {
	rc io.ReadCloser
	n  *int64
}

func (c *countingBody) Read(p []byte) (int, error) {
	n, err := c.rc.Read(p)
	atomic.AddInt64(c.n, int64(n))
	return n, err
}
func (c *countingBody) Close() error { return c.rc.Close() }

func (r *limRig) rec(sid string) *sessRec {
	r.mu.Lock()
	defer r.mu.Unlock()
	s := r.sess[sid]
	if s == nil {
		s = &sessRec{notify: make(chan struct{}, 1)}
		r.sess[sid] = s
	}
	return s
}

func wireSize(p *parser.Packet) int64 {
	if p.IsBinary {
		return int64(len(p.Data))
	}
	return int64(1 + len(p.Data))
}

func newLimRig(max int64, dis bool, wt bool) (*limRig, error) {
	r := &limRig{max: max, dis: dis, sess: map[string]*sessRec{}, httpc: plainClient}
	onSocket := func(sock eio.ServerSocket) *eio.Callbacks {
		s := r.rec(sock.ID())
		s.mu.Lock()
		s.sock = sock
		s.mu.Unlock()
		return &eio.Callbacks{
			OnPacket: func(packets ...*parser.Packet) {
				s.mu.Lock()
				for _, p := range packets {
					if p.Type == parser.PacketTypeMessage {
						s.msgs = append(s.msgs, wireSize(p))
					}
				}
				s.mu.Unlock()
				s.poke()
			},
			OnClose: func(reason eio.Reason, err error) {
				s.mu.Lock()
				s.closed = true
				s.reason = string(reason)
				s.mu.Unlock()
				s.poke()
			},
		}
	}
	scfg := &eio.ServerConfig{MaxBufferSize: max, DisableMaxBufferSize: dis}
	if wt {
		r.wt = &webtransport.Server{}
		scfg.WebTransportServer = r.wt
	}
	r.srv = eio.NewServer(onSocket, scfg)
	if err := r.srv.Run(); err != nil {
		return nil, err
	}
	ln, err := net.Listen("tcp", "127.0.0.1:0")
	if err != nil {
		return nil, err
	}
	r.ln = ln
	r.base = "http://" + ln.Addr().String()
	if wt {
		// as the repository's own WebTransport test: HTTPS on TCP and HTTP/3 on UDP, same port
		dir, certFile, keyFile, cert, err := selfSigned()
		if err != nil {
			return nil, err
		}
		r.tmp = dir
		r.ln = tls.NewListener(ln, &tls.Config{Certificates: []tls.Certificate{cert}})
		r.base = "https://" + ln.Addr().String()
		r.httpc = &http.Client{Transport: &http.Transport{DisableKeepAlives: true,
			TLSClientConfig: &tls.Config{InsecureSkipVerify: true}}, Timeout: 20 * time.Second}
		r.wt.H3.Addr = ln.Addr().String()
		r.wt.H3.Handler = r.srv
		go r.wt.ListenAndServeTLS(certFile, keyFile)
	}
	r.hs = &http.Server{Handler: http.HandlerFunc(func(w http.ResponseWriter, req *http.Request) {
		if id := req.Header.Get("X-Vreq"); id != "" && req.Body != nil {
			n := new(int64)
			r.bodyRead.Store(id, n)
			req.Body = &countingBody{rc: req.Body, n: n}
		}
		r.srv.ServeHTTP(w, req)
	})}
	go r.hs.Serve(r.ln)
	return r, nil
}

func (r *limRig) close() {
	r.srv.Close()
	r.hs.Close()
	if r.wt != nil {
		r.wt.Close()
		os.RemoveAll(r.tmp)
	}
}

// selfSigned writes a throw-away certificate for 127.0.0.1 to a temp dir.
func selfSigned() (dir, certFile, keyFile string, cert tls.Certificate, err error) {
	key, err := ecdsa.GenerateKey(elliptic.P256(), rand.Reader)
	if err != nil {
		return
	}
	tmpl := &x509.Certificate{
		SerialNumber: big.NewInt(time.Now().UnixNano()),
		Subject:      pkix.Name{CommonName: "verif"},
		NotBefore:    time.Now().Add(-time.Hour),
		NotAfter:     time.Now().Add(24 * time.Hour),
		KeyUsage:     x509.KeyUsageDigitalSignature,
		ExtKeyUsage:  []x509.ExtKeyUsage{x509.ExtKeyUsageServerAuth},
		IPAddresses:  []net.IP{net.ParseIP("127.0.0.1")},
		DNSNames:     []string{"localhost"},
	}
	der, err := x509.CreateCertificate(rand.Reader, tmpl, tmpl, &key.PublicKey, key)
	if err != nil {
		return
	}
	kder, err := x509.MarshalECPrivateKey(key)
	if err != nil {
		return
	}
	certPEM := pem.EncodeToMemory(&pem.Block{Type: "CERTIFICATE", Bytes: der})
	keyPEM := pem.EncodeToMemory(&pem.Block{Type: "EC PRIVATE KEY", Bytes: kder})
	if cert, err = tls.X509KeyPair(certPEM, keyPEM); err != nil {
		return
	}
	if dir, err = os.MkdirTemp("", "vh-limits-"); err != nil {
		return
	}
	certFile, keyFile = filepath.Join(dir, "cert.pem"), filepath.Join(dir, "key.pem")
	if err = os.WriteFile(certFile, certPEM, 0o600); err != nil {
		return
	}
	err = os.WriteFile(keyFile, keyPEM, 0o600)
	return
}

func (r *limRig) url(tr, sid string) string {
	u := r.base + "/engine.io/?EIO=4&transport=" + tr
	if sid != "" {
		u += "&sid=" + sid
	}
	return u
}

var vreqSeq int64

// ---------------------------------------------------------------- raw polling peer

var plainClient = &http.Client{Transport: &http.Transport{DisableKeepAlives: true}, Timeout: 20 * time.Second}

func (r *limRig) pollingHandshake() (sid string, ann int64, err error) {
	resp, err := r.httpc.Get(r.url("polling", ""))
	if err != nil {
		return "", 0, err
	}
	defer resp.Body.Close()
	b, _ := io.ReadAll(resp.Body)
	if resp.StatusCode != 200 || len(b) < 2 || b[0] != '0' {
		return "", 0, fmt.Errorf("bad handshake: %d %q", resp.StatusCode, b)
	}
	var hr parser.HandshakeResponse
	if err := json.Unmarshal(b[1:], &hr); err != nil {
		return "", 0, err
	}
	return hr.SID, hr.MaxPayload, nil
}

// followUp posts a small message with Content-Length and reports whether the server took it.
func (r *limRig) followUp(sid string, s *sessRec) bool {
	resp, err := r.httpc.Post(r.url("polling", sid), "text/plain", strings.NewReader("4ok"))
	if err != nil {
		return false
	}
	io.Copy(io.Discard, resp.Body)
	resp.Body.Close()
	if resp.StatusCode != 200 {
		return false
	}
	return s.waitFor(8*time.Second, func() bool {
		for _, m := range s.msgs {
			if m == 3 {
				return true
			}
		}
		return false
	})
}

func firstProbe(msgs []int64) int64 {
	for _, m := range msgs {
		if m != 3 {
			return m
		}
	}
	return -1
}

// rawPost sends one POST over a fresh TCP connection.  chunked: no declared size.  endless: keep
// writing chunks until the response arrives (or cap bytes were written).
func (r *limRig) rawPost(size int64, chunked, endless, jsonp bool) (c limCase) {
	t0 := time.Now()
	c = limCase{Max: r.max, Dis: r.dis, Dir: "c2s", Peer: "raw", Size: size, Status: -1, Delivered: -1, Read: -1, Endless: endless}
	if chunked {
		c.Tr = "post-chunked"
	} else {
		c.Tr = "post-cl"
	}
	// JSONP: the payload travels as the form field d; the body is "d=" + payload (size bytes in all)
	first, ctype, query := "4", "text/plain; charset=UTF-8", ""
	if jsonp {
		c.Variant = "jsonp"
		first, ctype, query = "d=4", "application/x-www-form-urlencoded", "&j=0"
	}
	defer func() { c.Ms = time.Since(t0).Milliseconds() }()
	sid, ann, err := r.pollingHandshake()
	if err != nil {
		c.Err = "handshake: " + err.Error()
		return
	}
	c.Ann = ann
	s := r.rec(sid)
	conn, err := net.Dial("tcp", r.ln.Addr().String())
	if err != nil {
		c.Err = "dial: " + err.Error()
		return
	}
	defer conn.Close()
	conn.SetDeadline(time.Now().Add(30 * time.Second))
	vreq := strconv.FormatInt(atomic.AddInt64(&vreqSeq, 1), 10)
	head := "POST /engine.io/?EIO=4&transport=polling&sid=" + sid + query + " HTTP/1.1\r\nHost: verif\r\n" +
		"Content-Type: " + ctype + "\r\nX-Vreq: " + vreq + "\r\n"
	nfirst := int64(len(first))
	var sent int64
	responded := make(chan struct{})
	go func() {
		w := bufio.NewWriterSize(conn, 16384)
		if !chunked {
			w.WriteString(head + "Content-Length: " + strconv.FormatInt(size, 10) + "\r\n\r\n")
			w.WriteString(first)
			left := size - nfirst
			blk := bytes.Repeat([]byte{'a'}, 8192)
			for left > 0 {
				n := int64(len(blk))
				if n > left {
					n = left
				}
				atomic.AddInt64(&sent, n)
				if _, err := w.Write(blk[:n]); err != nil {
					return
				}
				left -= n
			}
			w.Flush()
			return
		}
		w.WriteString(head + "Transfer-Encoding: chunked\r\n\r\n")
		fmt.Fprintf(w, "%x\r\n%s\r\n", nfirst, first)
		atomic.AddInt64(&sent, nfirst)
		left := size - nfirst
		blk := bytes.Repeat([]byte{'a'}, 4096)
		for left > 0 {
			if endless {
				select {
				case <-responded:
					return
				default:
				}
			}
			n := int64(len(blk))
			if n > left {
				n = left
			}
			atomic.AddInt64(&sent, n) // counted before it is pushed: sent >= what the server can have read
			fmt.Fprintf(w, "%x\r\n", n)
			w.Write(blk[:n])
			if _, err := w.WriteString("\r\n"); err != nil {
				return
			}
			if endless {
				if err := w.Flush(); err != nil {
					return
				}
			}
			left -= n
		}
		w.WriteString("0\r\n\r\n")
		w.Flush()
	}()
	resp, err := http.ReadResponse(bufio.NewReader(conn), nil)
	c.SentAtRsp = atomic.LoadInt64(&sent)
	close(responded)
	if err != nil {
		c.Err = "response: " + err.Error()
	} else {
		c.Status = resp.StatusCode
		io.Copy(io.Discard, io.LimitReader(resp.Body, 1<<16))
		resp.Body.Close()
	}
	if endless {
		// what the sender had pushed when the answer came replaces the nominal size
		c.Size = atomic.LoadInt64(&sent)
	}
	if c.Status != 200 {
		s.waitFor(8*time.Second, func() bool { return s.closed })
	}
	if v, ok := r.bodyRead.Load(vreq); ok {
		c.Read = atomic.LoadInt64(v.(*int64))
	}
	c.Alive = r.followUp(sid, s)
	msgs, closed, reason := s.snapshot()
	c.Delivered = firstProbe(msgs)
	if jsonp && c.Delivered >= 0 {
		c.Delivered += 2 // the form prefix "d=" is part of the body, not of the payload
	}
	c.Closed, c.Reason = closed, reason
	return
}

// ---------------------------------------------------------------- raw websocket peer (client -> server)

func (r *limRig) rawWS(size int64, frag bool) (c limCase) {
	t0 := time.Now()
	c = limCase{Max: r.max, Dis: r.dis, Tr: "ws", Dir: "c2s", Peer: "raw", Size: size, Status: -1, Delivered: -1, Read: -1}
	defer func() { c.Ms = time.Since(t0).Milliseconds() }()
	ctx, cancel := context.WithTimeout(context.Background(), 30*time.Second)
	defer cancel()
	conn, _, err := websocket.Dial(ctx, strings.Replace(r.url("websocket", ""), "http://", "ws://", 1), nil)
	if err != nil {
		c.Err = "dial: " + err.Error()
		return
	}
	defer conn.CloseNow()
	conn.SetReadLimit(-1)
	_, b, err := conn.Read(ctx)
	if err != nil || len(b) < 2 || b[0] != '0' {
		c.Err = fmt.Sprintf("open: %v %q", err, b)
		return
	}
	var hr parser.HandshakeResponse
	if err := json.Unmarshal(b[1:], &hr); err != nil {
		c.Err = "open: " + err.Error()
		return
	}
	c.Ann = hr.MaxPayload
	s := r.rec(hr.SID)
	closeCode := make(chan int, 1)
	go func() {
		for {
			_, _, err := conn.Read(ctx)
			if err != nil {
				closeCode <- int(websocket.CloseStatus(err))
				return
			}
		}
	}()
	msg := append([]byte{'4'}, bytes.Repeat([]byte{'a'}, int(size-1))...)
	if frag {
		// one message in several frames (every Write of the message writer is a frame)
		c.Variant = "fragmented"
		if w, err := conn.Writer(ctx, websocket.MessageText); err == nil {
			for off, k := 0, 0; off < len(msg); off, k = off+k, 0 {
				k = 1 + (off*7+3)%4096
				if off+k > len(msg) {
					k = len(msg) - off
				}
				if _, err := w.Write(msg[off : off+k]); err != nil {
					break
				}
			}
			w.Close()
		}
	} else if err := conn.Write(ctx, websocket.MessageText, msg); err != nil {
		// refused while being written: the observation below tells how it ended
		c.Reason = "write: " + err.Error()
	}
	// follow-up (may fail when the server has closed the connection: that is the observation)
	conn.Write(ctx, websocket.MessageText, []byte("4ok"))
	s.waitFor(10*time.Second, func() bool {
		if s.closed {
			return true
		}
		for _, m := range s.msgs {
			if m == 3 {
				return true
			}
		}
		return false
	})
	msgs, closed, reason := s.snapshot()
	c.Delivered = firstProbe(msgs)
	c.Closed, c.Reason = closed, reason
	for _, m := range msgs {
		if m == 3 {
			c.Alive = true
		}
	}
	if closed {
		select {
		case cc := <-closeCode:
			c.CloseCode = cc
		case <-time.After(time.Second):
		}
	}
	return
}

// ---------------------------------------------------------------- real eio client

func (r *limRig) dialEIO(transports []string) (eio.ClientSocket, *sessRec, error) {
	cr := &sessRec{notify: make(chan struct{}, 1)}
	upgraded := make(chan string, 1)
	cb := &eio.Callbacks{
		OnPacket: func(packets ...*parser.Packet) {
			cr.mu.Lock()
			for _, p := range packets {
				if p.Type == parser.PacketTypeMessage {
					cr.msgs = append(cr.msgs, wireSize(p))
				}
			}
			cr.mu.Unlock()
			cr.poke()
		},
		OnClose: func(reason eio.Reason, err error) {
			cr.mu.Lock()
			cr.closed = true
			cr.reason = string(reason)
			cr.mu.Unlock()
			cr.poke()
		},
	}
	ccfg := &eio.ClientConfig{
		Transports:  transports,
		UpgradeDone: func(name string) { upgraded <- name },
	}
	if r.wt != nil {
		ccfg.HTTPTransport = &http.Transport{TLSClientConfig: &tls.Config{InsecureSkipVerify: true}}
		ccfg.WebTransportDialer = &webtransport.Dialer{TLSClientConfig: &tls.Config{InsecureSkipVerify: true}}
	}
	sock, err := eio.Dial(r.base+"/engine.io/", cb, ccfg)
	if err != nil {
		return nil, nil, err
	}
	if len(transports) == 1 && sock.TransportName() != transports[0] {
		sock.Close()
		return nil, nil, fmt.Errorf("connected by %s instead of %s", sock.TransportName(), transports[0])
	}
	if len(transports) > 1 {
		select {
		case <-upgraded:
		case <-time.After(10 * time.Second):
			sock.Close()
			return nil, nil, fmt.Errorf("no upgrade within 10s")
		}
		// the server switches its transport when it receives the UPGRADE packet
		sr := r.rec(sock.ID())
		ok := sr.waitFor(5*time.Second, func() bool { return sr.sock != nil && sr.sock.TransportName() == "websocket" })
		if !ok || sock.TransportName() != "websocket" {
			sock.Close()
			return nil, nil, fmt.Errorf("upgrade not completed on both sides")
		}
	}
	return sock, cr, nil
}

// msgPacket: a MESSAGE packet of `size` wire bytes on a websocket: text = type byte + data,
// binary = the data alone (binary frame).
func msgPacket(size int64, binary bool) *parser.Packet {
	n := int(size - 1)
	if binary {
		n = int(size)
	}
	p, err := parser.NewPacket(parser.PacketTypeMessage, binary, bytes.Repeat([]byte{'a'}, n))
	if err != nil {
		panic(err)
	}
	return p
}

func hasFollow(msgs []int64) bool {
	for _, m := range msgs {
		if m == 3 {
			return true
		}
	}
	return false
}

// eioCase: real client <-> real server.  tr: "poll" | "ws"; upgrade: connect by polling and upgrade.
func (r *limRig) eioCase(tr string, upgrade bool, dir string, size int64, binary bool) (c limCase) {
	t0 := time.Now()
	c = limCase{Max: r.max, Dis: r.dis, Tr: tr, Dir: dir, Peer: "eio", Size: size, Status: -1, Delivered: -1, Read: -1}
	defer func() { c.Ms = time.Since(t0).Milliseconds() }()
	if binary {
		c.Variant = "binary"
	}
	transports := []string{"polling"}
	if tr == "wt" {
		transports = []string{"webtransport"}
	} else if tr == "ws" {
		transports = []string{"websocket"}
		if upgrade {
			transports = []string{"polling", "websocket"}
			c.Peer = "eio-upgrade"
		}
	} else if dir == "c2s" {
		c.Tr = "post-cl" // the real client always declares the size
	}
	// the announced limit is read from a handshake of this server (same for every session)
	if _, ann, err := r.pollingHandshake(); err == nil {
		c.Ann = ann
	} else {
		c.Err = "handshake: " + err.Error()
		return
	}
	sock, cr, err := r.dialEIO(transports)
	if err != nil {
		c.Err = "dial: " + err.Error()
		return
	}
	defer func() { go sock.Close() }()
	sr := r.rec(sock.ID())
	if !sr.waitFor(3*time.Second, func() bool { return sr.sock != nil }) {
		c.Err = "server socket not seen"
		return
	}
	follow, _ := parser.NewPacket(parser.PacketTypeMessage, false, []byte("ok"))
	var recv *sessRec
	if dir == "c2s" {
		recv = sr
		// not waited for: a refused message can leave the sender blocked in its transport
		// (WebTransport: until the QUIC idle timeout) while the receiver has long decided
		go func() {
			sock.Send(msgPacket(size, binary))
			sock.Send(follow)
		}()
	} else {
		recv = cr
		sr.sock.Send(msgPacket(size, binary))
		sr.sock.Send(follow)
	}
	recv.waitFor(10*time.Second, func() bool { return recv.closed || hasFollow(recv.msgs) })
	if recv.closed {
		// let a delivery that raced with the close show up
		time.Sleep(30 * time.Millisecond)
	}
	msgs, closed, reason := recv.snapshot()
	c.Delivered = firstProbe(msgs)
	c.Closed, c.Reason = closed, reason
	c.Alive = hasFollow(msgs)
	return
}

// ---------------------------------------------------------------- plan

// conclusive: a clean delivery or a clean rejection.
func conclusive(c limCase) bool {
	acc := c.Delivered == c.Size && c.Alive && !c.Closed
	rej := c.Delivered == -1 && c.Closed && !c.Alive
	return acc || rej
}

type limJob func() limCase

func limitsMain(args []string) error {
	fs := flag.NewFlagSet("limits", flag.ExitOnError)
	seed := fs.Uint64("seed", 1, "")
	tier := fs.String("tier", "quick", "quick|thorough")
	par := fs.Int("par", 6, "cases in flight")
	outp := fs.String("out", "-", "")
	fs.Parse(args)
	out, err := vk.NewOut(*outp)
	if err != nil {
		return err
	}
	defer out.Close()

	rnd := vk.NewRand(*seed)
	type cfg struct {
		max int64
		dis bool
	}
	const def = 1000000
	around := func(l int64) []int64 { return []int64{l - 1, l, l + 1} }
	lib := []int64{32767, 32768, 32769, 65536}
	type planCfg struct {
		cfg
		limit int64 // effective limit the sizes are placed around (0: none)
		sweep bool
	}
	cfgs := []planCfg{
		{cfg{100, false}, 100, false},
		{cfg{0, false}, def, false},
		{cfg{5, true}, 0, false},
		{cfg{40000, false}, 40000, false},
	}
	if *tier != "quick" {
		cfgs = append(cfgs,
			planCfg{cfg{-1, false}, 0, false},
			planCfg{cfg{32768, false}, 32768, false},
			planCfg{cfg{7, false}, 7, false},
			planCfg{cfg{24, false}, 24, true})
	}
	var rows []limCase
	var mu sync.Mutex
	for _, cf := range cfgs {
		rig, err := newLimRig(cf.max, cf.dis, false)
		if err != nil {
			return err
		}
		sizes := append([]int64{}, lib...)
		if cf.limit > 0 {
			sizes = append(around(cf.limit), sizes...)
		} else {
			sizes = append(sizes, def+1)
		}
		var uniq []int64
		seen := map[int64]bool{}
		for _, s := range sizes {
			if s >= 1 && !seen[s] {
				seen[s] = true
				uniq = append(uniq, s)
			}
		}
		sizes = uniq
		var jobs []limJob
		tag := func(v string, j limJob) limJob {
			return func() limCase {
				c := j()
				if c.Variant == "" {
					c.Variant = v
				}
				return c
			}
		}
		for _, sz := range sizes {
			sz := sz
			jobs = append(jobs,
				func() limCase { return rig.rawPost(sz, false, false, false) },
				func() limCase { return rig.rawPost(sz, true, false, false) },
				func() limCase { return rig.rawWS(sz, false) },
				func() limCase { return rig.eioCase("poll", false, "c2s", sz, false) },
				func() limCase { return rig.eioCase("ws", false, "c2s", sz, false) },
				func() limCase { return rig.eioCase("poll", false, "s2c", sz, false) },
				func() limCase { return rig.eioCase("ws", false, "s2c", sz, false) },
			)
			edge := sz == 32769 || sz == cf.limit || sz == cf.limit+1
			if *tier != "quick" || edge {
				jobs = append(jobs,
					func() limCase { return rig.eioCase("ws", true, "s2c", sz, false) },
					func() limCase { return rig.eioCase("ws", true, "c2s", sz, false) },
					func() limCase { return rig.eioCase("ws", false, "s2c", sz, true) },
					func() limCase { return rig.eioCase("ws", false, "c2s", sz, true) },
					func() limCase { return rig.rawWS(sz, true) },
					func() limCase { return rig.rawPost(sz, true, false, true) },
					func() limCase { return rig.rawPost(sz, false, false, true) })
			}
		}
		// seeded sizes anywhere between 3 bytes and twice the limit (200000 when there is none)
		top := int64(200000)
		if cf.limit > 0 {
			top = 2 * cf.limit
		}
		nrand := 3
		if *tier != "quick" {
			nrand = 12
		}
		for i := 0; i < nrand; i++ {
			sz := 3 + int64(rnd.U64()%uint64(top))
			if sz == 3 {
				sz = 4 // 3 is the size of the follow-up message
			}
			frag := rnd.Bool()
			jobs = append(jobs,
				tag("random-size", func() limCase { return rig.rawPost(sz, false, false, false) }),
				tag("random-size", func() limCase { return rig.rawPost(sz, true, false, false) }),
				tag("random-size", func() limCase { return rig.rawWS(sz, frag) }),
				tag("random-size", func() limCase { return rig.eioCase("ws", false, "s2c", sz, false) }))
		}
		if cf.sweep {
			// every size from 4 bytes to well beyond the limit, on each inbound path and ws outbound
			for sz := int64(4); sz <= 2*cf.limit+8; sz++ {
				sz := sz
				jobs = append(jobs,
					tag("sweep", func() limCase { return rig.rawPost(sz, false, false, false) }),
					tag("sweep", func() limCase { return rig.rawPost(sz, true, false, false) }),
					tag("sweep", func() limCase { return rig.rawWS(sz, false) }),
					tag("sweep", func() limCase { return rig.eioCase("ws", false, "s2c", sz, false) }))
			}
		}
		// a body of undeclared size that does not end until the server answers (cap 8 MiB)
		jobs = append(jobs, func() limCase { return rig.rawPost(8<<20, true, true, false) })
		sem := make(chan struct{}, *par)
		var wg sync.WaitGroup
		for _, j := range jobs {
			j := j
			wg.Add(1)
			sem <- struct{}{}
			go func() {
				defer wg.Done()
				defer func() { <-sem }()
				c := j()
				for try := 0; try < 2 && c.Err == "" && !conclusive(c); try++ {
					// neither a clean delivery nor a clean rejection (e.g. a wait ran out on a loaded
					// machine): observe again; a defect that reproduces stays visible
					if c2 := j(); c2.Err == "" {
						c = c2
					}
					c.Retried = true
				}
				if c.Err != "" {
					// environmental failure (port, timeout): one retry, never for a completed observation
					c2 := j()
					if c2.Err == "" {
						c = c2
					}
				}
				mu.Lock()
				rows = append(rows, c)
				mu.Unlock()
			}()
		}
		wg.Wait()
		rig.close()

		// WebTransport: a second server of the same configuration behind HTTPS + HTTP/3
		wrig, err := newLimRig(cf.max, cf.dis, true)
		if err != nil {
			return err
		}
		var wjobs []limJob
		for _, sz := range sizes {
			sz := sz
			wjobs = append(wjobs,
				func() limCase { return wrig.eioCase("wt", false, "c2s", sz, false) },
				func() limCase { return wrig.eioCase("wt", false, "s2c", sz, false) })
			if sz == cf.limit || sz == cf.limit+1 {
				wjobs = append(wjobs, func() limCase { return wrig.eioCase("wt", false, "c2s", sz, true) })
			}
		}
		for _, j := range wjobs {
			j := j
			wg.Add(1)
			sem <- struct{}{}
			go func() {
				defer wg.Done()
				defer func() { <-sem }()
				c := j()
				if c.Err != "" || !conclusive(c) {
					if c2 := j(); c2.Err == "" {
						c2.Retried = true
						c = c2
					}
				}
				mu.Lock()
				rows = append(rows, c)
				mu.Unlock()
			}()
		}
		wg.Wait()
		wrig.close()
	}
	sort.SliceStable(rows, func(i, j int) bool {
		a, b := rows[i], rows[j]
		if a.Max != b.Max {
			return a.Max < b.Max
		}
		if a.Dis != b.Dis {
			return !a.Dis
		}
		if a.Dir != b.Dir {
			return a.Dir < b.Dir
		}
		if a.Tr != b.Tr {
			return a.Tr < b.Tr
		}
		if a.Peer != b.Peer {
			return a.Peer < b.Peer
		}
		return a.Size < b.Size
	})
	for _, c := range rows {
		out.Put(c)
	}
	return nil
}
