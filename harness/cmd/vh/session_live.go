package main

// session (live part): a real Socket.IO server with connection state recovery (session-aware
// adapter built by the verif constructor, real clean-up goroutine gated at its yield point) and a
// protocol-level client on a real Engine.IO connection that connects, receives, drops the
// connection, and reconnects presenting pid + offset.  Records what was emitted, what the client
// saw before and after, and what the server says about the new socket (C08).

import (
	"encoding/json"
	"fmt"
	"net/http/httptest"
	"sort"
	"strconv"
	"strings"
	"sync"
	"time"

	sio "github.com/karagenc/socket.io-go"
	"github.com/karagenc/socket.io-go/adapter"
	eio "github.com/karagenc/socket.io-go/engine.io"
	eioparser "github.com/karagenc/socket.io-go/engine.io/parser"
	"github.com/karagenc/socket.io-go/parser"
	"nhooyr.io/websocket"

	"verifharness/vk"
)

type c08Emit struct {
	Tag    int   `json:"tag"`
	To     []int `json:"to,omitempty"`
	Except []int `json:"except,omitempty"`
	Direct bool  `json:"direct,omitempty"` // to the client itself (socket.Emit / To(sid))
	Bin    bool  `json:"bin,omitempty"`    // carries a binary attachment
	Phase  int   `json:"phase"`            // 0 before the disconnection, 1 after
	Clean  int   `json:"clean,omitempty"`  // clean-up passes right after this emit
}

type c08Frame struct {
	Tag   int    `json:"tag"`             // first argument of an "ev" event, 0 for the marker, -1 otherwise
	Off   string `json:"off,omitempty"`   // trailing string argument
	Bin   bool   `json:"bin,omitempty"`   // binary event
	Att   int    `json:"att,omitempty"`   // attachments announced
	Got   int    `json:"got,omitempty"`   // attachments received
	Kind  string `json:"kind"`            // "event" | "connect" | "junk"
	Sid   string `json:"sid,omitempty"`   // connect
	Pid   string `json:"pid,omitempty"`   // connect
	Raw   string `json:"raw,omitempty"`   // junk / malformed
	Whole bool   `json:"whole,omitempty"` // event decoded completely (all attachments present)
}

type c08LiveCase struct {
	Suite     string    `json:"suite"`
	Transport string    `json:"transport"`
	Joined    []int     `json:"joined"`
	Emits     []c08Emit `json:"emits"`
	Clean0    int       `json:"clean0"`  // passes right after the disconnection
	OffMode   string    `json:"offmode"` // last | lag | bogus | none
	Expire    bool      `json:"expire"`
	WindowMs  int       `json:"window_ms"`

	// observations
	Sid1, Pid1   string
	Got1         []c08Frame `json:"got1"`
	DiscReason   string     `json:"disc_reason"`
	Persisted    bool       `json:"persisted"` // server saw a recoverable disconnect
	Off          string     `json:"off"`
	OffTag       int        `json:"offtag"`     // tag of the packet whose offset is presented (0: none)
	ElapsedMs    int        `json:"elapsed_ms"` // disconnection -> reconnection
	Frames2      []c08Frame `json:"frames2"`    // everything the reconnecting client received up to the marker
	Sid2, Pid2   string
	SrvSid2      string   `json:"srv_sid2"`
	SrvRecovered bool     `json:"srv_recovered"`
	SrvRooms2    []string `json:"srv_rooms2"`
	Problems     []string `json:"problems"` // environmental trouble (timeouts): the case is indeterminate
	Timing       []int    `json:"timing"`   // ms since start at: connected, phase 0 received, disconnect seen, reconnected, marker
}

// c08Client speaks Socket.IO over a real Engine.IO client socket and keeps every frame.
type c08Client struct {
	mu      sync.Mutex
	sock    eio.ClientSocket
	frames  []c08Frame
	pending *c08Frame
	notify  chan struct{}
	closed  chan struct{}
}

func (c *c08Client) push(f c08Frame) {
	c.frames = append(c.frames, f)
	select {
	case c.notify <- struct{}{}:
	default:
	}
}

func (c *c08Client) onPacket(packets ...*eioparser.Packet) {
	c.mu.Lock()
	defer c.mu.Unlock()
	for _, p := range packets {
		if p.Type != eioparser.PacketTypeMessage {
			continue
		}
		if p.IsBinary {
			if c.pending != nil {
				c.pending.Got++
				if c.pending.Got == c.pending.Att {
					c.pending.Whole = true
					f := *c.pending
					c.pending = nil
					c.push(f)
				}
			} else {
				c.push(c08Frame{Kind: "junk", Tag: -1, Raw: "unexpected binary frame"})
			}
			continue
		}
		if c.pending != nil { // a text frame while attachments are outstanding
			f := *c.pending
			c.pending = nil
			c.push(f)
		}
		c.text(string(p.Data))
	}
}

func (c *c08Client) text(s string) {
	if s == "" {
		c.push(c08Frame{Kind: "junk", Tag: -1, Raw: s})
		return
	}
	switch s[0] {
	case '0':
		var v struct{ Sid, Pid string }
		json.Unmarshal([]byte(s[1:]), &v)
		c.push(c08Frame{Kind: "connect", Tag: -1, Sid: v.Sid, Pid: v.Pid})
	case '2', '5':
		f := c08Frame{Kind: "event", Tag: -1}
		body := s[1:]
		if s[0] == '5' {
			f.Bin = true
			i := strings.IndexByte(body, '-')
			if i < 0 {
				c.push(c08Frame{Kind: "junk", Tag: -1, Raw: s})
				return
			}
			f.Att, _ = strconv.Atoi(body[:i])
			body = body[i+1:]
		}
		var args []any
		if err := json.Unmarshal([]byte(body), &args); err != nil || len(args) == 0 {
			c.push(c08Frame{Kind: "junk", Tag: -1, Raw: s})
			return
		}
		name, _ := args[0].(string)
		if name == "marker" {
			f.Tag = 0
		} else if len(args) > 1 {
			if x, ok := args[1].(float64); ok {
				f.Tag = int(x)
			}
		}
		if o, ok := args[len(args)-1].(string); ok && len(args) > 1 {
			f.Off = o
		}
		if f.Bin && f.Att > 0 {
			c.pending = &f
			return
		}
		f.Whole = true
		c.push(f)
	default:
		c.push(c08Frame{Kind: "junk", Tag: -1, Raw: s})
	}
}

func c08Dial(url, transport string) (*c08Client, error) {
	c := &c08Client{notify: make(chan struct{}, 1), closed: make(chan struct{})}
	var once sync.Once
	cb := &eio.Callbacks{
		OnPacket: c.onPacket,
		OnClose:  func(reason eio.Reason, err error) { once.Do(func() { close(c.closed) }) },
	}
	cfg := &eio.ClientConfig{Transports: []string{transport}}
	cfg.WebSocketDialOptions = &websocket.DialOptions{CompressionMode: websocket.CompressionDisabled}
	sock, err := eio.Dial(url, cb, cfg)
	if err != nil {
		return nil, err
	}
	c.sock = sock
	return c, nil
}

func (c *c08Client) send(s string) {
	p, _ := eioparser.NewPacket(eioparser.PacketTypeMessage, false, []byte(s))
	c.sock.Send(p)
}

// waitFor blocks until pred holds on the frames received so far (or the timeout passes).
func (c *c08Client) waitFor(pred func([]c08Frame) bool, d time.Duration) bool {
	deadline := time.After(d)
	for {
		c.mu.Lock()
		ok := pred(c.frames)
		c.mu.Unlock()
		if ok {
			return true
		}
		select {
		case <-c.notify:
		case <-time.After(20 * time.Millisecond):
		case <-deadline:
			return false
		}
	}
}

func (c *c08Client) snapshot() []c08Frame {
	c.mu.Lock()
	defer c.mu.Unlock()
	out := append([]c08Frame{}, c.frames...)
	if c.pending != nil {
		out = append(out, *c.pending)
	}
	return out
}

func c08HasConnect(fs []c08Frame) bool {
	for _, f := range fs {
		if f.Kind == "connect" {
			return true
		}
	}
	return false
}

func c08Selected(joined []int, e c08Emit) bool {
	if e.Direct {
		return true
	}
	in := func(l []int, x int) bool {
		for _, y := range l {
			if y == x {
				return true
			}
		}
		return false
	}
	inc := len(e.To) == 0
	for _, r := range joined {
		if in(e.To, r) {
			inc = true
		}
		if in(e.Except, r) {
			return false
		}
	}
	return inc
}

func c08GenLive(r *vk.Rand, bin bool) *c08LiveCase {
	c := &c08LiveCase{Suite: "live", Transport: []string{"websocket", "polling"}[r.Intn(2)], WindowMs: 60000}
	if bin {
		c.Suite = "live-binary"
	}
	for x := 1; x <= 3; x++ {
		if r.Intn(2) == 0 {
			c.Joined = append(c.Joined, x)
		}
	}
	tag := 0
	mk := func(phase int) c08Emit {
		tag++
		e := c08Emit{Tag: tag, Phase: phase}
		switch r.Intn(6) {
		case 0, 1:
		case 2:
			e.To = []int{1 + r.Intn(3)}
		case 3:
			e.Except = []int{1 + r.Intn(3)}
		case 4:
			e.To = []int{1 + r.Intn(3), 1 + r.Intn(3)}
			if r.Bool() {
				e.Except = []int{1 + r.Intn(3)}
			}
		case 5:
			e.Direct = true
		}
		if bin && r.Intn(3) == 0 {
			e.Bin = true
		}
		return e
	}
	n0 := 1 + r.Intn(4)
	for i := 0; i < n0; i++ {
		c.Emits = append(c.Emits, mk(0))
	}
	if r.Intn(3) == 0 {
		c.Clean0 = 1 + r.Intn(2)
	}
	n1 := r.Intn(6)
	for i := 0; i < n1; i++ {
		e := mk(1)
		if r.Intn(3) == 0 {
			e.Clean = 1 + r.Intn(2)
		}
		c.Emits = append(c.Emits, e)
	}
	switch x := r.Intn(20); {
	case x < 14:
		c.OffMode = "last"
	case x < 17:
		c.OffMode = "lag"
	case x < 19:
		c.OffMode = "bogus"
	default:
		c.OffMode = "none"
	}
	if r.Intn(12) == 0 {
		c.Expire = true
		c.WindowMs = 250
	}
	return c
}

func c08RunLive(c *c08LiveCase, r *vk.Rand) {
	problem := func(f string, a ...any) { c.Problems = append(c.Problems, fmt.Sprintf(f, a...)) }
	window := time.Duration(c.WindowMs) * time.Millisecond
	t0 := time.Now()
	mark := func() { c.Timing = append(c.Timing, int(time.Since(t0)/time.Millisecond)) }
	var gate *cleanerGate
	cfg := &sio.ServerConfig{
		ServerConnectionStateRecovery: sio.ServerConnectionStateRecovery{Enabled: true, MaxDisconnectionDuration: window},
		AdapterCreator: func(store adapter.SocketStore, pc parser.Creator) adapter.Adapter {
			a, g := newGatedAdapterWith(window, store, pc)
			if gate == nil {
				gate = g
			}
			return a
		},
	}
	cfg.EIO.WebSocketAcceptOptions = &websocket.AcceptOptions{CompressionMode: websocket.CompressionDisabled}
	io := sio.NewServer(cfg)
	type srvConn struct {
		s sio.ServerSocket
	}
	conns := make(chan sio.ServerSocket, 4)
	disc := make(chan sio.Reason, 4)
	var nconn int
	var cmu sync.Mutex
	io.OnConnection(func(s sio.ServerSocket) {
		cmu.Lock()
		nconn++
		first := nconn == 1
		cmu.Unlock()
		if first {
			for _, x := range c.Joined {
				s.Join(sio.Room(roomName(x)))
			}
		}
		s.OnDisconnect(func(reason sio.Reason) { disc <- reason })
		conns <- s
	})
	if err := io.Run(); err != nil {
		problem("server run: %v", err)
		return
	}
	ts := httptest.NewServer(io)
	defer func() {
		go func() { // teardown is not part of the observation; httptest waits for lingering polls
			io.Close()
			ts.CloseClientConnections()
			ts.Close()
		}()
	}()

	// first connection
	a, err := c08Dial(ts.URL, c.Transport)
	if err != nil {
		problem("dial: %v", err)
		return
	}
	a.send("0")
	if !a.waitFor(c08HasConnect, 3*time.Second) {
		problem("no CONNECT on first connection")
		return
	}
	for _, f := range a.snapshot() {
		if f.Kind == "connect" {
			c.Sid1, c.Pid1 = f.Sid, f.Pid
		}
	}
	var s1 sio.ServerSocket
	select {
	case s1 = <-conns:
	case <-time.After(3 * time.Second):
		problem("no server-side socket for the first connection")
		return
	}
	mark()
	emit := func(e c08Emit, sock sio.ServerSocket) {
		args := []any{e.Tag}
		if e.Bin {
			args = append(args, sio.Binary([]byte{1, 2, 3, byte(e.Tag)}))
		}
		switch {
		case e.Direct && sock != nil:
			sock.Emit("ev", args...)
		case e.Direct:
			io.To(sio.Room(c.Sid1)).Emit("ev", args...)
		default:
			var to, ex []sio.Room
			for _, x := range e.To {
				to = append(to, sio.Room(roomName(x)))
			}
			for _, x := range e.Except {
				ex = append(ex, sio.Room(roomName(x)))
			}
			switch {
			case len(to) > 0 && len(ex) > 0:
				io.To(to...).Except(ex...).Emit("ev", args...)
			case len(to) > 0:
				io.To(to...).Emit("ev", args...)
			case len(ex) > 0:
				io.Except(ex...).Emit("ev", args...)
			default:
				io.Emit("ev", args...)
			}
		}
		for i := 0; i < e.Clean; i++ {
			gate.pass()
		}
	}
	want0 := 0
	for _, e := range c.Emits {
		if e.Phase == 0 {
			emit(e, s1)
			if c08Selected(c.Joined, e) {
				want0++
			}
		}
	}
	a.waitFor(func(fs []c08Frame) bool {
		n := 0
		for _, f := range fs {
			if f.Kind == "event" {
				n++
			}
		}
		return n >= want0
	}, 2*time.Second)
	time.Sleep(10 * time.Millisecond)
	for _, f := range a.snapshot() {
		if f.Kind != "connect" {
			c.Got1 = append(c.Got1, f)
		}
	}
	mark()
	// the connection drops
	a.sock.Close()
	tDisc := time.Now()
	select {
	case reason := <-disc:
		c.DiscReason = string(reason)
		c.Persisted = true
	case <-time.After(4 * time.Second):
		problem("server did not notice the disconnection")
		return
	}
	mark()
	for i := 0; i < c.Clean0; i++ {
		gate.pass()
	}
	for _, e := range c.Emits {
		if e.Phase == 1 {
			emit(e, nil)
		}
	}
	// the offset the client presents
	var offs []c08Frame
	for _, f := range c.Got1 {
		if f.Kind == "event" && f.Off != "" {
			offs = append(offs, f)
		}
	}
	switch {
	case c.OffMode == "bogus":
		c.Off = "bogus-offset"
	case c.OffMode == "none" || len(offs) == 0:
		c.Off = ""
	case c.OffMode == "lag":
		f := offs[r.Intn(len(offs))]
		c.Off, c.OffTag = f.Off, f.Tag
	default:
		f := offs[len(offs)-1]
		c.Off, c.OffTag = f.Off, f.Tag
	}
	if c.Expire {
		time.Sleep(2*window + 50*time.Millisecond)
	}
	// reconnection with pid + offset
	b, err := c08Dial(ts.URL, c.Transport)
	if err != nil {
		problem("dial 2: %v", err)
		return
	}
	c.ElapsedMs = int(time.Since(tDisc) / time.Millisecond)
	auth, _ := json.Marshal(map[string]string{"pid": c.Pid1, "offset": c.Off})
	b.send("0" + string(auth))
	var s2 sio.ServerSocket
	select {
	case s2 = <-conns:
		c.SrvSid2 = string(s2.ID())
		c.SrvRecovered = s2.Recovered()
		for _, x := range s2.Rooms().ToSlice() {
			c.SrvRooms2 = append(c.SrvRooms2, string(x))
		}
		sort.Strings(c.SrvRooms2)
	case <-time.After(4 * time.Second):
		problem("no server-side socket for the reconnection")
	}
	mark()
	io.Emit("marker")
	if !b.waitFor(func(fs []c08Frame) bool {
		for _, f := range fs {
			if f.Kind == "event" && f.Tag == 0 && f.Whole {
				return true
			}
		}
		return false
	}, 3*time.Second) {
		// not environmental by itself: a broken replay can wedge the client side of the stream
		c.Frames2 = b.snapshot()
	} else {
		c.Frames2 = b.snapshot()
	}
	for _, f := range c.Frames2 {
		if f.Kind == "connect" {
			c.Sid2, c.Pid2 = f.Sid, f.Pid
		}
	}
	mark()
	b.sock.Close()
}

func sessionLive(out *vk.Out, seed uint64, n int, bin bool, par int) error {
	r := vk.NewRand(seed)
	cases := make([]*c08LiveCase, n)
	rands := make([]*vk.Rand, n)
	for i := range cases {
		rr := r.Fork()
		cases[i] = c08GenLive(rr, bin)
		rands[i] = rr
	}
	sem := make(chan struct{}, par)
	var wg sync.WaitGroup
	for i := range cases {
		wg.Add(1)
		sem <- struct{}{}
		go func(i int) {
			defer wg.Done()
			defer func() { <-sem }()
			for try := 0; try < 3; try++ { // environmental trouble only (timeouts) is retried
				fresh := *cases[i]
				fresh.Problems = nil
				c08RunLive(&fresh, rands[i].Fork())
				if len(fresh.Problems) == 0 || try == 2 {
					*cases[i] = fresh
					break
				}
			}
		}(i)
	}
	wg.Wait()
	for _, c := range cases {
		out.Put(c)
	}
	return nil
}
