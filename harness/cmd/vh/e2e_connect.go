package main

// e2e (C01), scenario family "connect window" (held = "connect"): server -> client events that
// arrive BEFORE, WHILE and AFTER the client processes the CONNECT reply, with a client handler that
// blocks until released.  Public API only:
//
//   early       emitted by a namespace middleware (before the CONNECT reply is sent; the middleware
//               then takes a moment): the client parks them (socket not connected yet) and replays
//               them when the reply arrives.  The first early event's handler BLOCKS (channel) - the
//               replay of the parked events is still under way while ...
//   at-connect  ... events emitted right at the top of OnConnection race with the CONNECT reply, and
//   late        events emitted by several goroutines once that handler is known to be running
//               arrive.  The blocked handler is released when all late events were handed over (or
//               after a while: a client that strands them must not hang the rig).
//   from-handler the blocked handler itself emits client -> server events before it blocks.
//
// Every event must be handed to its handler exactly once, intact.  Same row format as the other
// e2e scenarios: connection 0 = server -> client, connection 1 = the client -> server events.

import (
	"fmt"
	"net/http/httptest"
	"reflect"
	"sort"
	"strconv"
	"sync"
	"sync/atomic"
	"time"

	sio "github.com/karagenc/socket.io-go"
	eio "github.com/karagenc/socket.io-go/engine.io"

	"verifharness/vk"
)

func newE2ERand(seed uint64) *vk.Rand { return vk.NewRand(seed) }

func e2eRunConnect(scn e2eScn, lim e2eLimits) (row e2eRow) {
	t0 := time.Now()
	table := e2eNameTable()
	row.Scn = scn
	row.Names = table
	for i := range table {
		row.Trailing = append(row.Trailing, table[i].trailingStr())
		row.Arity = append(row.Arity, len(table[i].handlerKinds()))
	}
	row.Regs = map[string][]int{}
	for _, ni := range scn.Names {
		row.Regs[strconv.Itoa(ni)] = []int{0}
	}
	row.Emitted, row.Delivered, row.Errors, row.EmitPanic = []e2eEv{}, []e2eDel{}, []string{}, []string{}
	rec := &e2eRecorder{errors: map[string]int{}}
	rec.lastMove.Store(time.Now().UnixNano())
	var tearing atomic.Bool

	srv := sio.NewServer(nil)
	if err := srv.Run(); err != nil {
		row.Setup = "server run: " + err.Error()
		return
	}
	ts := httptest.NewServer(srv)
	defer func() {
		tearing.Store(true)
		done := make(chan struct{})
		go func() {
			srv.Close()
			ts.CloseClientConnections()
			ts.Close()
			close(done)
		}()
		select {
		case <-done:
		case <-time.After(5 * time.Second):
		}
		row.WallMs = time.Since(t0).Milliseconds()
	}()

	// name roles (all in scn.Names): blocker + other early ones, at-connect, late, client -> server
	const blocker = 0 // "plain"
	earlyNames := []int{blocker, 8, 4, 1}
	atConnNames := []int{9, 2, 10}
	lateNames := []int{7, 13, 12}
	c2sNames := []int{11, 3}
	isLate := map[int]bool{}
	for _, n := range lateNames {
		isLate[n] = true
	}

	r := e2eNewPlanner(&scn, table, rec, lim, &row)
	early := r.plan(0, 10, earlyNames, 1+scn.Per/2, true) // the first one is the blocker
	atConn := r.plan(0, 11, atConnNames, scn.Per, false)
	late := make([][]e2ePlanned, scn.Emitters)
	nLate := 0
	for e := range late {
		late[e] = r.plan(0, 20+e, lateNames, scn.Per, false)
		nLate += len(late[e])
	}
	fromHandler := r.plan(1, 30, c2sNames, 3, false)
	expected := len(row.Emitted)

	var (
		earlyRunning     = make(chan struct{})
		earlyRunningOnce sync.Once
		release          = make(chan struct{})
		releaseOnce      sync.Once
		lateSeen         atomic.Int64
		blockedOnce      atomic.Bool
	)
	doRelease := func() { releaseOnce.Do(func() { close(release) }) }
	defer doRelease()

	transports := []string{"polling"}
	switch scn.Transport {
	case "websocket":
		transports = []string{"websocket"}
	case "upgrade":
		transports = []string{"polling", "websocket"}
	}
	mgr := sio.NewManager(ts.URL, &sio.ManagerConfig{NoReconnection: true, EIO: eio.ClientConfig{Transports: transports}})
	mgr.OnError(func(err error) { rec.err("client", err) })
	mgr.OnClose(func(reason sio.Reason, err error) {
		if !tearing.Load() {
			rec.disc.Add(1)
			rec.err("client-close", fmt.Sprint(reason, " ", err))
		}
	})
	cs := mgr.Socket("/", nil)
	for _, ni := range scn.Names {
		ni, n := ni, &table[ni]
		inner := rec.handlerR(0, ni, n, false)
		cs.OnEvent(n.Name, e2eWrap(n, func() {
			if isLate[ni] {
				if lateSeen.Add(1) >= int64(nLate) {
					doRelease()
				}
			}
			if ni == blocker && blockedOnce.CompareAndSwap(false, true) {
				// the slow handler: emits to the server, then waits until the late events were handled
				for _, p := range fromHandler {
					cs.Emit(table[p.ev.N].Name, p.vals...)
				}
				earlyRunningOnce.Do(func() { close(earlyRunning) })
				select {
				case <-release:
				case <-time.After(1500 * time.Millisecond):
				}
			}
		}, inner))
	}

	srv.Use(func(s sio.ServerSocket, _ *sio.Handshake) any {
		// handlers of the client -> server events are in place before the CONNECT reply is sent
		// (registering them in OnConnection would race with the client's first packets)
		s.OnError(func(err error) { rec.err("server", err) })
		for _, ni := range c2sNames {
			s.OnEvent(table[ni].Name, rec.handlerR(1, ni, &table[ni], false))
		}
		for _, p := range early {
			s.Emit(table[p.ev.N].Name, p.vals...)
		}
		time.Sleep(time.Duration(60+20*(scn.Seed%5)) * time.Millisecond) // authentication, say
		return nil
	})
	srvDone := make(chan struct{})
	var connCalls atomic.Int64
	srv.OnConnection(func(s sio.ServerSocket) {
		if connCalls.Add(1) > 1 {
			rec.err("server", "OnConnection called again: socket "+string(s.ID()))
			return
		}
		for _, p := range atConn {
			s.Emit(table[p.ev.N].Name, p.vals...)
		}
		select {
		case <-earlyRunning:
		case <-time.After(5 * time.Second):
		}
		var wg sync.WaitGroup
		for e := range late {
			wg.Add(1)
			go func(e int) {
				defer wg.Done()
				for _, p := range late[e] {
					s.Emit(table[p.ev.N].Name, p.vals...)
				}
			}(e)
		}
		wg.Wait()
		close(srvDone)
	})
	cs.Connect()
	defer func() {
		go func() { defer func() { recover() }(); cs.Disconnect() }()
		time.Sleep(20 * time.Millisecond)
	}()

	select {
	case <-srvDone:
	case <-time.After(20 * time.Second):
		row.Setup = "timeout waiting for the server side of the connect window"
		return
	}
	rec.lastMove.Store(time.Now().UnixNano())
	for {
		if int(rec.count.Load()) >= expected {
			row.Complete = true
			break
		}
		if time.Since(time.Unix(0, rec.lastMove.Load())) > 4*time.Second {
			break // nothing more is coming (the blocked handler gives up after 1.5 s)
		}
		time.Sleep(5 * time.Millisecond)
	}
	settle := 300 * time.Millisecond
	for {
		time.Sleep(settle)
		if time.Since(time.Unix(0, rec.lastMove.Load())) >= settle {
			break
		}
	}
	rec.mu.Lock()
	row.Delivered = append(row.Delivered, rec.delivered...)
	for k, v := range rec.errors {
		row.Errors = append(row.Errors, fmt.Sprintf("%dx %s", v, k))
	}
	rec.mu.Unlock()
	sort.Strings(row.Errors)
	row.Disc = int(rec.disc.Load())
	return
}

// ---------------------------------------------------------------- small planning helpers

type e2ePlanned struct {
	ev   e2eEv
	vals []any
}

type e2ePlanner struct {
	scn   *e2eScn
	table []e2eName
	rec   *e2eRecorder
	lim   e2eLimits
	row   *e2eRow
	r     interface{ Intn(int) int }
}

func e2eNewPlanner(scn *e2eScn, table []e2eName, rec *e2eRecorder, lim e2eLimits, row *e2eRow) *e2ePlanner {
	return &e2ePlanner{scn: scn, table: table, rec: rec, lim: lim, row: row, r: newE2ERand(scn.Seed)}
}

// count events of connection c, emitter id em, names drawn from pool (the first one is pool[0]
// when firstFixed); recorded in row.Emitted
func (p *e2ePlanner) plan(c, em int, pool []int, count int, firstFixed bool) []e2ePlanned {
	out := []e2ePlanned{}
	for s := 0; s < count; s++ {
		ni := pool[p.r.Intn(len(pool))]
		if firstFixed {
			if s == 0 {
				ni = pool[0]
			} else if len(pool) > 1 {
				ni = pool[1+p.r.Intn(len(pool)-1)]
			}
		}
		n := &p.table[ni]
		vm, trees := e2eBuild(n, p.scn.Seed, c, em, s, -1)
		text, att, natt, err := e2eMeasure(n.Name, vm)
		if err != nil {
			p.rec.err("measure", err)
		}
		ev := e2eEv{C: c, N: ni, E: em, S: s, D: strconv.FormatUint(e2eDigest(trees), 10), Text: text, Att: att, NAtt: natt}
		ev.OK, ev.Key = e2ePredict(p.scn, n, &ev, p.lim)
		vals, _ := e2eBuild(n, p.scn.Seed, c, em, s, -1)
		out = append(out, e2ePlanned{ev: ev, vals: vals})
		p.row.Emitted = append(p.row.Emitted, ev)
	}
	return out
}

// a handler with n's parameter types that calls inner (the recorder) and then after()
func e2eWrap(n *e2eName, after func(), inner any) any {
	in := e2eHandlerTypes(n, false)
	iv := reflect.ValueOf(inner)
	return reflect.MakeFunc(reflect.FuncOf(in, nil, false), func(args []reflect.Value) []reflect.Value {
		iv.Call(args)
		after()
		return nil
	}).Interface()
}
